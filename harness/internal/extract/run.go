// Package extract is the translator: it regenerates lean/GsModel/Gen/*.lean from the working tree.
package extract

import (
	"crypto/sha256"
	"encoding/hex"
	"fmt"
	"io"
	"log"
	"os"
	"path/filepath"
	"sort"
)

type genFn struct {
	name string
	fn   func(repo string) (string, error)
}

var gens = []genFn{
	{"DiffTables.lean", DiffTables},
}

// Register adds a generator (used by the other extractors' init functions).
func Register(name string, fn func(repo string) (string, error)) {
	gens = append(gens, genFn{name, fn})
}

// Run regenerates every Gen file into dir; a file is rewritten only when its content changed and files
// this run did not produce are deleted. Returns file name -> sha256.
func Run(repo, dir string) (map[string]string, error) {
	log.SetOutput(io.Discard)
	if err := os.MkdirAll(dir, 0o755); err != nil {
		return nil, err
	}
	hashes := map[string]string{}
	produced := map[string]bool{}
	for _, g := range gens {
		txt, err := g.fn(repo)
		if err != nil {
			return nil, fmt.Errorf("extract %s: %w", g.name, err)
		}
		p := filepath.Join(dir, g.name)
		old, _ := os.ReadFile(p)
		if string(old) != txt {
			tmp := p + ".tmp"
			if err := os.WriteFile(tmp, []byte(txt), 0o644); err != nil {
				return nil, err
			}
			if err := os.Rename(tmp, p); err != nil {
				return nil, err
			}
		}
		h := sha256.Sum256([]byte(txt))
		hashes[g.name] = hex.EncodeToString(h[:])
		produced[g.name] = true
	}
	ents, _ := os.ReadDir(dir)
	for _, e := range ents {
		if !produced[e.Name()] {
			_ = os.Remove(filepath.Join(dir, e.Name()))
		}
	}
	return hashes, nil
}

func SortedKeys(m map[string]string) []string {
	ks := make([]string, 0, len(m))
	for k := range m {
		ks = append(ks, k)
	}
	sort.Strings(ks)
	return ks
}
