// Package census lists every `range` over a map in the packages whose output must not depend on iteration order, with a
// syntactic classification of what the loop body does with the order.
package census

import (
	"bytes"
	"crypto/sha256"
	"encoding/hex"
	"encoding/json"
	"os"
	"fmt"
	"go/ast"
	"go/printer"
	"go/token"
	"go/types"
	"path/filepath"
	"sort"
	"strings"

	"golang.org/x/tools/go/packages"
)

type Site struct {
	Pkg    string `json:"pkg"`
	File   string `json:"file"`
	Func   string `json:"func"`
	Expr   string `json:"expr"`
	N      int    `json:"n"` // occurrence of (func, expr) in source order
	Line   int    `json:"line"`
	Class  string `json:"class"`  // mapWrite | commutative | sortedAfter | keysOnlySorted | unclassified
	Detail string `json:"detail"` // e.g. the slice that is sorted and the sorting call
	Body   string `json:"body"`   // hash of the loop statement (a manual classification is tied to it)
	Manual bool   `json:"manual"`
}

func (s Site) Key() string {
	return fmt.Sprintf("%s:%s:%s#%d", s.Pkg, s.Func, s.Expr, s.N)
}

var Packages = []string{"generator", "codescan", "cmd/swagger/commands/diff", "cmd/swagger/commands/generate", "cmd/swagger/commands"}

func exprStr(fset *token.FileSet, e ast.Node) string {
	var b bytes.Buffer
	_ = printer.Fprint(&b, fset, e)
	s := b.String()
	s = strings.Join(strings.Fields(s), " ")
	if len(s) > 80 {
		s = s[:80]
	}
	return s
}

// MapRanges loads the packages from the working tree and returns the census.
func MapRanges(repo string) ([]Site, error) {
	var pats []string
	for _, p := range Packages {
		pats = append(pats, "./"+p)
	}
	cfg := &packages.Config{Mode: packages.NeedName | packages.NeedFiles | packages.NeedSyntax | packages.NeedTypes | packages.NeedTypesInfo | packages.NeedCompiledGoFiles, Dir: repo, Tests: false}
	pkgs, err := packages.Load(cfg, pats...)
	if err != nil {
		return nil, err
	}
	var out []Site
	for _, p := range pkgs {
		if len(p.Errors) > 0 {
			return nil, fmt.Errorf("package %s does not load: %v", p.PkgPath, p.Errors[0])
		}
		rel := strings.TrimPrefix(p.PkgPath, "github.com/go-swagger/go-swagger/")
		for i, f := range p.Syntax {
			fname := filepath.Base(p.CompiledGoFiles[i])
			if strings.HasSuffix(fname, "_test.go") || strings.HasPrefix(fname, "zz_verif") || fname == "bindata.go" {
				continue
			}
			for _, d := range f.Decls {
				fd, ok := d.(*ast.FuncDecl)
				if !ok || fd.Body == nil {
					continue
				}
				fn := fd.Name.Name
				if fd.Recv != nil && len(fd.Recv.List) > 0 {
					fn = exprStr(p.Fset, fd.Recv.List[0].Type) + "." + fn
					fn = strings.TrimPrefix(fn, "*")
				}
				counts := map[string]int{}
				ast.Inspect(fd.Body, func(n ast.Node) bool {
					rs, ok := n.(*ast.RangeStmt)
					if !ok {
						return true
					}
					t := p.TypesInfo.TypeOf(rs.X)
					if t == nil {
						return true
					}
					if _, isMap := t.Underlying().(*types.Map); !isMap {
						return true
					}
					ex := exprStr(p.Fset, rs.X)
					counts[ex]++
					s := Site{Pkg: rel, File: fname, Func: fn, Expr: ex, N: counts[ex], Line: p.Fset.Position(rs.Pos()).Line}
					s.Class, s.Detail = classify(p, fd, rs)
					var bb bytes.Buffer
					_ = printer.Fprint(&bb, p.Fset, rs)
					h := sha256.Sum256(bb.Bytes())
					s.Body = hex.EncodeToString(h[:6])
					out = append(out, s)
					return true
				})
			}
		}
	}
	sort.Slice(out, func(i, j int) bool { return out[i].Key() < out[j].Key() })
	return out, nil
}

// classify looks at what the loop body does.
func classify(p *packages.Package, fd *ast.FuncDecl, rs *ast.RangeStmt) (string, string) {
	diffAcc := false
	errReturnsOnly := true
	nReturns := 0
	var appends []string // slices appended to
	other := []string{}  // effects that are not order-free
	isMapIndex := func(e ast.Expr) bool {
		ix, ok := e.(*ast.IndexExpr)
		if !ok {
			return false
		}
		t := p.TypesInfo.TypeOf(ix.X)
		if t == nil {
			return false
		}
		_, m := t.Underlying().(*types.Map)
		return m
	}
	local := map[types.Object]bool{} // variables declared inside the loop
	if id, ok := rs.Key.(*ast.Ident); ok && id != nil {
		if o := p.TypesInfo.Defs[id]; o != nil {
			local[o] = true
		}
	}
	if rs.Value != nil {
		if id, ok := rs.Value.(*ast.Ident); ok {
			if o := p.TypesInfo.Defs[id]; o != nil {
				local[o] = true
			}
		}
	}
	ast.Inspect(rs.Body, func(n ast.Node) bool {
		switch x := n.(type) {
		case *ast.AssignStmt:
			if x.Tok == token.DEFINE {
				for _, l := range x.Lhs {
					if id, ok := l.(*ast.Ident); ok {
						if o := p.TypesInfo.Defs[id]; o != nil {
							local[o] = true
						}
					}
				}
			}
		case *ast.RangeStmt:
			for _, e := range []ast.Expr{x.Key, x.Value} {
				if id, ok := e.(*ast.Ident); ok && id != nil {
					if o := p.TypesInfo.Defs[id]; o != nil {
						local[o] = true
					}
				}
			}
		case *ast.ValueSpec:
			for _, id := range x.Names {
				if o := p.TypesInfo.Defs[id]; o != nil {
					local[o] = true
				}
			}
		}
		return true
	})
	rootLocal := func(e ast.Expr) bool {
		for {
			switch x := e.(type) {
			case *ast.Ident:
				o := p.TypesInfo.Uses[x]
				if o == nil {
					o = p.TypesInfo.Defs[x]
				}
				return o != nil && local[o]
			case *ast.SelectorExpr:
				e = x.X
			case *ast.IndexExpr:
				e = x.X
			case *ast.StarExpr:
				e = x.X
			case *ast.ParenExpr:
				e = x.X
			default:
				return false
			}
		}
	}
	ast.Inspect(rs.Body, func(n ast.Node) bool {
		switch x := n.(type) {
		case *ast.FuncLit:
			return false
		case *ast.AssignStmt:
			for i, l := range x.Lhs {
				if id, ok := l.(*ast.Ident); ok && id.Name == "_" {
					continue
				}
				if x.Tok == token.DEFINE || rootLocal(l) {
					continue
				}
				if isMapIndex(l) {
					continue // map / set write
				}
				if x.Tok == token.ADD_ASSIGN || x.Tok == token.OR_ASSIGN || x.Tok == token.AND_ASSIGN {
					if t := p.TypesInfo.TypeOf(l); t != nil {
						if b, ok := t.Underlying().(*types.Basic); ok && b.Info()&(types.IsInteger|types.IsBoolean) != 0 {
							continue // commutative fold
						}
					}
				}
				if i < len(x.Rhs) {
					if c, ok := x.Rhs[i].(*ast.CallExpr); ok {
						if id, ok := c.Fun.(*ast.Ident); ok && id.Name == "append" && len(c.Args) > 0 && exprStr(p.Fset, c.Args[0]) == exprStr(p.Fset, l) {
							appends = append(appends, exprStr(p.Fset, l))
							continue
						}
					}
					// boolean flag set to a constant: found = true
					if id, ok := x.Rhs[i].(*ast.Ident); ok && (id.Name == "true" || id.Name == "false") {
						continue
					}
				}
				if exprStr(p.Fset, l) == "sd.Diffs" {
					diffAcc = true
					continue
				}
				other = append(other, "assign "+exprStr(p.Fset, l))
			}
		case *ast.IncDecStmt:
			if !rootLocal(x.X) && !isMapIndex(x.X) {
				// counter: commutative
			}
		case *ast.ReturnStmt:
			nReturns++
			// `return ..., err` with a non-nil error expression: only failing runs are affected
			isErr := false
			if len(x.Results) > 0 {
				last := x.Results[len(x.Results)-1]
				if t := p.TypesInfo.TypeOf(last); t != nil && t.String() == "error" {
					if id, ok := last.(*ast.Ident); !ok || id.Name != "nil" {
						isErr = true
					}
				}
			}
			if !isErr {
				errReturnsOnly = false
				other = append(other, "return inside the loop")
			}
		case *ast.BranchStmt:
			if x.Tok == token.BREAK || x.Tok == token.GOTO {
				other = append(other, "break inside the loop")
			}
		case *ast.ExprStmt:
			if c, ok := x.X.(*ast.CallExpr); ok {
				name := exprStr(p.Fset, c.Fun)
				switch {
				case name == "delete":
				case strings.HasPrefix(name, "debugLog") || strings.HasPrefix(name, "log.") || strings.HasPrefix(name, "debugLogf"):
				case strings.HasPrefix(name, "sort."): // sorts the entry's own data in place
				case strings.HasPrefix(name, "sd.") && strings.HasSuffix(p.PkgPath, "/diff"):
					diffAcc = true
				default:
					other = append(other, "call "+name)
				}
			}
		case *ast.SendStmt, *ast.GoStmt, *ast.DeferStmt:
			other = append(other, "concurrency statement")
		}
		return true
	})
	if len(other) > 0 {
		return "unclassified", strings.Join(dedup(other), "; ")
	}
	if diffAcc {
		return "diffAccumulate", "differences are appended to sd.Diffs (sorted by the text report)"
	}
	if len(appends) == 0 {
		if nReturns > 0 && errReturnsOnly {
			return "firstError", "the loop returns the first error met: which of several errors is reported depends on the order, the success path does not"
		}
		return "mapWrite", ""
	}
	// every appended slice must be sorted after the loop in the same function
	var sorted []string
	for _, a := range dedup(appends) {
		call := sortCallAfter(p, fd, rs, a)
		if call == "" {
			if ok, why := sortedByCallers(p, fd, a); ok {
				call = why
			} else {
				return "unclassified", "appends to " + a + " with no sort after the loop in this function" + why
			}
		}
		sorted = append(sorted, a+" <- "+call)
	}
	return "sortedAfter", strings.Join(sorted, "; ")
}

func dedup(xs []string) []string {
	seen := map[string]bool{}
	var out []string
	for _, x := range xs {
		if !seen[x] {
			seen[x] = true
			out = append(out, x)
		}
	}
	return out
}

// sortCallAfter finds a sort.* / slices.Sort* call positioned after the loop whose arguments mention the slice.
func sortCallAfter(p *packages.Package, fd *ast.FuncDecl, rs *ast.RangeStmt, slice string) string {
	found := ""
	ast.Inspect(fd.Body, func(n ast.Node) bool {
		c, ok := n.(*ast.CallExpr)
		if !ok || c.Pos() < rs.End() || found != "" {
			return true
		}
		name := exprStr(p.Fset, c.Fun)
		if !(strings.HasPrefix(name, "sort.") || strings.HasPrefix(name, "slices.Sort")) {
			return true
		}
		for _, a := range c.Args {
			as := exprStr(p.Fset, a)
			if as == slice || strings.Contains(as, "("+slice+")") {
				found = name
			}
		}
		return true
	})
	return found
}

// sortedByCallers: the function returns the slice it built, and every caller in the package sorts the variable it assigns
// the result to (later in the calling function).
func sortedByCallers(p *packages.Package, fd *ast.FuncDecl, slice string) (bool, string) {
	returnsIt := false
	ast.Inspect(fd.Body, func(n ast.Node) bool {
		if r, ok := n.(*ast.ReturnStmt); ok {
			for _, e := range r.Results {
				if exprStr(p.Fset, e) == slice {
					returnsIt = true
				}
			}
		}
		return true
	})
	if !returnsIt || fd.Recv != nil {
		return false, ""
	}
	calls, unsorted := 0, []string{}
	for _, f := range p.Syntax {
		for _, d := range f.Decls {
			caller, ok := d.(*ast.FuncDecl)
			if !ok || caller.Body == nil || caller == fd {
				continue
			}
			ast.Inspect(caller.Body, func(n ast.Node) bool {
				as, ok := n.(*ast.AssignStmt)
				if !ok || len(as.Rhs) != 1 || len(as.Lhs) != 1 {
					return true
				}
				c, ok := as.Rhs[0].(*ast.CallExpr)
				if !ok {
					return true
				}
				if id, ok := c.Fun.(*ast.Ident); !ok || id.Name != fd.Name.Name {
					return true
				}
				calls++
				v := exprStr(p.Fset, as.Lhs[0])
				found := false
				ast.Inspect(caller.Body, func(m ast.Node) bool {
					sc, ok := m.(*ast.CallExpr)
					if !ok || sc.Pos() < as.End() {
						return true
					}
					name := exprStr(p.Fset, sc.Fun)
					if strings.HasPrefix(name, "sort.") || strings.HasPrefix(name, "slices.Sort") {
						for _, a := range sc.Args {
							if exprStr(p.Fset, a) == v {
								found = true
							}
						}
					}
					return true
				})
				if !found {
					unsorted = append(unsorted, fmt.Sprintf("%s (in %s, line %d)", v, caller.Name.Name, p.Fset.Position(as.Pos()).Line))
				}
				return true
			})
		}
	}
	if calls == 0 {
		return false, ""
	}
	if len(unsorted) > 0 {
		return false, "; returned to callers that do not sort it: " + strings.Join(unsorted, ", ")
	}
	return true, fmt.Sprintf("sorted by each of its %d callers", calls)
}

// Expectation is a hand-made classification of a loop the syntactic rules cannot discharge; it holds only for the
// loop body it was written for (Body hash).
type Expectation struct {
	Key    string `json:"key"`
	Body   string `json:"body"`
	Class  string `json:"class"`
	Reason string `json:"reason"`
}

// ApplyExpectations overrides `unclassified` sites that have a matching hand-made classification.
func ApplyExpectations(sites []Site, file string) ([]Site, error) {
	b, err := os.ReadFile(file)
	if err != nil {
		return nil, err
	}
	var es []Expectation
	if err := json.Unmarshal(b, &es); err != nil {
		return nil, err
	}
	byKey := map[string]Expectation{}
	for _, e := range es {
		byKey[e.Key] = e
	}
	for i := range sites {
		s := &sites[i]
		if s.Class != "unclassified" {
			continue
		}
		e, ok := byKey[s.Key()]
		switch {
		case !ok:
		case e.Body != s.Body:
			s.Detail = "the hand-made classification (" + e.Class + ") was written for another loop body; " + s.Detail
		default:
			s.Class, s.Detail, s.Manual = e.Class, e.Reason, true
		}
	}
	return sites, nil
}
