package difflab

import (
	"encoding/json"
	"fmt"
	"regexp"
	"strings"

	"verif/harness/internal/ev"
	"verif/harness/internal/rng"
)

var rxHex = regexp.MustCompile(`0x[0-9a-f]+`)

// PanicKey classifies a recovered panic of the real analyser: function + error class.
func PanicKey(why string) string {
	msg, fn := why, ""
	if i := strings.LastIndex(why, " @ "); i >= 0 {
		msg, fn = why[:i], why[i+3:]
	}
	fn = strings.TrimPrefix(fn, "(*SpecAnalyser).")
	class := "other"
	switch {
	case strings.Contains(msg, "nil pointer dereference"):
		class = "nil-deref"
	case strings.Contains(msg, "index out of range"):
		class = "index-out-of-range"
	case strings.Contains(msg, "comparing uncomparable"):
		class = "uncomparable"
	case strings.Contains(msg, "interface conversion"):
		class = "type-assertion"
	case strings.Contains(msg, "stack overflow"):
		class = "stack-overflow"
	}
	return "panic:" + fn + ":" + class
}

// Sample is one generated case.
type Sample struct {
	Kind string   `json:"kind"` // self | reser | pair
	A    *Spec    `json:"a"`
	B    *Spec    `json:"b"`
	Log  EditLog  `json:"edits,omitempty"`
	JA   json.RawMessage `json:"swagger_a"`
	JB   json.RawMessage `json:"swagger_b"`
}

func (s *Sample) render() {
	s.JA = SwaggerJSON(s.A)
	if s.B == s.A {
		s.JB = s.JA
	} else {
		s.JB = SwaggerJSON(s.B)
	}
}

func (s *Sample) Replay(extra map[string]interface{}) map[string]interface{} {
	m := map[string]interface{}{"kind": s.Kind, "spec_a": s.JA, "spec_b": s.JB, "model_a": s.A, "model_b": s.B, "edits": s.Log,
		"how": "write spec_a / spec_b to files and run `swagger diff a.json b.json` (or ./check.sh <ID> --replay <this file>)"}
	for k, v := range extra {
		m[k] = v
	}
	return m
}

type Sizes struct{ Identity, Pairs, ValidSample int }

func sizes(tier string) Sizes {
	if tier == "thorough" {
		return Sizes{Identity: 6000, Pairs: 12000, ValidSample: 60}
	}
	return Sizes{Identity: 500, Pairs: 900, ValidSample: 12}
}

// genOptsFor varies the generator options per sample so that every construct is exercised without drowning the
// stream in panics.
func genOptsFor(r *rng.R) GenOpts {
	o := GenOpts{MaxDepth: 2 + r.Intn(2)}
	if r.Chance(1, 10) {
		o.Tuples = true
	}
	if r.Chance(1, 10) {
		o.ArrayDefaults = true
	}
	if r.Chance(1, 10) {
		o.Untyped = true
	}
	return o
}

// validBoth validates lazily (the reference validator takes ~0.4 s per document).
func (l *Lab) validBoth(s *Sample) bool {
	if !l.Valid(s.JA) {
		return false
	}
	if s.B == s.A {
		return true
	}
	return l.Valid(s.JB)
}

type stats map[string]int

// CheckC12 — identity and totality of the diff analyser.
func CheckC12(run *ev.Run) {
	lab := NewLab()
	defer lab.Close()
	lab.Flags = ProbeFlags(lab)
	sz := sizes(run.Tier)
	r := rng.New(uint64(run.Seed))
	st := stats{}
	run.Rule = "specs generated in the model's encoding (seeded, type-directed), rendered to Swagger 2.0 JSON; identity stream: A vs A and A vs a " +
		"re-serialised copy (lists permuted); pair stream: A vs A with 1-3 catalogue edits; a case is non-trivial and distinct by the multiset of " +
		"(location, code) the real analyser reports plus its outcome class; real code and Lean model must agree on the canonical multiset"
	run.Trusted = append(run.Trusted, "vx extract (DiffTables from live maps)", "correspondence harness difflab (generator, renderer, canonicaliser)",
		"go-openapi/spec JSON decoding, go-openapi/validate (validity oracle)")
	run.Assume = append(run.Assume, "extensions (x-*) are outside the Lean model and covered by the oracle sweep only",
		"numbers are decimals with at most three fractional digits (exact in both model and float64 ordering)",
		"validity of a generated document is checked with the reference validator only when a deviation is about to be reported, and on a fixed-size sample")

	known := CorpusC12()
	// 1. corpus: re-derive every stored witness
	for _, c := range known {
		c.S.render()
		model, real, verdict := lab.Compare(c.S.A, c.S.B, c.S.JA, c.S.JB)
		run.Case("corpus:" + c.Key)
		run.Traces++
		st["corpus"]++
		if verdict != "agree" && verdict != "order-sensitive" {
			run.Broken("corr:C12:corpus:"+c.Key, "model and implementation disagree on the stored witness "+c.Key+": "+verdict,
				c.S.Replay(map[string]interface{}{"model": model.R, "real": real.R, "real_why": real.Why}))
		}
		if real.R == "panic" || real.R == "crash" || real.R == "timeout" {
			k := PanicKey(real.Why)
			if real.R != "panic" {
				k = c.Key // a crash or a hang has no panic site: the stored key names the witness
			}
			run.Deviation(k, c.What, c.S.Replay(map[string]interface{}{"real": real.R, "why": real.Why}))
		}
	}
	disagreements := 0
	validChecked, validOK := 0, 0
	crashes := 0
	handle := func(s *Sample) {
		if crashes >= 6 {
			return // the implementation keeps crashing or hanging: the violation is already recorded with its input
		}
		s.render()
		model, real, verdict := lab.Compare(s.A, s.B, s.JA, s.JB)
		run.Traces++
		key := fmt.Sprintf("%s|%s|%d", s.Kind, real.R, len(real.Diffs))
		if len(real.Diffs) > 0 {
			key += "|" + strings.Join(multiset(real.Diffs, false), ";")
		}
		if real.R == "panic" {
			key += "|" + PanicKey(real.Why)
		}
		run.Case(key)
		st["verdict:"+verdict]++
		st["real:"+real.R]++
		if validChecked < sz.ValidSample {
			validChecked++
			if lab.validBoth(s) {
				validOK++
				// tie of the hypothesis of total_no_panic: what the reference validator accepts must be `validB` in the model
				if model.VA == nil || model.VB == nil || !*model.VA || !*model.VB {
					run.Broken("corr:C12:validity-hypothesis", "a document accepted by the reference validator is outside the validity hypothesis (Spec.validB) of theorem total_no_panic",
						s.Replay(map[string]interface{}{"model_valid_a": model.VA, "model_valid_b": model.VB}))
				} else {
					st["hypothesis-holds-on-valid"]++
				}
			}
		}
		if model.FA != nil && model.FB != nil {
			if *model.FA && *model.FB {
				st["acyclic-pair(terminates_acyclic applies)"]++
				if model.R == "fuel" {
					run.Broken("corr:C12:theorem-vs-driver", "the driver runs out of fuel on a pair satisfying the hypothesis of terminates_acyclic", s.Replay(nil))
				}
			} else {
				st["recursive-definitions(guard only)"]++
			}
		}
		if model.VA != nil && model.VB != nil && *model.VA && *model.VB {
			st["model-valid-pair"]++
			if model.R == "panic" {
				run.Broken("corr:C12:theorem-vs-driver", "the driver reports a panic on a pair satisfying the hypothesis of total_no_panic", s.Replay(nil))
			}
		}
		// property oracle on the real implementation
		failing := false
		switch {
		case real.R == "panic" || real.R == "crash" || real.R == "timeout":
			k := PanicKey(real.Why)
			if real.R != "panic" {
				k = "crash-or-hang:diff.Compare"
				crashes++
			}
			if run.IsKnown(k) || lab.validBoth(s) {
				st["oracle:"+k]++
				run.Deviation(k, "diff of two valid specs does not return a report: "+real.Why, s.Replay(map[string]interface{}{"real": real.R, "why": real.Why}))
				failing = true
			} else {
				st["invalid-spec-panic"]++
			}
		case s.Kind != "pair" && len(real.Diffs) > 0:
			k := fmt.Sprintf("selfdiff:%s:code%d", s.Kind, real.Diffs[0].Code)
			if lab.validBoth(s) {
				run.Deviation(k, "comparing a spec with itself (or a re-serialised copy) reports a change: "+real.Diffs[0].Key(true),
					s.Replay(map[string]interface{}{"reported": real.Raw}))
				failing = true
			}
		}
		if verdict != "agree" && verdict != "order-sensitive" {
			disagreements++
			if !failing {
				run.Broken("corr:C12:"+s.Kind, "Lean model and diff.Compare disagree: "+verdict,
					s.Replay(map[string]interface{}{"model": model.Raw, "model_r": model.R, "real": real.Raw, "real_r": real.R, "real_why": real.Why}))
			}
		}
		if len(run.Samples) < 3 && len(real.Diffs) > 0 && s.Kind == "pair" {
			run.Sample(map[string]interface{}{"kind": s.Kind, "edits": s.Log, "reported": multiset(real.Diffs, true), "verdict": verdict})
		}
	}
	for i := 0; i < sz.Identity; i++ {
		g := &G{R: r.Fork(), O: genOptsFor(r)}
		a := g.Spec()
		if i%2 == 0 {
			handle(&Sample{Kind: "self", A: a, B: a})
		} else {
			handle(&Sample{Kind: "reser", A: a, B: g.Reserialise(a)})
		}
	}
	// when the proof phase is broken the search gets a larger budget
	pairs := sz.Pairs
	if !run.Lean.OK {
		pairs *= 3
	}
	for i := 0; i < pairs; i++ {
		g := &G{R: r.Fork(), O: genOptsFor(r)}
		a := g.Spec()
		b, log := g.Mutate(a, 1+g.R.Intn(3))
		handle(&Sample{Kind: "pair", A: a, B: b, Log: log})
	}
	run.Extra["distribution"] = st
	run.Extra["disagreements_checked"] = disagreements
	run.Extra["validity_sample"] = map[string]int{"checked": validChecked, "valid": validOK}
	run.Extra["behaviour_flags"] = lab.Flags
	run.Extra["worker_restarts"] = lab.Real.Restarts
}

// ProbeFlags: no behaviour switches are left (every former switch was a defect that is now repaired and the model
// follows the repaired code); kept so that the evidence records it.
func ProbeFlags(lab *Lab) map[string]bool { return map[string]bool{} }
