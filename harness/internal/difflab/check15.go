package difflab

import (
	"encoding/json"
	"fmt"
	"io"
	"log"
	"os"
	"path/filepath"
	"sort"
	"strings"

	"github.com/go-swagger/go-swagger/cmd/swagger/commands"
	"github.com/go-swagger/go-swagger/cmd/swagger/commands/diff"

	"verif/harness/internal/ev"
	"verif/harness/internal/rng"
)

// ---- worker side: run the real DiffCommand ----

func scratchDir() string {
	base := os.Getenv("TMPDIR")
	if base == "" {
		base = "/var/tmp"
	}
	d, _ := os.MkdirTemp(base, "verif-diff-")
	return d
}

// RunDiffCommand executes commands.DiffCommand on two documents; returns output text and whether Execute returned an error
// (which is what makes the process exit non-zero).
func RunDiffCommand(a, b []byte, format string, onlyBreaking bool, ignore []byte) (out string, failed bool, errMsg string, panicked string) {
	log.SetOutput(io.Discard)
	dir := scratchDir()
	defer os.RemoveAll(dir)
	pa, pb, po := filepath.Join(dir, "a.json"), filepath.Join(dir, "b.json"), filepath.Join(dir, "out.txt")
	_ = os.WriteFile(pa, a, 0o644)
	_ = os.WriteFile(pb, b, 0o644)
	c := &commands.DiffCommand{Format: format, OnlyBreakingChanges: onlyBreaking, Destination: po, IgnoreFile: "none specified"}
	if ignore != nil {
		pi := filepath.Join(dir, "ignore.json")
		_ = os.WriteFile(pi, ignore, 0o644)
		c.IgnoreFile = pi
	}
	c.Args.OldSpec, c.Args.NewSpec = pa, pb
	func() {
		defer func() {
			if r := recover(); r != nil {
				panicked = fmt.Sprint(r)
			}
		}()
		if err := c.Execute(nil); err != nil {
			failed, errMsg = true, err.Error()
		}
	}()
	o, _ := os.ReadFile(po)
	return string(o), failed, errMsg, panicked
}

func handleCmd(req map[string]json.RawMessage) map[string]interface{} {
	var format string
	var brk bool
	_ = json.Unmarshal(req["fmt"], &format)
	_ = json.Unmarshal(req["brk"], &brk)
	var ignore []byte
	if ig, ok := req["ignore"]; ok && string(ig) != "null" {
		var s string
		_ = json.Unmarshal(ig, &s)
		ignore = []byte(s)
	}
	out, failed, msg, p := RunDiffCommand(req["a"], req["b"], format, brk, ignore)
	if p != "" {
		return map[string]interface{}{"r": "panic", "why": p}
	}
	return map[string]interface{}{"r": "ok", "out": out, "failed": failed, "err": msg}
}

// ---- harness side ----

type NodeJ struct {
	F string `json:"f"`
	T string `json:"t"`
	A bool   `json:"a"`
}

// EntryJ is a report entry in the encoding of the Lean driver.
type EntryJ struct {
	URL      string  `json:"url"`
	Method   string  `json:"method"`
	Response int     `json:"response"`
	Node     []NodeJ `json:"node"`
	Code     int     `json:"code"`
	Compat   int     `json:"compat"`
	Info     string  `json:"info"`
}

func (e EntryJ) key() string {
	b, _ := json.Marshal(e)
	return string(b)
}

type rawNode struct {
	Name    string   `json:"name"`
	Type    string   `json:"type"`
	IsArray bool     `json:"is_array"`
	Child   *rawNode `json:"child"`
}
type rawDiff struct {
	Location struct {
		URL      string   `json:"url"`
		Method   string   `json:"method"`
		Response int      `json:"response"`
		Node     *rawNode `json:"node"`
	} `json:"location"`
	Code   string `json:"code"`
	Compat string `json:"compatibility"`
	Info   string `json:"info"`
}

// ParseReport reads a JSON report with plain encoding/json (not with the package's own unmarshallers) and maps the
// code / compatibility names through the live inverse tables.
func ParseReport(txt string) ([]EntryJ, []json.RawMessage, error) {
	var raws []json.RawMessage
	if err := json.Unmarshal([]byte(txt), &raws); err != nil {
		return nil, nil, err
	}
	ids := diff.VerifCodeIDs()
	_, cinv := diff.VerifCompatStrings()
	var out []EntryJ
	for _, r := range raws {
		var d rawDiff
		if err := json.Unmarshal(r, &d); err != nil {
			return nil, nil, err
		}
		code, ok := ids[d.Code]
		if !ok {
			return nil, nil, fmt.Errorf("report carries unknown code %q", d.Code)
		}
		compat, ok := cinv[d.Compat]
		if !ok {
			return nil, nil, fmt.Errorf("report carries unknown compatibility %q", d.Compat)
		}
		e := EntryJ{URL: d.Location.URL, Method: d.Location.Method, Response: d.Location.Response, Code: code, Compat: compat, Info: d.Info, Node: []NodeJ{}}
		for n := d.Location.Node; n != nil; n = n.Child {
			e.Node = append(e.Node, NodeJ{n.Name, n.Type, n.IsArray})
		}
		out = append(out, e)
	}
	return out, raws, nil
}

func keysOf(es []EntryJ) []string {
	out := make([]string, 0, len(es))
	for _, e := range es {
		out = append(out, e.key())
	}
	sort.Strings(out)
	return out
}

type cmdRes struct {
	R      string `json:"r"`
	Out    string `json:"out"`
	Failed bool   `json:"failed"`
	Err    string `json:"err"`
	Why    string `json:"why"`
}

func (l *Lab) runCmd(a, b []byte, format string, brk bool, ignore *string) cmdRes {
	m := map[string]interface{}{"op": "diff.cmd", "a": json.RawMessage(a), "b": json.RawMessage(b), "fmt": format, "brk": brk}
	if ignore != nil {
		m["ignore"] = *ignore
	}
	req, _ := json.Marshal(m)
	out, err := l.Real.Call(req)
	if err != nil {
		return cmdRes{R: "crash", Why: err.Error()}
	}
	var r cmdRes
	_ = json.Unmarshal(out, &r)
	return r
}

type modelExec struct {
	R     string   `json:"r"`
	Exit  bool     `json:"exit"`
	Lines []string `json:"lines"`
	Diffs []EntryJ `json:"diffs"`
}

func (l *Lab) modelExecute(format string, brk bool, diffs, ignores []EntryJ) modelExec {
	if diffs == nil {
		diffs = []EntryJ{}
	}
	if ignores == nil {
		ignores = []EntryJ{}
	}
	req, _ := json.Marshal(map[string]interface{}{"op": "diff.execute", "fmt": format, "brk": brk, "diffs": diffs, "ignores": ignores})
	out, err := l.Model.Call(req)
	if err != nil {
		return modelExec{R: "model-" + err.Error()}
	}
	var r modelExec
	_ = json.Unmarshal(out, &r)
	for i := range r.Diffs {
		if r.Diffs[i].Node == nil {
			r.Diffs[i].Node = []NodeJ{}
		}
	}
	return r
}

func textLines(out string) []string {
	out = strings.TrimSuffix(out, "\n")
	if out == "" {
		return []string{}
	}
	return strings.Split(out, "\n")
}

// CheckC15 — ignore file, report formats and exit status.
func CheckC15(run *ev.Run) {
	lab := NewLab()
	defer lab.Close()
	r := rng.New(uint64(run.Seed) + 15)
	n := 120
	if run.Tier == "thorough" {
		n = 1500
	}
	if !run.Lean.OK {
		n *= 2
	}
	st := stats{}
	run.Rule = "pairs of generated specs with at least one reported difference; for each: the JSON report is fed back verbatim as ignore file, a random " +
		"subset of it is fed back, and the txt / json / breaking-only renderings and exit statuses are compared with each other and with the Lean " +
		"model `execute`; a case is distinct by (multiset of reported codes, subset size)"
	run.Trusted = append(run.Trusted, "vx extract (string tables from live maps)", "difflab C15 driver (runs commands.DiffCommand.Execute in a worker with temp files)", "encoding/json")
	run.Assume = append(run.Assume, "the process exit status is non-zero exactly when DiffCommand.Execute returns an error (go-flags main loop, not modelled)",
		"loading of the two documents (go-openapi/loads) is outside the model")
	done := 0
	corpus := CorpusC15()
	for tries := 0; done < n && tries < n*6; tries++ {
		g := &G{R: r.Fork(), O: genOptsFor(r)}
		var a, b *Spec
		var elog EditLog
		if tries < len(corpus) {
			a, b, elog = corpus[tries].A, corpus[tries].B, EditLog{"corpus:" + corpus[tries].Name}
		} else {
			a = g.Spec()
			b, elog = g.Mutate(a, 1+g.R.Intn(4))
		}
		ja, jb := SwaggerJSON(a), SwaggerJSON(b)
		s := &Sample{Kind: "pair", A: a, B: b, Log: elog, JA: ja, JB: jb}
		j0 := lab.runCmd(ja, jb, "json", false, nil)
		if j0.R != "ok" {
			st["cmd:"+j0.R]++
			continue // crashes are C12's business
		}
		R0, raws, err := ParseReport(j0.Out)
		if err != nil {
			run.Deviation("json-report-unreadable", "the JSON report cannot be read back: "+err.Error(), s.Replay(map[string]interface{}{"report": j0.Out}))
			continue
		}
		if len(R0) == 0 {
			st["empty-report"]++
			continue
		}
		done++
		breaking0 := 0
		codes := []string{}
		for _, e := range R0 {
			if e.Compat == 0 {
				breaking0++
			}
			codes = append(codes, fmt.Sprint(e.Code))
		}
		sort.Strings(codes)
		var unstableFn func(k int) bool
		fail := func(key, what string, extra map[string]interface{}) {
			if !strings.HasPrefix(key, "exit0:") && unstableFn != nil && unstableFn(40) {
				return
			}
			if extra == nil {
				extra = map[string]interface{}{}
			}
			extra["json_report"] = j0.Out
			run.Deviation(key, what, s.Replay(extra))
		}
		// (a) JSON format exit status
		if breaking0 > 0 && !j0.Failed {
			st["json-exit0-with-breaking"]++
			fail("exit0:json-format-with-breaking", "`swagger diff -f json` exits 0 although the report contains a Breaking entry", nil)
		}
		if breaking0 == 0 && j0.Failed {
			fail("exit1:json-format-without-breaking", "`-f json` fails without a Breaking entry: "+j0.Err, nil)
		}
		// (b) stability of the JSON report across runs: the set of reported differences must not depend on the run
		unstable := func(k int) bool {
			if k > 2 {
				// the Lean model evaluates the pair under six iteration orders: if they disagree the pair is order-sensitive
				m := lab.RunModel(a, b)
				base := multiset(m.Diffs, false)
				for _, alt := range m.Alts {
					if alt.R != m.R || !eqStrs(multiset(alt.Diffs, false), base) {
						st["unstable-report(model-predicted)"]++
						run.Deviation("unstable-report:order-dependent-schema-visit",
							"a later run of `swagger diff` on the same pair reports a different set of differences (order-dependent $ref visit, predicted by the model under permuted map orders)",
							s.Replay(map[string]interface{}{"first": j0.Out}))
						return true
					}
				}
			}
			for i := 0; i < k; i++ {
				j1 := lab.runCmd(ja, jb, "json", false, nil)
				R1, _, _ := ParseReport(j1.Out)
				if !eqStrs(keysOf(R0), keysOf(R1)) {
					st["unstable-report"]++
					run.Deviation("unstable-report:order-dependent-schema-visit",
						"two runs of `swagger diff` on the same pair report different sets of differences (which $ref below a shared visited key is compared depends on map iteration order), so an ignore file written by one run does not silence the next",
						s.Replay(map[string]interface{}{"first": j0.Out, "other": j1.Out}))
					return true
				}
			}
			return false
		}
		unstableFn = unstable
		if unstable(2) {
			continue
		}
		// (c) text report, no ignore
		t0 := lab.runCmd(ja, jb, "txt", false, nil)
		m0 := lab.modelExecute("txt", false, R0, nil)
		if t0.Failed != (breaking0 > 0) {
			fail("exit:txt", fmt.Sprintf("text mode: exit failed=%v but %d Breaking entries", t0.Failed, breaking0), map[string]interface{}{"text": t0.Out})
		}
		corr := func(what string, real cmdRes, model modelExec) {
			run.Traces++
			if model.R != "ok" {
				run.Broken("corr:C15:model", "model driver failed on "+what+": "+model.R, s.Replay(nil))
				return
			}
			if real.Failed != model.Exit || !eqStrs(textLines(real.Out), model.Lines) {
				if unstableFn != nil && unstableFn(60) {
					return
				}
				run.Broken("corr:C15:"+what, "Lean `execute` and DiffCommand.Execute disagree on "+what,
					s.Replay(map[string]interface{}{"real_out": real.Out, "real_failed": real.Failed, "model_lines": model.Lines, "model_exit": model.Exit, "json_report": j0.Out}))
			}
		}
		corr("txt", t0, m0)
		// every entry appears exactly once in the text report: count lines that are not frame lines
		frame := map[string]bool{"": true, "NON-BREAKING CHANGES:": true, "=====================": true, "BREAKING CHANGES:": true, "=================": true,
			"NON-BREAKING CHANGES WITH WARNING:": true, "==================================": true}
		cnt := 0
		for _, ln := range textLines(t0.Out) {
			if !frame[ln] && !strings.HasPrefix(ln, "compatibility test") {
				cnt++
			}
		}
		if cnt != len(R0) {
			fail("txt-vs-json:count", fmt.Sprintf("text report lists %d differences, JSON report %d", cnt, len(R0)), map[string]interface{}{"text": t0.Out})
		}
		// (d) breaking only
		b0 := lab.runCmd(ja, jb, "txt", true, nil)
		corr("breaking-only", b0, lab.modelExecute("txt", true, R0, nil))
		bc := 0
		for _, ln := range textLines(b0.Out) {
			if !frame[ln] && !strings.HasPrefix(ln, "compatibility test") {
				bc++
			}
		}
		if bc != breaking0 || b0.Failed != (breaking0 > 0) {
			fail("breaking-only:count", fmt.Sprintf("-b lists %d entries (failed=%v), JSON report has %d Breaking", bc, b0.Failed, breaking0), map[string]interface{}{"text": b0.Out})
		}
		// (e) ignore everything, verbatim
		all := j0.Out
		ta := lab.runCmd(ja, jb, "txt", false, &all)
		// a line of a later run that the first report (rendered by the model) does not contain is direct evidence of the
		// order-dependent visit: the analysis itself, not the filtering, differed between the two runs
		foreign := func(out string) bool {
			have := map[string]bool{}
			for _, ln := range m0.Lines {
				have[ln] = true
			}
			for _, ln := range textLines(out) {
				if !frame[ln] && !strings.HasPrefix(ln, "compatibility test") && strings.TrimSpace(ln) != "No changes identified" && !have[ln] {
					st["unstable-report(foreign-line)"]++
					run.Deviation("unstable-report:order-dependent-schema-visit",
						"a later run of `swagger diff` on the same pair prints a difference the first report does not contain (order-dependent $ref visit): "+ln,
						s.Replay(map[string]interface{}{"first": j0.Out, "later_text": out}))
					return true
				}
			}
			return false
		}
		if (ta.R != "ok" || ta.Failed || strings.TrimSpace(ta.Out) != "No changes identified") && m0.R == "ok" && foreign(ta.Out) {
			continue
		}
		if ta.R != "ok" || ta.Failed || strings.TrimSpace(ta.Out) != "No changes identified" {
			fail("ignore-all", "feeding the JSON report back as ignore file does not yield an empty report with exit 0", map[string]interface{}{"text": ta.Out, "failed": ta.Failed, "err": ta.Err})
		}
		corr("ignore-all", ta, lab.modelExecute("txt", false, R0, R0))
		// (f) ignore a subset
		var sub []EntryJ
		var subRaw []json.RawMessage
		inSub := map[string]int{}
		for i, e := range R0 {
			if g.R.Chance(1, 2) {
				sub = append(sub, e)
				subRaw = append(subRaw, raws[i])
				inSub[e.key()]++
			}
		}
		sb, _ := json.Marshal(subRaw)
		if subRaw == nil {
			sb = []byte("[]")
		}
		subS := string(sb)
		js := lab.runCmd(ja, jb, "json", false, &subS)
		RS, _, err := ParseReport(js.Out)
		var expect []EntryJ
		for _, e := range R0 {
			if inSub[e.key()] == 0 {
				expect = append(expect, e)
			}
		}
		if err != nil || !eqStrs(keysOf(RS), keysOf(expect)) {
			fail("ignore-subset", fmt.Sprintf("ignoring %d of %d entries does not remove exactly those entries", len(sub), len(R0)),
				map[string]interface{}{"ignore": subS, "result": js.Out})
		}
		ms := lab.modelExecute("json", false, R0, sub)
		run.Traces++
		if (ms.R != "ok" || !eqStrs(keysOf(ms.Diffs), keysOf(RS)) || ms.Exit != js.Failed) && !unstable(60) {
			run.Broken("corr:C15:ignore-subset", "Lean `filterIgnores` and FilterIgnores disagree", s.Replay(map[string]interface{}{"ignore": subS, "real": js.Out, "model": ms.Diffs}))
		}
		ts := lab.runCmd(ja, jb, "txt", false, &subS)
		br := 0
		for _, e := range expect {
			if e.Compat == 0 {
				br++
			}
		}
		if ts.Failed != (br > 0) {
			fail("exit:txt-with-ignore", fmt.Sprintf("text mode with ignore file: failed=%v but %d non-ignored Breaking entries", ts.Failed, br), map[string]interface{}{"ignore": subS, "text": ts.Out})
		}
		corr("txt-ignore-subset", ts, lab.modelExecute("txt", false, R0, sub))
		// (f') the breaking-only report under the same ignore file: exactly the non-ignored Breaking entries, same exit status
		bs := lab.runCmd(ja, jb, "txt", true, &subS)
		bsc := 0
		for _, ln := range textLines(bs.Out) {
			if !frame[ln] && !strings.HasPrefix(ln, "compatibility test") {
				bsc++
			}
		}
		if bs.R == "ok" && (bsc != br || bs.Failed != (br > 0)) {
			fail("breaking-only-with-ignore", fmt.Sprintf("-b with ignore file lists %d entries (failed=%v), %d non-ignored Breaking entries", bsc, bs.Failed, br), map[string]interface{}{"ignore": subS, "text": bs.Out})
		}
		corr("breaking-only-ignore-subset", bs, lab.modelExecute("txt", true, R0, sub))
		// ... and with everything ignored it must be empty with exit 0
		ba := lab.runCmd(ja, jb, "txt", true, &all)
		bac := 0
		for _, ln := range textLines(ba.Out) {
			if !frame[ln] && !strings.HasPrefix(ln, "compatibility test") {
				bac++
			}
		}
		if ba.R == "ok" && (bac != 0 || ba.Failed) && !foreign(ba.Out) {
			fail("breaking-only-ignore-all", fmt.Sprintf("-b with the whole JSON report as ignore file still lists %d entries (failed=%v)", bac, ba.Failed), map[string]interface{}{"text": ba.Out})
		}
		// (g) ignoring one single entry must remove that entry only (entries that differ in one field of the location are
		// the discriminating cases)
		singles := 3
		if len(R0) < singles {
			singles = len(R0)
		}
		for k := 0; k < singles; k++ {
			idx := g.R.Intn(len(R0))
			one, _ := json.Marshal([]json.RawMessage{raws[idx]})
			oneS := string(one)
			j1 := lab.runCmd(ja, jb, "json", false, &oneS)
			R1, _, err := ParseReport(j1.Out)
			var exp []EntryJ
			for _, e := range R0 {
				if e.key() != R0[idx].key() {
					exp = append(exp, e)
				}
			}
			if err != nil || !eqStrs(keysOf(R1), keysOf(exp)) {
				fail("ignore-single", fmt.Sprintf("ignoring the single entry %s removes %d entries instead of exactly the matching ones", R0[idx].key(), len(R0)-len(R1)),
					map[string]interface{}{"ignore": oneS, "result": j1.Out})
			}
		}
		run.Case(fmt.Sprintf("%s|%d/%d", strings.Join(codes, ","), len(sub), len(R0)))
		st[fmt.Sprintf("entries:%d", min(len(R0), 6))]++
		if breaking0 > 0 {
			st["with-breaking"]++
		}
		if len(run.Samples) < 3 {
			run.Sample(map[string]interface{}{"edits": elog, "report_entries": len(R0), "breaking": breaking0, "ignored_subset": len(sub), "text_report": t0.Out})
		}
	}
	run.Extra["distribution"] = st
	run.Extra["pairs_with_differences"] = done
}

func init() {
	extraWorkerOps["diff.cmd"] = handleCmd
}

var extraWorkerOps = map[string]func(req map[string]json.RawMessage) map[string]interface{}{}
