package difflab

import (
	"encoding/json"
	"fmt"
	"strings"

	"github.com/go-openapi/spec"
	"github.com/go-openapi/strfmt"
	"github.com/go-openapi/validate"

	"verif/harness/internal/ev"
	"verif/harness/internal/rng"
)

// ---- the edit catalogue ----

// leafEdit is an elementary narrowing of one schema node: before, after, and a witness value accepted before and
// rejected after.
type leafEdit struct {
	Kind    string
	Type    string // string | integer | number | array
	A, B    func() *Schema
	Witness interface{}
}

func strS(f func(s *Schema)) func() *Schema {
	return func() *Schema { s := &Schema{Type: []string{"string"}}; f(s); return s }
}
func intS(f func(s *Schema)) func() *Schema {
	return func() *Schema { s := &Schema{Type: []string{"integer"}}; f(s); return s }
}
func numS(f func(s *Schema)) func() *Schema {
	return func() *Schema { s := &Schema{Type: []string{"number"}}; f(s); return s }
}
func arrS(f func(s *Schema)) func() *Schema {
	return func() *Schema {
		s := &Schema{Type: []string{"array"}, Items: &Items{One: &Schema{Type: []string{"string"}}}}
		f(s)
		return s
	}
}
func none(*Schema) {}
func enumOf(vs ...interface{}) []*JV {
	var out []*JV
	for _, v := range vs {
		out = append(out, MkJV(v))
	}
	return out
}

var leafCatalogue = []leafEdit{
	{"maxLength:lower", "string", strS(func(s *Schema) { s.MaxLen = i64(10) }), strS(func(s *Schema) { s.MaxLen = i64(5) }), "abcdefg"},
	{"maxLength:introduce", "string", strS(none), strS(func(s *Schema) { s.MaxLen = i64(5) }), "abcdefg"},
	{"minLength:raise", "string", strS(func(s *Schema) { s.MinLen = i64(1) }), strS(func(s *Schema) { s.MinLen = i64(3) }), "ab"},
	{"minLength:introduce", "string", strS(none), strS(func(s *Schema) { s.MinLen = i64(3) }), "ab"},
	{"pattern:introduce", "string", strS(none), strS(func(s *Schema) { s.Pattern = "^[a-z]+$" }), "AB1"},
	{"pattern:change", "string", strS(func(s *Schema) { s.Pattern = "^[a-z0-9]+$" }), strS(func(s *Schema) { s.Pattern = "^[a-z]+$" }), "ab1"},
	{"enum:shrink", "string", strS(func(s *Schema) { s.Enum = enumOf("a", "b", "c") }), strS(func(s *Schema) { s.Enum = enumOf("a", "b") }), "c"},
	{"enum:introduce", "string", strS(none), strS(func(s *Schema) { s.Enum = enumOf("a", "b") }), "c"},
	{"format:string->date", "string", strS(none), strS(func(s *Schema) { s.Format = "date" }), "abc"},
	{"type:string->integer", "string", strS(none), intS(none), "abc"},
	{"maximum:lower", "integer", intS(func(s *Schema) { s.Max = i64(100000) }), intS(func(s *Schema) { s.Max = i64(50000) }), int64(75)},
	{"maximum:introduce", "integer", intS(none), intS(func(s *Schema) { s.Max = i64(50000) }), int64(75)},
	{"minimum:raise", "integer", intS(func(s *Schema) { s.Min = i64(0) }), intS(func(s *Schema) { s.Min = i64(10000) }), int64(5)},
	{"minimum:introduce", "integer", intS(none), intS(func(s *Schema) { s.Min = i64(10000) }), int64(5)},
	{"exclusiveMaximum:set", "integer", intS(func(s *Schema) { s.Max = i64(50000) }), intS(func(s *Schema) { s.Max = i64(50000); s.XMax = true }), int64(50)},
	{"exclusiveMinimum:set", "integer", intS(func(s *Schema) { s.Min = i64(10000) }), intS(func(s *Schema) { s.Min = i64(10000); s.XMin = true }), int64(10)},
	{"multipleOf:introduce", "integer", intS(none), intS(func(s *Schema) { s.MultipleOf = i64(2000) }), int64(3)},
	{"multipleOf:raise", "integer", intS(func(s *Schema) { s.MultipleOf = i64(2000) }), intS(func(s *Schema) { s.MultipleOf = i64(4000) }), int64(6)},
	{"enum(int):shrink", "integer", intS(func(s *Schema) { s.Enum = enumOf(1, 2, 3) }), intS(func(s *Schema) { s.Enum = enumOf(1, 2) }), int64(3)},
	{"enum(int):introduce", "integer", intS(none), intS(func(s *Schema) { s.Enum = enumOf(1, 2) }), int64(3)},
	{"type:number->integer", "number", numS(none), intS(none), 1.5},
	{"maximum(number):lower", "number", numS(func(s *Schema) { s.Max = i64(2500) }), numS(func(s *Schema) { s.Max = i64(1500) }), 2.0},
	// the same with formats inside and outside the analyser's wideness table (format is an open vocabulary in Swagger 2.0)
	{"maximum(int64):lower", "integer", intS(func(s *Schema) { s.Format = "int64"; s.Max = i64(100000) }), intS(func(s *Schema) { s.Format = "int64"; s.Max = i64(50000) }), int64(75)},
	{"maximum(uint32):lower", "integer", intS(func(s *Schema) { s.Format = "uint32"; s.Max = i64(100000) }), intS(func(s *Schema) { s.Format = "uint32"; s.Max = i64(50000) }), int64(75)},
	{"minimum(decimal):raise", "number", numS(func(s *Schema) { s.Format = "decimal"; s.Min = i64(0) }), numS(func(s *Schema) { s.Format = "decimal"; s.Min = i64(5000) }), 2.0},
	{"maxLength(custom-format):lower", "string", strS(func(s *Schema) { s.Format = "slug"; s.MaxLen = i64(10) }), strS(func(s *Schema) { s.Format = "slug"; s.MaxLen = i64(5) }), "abcdefg"},
	{"maxItems:lower", "array", arrS(func(s *Schema) { s.MaxItems = i64(3) }), arrS(func(s *Schema) { s.MaxItems = i64(1) }), []interface{}{"a", "b"}},
	{"maxItems:introduce", "array", arrS(none), arrS(func(s *Schema) { s.MaxItems = i64(1) }), []interface{}{"a", "b"}},
	{"minItems:raise", "array", arrS(func(s *Schema) { s.MinItems = i64(0) }), arrS(func(s *Schema) { s.MinItems = i64(2) }), []interface{}{"a"}},
	{"minItems:introduce", "array", arrS(none), arrS(func(s *Schema) { s.MinItems = i64(2) }), []interface{}{"a"}},
	{"uniqueItems:introduce", "array", arrS(none), arrS(func(s *Schema) { s.Unique = true }), []interface{}{"a", "a"}},
}

// schemaToChain turns a leaf schema into a simple-schema chain (parameter / items encoding).
func schemaToChain(s *Schema) []*Simple {
	typ := ""
	if len(s.Type) > 0 {
		typ = s.Type[0]
	}
	c := []*Simple{{Type: typ, Format: s.Format, Valids: s.Valids}}
	if typ == "array" && s.Items != nil && s.Items.One != nil {
		c = append(c, schemaToChain(s.Items.One)...)
	}
	return c
}

// CatEdit is one instantiated catalogue entry.
type CatEdit struct {
	Site    string // param.query | param.header | param.formData | items | body.root | body.prop | body.nested | body.items | body.ref | body.ref.ref | body.allOf | struct.* | resp.*
	Kind    string
	A, B    *Spec
	Witness interface{}
	// how to validate the witness with the reference validator
	WKind string // param | body | none
	PA, PB  *Param
	SA, SB  *Schema // body schemas (roots)
}

func (e *CatEdit) Key() string { return e.Site + ":" + e.Kind }

// FindingKey groups catalogue entries by the narrowest cause that identifies a miss: the site class (param | items |
// body | body.allOf | resp | struct) and the constraint kind; at sites where the analyser compares nothing at all
// (array parameter items, allOf-only schemas) the kind is `*`.
func (e *CatEdit) FindingKey() string {
	site := e.Site
	switch {
	case strings.HasPrefix(site, "param."):
		site = "param"
	case site == "body.allOf":
	case strings.HasPrefix(site, "body."):
		site = "body"
	}
	kind := e.Kind
	if site == "items" || site == "body.allOf" {
		return "undetected:" + site + ":*"
	}
	if strings.HasPrefix(kind, "multipleOf:") {
		kind = "multipleOf"
	}
	return "undetected:" + site + ":" + kind
}

func pickOp(g *G, s *Spec, needBodyFree bool) (*PathItem, *Operation) {
	for tries := 0; tries < 20; tries++ {
		pi := s.Paths[g.R.Intn(len(s.Paths))]
		op := pi.Ops[g.R.Intn(len(pi.Ops))]
		if !needBodyFree {
			return pi, op
		}
		ok := op.Method != "get" && op.Method != "head"
		for _, p := range op.Params {
			if p.In == "body" || p.In == "formData" {
				ok = false
			}
		}
		if ok {
			return pi, op
		}
	}
	// make room: a fresh post operation
	pi := s.Paths[0]
	var ops []*Operation
	for _, o := range pi.Ops {
		if o.Method != "post" {
			ops = append(ops, o)
		}
	}
	op := &Operation{Method: "post", Responses: []*Response{{Code: 200, Desc: "ok"}}}
	for _, v := range pathVars(pi.URL) {
		have := false
		for _, p := range pi.Params {
			if p.In == "path" && p.Name == v {
				have = true
			}
		}
		if !have {
			op.Params = append(op.Params, &Param{Name: v, In: "path", Required: true, Chain: []*Simple{{Type: "string"}}})
		}
	}
	pi.Ops = append(ops, op)
	return pi, op
}

func findOp(s *Spec, url, method string) *Operation {
	for _, pi := range s.Paths {
		if pi.URL == url {
			for _, op := range pi.Ops {
				if op.Method == method {
					return op
				}
			}
		}
	}
	return nil
}

// wrap embeds a leaf schema at a site inside a body/response schema; returns the root schema, extra definitions and
// the witness document built around the witness value.
func wrap(site string, leaf *Schema, w interface{}) (*Schema, []DefKV, interface{}) {
	obj := func(name string, s *Schema) *Schema {
		return &Schema{Type: []string{"object"}, Props: []KV{{K: name, V: s}, {K: "other", V: &Schema{Type: []string{"string"}}}}}
	}
	switch site {
	case "root":
		return leaf, nil, w
	case "prop":
		return obj("w", leaf), nil, map[string]interface{}{"w": w}
	case "nested":
		return obj("outer", obj("w", leaf)), nil, map[string]interface{}{"outer": map[string]interface{}{"w": w}}
	case "items":
		return &Schema{Type: []string{"array"}, Items: &Items{One: leaf}}, nil, []interface{}{w}
	case "ref":
		return &Schema{Ref: "W"}, []DefKV{{K: "W", V: obj("w", leaf)}}, map[string]interface{}{"w": w}
	case "ref.ref":
		return &Schema{Ref: "W"}, []DefKV{{K: "W", V: obj("inner", &Schema{Ref: "W2"})}, {K: "W2", V: obj("w", leaf)}},
			map[string]interface{}{"inner": map[string]interface{}{"w": w}}
	case "allOf":
		return &Schema{AllOf: []*Schema{obj("w", leaf)}}, nil, map[string]interface{}{"w": w}
	}
	return leaf, nil, w
}

var bodySites = []string{"root", "prop", "nested", "items", "ref", "ref.ref", "allOf"}

func setDefs(s *Spec, defs []DefKV) {
	for _, d := range defs {
		found := false
		for i := range s.Defs {
			if s.Defs[i].K == d.K {
				s.Defs[i].V = d.V
				found = true
			}
		}
		if !found {
			s.Defs = append(s.Defs, d)
		}
	}
}

// Instantiate builds catalogue entry number i on a random base spec.
func Instantiate(g *G, i int) *CatEdit {
	base := g.Spec()
	nLeaf := len(leafCatalogue)
	paramSites := []string{"param.query", "param.header", "param.formData", "param.override"}
	total := nLeaf*len(paramSites) + nLeaf /*items*/ + nLeaf*len(bodySites) + len(structKinds) + len(respKinds)
	i = i % total
	switch {
	case i < nLeaf*len(paramSites):
		le := leafCatalogue[i%nLeaf]
		site := paramSites[i/nLeaf]
		in := strings.TrimPrefix(site, "param.")
		override := in == "override"
		if override {
			in = "query"
		}
		a := base.Clone()
		pi, op := pickOp(g, a, in == "formData")
		mk := func(s *Schema) *Param { return &Param{Name: "w", In: in, Chain: schemaToChain(s)} }
		pa, pb := mk(le.A()), mk(le.B())
		op.Params = append(filterParams(op.Params, "w"), pa)
		if override {
			// the same parameter is also declared for the whole path; the operation-level declaration overrides it
			pi.Params = append(filterParams(pi.Params, "w"), mk(le.A()))
		}
		b := a.Clone()
		opb := findOp(b, pi.URL, op.Method)
		opb.Params = append(filterParams(opb.Params, "w"), pb)
		return &CatEdit{Site: site, Kind: le.Kind, A: a, B: b, Witness: le.Witness, WKind: "param", PA: pa, PB: pb}
	case i < nLeaf*len(paramSites)+nLeaf:
		le := leafCatalogue[(i-nLeaf*len(paramSites))%nLeaf]
		if le.Type == "array" {
			le = leafCatalogue[0]
		}
		a := base.Clone()
		pi, op := pickOp(g, a, false)
		mk := func(s *Schema) *Param {
			return &Param{Name: "w", In: "query", Chain: append([]*Simple{{Type: "array", CF: "csv"}}, schemaToChain(s)...)}
		}
		pa, pb := mk(le.A()), mk(le.B())
		op.Params = append(filterParams(op.Params, "w"), pa)
		b := a.Clone()
		opb := findOp(b, pi.URL, op.Method)
		opb.Params = append(filterParams(opb.Params, "w"), pb)
		return &CatEdit{Site: "items", Kind: le.Kind, A: a, B: b, Witness: []interface{}{le.Witness}, WKind: "param", PA: pa, PB: pb}
	case i < nLeaf*len(paramSites)+nLeaf+nLeaf*len(bodySites):
		j := i - nLeaf*len(paramSites) - nLeaf
		le := leafCatalogue[j%nLeaf]
		site := bodySites[j/nLeaf]
		a := base.Clone()
		pi, op := pickOp(g, a, true)
		sa, da, w := wrap(site, le.A(), le.Witness)
		sb, db, _ := wrap(site, le.B(), le.Witness)
		op.Params = append(filterParams(op.Params, "body"), &Param{Name: "body", In: "body", Required: true, Chain: []*Simple{{}}, Schema: sa})
		setDefs(a, da)
		b := a.Clone()
		opb := findOp(b, pi.URL, op.Method)
		opb.Params = append(filterParams(opb.Params, "body"), &Param{Name: "body", In: "body", Required: true, Chain: []*Simple{{}}, Schema: sb})
		setDefs(b, db)
		return &CatEdit{Site: "body." + site, Kind: le.Kind, A: a, B: b, Witness: w, WKind: "body", SA: sa, SB: sb}
	case i < nLeaf*len(paramSites)+nLeaf+nLeaf*len(bodySites)+len(structKinds):
		return structural(g, base, structKinds[i-nLeaf*len(paramSites)-nLeaf-nLeaf*len(bodySites)])
	default:
		return respEdit(g, base, respKinds[i-nLeaf*len(paramSites)-nLeaf-nLeaf*len(bodySites)-len(structKinds)])
	}
}

func CatalogueSize() int {
	nLeaf := len(leafCatalogue)
	return nLeaf*4 + nLeaf + nLeaf*len(bodySites) + len(structKinds) + len(respKinds)
}

func filterParams(ps []*Param, name string) []*Param {
	var out []*Param
	for _, p := range ps {
		if p.Name != name {
			out = append(out, p)
		}
	}
	return out
}

var structKinds = []string{"endpoint:remove", "consumes:remove", "param:add-required", "param:optional->required", "param:in-change",
	"param:collectionFormat-change", "param:collectionFormat(omitted->pipes)", "param(header):collectionFormat(omitted->ssv)", "body.property:add-required", "body.property:becomes-required", "body:add-required", "body:optional->required",
	"param(header):optional->required", "param(formData):optional->required", "body.property(first):add-required", "consumes(operation):remove"}
var respKinds = []string{"response:remove", "response.property:remove", "response.header:remove", "response.enum:grow",
	"response.property(nested):remove", "response.enum(ref):grow", "response.property(last):remove", "response.property(last,ref):remove"}

func structural(g *G, base *Spec, kind string) *CatEdit {
	a := base.Clone()
	e := &CatEdit{Site: "struct", Kind: kind, WKind: "none"}
	switch kind {
	case "endpoint:remove":
		pi := a.Paths[0]
		if len(pi.Ops) < 2 {
			pickOp(g, a, true) // adds a post operation when needed
			if len(pi.Ops) < 2 {
				// a method the path does not have yet (a second "delete" would be the same endpoint, and removing one of the two no edit)
				used := map[string]bool{}
				for _, o := range pi.Ops {
					used[o.Method] = true
				}
				m := "delete"
				for _, c := range []string{"delete", "patch", "put", "post", "get", "head", "options"} {
					if !used[c] {
						m = c
						break
					}
				}
				pi.Ops = append(pi.Ops, &Operation{Method: m, Responses: []*Response{{Code: 200, Desc: "ok"}}, Params: pathParamsFor(pi)})
			}
		}
		// removing a deprecated endpoint is documented as compatible: the catalogue removes a live one
		for _, o := range pi.Ops {
			o.Deprecated = false
		}
		a.Normalize()
		b := a.Clone()
		b.Paths[0].Ops = b.Paths[0].Ops[1:]
		e.A, e.B, e.Witness = a, b, "request to "+pi.Ops[0].Method+" "+pi.URL
	case "consumes:remove":
		a.Consumes = []string{"application/json", "application/xml"}
		b := a.Clone()
		b.Consumes = []string{"application/json"}
		e.A, e.B, e.Witness = a, b, "request with Content-Type application/xml"
	case "consumes(operation):remove":
		// the operation's own list overrides the document's: a media type removed there is removed for that operation
		pi, op := pickOp(g, a, true)
		op.Params = append(filterParams(op.Params, "body"), &Param{Name: "body", In: "body", Required: true, Chain: []*Simple{{}}, Schema: &Schema{Type: []string{"object"}}})
		op.OpConsumes = []string{"application/json", "application/xml"}
		b := a.Clone()
		findOp(b, pi.URL, op.Method).OpConsumes = []string{"application/json"}
		e.A, e.B, e.Witness = a, b, "request to this operation with Content-Type application/xml"
	case "param:add-required":
		pi, op := pickOp(g, a, false)
		op.Params = filterParams(op.Params, "w")
		b := a.Clone()
		opb := findOp(b, pi.URL, op.Method)
		opb.Params = append(opb.Params, &Param{Name: "w", In: "query", Required: true, Chain: []*Simple{{Type: "string"}}})
		e.A, e.B, e.Witness = a, b, "request without query parameter w"
	case "param:optional->required":
		pi, op := pickOp(g, a, false)
		op.Params = append(filterParams(op.Params, "w"), &Param{Name: "w", In: "query", Chain: []*Simple{{Type: "string"}}})
		b := a.Clone()
		opb := findOp(b, pi.URL, op.Method)
		for _, p := range opb.Params {
			if p.Name == "w" {
				p.Required = true
			}
		}
		e.A, e.B, e.Witness = a, b, "request without query parameter w"
	case "param:in-change":
		pi, op := pickOp(g, a, false)
		op.Params = append(filterParams(op.Params, "w"), &Param{Name: "w", In: "query", Required: true, Chain: []*Simple{{Type: "string"}}})
		b := a.Clone()
		opb := findOp(b, pi.URL, op.Method)
		for _, p := range opb.Params {
			if p.Name == "w" {
				p.In = "header"
			}
		}
		e.A, e.B, e.Witness = a, b, "request carrying w in the query string only"
	case "param:collectionFormat-change", "param:collectionFormat(omitted->pipes)", "param(header):collectionFormat(omitted->ssv)":
		pi, op := pickOp(g, a, false)
		// an omitted collectionFormat means csv: going from omitted to another format breaks the same requests
		in, from, to := "query", "csv", "pipes"
		switch kind {
		case "param:collectionFormat(omitted->pipes)":
			from = ""
		case "param(header):collectionFormat(omitted->ssv)":
			in, from, to = "header", "", "ssv"
		}
		op.Params = append(filterParams(op.Params, "w"), &Param{Name: "w", In: in, Chain: []*Simple{{Type: "array", CF: from}, {Type: "integer"}}})
		b := a.Clone()
		opb := findOp(b, pi.URL, op.Method)
		for _, p := range opb.Params {
			if p.Name == "w" {
				p.Chain[0].CF = to
			}
		}
		e.A, e.B, e.Witness = a, b, "request with w=1,2 (csv): not an integer list under pipes"
	case "body.property:add-required", "body.property:becomes-required", "body.property(first):add-required":
		pi, op := pickOp(g, a, true)
		sa := &Schema{Type: []string{"object"}, Props: []KV{{K: "id", V: &Schema{Type: []string{"string"}}}}}
		if kind == "body.property(first):add-required" {
			// a free-form object gains its first, required property: one side declares no properties at all
			sa = &Schema{Type: []string{"object"}}
		}
		if kind == "body.property:becomes-required" {
			sa.Props = append(sa.Props, KV{K: "w", V: &Schema{Type: []string{"string"}}})
		}
		op.Params = append(filterParams(op.Params, "body"), &Param{Name: "body", In: "body", Required: true, Chain: []*Simple{{}}, Schema: sa})
		b := a.Clone()
		opb := findOp(b, pi.URL, op.Method)
		for _, p := range opb.Params {
			if p.In == "body" {
				if kind != "body.property:becomes-required" {
					p.Schema.Props = append(p.Schema.Props, KV{K: "w", V: &Schema{Type: []string{"string"}}})
				}
				p.Schema.Required = []string{"w"}
				e.SB = p.Schema
			}
		}
		e.A, e.B, e.Witness, e.WKind, e.SA = a, b, map[string]interface{}{"id": "x"}, "body", sa
	case "body:optional->required":
		pi, op := pickOp(g, a, true)
		sa := &Schema{Type: []string{"object"}, Props: []KV{{K: "id", V: &Schema{Type: []string{"string"}}}}}
		op.Params = append(filterParams(op.Params, "body"), &Param{Name: "body", In: "body", Chain: []*Simple{{}}, Schema: sa})
		b := a.Clone()
		opb := findOp(b, pi.URL, op.Method)
		for _, p := range opb.Params {
			if p.In == "body" {
				p.Required = true
			}
		}
		e.A, e.B, e.Witness = a, b, "request without a body"
	case "param(header):optional->required", "param(formData):optional->required":
		in := "header"
		if strings.Contains(kind, "formData") {
			in = "formData"
		}
		pi, op := pickOp(g, a, in == "formData")
		if in == "formData" {
			op.Params = filterParams(op.Params, "body")
		}
		op.Params = append(filterParams(op.Params, "w"), &Param{Name: "w", In: in, Chain: []*Simple{{Type: "string"}}})
		b := a.Clone()
		opb := findOp(b, pi.URL, op.Method)
		for _, p := range opb.Params {
			if p.Name == "w" {
				p.Required = true
			}
		}
		e.A, e.B, e.Witness = a, b, "request without "+in+" parameter w"
	case "body:add-required":
		pi, op := pickOp(g, a, true)
		op.Params = filterParams(op.Params, "body")
		b := a.Clone()
		opb := findOp(b, pi.URL, op.Method)
		opb.Params = append(opb.Params, &Param{Name: "body", In: "body", Required: true, Chain: []*Simple{{}}, Schema: &Schema{Type: []string{"object"}}})
		e.A, e.B, e.Witness = a, b, "request without a body"
	}
	return e
}

func pathParamsFor(pi *PathItem) []*Param {
	var out []*Param
	for _, v := range pathVars(pi.URL) {
		have := false
		for _, p := range pi.Params {
			if p.In == "path" && p.Name == v {
				have = true
			}
		}
		if !have {
			out = append(out, &Param{Name: v, In: "path", Required: true, Chain: []*Simple{{Type: "string"}}})
		}
	}
	return out
}

func respEdit(g *G, base *Spec, kind string) *CatEdit {
	a := base.Clone()
	pi, op := pickOp(g, a, false)
	e := &CatEdit{Site: "resp", Kind: kind, WKind: "none"}
	body := func(s *Schema) *Response { return &Response{Code: 200, Desc: "ok", Schema: s} }
	setResp := func(o *Operation, r *Response) {
		var rs []*Response
		for _, x := range o.Responses {
			if x.Code != r.Code {
				rs = append(rs, x)
			}
		}
		o.Responses = append(rs, r)
	}
	obj := func(props ...KV) *Schema { return &Schema{Type: []string{"object"}, Props: props} }
	str := func() *Schema { return &Schema{Type: []string{"string"}} }
	enumS := func(vs ...interface{}) *Schema { s := str(); s.Enum = enumOf(vs...); return s }
	var ra, rb *Response
	switch kind {
	case "response:remove":
		setResp(op, body(str()))
		setResp(op, &Response{Code: 404, Desc: "gone", Schema: str()})
		b := a.Clone()
		opb := findOp(b, pi.URL, op.Method)
		var rs []*Response
		for _, x := range opb.Responses {
			if x.Code != 404 {
				rs = append(rs, x)
			}
		}
		opb.Responses = rs
		e.A, e.B, e.Witness = a, b, "client handling the documented 404 response"
		return e
	case "response.property:remove":
		ra, rb = body(obj(KV{"id", str()}, KV{"w", str()})), body(obj(KV{"id", str()}))
	case "response.property(nested):remove":
		ra, rb = body(obj(KV{"o", obj(KV{"id", str()}, KV{"w", str()})})), body(obj(KV{"o", obj(KV{"id", str()})}))
	case "response.property(last):remove":
		// the last declared property goes: one side declares no properties at all
		ra, rb = body(obj(KV{"w", str()})), body(obj())
	case "response.property(last,ref):remove":
		setDefs(a, []DefKV{{K: "WL", V: obj(KV{"w", str()})}})
		ra = body(&Schema{Ref: "WL"})
		setResp(op, ra)
		b := a.Clone()
		setDefs(b, []DefKV{{K: "WL", V: obj()}})
		e.A, e.B, e.Witness = a, b, "client reading the documented property WL.w"
		return e
	case "response.header:remove":
		ra = body(str())
		ra.Headers = []*Header{{Name: "X-W", Chain: []*Simple{{Type: "string"}}}}
		rb = body(str())
	case "response.enum:grow":
		ra, rb = body(obj(KV{"w", enumS("a")})), body(obj(KV{"w", enumS("a", "b")}))
	case "response.enum(ref):grow":
		setDefs(a, []DefKV{{K: "WR", V: obj(KV{"b", &Schema{Ref: "WB"}})}, {K: "WB", V: obj(KV{"y", enumS("a")})}})
		ra = body(&Schema{Ref: "WR"})
		setResp(op, ra)
		b := a.Clone()
		setDefs(b, []DefKV{{K: "WB", V: obj(KV{"y", enumS("a", "b")})}})
		e.A, e.B, e.Witness = a, b, "client that switches over the documented enum values of WB.y"
		return e
	}
	setResp(op, ra)
	b := a.Clone()
	setResp(findOp(b, pi.URL, op.Method), rb)
	e.A, e.B, e.Witness = a, b, "client reading the documented response"
	return e
}

// ---- reference semantics for witnesses ----

func toSpecSchema(s *Schema) *spec.Schema {
	b, _ := json.Marshal(s.Render())
	var out spec.Schema
	_ = json.Unmarshal(b, &out)
	return &out
}

func acceptsBody(root *Spec, s *Schema, doc interface{}) (ok bool, err string) {
	defer func() {
		if r := recover(); r != nil {
			ok, err = false, fmt.Sprint("validator panic: ", r)
		}
	}()
	var rootDoc interface{}
	_ = json.Unmarshal(SwaggerJSON(root), &rootDoc)
	// JSON round trip of the witness so that numbers are float64 as after decoding
	wb, _ := json.Marshal(doc)
	var w interface{}
	_ = json.Unmarshal(wb, &w)
	sch := toSpecSchema(s)
	if e := spec.ExpandSchema(sch, rootDoc, nil); e != nil {
		return false, "expand: " + e.Error()
	}
	res := validate.NewSchemaValidator(sch, rootDoc, "", strfmt.Default).Validate(w)
	if res.HasErrors() {
		return false, res.AsError().Error()
	}
	return true, ""
}

func acceptsParam(p *Param, v interface{}) (ok bool, err string) {
	defer func() {
		if r := recover(); r != nil {
			ok, err = false, fmt.Sprint("validator panic: ", r)
		}
	}()
	b, _ := json.Marshal(p.Render())
	var sp spec.Parameter
	_ = json.Unmarshal(b, &sp)
	res := validate.NewParamValidator(&sp, strfmt.Default).Validate(v)
	if res.HasErrors() {
		return false, res.AsError().Error()
	}
	return true, ""
}

// CheckC13 — every narrowing edit of the catalogue must yield a Breaking entry and a non-zero exit status.
func CheckC13(run *ev.Run) {
	lab := NewLab()
	defer lab.Close()
	r := rng.New(uint64(run.Seed) + 13)
	rounds := 1
	if run.Tier == "thorough" {
		rounds = 12
	}
	if !run.Lean.OK {
		rounds *= 2
	}
	st := stats{}
	run.Rule = fmt.Sprintf("edit catalogue of %d entries (27 constraint narrowings x {query, header, formData parameter, array items, body schema at 7 depths incl. "+
		"$ref, nested $ref, allOf, array items, nested property}, 9 structural request edits, 6 response-side edits), each instantiated on a fresh random base spec; "+
		"the witness value is validated against the old and new parameter / body schema with go-openapi/validate (accepted before, rejected after); the real report "+
		"must contain a Breaking entry and text mode must exit non-zero; distinct = catalogue entry", CatalogueSize())
	run.Trusted = append(run.Trusted, "vx extract (compatibility tables from live maps)", "difflab edit catalogue and its witnesses",
		"go-openapi/validate as reference for request acceptance (ParamValidator, SchemaValidator)")
	run.Assume = append(run.Assume, "structural and response-side edits are breaking by the property's own list (no request validator involved)",
		"int32/int64 range narrowing is not in the catalogue (the reference validator does not range-check formats)")
	for round := 0; round < rounds; round++ {
		for i := 0; i < CatalogueSize(); i++ {
			g := &G{R: r.Fork(), O: GenOpts{MaxDepth: 2}}
			e := Instantiate(g, i)
			s := &Sample{Kind: "pair", A: e.A, B: e.B, Log: EditLog{e.Key()}}
			s.render()
			// witness check with the reference validator
			switch e.WKind {
			case "param":
				okA, errA := acceptsParam(e.PA, e.Witness)
				okB, _ := acceptsParam(e.PB, e.Witness)
				if !okA || okB {
					st["witness-not-confirmed:"+e.Key()]++
					run.Extra["witness-not-confirmed:"+e.Key()] = fmt.Sprintf("old accepts=%v (%s), new accepts=%v", okA, errA, okB)
					continue
				}
			case "body":
				okA, errA := acceptsBody(e.A, e.SA, e.Witness)
				okB, _ := acceptsBody(e.B, e.SB, e.Witness)
				if !okA || okB {
					st["witness-not-confirmed:"+e.Key()]++
					run.Extra["witness-not-confirmed:"+e.Key()] = fmt.Sprintf("old accepts=%v (%s), new accepts=%v", okA, errA, okB)
					continue
				}
			}
			model, real, verdict := lab.Compare(e.A, e.B, s.JA, s.JB)
			run.Traces++
			run.Case(e.Key())
			st["verdict:"+verdict]++
			if verdict != "agree" && verdict != "order-sensitive" {
				run.Broken("corr:C13:"+e.Key(), "Lean model and diff.Compare disagree: "+verdict,
					s.Replay(map[string]interface{}{"model": model.Raw, "real": real.Raw, "real_r": real.R}))
			}
			if real.R != "ok" {
				st["real:"+real.R]++
				continue
			}
			breaking := 0
			for _, d := range real.Diffs {
				if d.Compat == 0 {
					breaking++
				}
			}
			extra := map[string]interface{}{"edit": e.Key(), "witness": e.Witness, "reported": real.Raw}
			if breaking == 0 {
				st["undetected"]++
				key := e.FindingKey()
				if !run.IsKnown(key) && !lab.validBoth(s) {
					st["undetected-on-invalid-spec:"+e.Key()]++
					continue
				}
				run.Deviation(key, fmt.Sprintf("request/response-breaking edit %s is not reported as Breaking (report has %d entries, none Breaking)", e.Key(), len(real.Diffs)), s.Replay(extra))
				continue
			}
			st["detected"]++
			// exit status in text mode
			t := lab.runCmd(s.JA, s.JB, "txt", false, nil)
			if t.R == "ok" && !t.Failed {
				run.Deviation("exit0:"+e.Key(), "a Breaking change is reported but `swagger diff` exits 0 in text mode", s.Replay(extra))
			}
			if len(run.Samples) < 4 && i%17 == 3 {
				run.Sample(map[string]interface{}{"edit": e.Key(), "witness": e.Witness, "reported": multiset(real.Diffs, true)})
			}
		}
	}
	run.Extra["distribution"] = st
	run.Extra["catalogue_size"] = CatalogueSize()
	if run.Tier == "quick" || rounds >= 1 {
		run.Extra["exhaustive_over_catalogue"] = true
	}
}
