package difflab

import (
	"encoding/json"
	"fmt"
	"os"
	"path/filepath"
	"sort"
	"time"

	"github.com/go-openapi/loads"
	"github.com/go-openapi/strfmt"
	"github.com/go-openapi/validate"

	"verif/harness/internal/ev"
	"verif/harness/internal/proc"
)

// Lab holds the two line-protocol processes: the Lean model driver and the worker calling the real code.
type Lab struct {
	Model *proc.P
	Real  *proc.P
	Flags map[string]bool // behaviour flags of the current tree (probed), passed to the model
	// Crashes counts worker crashes and timeouts; past the budget the real side is no longer called (a mutant that hangs on
	// every other input would otherwise cost a timeout per sample)
	Crashes int
}

const crashBudget = 8

func DriverPath() string {
	return filepath.Join(ev.VerifDir(), "lean", ".lake", "build", "bin", "gsdriver")
}

func NewLab() *Lab {
	self, _ := os.Executable()
	l := &Lab{
		Model: proc.New(20*time.Second, DriverPath()),
		Real:  proc.New(10*time.Second, self, "worker"),
	}
	l.Real.Env = []string{"GOMEMLIMIT=2GiB"}
	return l
}

func (l *Lab) Close() { l.Model.Close(); l.Real.Close() }

func SwaggerJSON(s *Spec) []byte {
	b, _ := json.Marshal(s.Render())
	return b
}

// IsValid runs the reference validator on a rendered document.
func IsValid(doc []byte) bool {
	d, err := loads.Analyzed(json.RawMessage(doc), "")
	if err != nil {
		return false
	}
	v := validate.NewSpecValidator(d.Schema(), strfmt.Default)
	v.SetContinueOnErrors(true)
	res, _ := v.Validate(d)
	return res.IsValid()
}

// Valid asks the worker (crash-safe: the reference validator can overflow its stack) whether doc is valid.
func (l *Lab) Valid(doc []byte) bool {
	req, _ := json.Marshal(map[string]interface{}{"op": "diff.valid", "a": json.RawMessage(doc)})
	out, err := l.Real.Call(req)
	if err != nil {
		return false
	}
	var r struct {
		Valid bool `json:"valid"`
	}
	_ = json.Unmarshal(out, &r)
	return r.Valid
}

// RunReal runs the real analyser (in the worker process) on two rendered documents.
func (l *Lab) RunReal(a, b []byte) *Result {
	if l.Crashes >= crashBudget {
		return &Result{R: "crash", Why: "worker crash budget exhausted"}
	}
	req, _ := json.Marshal(map[string]interface{}{"op": "diff.analyse", "a": json.RawMessage(a), "b": json.RawMessage(b)})
	out, err := l.Real.Call(req)
	if err != nil {
		l.Crashes++
		return &Result{R: map[error]string{proc.ErrTimeout: "timeout", proc.ErrCrash: "crash"}[err], Why: err.Error()}
	}
	r, err := ParseResult(out)
	if err != nil {
		return &Result{R: "crash", Why: "unparsable worker output"}
	}
	return r
}

// RunModel runs the Lean model on the pair (model encoding).
func (l *Lab) RunModel(a, b *Spec) *Result {
	m := map[string]interface{}{"op": "diff.analyse", "a": a, "b": b}
	for k, v := range l.Flags {
		m[k] = v
	}
	req, _ := json.Marshal(m)
	out, err := l.Model.Call(req)
	if err != nil {
		return &Result{R: "model-" + err.Error()}
	}
	r, err := ParseResult(out)
	if err != nil {
		return &Result{R: "model-unparsable"}
	}
	return r
}

func multiset(es []Entry, withInfo bool) []string {
	out := make([]string, 0, len(es))
	for _, e := range es {
		out = append(out, e.Key(withInfo))
	}
	sort.Strings(out)
	return out
}

func eqStrs(a, b []string) bool {
	if len(a) != len(b) {
		return false
	}
	for i := range a {
		if a[i] != b[i] {
			return false
		}
	}
	return true
}

// Agreement classifies a model/real comparison: "agree", "order-sensitive", or a description of the disagreement.
// The model is evaluated under several iteration orders (`alts`); the real code agrees when its canonical output is
// the one the model produces under at least one of them.
func Agreement(model, real *Result) string {
	all := append([]*Result{model}, model.Alts...)
	for _, m := range all {
		if m.R == "fuel" {
			if real.R == "crash" || real.R == "timeout" {
				return "agree" // neither returns: the model exhausts its fuel, the implementation its stack / its time
			}
			return "model-fuel"
		}
		if m.R != "ok" && m.R != "panic" {
			return "model-error:" + m.R
		}
	}
	sensitive := false
	m0 := multiset(model.Diffs, false)
	for _, m := range model.Alts {
		if m.R != model.R || !eqStrs(multiset(m.Diffs, false), m0) {
			sensitive = true
		}
	}
	rm := multiset(real.Diffs, false)
	for _, m := range all {
		if m.R == "panic" && real.R == "panic" {
			return "agree"
		}
		if m.R == "ok" && real.R == "ok" && eqStrs(multiset(m.Diffs, false), rm) {
			return "agree"
		}
	}
	if sensitive {
		return "order-sensitive"
	}
	if model.R == "panic" {
		return fmt.Sprintf("model panics (%s), real: %s", model.Why, real.R)
	}
	if real.R != "ok" {
		return fmt.Sprintf("real %s (%s), model ok", real.R, real.Why)
	}
	return "diffs differ: " + firstDelta(m0, rm)
}

// Compare runs both sides; on a disagreement the real code is re-run (its map iteration order changes from run to
// run) before the disagreement is believed.
func (l *Lab) Compare(a, b *Spec, ja, jb []byte) (model, real *Result, verdict string) {
	model = l.RunModel(a, b)
	real = l.RunReal(ja, jb)
	verdict = Agreement(model, real)
	if verdict == "agree" || verdict == "order-sensitive" || real.R == "crash" || real.R == "timeout" {
		return
	}
	first := multiset(real.Diffs, false)
	for i := 0; i < 8; i++ {
		r2 := l.RunReal(ja, jb)
		v2 := Agreement(model, r2)
		if v2 == "agree" {
			return model, r2, "order-sensitive"
		}
		if r2.R != real.R || !eqStrs(multiset(r2.Diffs, false), first) {
			return model, real, "order-sensitive"
		}
	}
	return
}

func firstDelta(model, real []string) string {
	cnt := map[string]int{}
	for _, x := range model {
		cnt[x]++
	}
	for _, x := range real {
		cnt[x]--
	}
	var ks []string
	for k, v := range cnt {
		if v != 0 {
			ks = append(ks, fmt.Sprintf("%+d %s", v, k))
		}
	}
	sort.Strings(ks)
	if len(ks) > 4 {
		ks = ks[:4]
	}
	return fmt.Sprintf("(+model/-real) %v", ks)
}
