package difflab

// Stored minimal witnesses (the same documents as the counterexample theorems of lean/GsModel/Props/C12.lean …).
type Witness struct {
	Key  string
	What string
	S    *Sample
}

func getOp(params []*Param, resps ...*Response) *Spec {
	if len(resps) == 0 {
		resps = []*Response{{Code: 200, Desc: "ok"}}
	}
	s := &Spec{Paths: []*PathItem{{URL: "/a", Ops: []*Operation{{Method: "get", Params: params, Responses: resps}}}}}
	return s
}

func corpusArrayDefault() *Sample {
	a := getOp([]*Param{{Name: "ids", In: "query", Chain: []*Simple{
		{Type: "array", Default: MkJV([]interface{}{"a"})}, {Type: "string"}}}})
	return &Sample{Kind: "self", A: a, B: a}
}

func corpusMaxLength() (*Spec, *Spec) {
	mk := func(n int64) *Spec {
		return getOp([]*Param{{Name: "q", In: "query", Chain: []*Simple{{Type: "string", Valids: Valids{MaxLen: i64(n)}}}}})
	}
	return mk(10), mk(5)
}

func specWithBody(s *Schema, defs ...DefKV) *Spec {
	sp := getOp(nil, &Response{Code: 200, Desc: "ok", Schema: s})
	sp.Defs = defs
	return sp
}

func CorpusC12() []Witness {
	tuple := specWithBody(&Schema{Type: []string{"object"}, Props: []KV{{K: "t", V: &Schema{Type: []string{"array"},
		Items: &Items{Many: []*Schema{{Type: []string{"string"}}, {Type: []string{"integer"}}}}}}}})
	defA := DefKV{K: "A", V: &Schema{Type: []string{"string"}}}
	refP := specWithBody(&Schema{Type: []string{"object"}, Props: []KV{{K: "p", V: &Schema{Ref: "A"}}}}, defA)
	untP := specWithBody(&Schema{Type: []string{"object"}, Props: []KV{{K: "p", V: &Schema{}}}}, defA)
	r200 := getOp(nil, &Response{Code: 200, Desc: "ok"})
	r200204 := getOp(nil, &Response{Code: 200, Desc: "ok"}, &Response{Code: 204, Desc: "none"})
	arrTuple := specWithBody(&Schema{Type: []string{"array"}, Items: &Items{Many: []*Schema{{Type: []string{"string"}}}}})
	// a VALID document on which the analyser's recursion has no bound: an inline schema with properties of its own and an allOf
	// member that refers back to an enclosing definition (propertiesFor follows allOf $refs without the visited-key test)
	recX := &Schema{Type: []string{"object"}, Props: []KV{{K: "q", V: &Schema{Type: []string{"string"}}}}, AllOf: []*Schema{{Ref: "A"}}}
	recA := &Schema{Type: []string{"object"}, Props: []KV{{K: "own", V: &Schema{Type: []string{"string"}}}}, AllOf: []*Schema{{Ref: "B"}}}
	recB := &Schema{Type: []string{"object"}, Props: []KV{{K: "x", V: recX}, {K: "n", V: &Schema{Type: []string{"string"}}}}}
	rec := specWithBody(recX, DefKV{K: "A", V: recA}, DefKV{K: "B", V: recB})
	return []Witness{
		{"hang:unbounded-recursion-through-allOf-ref", "self-diff of a valid spec whose inline schema (own properties + allOf: [$ref A]) is reached again through A's allOf ancestry never returns (stack overflow / out of memory)", &Sample{Kind: "self", A: rec, B: rec}},
		{"panic:isRefType:nil-deref", "self-diff of a spec with an array schema whose items are a tuple panics (nil Items.Schema)", &Sample{Kind: "self", A: arrTuple, B: arrTuple}},
		{"panic:compareSimpleSchema:uncomparable", "self-diff of a spec whose array parameter has an array-valued default panics (interface comparison)", corpusArrayDefault()},
		{"panic:getTypeFromSchemaProps:nil-deref", "self-diff of a spec with a tuple-typed property (items: [..]) panics (Items.Schema is nil)", &Sample{Kind: "self", A: tuple, B: tuple}},
		{"panic:getTypeFromSchema:index-out-of-range", "a property that is a $ref in one spec and the untyped schema {} in the other panics (Type[0])", &Sample{Kind: "pair", A: refP, B: untP}},
		{"panic:getSchemaDiffNode:nil-deref", "a response code added without a body schema (e.g. 204) panics (nil *spec.Schema inside a non-nil interface)", &Sample{Kind: "pair", A: r200, B: r200204}},
	}
}

// CorpusC15: pairs whose report holds entries that differ in exactly one component of the location (nesting depth, field
// name, response code, method, url): what an ignore entry must discriminate.
type PairCase struct {
	Name string
	A, B *Spec
}

func CorpusC15() []PairCase {
	str := func() *Schema { return &Schema{Type: []string{"string"}} }
	obj := func(req []string, props ...KV) *Schema { return &Schema{Type: []string{"object"}, Props: props, Required: req} }
	body := func(s *Schema) []*Param {
		return []*Param{{Name: "body", In: "body", Required: true, Chain: []*Simple{{}}, Schema: s}}
	}
	mk := func(bodyS *Schema, desc string, extra ...*PathItem) *Spec {
		op := &Operation{Method: "post", Desc: desc, Params: body(bodyS), Responses: []*Response{{Code: 200, Desc: "ok", Schema: str()}, {Code: 201, Desc: "ok", Schema: str()}}}
		get := &Operation{Method: "get", Responses: []*Response{{Code: 200, Desc: "ok", Schema: str()}}}
		return &Spec{Paths: append([]*PathItem{{URL: "/a", Ops: []*Operation{op, get}}}, extra...)}
	}
	// nested: property a and nested a.b both become required (same code, compat, info, url, method; node chain of one is a prefix of the other's)
	nestedA := mk(obj(nil, KV{"a", obj(nil, KV{"b", str()}, KV{"c", str()})}), "")
	nestedB := mk(obj([]string{"a"}, KV{"a", obj([]string{"b", "c"}, KV{"b", str()}, KV{"c", str()})}), "")
	// same change under two response codes and two methods
	respA := mk(str(), "")
	respB := mk(str(), "")
	for _, op := range respB.Paths[0].Ops {
		for _, r := range op.Responses {
			r.Schema = &Schema{Type: []string{"integer"}}
		}
	}
	// same change at two urls
	other := func(t string) *PathItem {
		return &PathItem{URL: "/b", Ops: []*Operation{{Method: "post", Params: body(&Schema{Type: []string{t}}), Responses: []*Response{{Code: 200, Desc: "ok"}}}}}
	}
	urlA := mk(str(), "", other("string"))
	urlB := mk(&Schema{Type: []string{"integer"}}, "", other("integer"))
	return []PairCase{{"nested-required", nestedA, nestedB}, {"two-codes-two-methods", respA, respB}, {"two-urls", urlA, urlB}}
}

// CorpusC14: fixed pairs for the both-orders sweep — shapes the random edits reach rarely: an allOf member that refers to a
// definition on ONE side only, with that definition itself changed (description / property type / new property), the
// definition not otherwise the root of a compared parameter or response.
func CorpusC14() []PairCase {
	i64s := func() *Schema { return &Schema{Type: []string{"integer"}, Format: "int64"} }
	str := func() *Schema { return &Schema{Type: []string{"string"}} }
	mk := func(pet *Schema, entity *Schema, inBody bool) *Spec {
		var sp *Spec
		if inBody {
			sp = getOp([]*Param{{Name: "body", In: "body", Required: true, Chain: []*Simple{{}}, Schema: &Schema{Ref: "Pet"}}})
		} else {
			sp = getOp(nil, &Response{Code: 200, Desc: "ok", Schema: &Schema{Ref: "Pet"}})
		}
		sp.Defs = []DefKV{{K: "Entity", V: entity}, {K: "Pet", V: pet}}
		return sp
	}
	pet := func(withAllOf bool) *Schema {
		p := &Schema{Type: []string{"object"}, Props: []KV{{K: "id", V: i64s()}, {K: "name", V: str()}}}
		if withAllOf {
			p.AllOf = []*Schema{{Ref: "Entity"}}
		}
		return p
	}
	ent := func(desc string, idType *Schema, extra bool) *Schema {
		e := &Schema{Type: []string{"object"}, Desc: desc, Props: []KV{{K: "id", V: idType}}}
		if extra {
			e.Props = append(e.Props, KV{K: "rev", V: str()})
		}
		return e
	}
	var out []PairCase
	for _, inBody := range []bool{false, true} {
		w := "response"
		if inBody {
			w = "body"
		}
		out = append(out,
			PairCase{"allOf-ref-one-side+desc:" + w, mk(pet(false), ent("", i64s(), false), inBody), mk(pet(true), ent("fields shared by every stored object", i64s(), false), inBody)},
			PairCase{"allOf-ref-one-side+type:" + w, mk(pet(false), ent("", i64s(), false), inBody), mk(pet(true), ent("", str(), false), inBody)},
			PairCase{"allOf-ref-one-side+prop:" + w, mk(pet(false), ent("", i64s(), false), inBody), mk(pet(true), ent("", i64s(), true), inBody)},
			PairCase{"allOf-ref-both-sides+type:" + w, mk(pet(true), ent("", i64s(), false), inBody), mk(pet(true), ent("", str(), false), inBody)},
		)
	}
	return out
}
