// Package difflab ties the Lean model of cmd/swagger/commands/diff to the real package: it generates
// pairs of specs in the model's own encoding, renders them to Swagger JSON for the real analyser, runs both
// and compares canonical outputs.
package difflab

import (
	"encoding/json"
	"fmt"
	"sort"
	"strings"
)

// JV is an interface{} value as the model sees it.
type JV struct {
	K   int         `json:"k"`
	C   string      `json:"c"`
	S   string      `json:"s"`
	Raw interface{} `json:"-"`
}

func MkJV(v interface{}) *JV {
	if v == nil {
		return nil
	}
	k := 0
	switch v.(type) {
	case bool:
		k = 1
	case float64, int, int64:
		k = 2
	case string:
		k = 3
	case []interface{}:
		k = 4
	case map[string]interface{}:
		k = 5
	}
	if i, ok := v.(int); ok {
		v = float64(i)
	}
	c, _ := json.Marshal(v)
	return &JV{K: k, C: string(c), S: fmt.Sprintf("%v", v), Raw: v}
}

type Valids struct {
	Max        *int64 `json:"max"` // scaled by 1000
	XMax       bool   `json:"xmax"`
	Min        *int64 `json:"min"`
	XMin       bool   `json:"xmin"`
	MaxLen     *int64 `json:"maxLen"`
	MinLen     *int64 `json:"minLen"`
	Pattern    string `json:"pattern"`
	MaxItems   *int64 `json:"maxItems"`
	MinItems   *int64 `json:"minItems"`
	Unique     bool   `json:"unique"`
	MultipleOf *int64 `json:"multipleOf"` // scaled by 1000
	Enum       []*JV  `json:"enum"`
}

type Simple struct {
	Type     string `json:"type"`
	Format   string `json:"format"`
	CF       string `json:"cf"`
	Nullable bool   `json:"nullable"`
	Default  *JV    `json:"default"`
	Example  *JV    `json:"example"`
	Valids
}

type KV struct {
	K string  `json:"k"`
	V *Schema `json:"v"`
}

type Items struct {
	One  *Schema   `json:"one,omitempty"`
	Many []*Schema `json:"many,omitempty"`
}

type Schema struct {
	Ref      string    `json:"ref"`
	Type     []string  `json:"type"`
	Format   string    `json:"format"`
	Desc     string    `json:"desc"`
	Required []string  `json:"required"`
	Props    []KV      `json:"props"` // nil = no "properties" key
	Items    *Items    `json:"items"`
	AllOf    []*Schema `json:"allOf"`
	Valids
	// outside the Lean model (rendered to Swagger only)
	Ext map[string]interface{} `json:"-"`
}

type Param struct {
	Name     string                 `json:"name"`
	In       string                 `json:"in"`
	Required bool                   `json:"required"`
	Desc     string                 `json:"desc"`
	Chain    []*Simple              `json:"chain"`
	Schema   *Schema                `json:"schema"`
	Ext      map[string]interface{} `json:"-"`
}

type Header struct {
	Name  string    `json:"name"`
	Chain []*Simple `json:"chain"`
}

type Response struct {
	Code    int       `json:"code"`
	Desc    string    `json:"desc"`
	Headers []*Header `json:"headers"`
	Schema  *Schema   `json:"schema"`
}

type Operation struct {
	Method     string      `json:"method"`
	Deprecated bool        `json:"deprecated"`
	Tags       []string    `json:"tags"` // nil = absent
	Desc       string      `json:"desc"`
	Params     []*Param    `json:"params"`
	Responses  []*Response `json:"responses"`
	// operation-level consumes (nil = absent); the analyser reads the document-level list only, and so does the Lean model
	// (which ignores this field): rendered to Swagger for the catalogue edit `consumes(operation):remove`
	OpConsumes []string               `json:"opConsumes,omitempty"`
	Ext        map[string]interface{} `json:"-"`
}

type PathItem struct {
	URL               string       `json:"url"`
	Params            []*Param     `json:"params"`
	OptionsDeprecated bool         `json:"optionsDeprecated"`
	Ops               []*Operation `json:"ops"`
}

type DefKV struct {
	K string  `json:"k"`
	V *Schema `json:"v"`
}

type Spec struct {
	Consumes []string               `json:"consumes"` // nil = absent
	Produces []string               `json:"produces"`
	Schemes  []string               `json:"schemes"`
	Host     string                 `json:"host"`
	BasePath string                 `json:"basePath"`
	InfoDesc string                 `json:"infoDesc"`
	Paths    []*PathItem            `json:"paths"`
	Defs     []DefKV                `json:"defs"`
	Ext      map[string]interface{} `json:"-"`
	// info.contact / info.license present (without extensions: the analyser looks only at their x- members, so presence
	// must change nothing — and must not crash it); outside the Lean model
	Contact bool `json:"-"`
	License bool `json:"-"`
}

// ---------- rendering to Swagger 2.0 JSON ----------

func f1000(p *int64) float64 { return float64(*p) / 1000 }

func (v *Valids) render(m map[string]interface{}) {
	if v.Max != nil {
		m["maximum"] = f1000(v.Max)
	}
	if v.XMax {
		m["exclusiveMaximum"] = true
	}
	if v.Min != nil {
		m["minimum"] = f1000(v.Min)
	}
	if v.XMin {
		m["exclusiveMinimum"] = true
	}
	if v.MaxLen != nil {
		m["maxLength"] = *v.MaxLen
	}
	if v.MinLen != nil {
		m["minLength"] = *v.MinLen
	}
	if v.Pattern != "" {
		m["pattern"] = v.Pattern
	}
	if v.MaxItems != nil {
		m["maxItems"] = *v.MaxItems
	}
	if v.MinItems != nil {
		m["minItems"] = *v.MinItems
	}
	if v.Unique {
		m["uniqueItems"] = true
	}
	if v.MultipleOf != nil {
		m["multipleOf"] = f1000(v.MultipleOf)
	}
	if len(v.Enum) > 0 {
		var e []interface{}
		for _, x := range v.Enum {
			e = append(e, x.Raw)
		}
		m["enum"] = e
	}
}

func renderChain(chain []*Simple, m map[string]interface{}) {
	if len(chain) == 0 {
		return
	}
	s := chain[0]
	if s.Type != "" {
		m["type"] = s.Type
	}
	if s.Format != "" {
		m["format"] = s.Format
	}
	if s.CF != "" {
		m["collectionFormat"] = s.CF
	}
	if s.Nullable {
		m["nullable"] = true
	}
	if s.Default != nil {
		m["default"] = s.Default.Raw
	}
	if s.Example != nil {
		m["example"] = s.Example.Raw
	}
	s.Valids.render(m)
	if len(chain) > 1 {
		it := map[string]interface{}{}
		renderChain(chain[1:], it)
		m["items"] = it
	}
}

func (s *Schema) Render() map[string]interface{} {
	m := map[string]interface{}{}
	if s.Ref != "" {
		m["$ref"] = "#/definitions/" + s.Ref
	}
	if len(s.Type) == 1 {
		m["type"] = s.Type[0]
	} else if len(s.Type) > 1 {
		m["type"] = s.Type
	}
	if s.Format != "" {
		m["format"] = s.Format
	}
	if s.Desc != "" {
		m["description"] = s.Desc
	}
	if len(s.Required) > 0 {
		m["required"] = s.Required
	}
	if s.Props != nil {
		p := map[string]interface{}{}
		for _, kv := range s.Props {
			p[kv.K] = kv.V.Render()
		}
		m["properties"] = p
	}
	if s.Items != nil {
		if s.Items.One != nil {
			m["items"] = s.Items.One.Render()
		} else {
			var l []interface{}
			for _, x := range s.Items.Many {
				l = append(l, x.Render())
			}
			if l == nil {
				l = []interface{}{}
			}
			m["items"] = l
		}
	}
	if len(s.AllOf) > 0 {
		var l []interface{}
		for _, x := range s.AllOf {
			l = append(l, x.Render())
		}
		m["allOf"] = l
	}
	s.Valids.render(m)
	for k, v := range s.Ext {
		m[k] = v
	}
	return m
}

func (p *Param) Render() map[string]interface{} {
	m := map[string]interface{}{"name": p.Name, "in": p.In}
	if p.Required {
		m["required"] = true
	}
	if p.Desc != "" {
		m["description"] = p.Desc
	}
	renderChain(p.Chain, m)
	if p.Schema != nil {
		m["schema"] = p.Schema.Render()
	}
	for k, v := range p.Ext {
		m[k] = v
	}
	return m
}

func (s *Spec) Render() map[string]interface{} {
	m := map[string]interface{}{
		"swagger": "2.0",
		"info":    map[string]interface{}{"title": "t", "version": "1"},
	}
	if s.InfoDesc != "" {
		m["info"].(map[string]interface{})["description"] = s.InfoDesc
	}
	if s.Contact {
		m["info"].(map[string]interface{})["contact"] = map[string]interface{}{"name": "n"}
	}
	if s.License {
		m["info"].(map[string]interface{})["license"] = map[string]interface{}{"name": "MIT"}
	}
	if s.Consumes != nil {
		m["consumes"] = s.Consumes
	}
	if s.Produces != nil {
		m["produces"] = s.Produces
	}
	if s.Schemes != nil {
		m["schemes"] = s.Schemes
	}
	if s.Host != "" {
		m["host"] = s.Host
	}
	if s.BasePath != "" {
		m["basePath"] = s.BasePath
	}
	paths := map[string]interface{}{}
	for _, pi := range s.Paths {
		pm := map[string]interface{}{}
		if len(pi.Params) > 0 {
			var l []interface{}
			for _, p := range pi.Params {
				l = append(l, p.Render())
			}
			pm["parameters"] = l
		}
		for _, op := range pi.Ops {
			om := map[string]interface{}{}
			if op.Deprecated {
				om["deprecated"] = true
			}
			if op.Tags != nil {
				om["tags"] = op.Tags
			}
			if op.OpConsumes != nil {
				om["consumes"] = op.OpConsumes
			}
			if op.Desc != "" {
				om["description"] = op.Desc
			}
			if len(op.Params) > 0 {
				var l []interface{}
				for _, p := range op.Params {
					l = append(l, p.Render())
				}
				om["parameters"] = l
			}
			rm := map[string]interface{}{}
			for _, r := range op.Responses {
				x := map[string]interface{}{"description": r.Desc}
				if len(r.Headers) > 0 {
					hm := map[string]interface{}{}
					for _, h := range r.Headers {
						y := map[string]interface{}{}
						renderChain(h.Chain, y)
						hm[h.Name] = y
					}
					x["headers"] = hm
				}
				if r.Schema != nil {
					x["schema"] = r.Schema.Render()
				}
				rm[fmt.Sprint(r.Code)] = x
			}
			om["responses"] = rm
			for k, v := range op.Ext {
				om[k] = v
			}
			pm[op.Method] = om
		}
		if pi.OptionsDeprecated {
			// rendered through the ops list: an "options" operation with deprecated=true
		}
		paths[pi.URL] = pm
	}
	m["paths"] = paths
	if len(s.Defs) > 0 {
		d := map[string]interface{}{}
		for _, kv := range s.Defs {
			d[kv.K] = kv.V.Render()
		}
		m["definitions"] = d
	}
	for k, v := range s.Ext {
		m[k] = v
	}
	return m
}

// Fix derived fields after generation/mutation (OptionsDeprecated follows the options operation).
func (s *Spec) Normalize() {
	for _, pi := range s.Paths {
		pi.OptionsDeprecated = false
		for _, op := range pi.Ops {
			if op.Method == "options" && op.Deprecated {
				pi.OptionsDeprecated = true
			}
		}
	}
}

// Clone deep-copies through JSON of the model encoding plus the Raw values (which JSON drops).
func (s *Spec) Clone() *Spec {
	b, _ := json.Marshal(s)
	var out Spec
	_ = json.Unmarshal(b, &out)
	out.fixRaw()
	return &out
}

func fixJV(j *JV) {
	if j != nil && j.Raw == nil {
		_ = json.Unmarshal([]byte(j.C), &j.Raw)
	}
}
func (v *Valids) fixRaw() {
	for _, e := range v.Enum {
		fixJV(e)
	}
}
func fixChain(c []*Simple) {
	for _, s := range c {
		fixJV(s.Default)
		fixJV(s.Example)
		s.Valids.fixRaw()
	}
}
func (s *Schema) fixRaw() {
	if s == nil {
		return
	}
	s.Valids.fixRaw()
	for _, kv := range s.Props {
		kv.V.fixRaw()
	}
	if s.Items != nil {
		s.Items.One.fixRaw()
		for _, x := range s.Items.Many {
			x.fixRaw()
		}
	}
	for _, x := range s.AllOf {
		x.fixRaw()
	}
}
func (s *Spec) fixRaw() {
	for _, pi := range s.Paths {
		for _, p := range pi.Params {
			fixChain(p.Chain)
			p.Schema.fixRaw()
		}
		for _, op := range pi.Ops {
			for _, p := range op.Params {
				fixChain(p.Chain)
				p.Schema.fixRaw()
			}
			for _, r := range op.Responses {
				for _, h := range r.Headers {
					fixChain(h.Chain)
				}
				r.Schema.fixRaw()
			}
		}
	}
	for _, kv := range s.Defs {
		kv.V.fixRaw()
	}
}

// CanonInfo sorts a comma-separated DiffInfo (enum joins are built in map order by the real code).
func CanonInfo(s string) string {
	if !strings.Contains(s, ",") {
		return s
	}
	p := strings.Split(s, ",")
	sort.Strings(p)
	return strings.Join(p, ",")
}
