package difflab

import (
	"fmt"
	"strings"

	"verif/harness/internal/rng"
)

// GenOpts selects which constructs the generator may use.
type GenOpts struct {
	Tuples        bool // items: [ ... ]
	ArrayDefaults bool // array-valued / object-valued defaults and examples on parameters
	Untyped       bool // schemas without a type
	Ext           bool // x- extensions (outside the Lean model)
	Examples      bool // `example` on non-body parameters (the analyser reads it; Swagger 2.0 forbids it)
	MaxDepth      int
}

var (
	propNames  = []string{"id", "name", "tags", "kind", "size", "owner", "meta", "items", "b", "y"}
	defNames   = []string{"A", "B", "Root", "Pet", "Tag", "Err"}
	paramNames = []string{"q", "limit", "ids", "X-Rate", "mode", "since", "flag"}
	urls       = []string{"/a", "/a/{id}", "/pets", "/pets/{id}/tags", "/b"}
	methods    = []string{"get", "post", "put", "delete", "patch", "options", "head"}
	mimes      = []string{"application/json", "application/xml", "text/plain", "application/x-yaml"}
	schemesL   = []string{"http", "https", "ws"}
	descs      = []string{"", "", "first", "second", "x"}
	tagsL      = []string{"pets", "admin", "store", "misc"}
	cfs        = []string{"", "csv", "pipes", "ssv", "tsv"}
	strFormats = []string{"", "", "date", "date-time", "uuid", "password", "byte"}
	intFormats = []string{"", "", "int32", "int64", "uint32"}
	numFormats = []string{"", "", "float", "double", "decimal"}
)

type G struct {
	R *rng.R
	O GenOpts
	// AllOfDefs: definitions an allOf member may reference (kept acyclic: only earlier definitions)
	AllOfDefs []string
	restrictAllOf bool
}

func (g *G) allOfTargets(defs []string) []string {
	if g.restrictAllOf {
		return g.AllOfDefs
	}
	return defs
}

func i64(v int64) *int64 { return &v }

func (g *G) optInt(choices []int64, num, den int) *int64 {
	if !g.R.Chance(num, den) {
		return nil
	}
	return i64(choices[g.R.Intn(len(choices))])
}

func (g *G) subset(xs []string, allowNil bool) []string {
	if allowNil && g.R.Chance(1, 3) {
		return nil
	}
	out := []string{}
	for _, x := range xs {
		if g.R.Chance(1, 2) {
			out = append(out, x)
		}
	}
	g.R.Shuffle(len(out), func(i, j int) { out[i], out[j] = out[j], out[i] })
	return out
}

var enumStr = []string{"a", "b", "c", "d", "e", "f"}
var enumInt = []int{1, 2, 3, 5, 8, 13}

func (g *G) validsFor(typ string, v *Valids) {
	switch typ {
	case "string":
		v.MinLen = g.optInt([]int64{0, 1, 2, 5}, 1, 4)
		v.MaxLen = g.optInt([]int64{5, 10, 20, 100}, 1, 4)
		if g.R.Chance(1, 6) {
			v.Pattern = g.R.Pick([]string{"^[a-z]+$", "^x", "\\d+"})
		}
		if g.R.Chance(1, 4) {
			for _, s := range g.subset(enumStr, false) {
				v.Enum = append(v.Enum, MkJV(s))
			}
		}
	case "integer", "number":
		v.Min = g.optInt([]int64{0, 1000, -1000, 500, 10000}, 1, 4)
		v.Max = g.optInt([]int64{100000, 50000, 20000, 1000000}, 1, 4)
		if v.Min != nil && g.R.Chance(1, 4) {
			v.XMin = true
		}
		if v.Max != nil && g.R.Chance(1, 4) {
			v.XMax = true
		}
		if g.R.Chance(1, 8) {
			v.MultipleOf = i64([]int64{1000, 2000, 5000}[g.R.Intn(3)])
		}
		if typ == "integer" && g.R.Chance(1, 6) {
			for _, s := range enumInt {
				if g.R.Chance(1, 2) {
					v.Enum = append(v.Enum, MkJV(s))
				}
			}
		}
	case "array":
		v.MinItems = g.optInt([]int64{0, 1, 2}, 1, 4)
		v.MaxItems = g.optInt([]int64{3, 5, 10}, 1, 4)
		if g.R.Chance(1, 6) {
			v.Unique = true
		}
	}
}

func (g *G) formatFor(typ string) string {
	switch typ {
	case "string":
		return g.R.Pick(strFormats)
	case "integer":
		return g.R.Pick(intFormats)
	case "number":
		return g.R.Pick(numFormats)
	}
	return ""
}

func (g *G) scalarValue(typ string) interface{} {
	switch typ {
	case "string":
		return g.R.Pick([]string{"a", "b", "zz"})
	case "integer":
		return float64([]int{1, 2, 10}[g.R.Intn(3)])
	case "number":
		return []float64{1, 2.5, 10}[g.R.Intn(3)]
	case "boolean":
		return g.R.Chance(1, 2)
	}
	return nil
}

// simple chain for a non-body parameter / header
func (g *G) chain(depth int) []*Simple {
	typ := g.R.Pick([]string{"string", "string", "integer", "number", "boolean", "array"})
	if depth >= 2 && typ == "array" {
		typ = "string"
	}
	s := &Simple{Type: typ}
	out := []*Simple{s}
	if typ == "array" {
		s.CF = g.R.Pick(cfs)
		g.validsFor("array", &s.Valids)
		rest := g.chain(depth + 1)
		out = append(out, rest...)
		if g.O.ArrayDefaults && g.R.Chance(1, 3) && rest[0].Type != "array" {
			s.Default = MkJV([]interface{}{g.scalarValue(rest[0].Type)})
		}
		if g.O.Examples && g.O.ArrayDefaults && g.R.Chance(1, 6) && rest[0].Type != "array" {
			s.Example = MkJV([]interface{}{g.scalarValue(rest[0].Type)})
		}
		return out
	}
	s.Format = g.formatFor(typ)
	if s.Format == "" {
		g.validsFor(typ, &s.Valids)
	} else if typ != "string" {
		g.validsFor(typ, &s.Valids)
	}
	if g.R.Chance(1, 5) && len(s.Enum) == 0 && s.Format == "" {
		s.Default = MkJV(g.scalarValue(typ))
		s.Valids = Valids{}
	}
	if g.O.Examples && g.R.Chance(1, 8) && s.Format == "" {
		s.Example = MkJV(g.scalarValue(typ))
	}
	if g.O.Examples && depth == 0 && g.R.Chance(1, 10) {
		s.Nullable = true
	}
	return out
}

func (g *G) schema(depth int, defs []string) *Schema {
	kinds := []string{"string", "integer", "number", "boolean", "object", "object", "array", "ref", "ref"}
	if g.O.Untyped {
		kinds = append(kinds, "untyped")
	}
	if depth < g.O.MaxDepth {
		kinds = append(kinds, "allOf")
	}
	k := g.R.Pick(kinds)
	if depth >= g.O.MaxDepth && (k == "object" || k == "array" || k == "allOf") {
		k = g.R.Pick([]string{"string", "integer", "ref"})
	}
	if k == "ref" && len(defs) == 0 {
		k = "string"
	}
	s := &Schema{Desc: g.R.Pick(descs)}
	switch k {
	case "ref":
		s.Ref = g.R.Pick(defs)
		s.Desc = ""
	case "untyped":
	case "object":
		s.Type = []string{"object"}
		g.objectBody(s, depth, defs)
	case "array":
		s.Type = []string{"array"}
		g.validsFor("array", &s.Valids)
		if g.O.Tuples && g.R.Chance(1, 5) {
			s.Items = &Items{Many: []*Schema{g.schema(depth+1, defs), g.schema(depth+1, defs)}}
		} else {
			s.Items = &Items{One: g.schema(depth+1, defs)}
		}
	case "allOf":
		n := 1 + g.R.Intn(2)
		for i := 0; i < n; i++ {
			if t := g.allOfTargets(defs); len(t) > 0 && g.R.Chance(1, 2) {
				s.AllOf = append(s.AllOf, &Schema{Ref: g.R.Pick(t)})
			} else {
				m := &Schema{Type: []string{"object"}}
				g.objectBody(m, depth+1, defs)
				s.AllOf = append(s.AllOf, m)
			}
		}
		if g.R.Chance(1, 2) {
			s.Type = []string{"object"}
			g.objectBody(s, depth, defs)
		}
	default:
		s.Type = []string{k}
		s.Format = g.formatFor(k)
		g.validsFor(k, &s.Valids)
	}
	return s
}

func (g *G) objectBody(s *Schema, depth int, defs []string) {
	if g.R.Chance(1, 8) {
		return // object without properties
	}
	names := g.subset(propNames, false)
	if len(names) > 4 {
		names = names[:4]
	}
	s.Props = []KV{}
	for _, n := range names {
		s.Props = append(s.Props, KV{K: n, V: g.schema(depth+1, defs)})
		if g.R.Chance(1, 3) {
			s.Required = append(s.Required, n)
		}
	}
}

func (g *G) param(in string, name string, defs []string) *Param {
	p := &Param{Name: name, In: in, Desc: g.R.Pick(descs)}
	switch in {
	case "body":
		p.Chain = []*Simple{{}}
		p.Schema = g.schema(0, defs)
		p.Required = g.R.Chance(1, 2)
	case "path":
		p.Required = true
		c := g.chain(2)
		c[0].Default = nil
		c[0].Nullable = false
		p.Chain = c
	default:
		p.Required = g.R.Chance(1, 3)
		p.Chain = g.chain(0)
		if p.Required {
			p.Chain[0].Default = nil
		}
	}
	return p
}

func pathVars(url string) []string {
	var out []string
	for _, seg := range strings.Split(url, "/") {
		if strings.HasPrefix(seg, "{") {
			out = append(out, strings.Trim(seg, "{}"))
		}
	}
	return out
}

func (g *G) operation(method, url string, defs []string, pathLevel map[string]bool) *Operation {
	op := &Operation{Method: method, Desc: g.R.Pick(descs), Deprecated: g.R.Chance(1, 8)}
	op.Tags = g.subset(tagsL, true)
	for _, v := range pathVars(url) {
		if !pathLevel[v] {
			op.Params = append(op.Params, g.param("path", v, defs))
		}
	}
	for _, n := range g.subset(paramNames, false) {
		if len(op.Params) >= 4 {
			break
		}
		in := g.R.Pick([]string{"query", "query", "header"})
		op.Params = append(op.Params, g.param(in, n, defs))
	}
	if method != "get" && method != "head" && g.R.Chance(1, 2) {
		op.Params = append(op.Params, g.param("body", "body", defs))
	} else if method != "get" && g.R.Chance(1, 5) {
		p := g.param("formData", "f1", defs)
		op.Params = append(op.Params, p)
	}
	codes := []int{200, 201, 400, 404, 500}
	for _, c := range codes {
		if g.R.Chance(1, 3) || (c == 200 && len(op.Responses) == 0) {
			r := &Response{Code: c, Desc: g.R.Pick([]string{"ok", "resp", "done"})}
			if g.R.Chance(2, 3) {
				r.Schema = g.schema(0, defs)
			}
			for _, hn := range []string{"X-Rate", "X-Count"} {
				if g.R.Chance(1, 5) {
					c := g.chain(1)
					c[0].Nullable = false
					r.Headers = append(r.Headers, &Header{Name: hn, Chain: c})
				}
			}
			op.Responses = append(op.Responses, r)
		}
	}
	return op
}

// Spec generates one base document.
func (g *G) Spec() *Spec {
	s := &Spec{
		Consumes: g.subset(mimes, true), Produces: g.subset(mimes, true), Schemes: g.subset(schemesL, true),
		Host: g.R.Pick([]string{"", "", "api.example.com"}), BasePath: g.R.Pick([]string{"", "", "/v1"}),
		InfoDesc: g.R.Pick(descs),
	}
	defs := g.subset(defNames, false)
	if len(defs) == 0 && g.R.Chance(2, 3) {
		defs = []string{"A"}
	}
	for i, d := range defs {
		g.restrictAllOf, g.AllOfDefs = true, defs[:i]
		sc := g.schema(0, defs)
		if sc.Ref == d { // trivial self-reference: not a valid document
			sc = &Schema{Type: []string{"object"}}
		}
		s.Defs = append(s.Defs, DefKV{K: d, V: sc})
	}
	g.restrictAllOf = false
	for _, u := range g.subset(urls, false) {
		pi := &PathItem{URL: u}
		pl := map[string]bool{}
		if g.R.Chance(1, 3) {
			for _, v := range pathVars(u) {
				pi.Params = append(pi.Params, g.param("path", v, defs))
				pl[v] = true
			}
			if g.R.Chance(1, 3) {
				pi.Params = append(pi.Params, g.param("query", "q", defs))
			}
		}
		for _, m := range g.subset(methods, false) {
			if len(pi.Ops) >= 3 {
				break
			}
			pi.Ops = append(pi.Ops, g.operation(m, u, defs, pl))
		}
		if len(pi.Ops) == 0 {
			pi.Ops = append(pi.Ops, g.operation("get", u, defs, pl))
		}
		s.Paths = append(s.Paths, pi)
	}
	if len(s.Paths) == 0 {
		s.Paths = append(s.Paths, &PathItem{URL: "/a", Ops: []*Operation{g.operation("get", "/a", defs, map[string]bool{})}})
	}
	if g.O.Ext && g.R.Chance(1, 2) {
		s.Ext = map[string]interface{}{"x-top": g.R.Pick([]string{"1", "2"})}
	}
	// presence of info.contact / info.license: derived from the shape of the spec, not from the generator's random stream
	// (the stored streams of the other checks stay what they were)
	s.Contact = (len(s.Defs)+len(s.Paths))%3 != 0
	s.License = len(s.Paths)%2 == 0
	s.Normalize()
	return s
}

// ---------- mutation: derive B from A by k elementary edits ----------

type EditLog []string

func (g *G) bumpInt(p **int64, choices []int64, what string, log *EditLog) {
	switch {
	case *p == nil:
		*p = i64(choices[g.R.Intn(len(choices))])
		*log = append(*log, what+":introduce")
	case g.R.Chance(1, 4):
		*p = nil
		*log = append(*log, what+":remove")
	case g.R.Chance(1, 2):
		v := **p + choices[g.R.Intn(len(choices))] + 1
		*p = &v
		*log = append(*log, what+":raise")
	default:
		v := **p - choices[g.R.Intn(len(choices))] - 1
		if v < 0 && !strings.Contains(what, "imum") {
			v = 0
		}
		*p = &v
		*log = append(*log, what+":lower")
	}
}

func (g *G) mutValids(typ string, v *Valids, where string, log *EditLog) {
	switch typ {
	case "string":
		switch g.R.Intn(4) {
		case 0:
			g.bumpInt(&v.MinLen, []int64{0, 1, 3}, where+".minLength", log)
		case 1:
			g.bumpInt(&v.MaxLen, []int64{4, 10, 30}, where+".maxLength", log)
		case 2:
			if v.Pattern == "" {
				v.Pattern = "^[a-z]+$"
				*log = append(*log, where+".pattern:introduce")
			} else {
				v.Pattern = v.Pattern + "x"
				*log = append(*log, where+".pattern:change")
			}
		case 3:
			g.mutEnum(v, func(i int) interface{} { return enumStr[i] }, where, log)
		}
	case "integer", "number":
		switch g.R.Intn(6) {
		case 0:
			g.bumpInt(&v.Min, []int64{0, 1000, 5000}, where+".minimum", log)
		case 1:
			g.bumpInt(&v.Max, []int64{20000, 50000, 70000}, where+".maximum", log)
		case 2:
			if v.Min != nil {
				v.XMin = !v.XMin
				*log = append(*log, where+".exclusiveMinimum:toggle")
			}
		case 3:
			if v.Max != nil {
				v.XMax = !v.XMax
				*log = append(*log, where+".exclusiveMaximum:toggle")
			}
		case 4:
			g.bumpInt(&v.MultipleOf, []int64{1000, 2000}, where+".multipleOf", log)
			if v.MultipleOf != nil && *v.MultipleOf <= 0 {
				v.MultipleOf = i64(1000)
			}
		case 5:
			if typ == "integer" {
				g.mutEnum(v, func(i int) interface{} { return enumInt[i] }, where, log)
			}
		}
	case "array":
		switch g.R.Intn(3) {
		case 0:
			g.bumpInt(&v.MinItems, []int64{0, 1}, where+".minItems", log)
		case 1:
			g.bumpInt(&v.MaxItems, []int64{3, 6}, where+".maxItems", log)
		case 2:
			v.Unique = !v.Unique
			*log = append(*log, where+".uniqueItems:toggle")
		}
	}
}

func (g *G) mutEnum(v *Valids, mk func(i int) interface{}, where string, log *EditLog) {
	if len(v.Enum) == 0 {
		for i := 0; i < 6; i++ {
			if g.R.Chance(1, 2) {
				v.Enum = append(v.Enum, MkJV(mk(i)))
			}
		}
		if len(v.Enum) == 0 {
			v.Enum = append(v.Enum, MkJV(mk(0)))
		}
		*log = append(*log, where+".enum:introduce")
		return
	}
	switch g.R.Intn(3) {
	case 0: // shrink
		if len(v.Enum) > 1 {
			i := g.R.Intn(len(v.Enum))
			v.Enum = append(append([]*JV{}, v.Enum[:i]...), v.Enum[i+1:]...)
			*log = append(*log, where+".enum:shrink")
		}
	case 1: // grow
		have := map[string]bool{}
		for _, e := range v.Enum {
			have[e.C] = true
		}
		for i := 0; i < 6; i++ {
			j := MkJV(mk(i))
			if !have[j.C] {
				v.Enum = append(v.Enum, j)
				*log = append(*log, where+".enum:grow")
				return
			}
		}
	case 2:
		v.Enum = nil
		*log = append(*log, where+".enum:remove")
	}
}

func (g *G) mutChain(c []*Simple, where string, log *EditLog, isPath bool) []*Simple {
	if len(c) == 0 {
		return c
	}
	lvl := g.R.Intn(len(c))
	s := c[lvl]
	w := where
	if lvl > 0 {
		w = fmt.Sprintf("%s.items%d", where, lvl)
	}
	switch g.R.Intn(7) {
	case 0, 1:
		if s.Format == "" || s.Type != "string" {
			if s.Default != nil {
				s.Default = nil
				*log = append(*log, w+".default:remove")
			}
			g.mutValids(s.Type, &s.Valids, w, log)
		}
	case 2:
		if s.Type == "array" {
			s.CF = g.R.Pick(cfs)
			*log = append(*log, w+".collectionFormat:change")
		}
	case 3:
		if s.Type != "array" && !isPath {
			if s.Default == nil {
				if len(s.Enum) == 0 && s.Format == "" {
					s.Default = MkJV(g.scalarValue(s.Type))
					s.Valids = Valids{}
					*log = append(*log, w+".default:add")
				}
			} else {
				s.Default = nil
				*log = append(*log, w+".default:remove")
			}
		}
	case 4:
		if s.Type != "array" {
			nt := g.R.Pick([]string{"string", "integer", "number", "boolean"})
			if nt != s.Type {
				*s = Simple{Type: nt}
				*log = append(*log, w+".type:change")
			}
		}
	case 5:
		if s.Type != "array" && s.Type != "boolean" {
			s.Format = g.formatFor(s.Type)
			if s.Format != "" && s.Type == "string" {
				s.Valids = Valids{}
				s.Default = nil
				s.Example = nil
			}
			*log = append(*log, w+".format:change")
		}
	case 6:
		if lvl == 0 && !isPath {
			if s.Type == "array" {
				c = []*Simple{{Type: "string"}}
				*log = append(*log, w+".type:array->scalar")
			} else if g.R.Chance(1, 2) {
				c = []*Simple{{Type: "array", CF: g.R.Pick(cfs)}, {Type: s.Type, Format: s.Format}}
				*log = append(*log, w+".type:scalar->array")
			}
		}
	}
	return c
}

func (g *G) mutSchema(s *Schema, depth int, defs []string, where string, log *EditLog) {
	if s == nil {
		return
	}
	// descend with some probability
	if len(s.Props) > 0 && g.R.Chance(1, 2) {
		i := g.R.Intn(len(s.Props))
		g.mutSchema(s.Props[i].V, depth+1, defs, where+"."+s.Props[i].K, log)
		return
	}
	if s.Items != nil && s.Items.One != nil && g.R.Chance(1, 2) {
		g.mutSchema(s.Items.One, depth+1, defs, where+"[]", log)
		return
	}
	if len(s.AllOf) > 0 && g.R.Chance(1, 2) {
		i := g.R.Intn(len(s.AllOf))
		g.mutSchema(s.AllOf[i], depth+1, defs, fmt.Sprintf("%s.allOf%d", where, i), log)
		return
	}
	switch g.R.Intn(8) {
	case 0:
		if s.Ref == "" {
			s.Desc = g.R.Pick([]string{"", "first", "second", "third"})
			*log = append(*log, where+".description")
		}
	case 1, 2:
		if len(s.Type) == 1 && s.Ref == "" {
			g.mutValids(s.Type[0], &s.Valids, where, log)
		}
	case 3: // add property
		if len(s.Type) == 1 && s.Type[0] == "object" {
			have := map[string]bool{}
			for _, kv := range s.Props {
				have[kv.K] = true
			}
			for _, n := range propNames {
				if !have[n] {
					if s.Props == nil {
						s.Props = []KV{}
					}
					s.Props = append(s.Props, KV{K: n, V: g.schema(depth+1, defs)})
					if g.R.Chance(1, 2) {
						s.Required = append(s.Required, n)
						*log = append(*log, where+".property:add-required")
					} else {
						*log = append(*log, where+".property:add")
					}
					break
				}
			}
		}
	case 4: // delete property
		if len(s.Props) > 0 {
			i := g.R.Intn(len(s.Props))
			n := s.Props[i].K
			s.Props = append(append([]KV{}, s.Props[:i]...), s.Props[i+1:]...)
			var req []string
			for _, r := range s.Required {
				if r != n {
					req = append(req, r)
				}
			}
			s.Required = req
			*log = append(*log, where+".property:delete")
		}
	case 5: // toggle required
		if len(s.Props) > 0 {
			n := s.Props[g.R.Intn(len(s.Props))].K
			var req []string
			found := false
			for _, r := range s.Required {
				if r == n {
					found = true
				} else {
					req = append(req, r)
				}
			}
			if !found {
				req = append(req, n)
				*log = append(*log, where+".required:add")
			} else {
				*log = append(*log, where+".required:remove")
			}
			s.Required = req
		}
	case 6: // change kind
		ns := g.schema(depth+1, defs)
		*s = *ns
		*log = append(*log, where+":replace")
	case 7: // retarget ref / format change
		if s.Ref != "" && len(defs) > 1 {
			s.Ref = g.R.Pick(defs)
			*log = append(*log, where+".$ref:retarget")
		} else if len(s.Type) == 1 && s.Ref == "" {
			s.Format = g.formatFor(s.Type[0])
			if s.Format != "" && s.Type[0] == "string" {
				s.Valids = Valids{}
			}
			*log = append(*log, where+".format:change")
		}
	}
}

// Mutate applies k elementary edits to a clone of a.
func (g *G) Mutate(a *Spec, k int) (*Spec, EditLog) {
	b := a.Clone()
	var log EditLog
	var defs []string
	for _, d := range b.Defs {
		defs = append(defs, d.K)
	}
	for e := 0; e < k; e++ {
		switch g.R.Intn(12) {
		case 0:
			switch g.R.Intn(6) {
			case 0:
				b.Consumes = g.subset(mimes, true)
				log = append(log, "consumes")
			case 1:
				b.Produces = g.subset(mimes, true)
				log = append(log, "produces")
			case 2:
				b.Schemes = g.subset(schemesL, true)
				log = append(log, "schemes")
			case 3:
				b.Host = g.R.Pick([]string{"", "api.example.com", "other.example.com"})
				log = append(log, "host")
			case 4:
				b.BasePath = g.R.Pick([]string{"", "/v1", "/v2"})
				log = append(log, "basePath")
			case 5:
				b.InfoDesc = g.R.Pick([]string{"", "first", "second", "third"})
				log = append(log, "info.description")
			}
		case 1: // remove endpoint
			if len(b.Paths) > 0 {
				pi := b.Paths[g.R.Intn(len(b.Paths))]
				if len(pi.Ops) > 1 {
					i := g.R.Intn(len(pi.Ops))
					pi.Ops = append(append([]*Operation{}, pi.Ops[:i]...), pi.Ops[i+1:]...)
					log = append(log, "endpoint:remove")
				} else if len(b.Paths) > 1 {
					var np []*PathItem
					for _, x := range b.Paths {
						if x != pi {
							np = append(np, x)
						}
					}
					b.Paths = np
					log = append(log, "path:remove")
				}
			}
		case 2: // add endpoint
			pi := b.Paths[g.R.Intn(len(b.Paths))]
			have := map[string]bool{}
			for _, o := range pi.Ops {
				have[o.Method] = true
			}
			pl := map[string]bool{}
			for _, p := range pi.Params {
				if p.In == "path" {
					pl[p.Name] = true
				}
			}
			for _, m := range methods {
				if !have[m] {
					pi.Ops = append(pi.Ops, g.operation(m, pi.URL, defs, pl))
					log = append(log, "endpoint:add")
					break
				}
			}
		default:
			pi := b.Paths[g.R.Intn(len(b.Paths))]
			op := pi.Ops[g.R.Intn(len(pi.Ops))]
			switch g.R.Intn(10) {
			case 0:
				op.Tags = g.subset(tagsL, true)
				log = append(log, "op.tags")
			case 1:
				op.Desc = g.R.Pick([]string{"", "first", "second", "third"})
				log = append(log, "op.description")
			case 2: // add param
				have := map[string]bool{}
				for _, p := range op.Params {
					have[p.Name] = true
				}
				for _, n := range paramNames {
					if !have[n] {
						p := g.param(g.R.Pick([]string{"query", "header"}), n, defs)
						op.Params = append(op.Params, p)
						if p.Required {
							log = append(log, "param:add-required")
						} else {
							log = append(log, "param:add-optional")
						}
						break
					}
				}
			case 3: // delete param
				for i, p := range op.Params {
					if p.In != "path" && g.R.Chance(1, 2) {
						op.Params = append(append([]*Param{}, op.Params[:i]...), op.Params[i+1:]...)
						log = append(log, "param:delete")
						break
					}
				}
			case 4, 5, 6: // change a param
				if len(op.Params) > 0 {
					p := op.Params[g.R.Intn(len(op.Params))]
					switch {
					case p.In == "body":
						if g.R.Chance(1, 5) {
							p.Required = !p.Required
							log = append(log, "body.required:toggle")
						} else {
							g.mutSchema(p.Schema, 0, defs, "body", &log)
						}
					case g.R.Chance(1, 6) && p.In != "path":
						p.Required = !p.Required
						if p.Required {
							p.Chain[0].Default = nil
						}
						log = append(log, "param.required:toggle")
					case g.R.Chance(1, 8):
						p.Desc = g.R.Pick([]string{"", "first", "second", "third"})
						log = append(log, "param.description")
					case g.R.Chance(1, 10) && p.In != "path":
						if p.In == "query" {
							p.In = "header"
						} else if p.In == "header" {
							p.In = "query"
						}
						log = append(log, "param.in:change")
					default:
						p.Chain = g.mutChain(p.Chain, "param", &log, p.In == "path")
					}
				}
			case 7: // responses: add/remove
				if g.R.Chance(1, 2) && len(op.Responses) > 1 {
					i := g.R.Intn(len(op.Responses))
					op.Responses = append(append([]*Response{}, op.Responses[:i]...), op.Responses[i+1:]...)
					log = append(log, "response:remove")
				} else {
					have := map[int]bool{}
					for _, r := range op.Responses {
						have[r.Code] = true
					}
					for _, c := range []int{200, 201, 202, 400, 404, 500} {
						if !have[c] {
							r := &Response{Code: c, Desc: "new"}
							if g.R.Chance(1, 2) {
								r.Schema = g.schema(0, defs)
							}
							op.Responses = append(op.Responses, r)
							log = append(log, "response:add")
							break
						}
					}
				}
			case 8: // response body / desc / headers
				r := op.Responses[g.R.Intn(len(op.Responses))]
				switch g.R.Intn(5) {
				case 0:
					r.Desc = g.R.Pick([]string{"ok", "resp", "done", "other"})
					log = append(log, "response.description")
				case 1:
					if r.Schema == nil {
						r.Schema = g.schema(0, defs)
						log = append(log, "response.schema:add")
					} else if g.R.Chance(1, 3) {
						r.Schema = nil
						log = append(log, "response.schema:remove")
					} else {
						g.mutSchema(r.Schema, 0, defs, "response", &log)
					}
				case 2:
					if len(r.Headers) > 0 {
						r.Headers = r.Headers[1:]
						log = append(log, "response.header:remove")
					}
				case 3:
					have := map[string]bool{}
					for _, h := range r.Headers {
						have[h.Name] = true
					}
					for _, hn := range []string{"X-Rate", "X-Count", "X-New"} {
						if !have[hn] {
							c := g.chain(1)
							c[0].Nullable = false
							r.Headers = append(r.Headers, &Header{Name: hn, Chain: c})
							log = append(log, "response.header:add")
							break
						}
					}
				case 4:
					if len(r.Headers) > 0 {
						h := r.Headers[g.R.Intn(len(r.Headers))]
						h.Chain = g.mutChain(h.Chain, "header", &log, false)
					} else if r.Schema != nil {
						g.mutSchema(r.Schema, 0, defs, "response", &log)
					}
				}
			case 9: // definitions
				if len(b.Defs) > 0 {
					i := g.R.Intn(len(b.Defs))
					g.restrictAllOf, g.AllOfDefs = true, defs[:i]
					switch g.R.Intn(6) {
					case 0:
						// delete only when unreferenced would require a scan; keep it simple: mutate instead
						g.mutSchema(b.Defs[i].V, 0, defs, "def."+b.Defs[i].K, &log)
					default:
						g.mutSchema(b.Defs[i].V, 0, defs, "def."+b.Defs[i].K, &log)
					}
					if b.Defs[i].V.Ref == b.Defs[i].K {
						b.Defs[i].V = &Schema{Type: []string{"object"}}
					}
				}
				g.restrictAllOf = false
				if g.R.Chance(1, 6) {
					have := map[string]bool{}
					for _, d := range b.Defs {
						have[d.K] = true
					}
					for _, n := range append(defNames, "Extra") {
						if !have[n] {
							b.Defs = append(b.Defs, DefKV{K: n, V: g.schema(1, defs)})
							log = append(log, "definition:add")
							break
						}
					}
				}
			}
		}
	}
	b.Normalize()
	// info.contact / info.license on one side only (Clone drops the fields that are outside the model's encoding)
	b.Contact, b.License = a.Contact, a.License
	if len(log)%2 == 1 {
		b.Contact = !b.Contact
	}
	if k >= 2 {
		b.License = !b.License
	}
	return b, log
}

// Reserialise returns a copy of a with every list the analyser treats as a set permuted.
func (g *G) Reserialise(a *Spec) *Spec {
	b := a.Clone()
	b.Contact, b.License = a.Contact, a.License
	shuf := func(xs []string) {
		g.R.Shuffle(len(xs), func(i, j int) { xs[i], xs[j] = xs[j], xs[i] })
	}
	shuf(b.Consumes)
	shuf(b.Produces)
	shuf(b.Schemes)
	var ws func(s *Schema)
	wv := func(v *Valids) {
		g.R.Shuffle(len(v.Enum), func(i, j int) { v.Enum[i], v.Enum[j] = v.Enum[j], v.Enum[i] })
	}
	ws = func(s *Schema) {
		if s == nil {
			return
		}
		shuf(s.Required)
		wv(&s.Valids)
		g.R.Shuffle(len(s.Props), func(i, j int) { s.Props[i], s.Props[j] = s.Props[j], s.Props[i] })
		for _, kv := range s.Props {
			ws(kv.V)
		}
		if s.Items != nil {
			ws(s.Items.One)
			for _, x := range s.Items.Many {
				ws(x)
			}
		}
		for _, x := range s.AllOf {
			ws(x)
		}
	}
	wc := func(c []*Simple) {
		for _, s := range c {
			wv(&s.Valids)
		}
	}
	wp := func(ps []*Param) {
		g.R.Shuffle(len(ps), func(i, j int) { ps[i], ps[j] = ps[j], ps[i] })
		for _, p := range ps {
			wc(p.Chain)
			ws(p.Schema)
		}
	}
	g.R.Shuffle(len(b.Paths), func(i, j int) { b.Paths[i], b.Paths[j] = b.Paths[j], b.Paths[i] })
	for _, pi := range b.Paths {
		wp(pi.Params)
		g.R.Shuffle(len(pi.Ops), func(i, j int) { pi.Ops[i], pi.Ops[j] = pi.Ops[j], pi.Ops[i] })
		for _, op := range pi.Ops {
			shuf(op.Tags)
			wp(op.Params)
			g.R.Shuffle(len(op.Responses), func(i, j int) { op.Responses[i], op.Responses[j] = op.Responses[j], op.Responses[i] })
			for _, r := range op.Responses {
				g.R.Shuffle(len(r.Headers), func(i, j int) { r.Headers[i], r.Headers[j] = r.Headers[j], r.Headers[i] })
				for _, h := range r.Headers {
					wc(h.Chain)
				}
				ws(r.Schema)
			}
		}
	}
	g.R.Shuffle(len(b.Defs), func(i, j int) { b.Defs[i], b.Defs[j] = b.Defs[j], b.Defs[i] })
	for _, d := range b.Defs {
		ws(d.V)
	}
	return b
}
