package difflab

import (
	"encoding/json"
	"fmt"
	"runtime/debug"
	"strings"

	"github.com/go-openapi/spec"
	"github.com/go-swagger/go-swagger/cmd/swagger/commands/diff"
)

// Entry is one canonical report entry: url, method, response, node string, code, compat, info.
type Entry struct {
	URL      string
	Method   string
	Response int
	Node     string
	Code     int
	Compat   int
	Info     string
}

func (e Entry) Key(withInfo bool) string {
	k := fmt.Sprintf("%s|%s|%d|%s|%d|%d", e.URL, e.Method, e.Response, e.Node, e.Code, e.Compat)
	if withInfo {
		k += "|" + CanonInfo(e.Info)
	}
	return k
}

type Result struct {
	R     string  `json:"r"` // ok | panic | timeout | crash | fuel | bad-input
	Why   string  `json:"why,omitempty"`
	Diffs []Entry `json:"-"`
	Raw   [][]interface{} `json:"diffs,omitempty"`
	Alts  []*Result `json:"alts,omitempty"`
	VA    *bool     `json:"va,omitempty"` // model only: document a / b satisfies the validity hypothesis of total_no_panic
	VB    *bool     `json:"vb,omitempty"`
	FA    *bool     `json:"fa,omitempty"` // model only: every schema of document a / b is at most 24 levels deep, $refs followed (hypothesis of terminates_acyclic)
	FB    *bool     `json:"fb,omitempty"`
}

func (r *Result) decode() {
	r.Diffs = nil
	for _, d := range r.Raw {
		if len(d) < 7 {
			continue
		}
		e := Entry{}
		e.URL, _ = d[0].(string)
		e.Method, _ = d[1].(string)
		if f, ok := d[2].(float64); ok {
			e.Response = int(f)
		}
		e.Node, _ = d[3].(string)
		if f, ok := d[4].(float64); ok {
			e.Code = int(f)
		}
		if f, ok := d[5].(float64); ok {
			e.Compat = int(f)
		}
		e.Info, _ = d[6].(string)
		r.Diffs = append(r.Diffs, e)
	}
	for _, a := range r.Alts {
		a.decode()
	}
}

func ParseResult(b []byte) (*Result, error) {
	var r Result
	if err := json.Unmarshal(b, &r); err != nil {
		return nil, err
	}
	r.decode()
	return &r, nil
}

func LoadSwagger(doc []byte) (*spec.Swagger, error) {
	var sw spec.Swagger
	if err := json.Unmarshal(doc, &sw); err != nil {
		return nil, err
	}
	return &sw, nil
}

func panicClass(v interface{}, stack string) string {
	msg := fmt.Sprint(v)
	fn := ""
	for _, l := range strings.Split(stack, "\n") {
		if strings.Contains(l, "commands/diff.") && !strings.Contains(l, "zz_verif") {
			fn = strings.TrimSpace(l)
			if i := strings.Index(fn, "commands/diff."); i >= 0 {
				fn = fn[i+len("commands/diff."):]
			}
			if i := strings.Index(fn, "("); i > 0 && !strings.HasPrefix(fn, "(") {
				fn = fn[:i]
			} else if strings.HasPrefix(fn, "(") {
				// method: (*SpecAnalyser).compareSchema(...)
				if j := strings.Index(fn[1:], "("); j > 0 {
					fn = fn[:j+1]
				}
			}
			break
		}
	}
	return msg + " @ " + fn
}

// RealCompare runs the real analyser with recover.
func RealCompare(a, b *spec.Swagger) (res map[string]interface{}) {
	defer func() {
		if r := recover(); r != nil {
			res = map[string]interface{}{"r": "panic", "why": panicClass(r, string(debug.Stack()))}
		}
	}()
	diffs, err := diff.Compare(a, b)
	if err != nil {
		return map[string]interface{}{"r": "err", "why": err.Error()}
	}
	out := [][]interface{}{}
	for _, d := range diffs {
		node := ""
		if d.DifferenceLocation.Node != nil {
			node = d.DifferenceLocation.Node.String()
		}
		out = append(out, []interface{}{d.DifferenceLocation.URL, d.DifferenceLocation.Method, d.DifferenceLocation.Response,
			node, int(d.Code), int(d.Compatibility), d.DiffInfo})
	}
	return map[string]interface{}{"r": "ok", "diffs": out}
}

// HandleWorker serves one worker request of the diff family.
func HandleWorker(req map[string]json.RawMessage) map[string]interface{} {
	var op string
	_ = json.Unmarshal(req["op"], &op)
	switch op {
	case "diff.valid":
		return map[string]interface{}{"r": "ok", "valid": IsValid(req["a"])}
	case "diff.analyse":
		a, err := LoadSwagger(req["a"])
		if err != nil {
			return map[string]interface{}{"r": "bad-input", "why": err.Error()}
		}
		b, err := LoadSwagger(req["b"])
		if err != nil {
			return map[string]interface{}{"r": "bad-input", "why": err.Error()}
		}
		return RealCompare(a, b)
	}
	if f, ok := extraWorkerOps[op]; ok {
		return f(req)
	}
	return map[string]interface{}{"r": "bad-op"}
}
