package difflab

import (
	"fmt"
	"regexp"
	"sort"
	"strings"

	"verif/harness/internal/ev"
	"verif/harness/internal/extract"
	"verif/harness/internal/rng"
)

var rxNodeType = regexp.MustCompile(`<[^<>]*(<[^<>]*>)?[^<>]*>`)

// fieldPath strips the type decorations of a node string: location equality for C14 is url, method, response and the
// field path (the types describe the element and necessarily differ when the type is what changed).
func fieldPath(node string) string {
	prev := ""
	for prev != node {
		prev = node
		node = rxNodeType.ReplaceAllString(node, "")
	}
	return node
}

// Mirror maps a change code (by Go constant name) to the code expected when the arguments are swapped, already
// normalised (AddedRequiredProperty ~ AddedProperty, DeletedDeprecatedEndpoint ~ DeletedEndpoint).
func mirrorName(n string) string {
	switch n {
	case "AddedRequiredProperty":
		return "DeletedProperty"
	case "DeletedDeprecatedEndpoint":
		return "AddedEndpoint"
	case "WidenedType":
		return "NarrowedType"
	case "NarrowedType":
		return "WidenedType"
	case "ChangedOptionalToRequired":
		return "ChangedRequiredToOptional"
	case "ChangedRequiredToOptional":
		return "ChangedOptionalToRequired"
	}
	if strings.HasPrefix(n, "Added") {
		return "Deleted" + strings.TrimPrefix(n, "Added")
	}
	if strings.HasPrefix(n, "Deleted") {
		return "Added" + strings.TrimPrefix(n, "Deleted")
	}
	return n
}

func normName(n string) string {
	switch n {
	case "AddedRequiredProperty":
		return "AddedProperty"
	case "DeletedDeprecatedEndpoint":
		return "DeletedEndpoint"
	}
	return n
}

var codeNames []string

func CodeNames() []string {
	if codeNames == nil {
		codeNames, _ = extract.IotaNames("cmd/swagger/commands/diff", "SpecChangeCode")
	}
	return codeNames
}

func codeName(i int) string {
	n := CodeNames()
	if i >= 0 && i < len(n) {
		return n[i]
	}
	return fmt.Sprintf("code%d", i)
}

func dirKey(e Entry, mirror bool) string {
	c := codeName(e.Code)
	if mirror {
		c = mirrorName(c)
	}
	return fmt.Sprintf("%s|%s|%d|%s|%s", e.URL, e.Method, e.Response, fieldPath(e.Node), normName(c))
}

// mirrorDelta returns the entries of ab (mirrored) and ba that do not cancel out.
func mirrorDelta(ab, ba []Entry) (onlyAB, onlyBA []string) {
	cnt := map[string]int{}
	for _, e := range ab {
		cnt[dirKey(e, true)]++
	}
	for _, e := range ba {
		cnt[dirKey(e, false)]--
	}
	for k, v := range cnt {
		for ; v > 0; v-- {
			onlyAB = append(onlyAB, k)
		}
		for ; v < 0; v++ {
			onlyBA = append(onlyBA, k)
		}
	}
	sort.Strings(onlyAB)
	sort.Strings(onlyBA)
	return
}

func lastField(k string) string {
	p := strings.Split(k, "|")
	return p[len(p)-1]
}

// CheckC14 — swapping the arguments mirrors the report.
func CheckC14(run *ev.Run) {
	lab := NewLab()
	defer lab.Close()
	r := rng.New(uint64(run.Seed) + 14)
	n := 700
	if run.Tier == "thorough" {
		n = 12000
	}
	if !run.Lean.OK {
		n *= 2
	}
	st := stats{}
	run.Rule = "pairs (A, A + 1..3 edits); the real analyser runs on (A,B) and (B,A); after mapping every code of the first report through `mirror` " +
		"the two multisets of (url, method, response, field path, code) must be equal; the Lean model is run on both orders as well and must agree " +
		"with the real reports; a case is distinct by the pair of reported code multisets"
	run.Trusted = append(run.Trusted, "vx extract (DiffTables from live maps)", "correspondence harness difflab")
	run.Assume = append(run.Assume, "location equality ignores the type decoration of nodes (they describe the element, not the place)",
		"samples the model marks order-sensitive (visited-key collisions) are compared as multisets only when some sampled order reproduces the real report")
	fixed := CorpusC14()
	for i := -len(fixed); i < n; i++ {
		var a, b *Spec
		var elog EditLog
		if i < 0 {
			// the fixed corpus runs first (its own rng: nothing random in it)
			pc := fixed[i+len(fixed)]
			a, b, elog = pc.A, pc.B, EditLog{"corpus:" + pc.Name}
			st["corpus-pairs"]++
		} else {
			g := &G{R: r.Fork(), O: genOptsFor(r)}
			a = g.Spec()
			b, elog = g.Mutate(a, 1+g.R.Intn(3))
		}
		s := &Sample{Kind: "pair", A: a, B: b, Log: elog}
		s.render()
		mAB, rAB, vAB := lab.Compare(a, b, s.JA, s.JB)
		mBA, rBA, vBA := lab.Compare(b, a, s.JB, s.JA)
		run.Traces += 2
		for _, v := range []string{vAB, vBA} {
			st["verdict:"+v]++
		}
		corrBroken := ""
		if vAB != "agree" || vBA != "agree" {
			if vAB == "order-sensitive" || vBA == "order-sensitive" {
				st["skipped-order-sensitive"]++
				continue
			}
			corrBroken = vAB + " / " + vBA
		}
		if rAB.R != "ok" || rBA.R != "ok" {
			st["not-ok"]++
			continue
		}
		// order-sensitive pairs (model alts differ) are excluded: the report itself is not a function of the input there
		sens := false
		for _, m := range []*Result{mAB, mBA} {
			base := multiset(m.Diffs, false)
			for _, alt := range m.Alts {
				if alt.R != m.R || !eqStrs(multiset(alt.Diffs, false), base) {
					sens = true
				}
			}
		}
		if sens {
			st["skipped-order-sensitive"]++
			continue
		}
		onlyAB, onlyBA := mirrorDelta(rAB.Diffs, rBA.Diffs)
		ck := func(es []Entry) string {
			var c []string
			for _, e := range es {
				c = append(c, codeName(e.Code))
			}
			sort.Strings(c)
			return strings.Join(c, ",")
		}
		key := ck(rAB.Diffs) + " / " + ck(rBA.Diffs)
		if len(rAB.Diffs)+len(rBA.Diffs) == 0 {
			key = ""
		}
		run.Case(key)
		if corrBroken != "" && len(onlyAB)+len(onlyBA) == 0 {
			run.Broken("corr:C14", "Lean model and diff.Compare disagree: "+corrBroken,
				s.Replay(map[string]interface{}{"model_ab": mAB.Raw, "real_ab": rAB.Raw, "model_ba": mBA.Raw, "real_ba": rBA.Raw}))
			continue
		}
		if len(onlyAB)+len(onlyBA) == 0 {
			st["mirrored"]++
			if len(run.Samples) < 3 && len(rAB.Diffs) > 1 {
				run.Sample(map[string]interface{}{"edits": elog, "a_to_b": multiset(rAB.Diffs, false), "b_to_a": multiset(rBA.Diffs, false)})
			}
			continue
		}
		st["asymmetric"]++
		// classify per location: the codes left over on each side at that place
		// every leftover is written as the code its own report carries (un-mirrored), grouped by location; the key is
		// the pair of code lists (one per direction) with the two directions ordered, so it does not depend on which
		// document happens to be A
		fwd, bwd := map[string][]string{}, map[string][]string{}
		locs := map[string]bool{}
		for _, k := range onlyAB {
			loc := k[:strings.LastIndex(k, "|")]
			fwd[loc] = append(fwd[loc], normName(mirrorName(lastField(k)))) // mirror is an involution on normalised names
			locs[loc] = true
		}
		for _, k := range onlyBA {
			loc := k[:strings.LastIndex(k, "|")]
			bwd[loc] = append(bwd[loc], lastField(k))
			locs[loc] = true
		}
		byLoc := map[string][]string{}
		for loc := range locs {
			f, b := uniq(sortedCopy(fwd[loc])), uniq(sortedCopy(bwd[loc]))
			x, y := strings.Join(f, ","), strings.Join(b, ",")
			if x == "" {
				x = "-"
			}
			if y == "" {
				y = "-"
			}
			if y < x {
				x, y = y, x
			}
			byLoc[loc] = []string{x + " / " + y}
		}
		valid := -1
		fresh := false
		for loc, ks := range byLoc {
			k := "asym:" + ks[0]
			st[k]++
			if !run.IsKnown(k) {
				fresh = true
				if valid < 0 {
					valid = 0
					if lab.validBoth(s) {
						valid = 1
					}
				}
				if valid == 0 {
					st["asym-on-invalid-spec"]++
					continue
				}
			}
			run.Deviation(k, fmt.Sprintf("diff(A,B) and diff(B,A) are not mirror images at %s: left over after mirroring %v", loc, ks),
				s.Replay(map[string]interface{}{"a_to_b": rAB.Raw, "b_to_a": rBA.Raw, "location": loc}))
		}
		if corrBroken != "" && !fresh {
			// every asymmetry of this pair is a listed finding, but the model (which reproduces the listed ones) and the
			// analyser disagree on it: the tie is broken
			st["corr-broken-on-known-asymmetry"]++
			run.Broken("corr:C14", "Lean model and diff.Compare disagree: "+corrBroken,
				s.Replay(map[string]interface{}{"model_ab": mAB.Raw, "real_ab": rAB.Raw, "model_ba": mBA.Raw, "real_ba": rBA.Raw}))
		}
	}
	run.Extra["distribution"] = st
}

func sortedCopy(xs []string) []string {
	out := append([]string{}, xs...)
	sort.Strings(out)
	return out
}

func uniq(xs []string) []string {
	var out []string
	for i, x := range xs {
		if i == 0 || xs[i-1] != x {
			out = append(out, x)
		}
	}
	return out
}
