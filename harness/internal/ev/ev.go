// Package ev collects what a check run covered, applies the known-findings file and writes the evidence file
// and the VIOLATION / KNOWN-FINDING lines.
package ev

import (
	"encoding/json"
	"fmt"
	"os"
	"path/filepath"
	"sort"
	"strings"
	"time"
)

func VerifDir() string {
	if d := os.Getenv("VERIF_DIR"); d != "" {
		return d
	}
	return "/verif"
}

// LeanStatus is written by check.sh after the proof phase.
type LeanStatus struct {
	OK          bool              `json:"ok"`
	Obligations int               `json:"obligations"`
	Discharged  int               `json:"discharged"`
	Theorems    []string          `json:"theorems"`
	Failed      []string          `json:"failed"` // modules / theorems that no longer check
	Log         string            `json:"log"`
	Axioms      []string          `json:"axioms"`
	GenHashes   map[string]string `json:"gen_hashes"`
	CheckerCmd  string            `json:"checker_cmd"`
	LeanWallS   float64           `json:"lean_wall_s"`
}

type Finding struct {
	Property string `json:"property"`
	Key      string `json:"key"`
	Status   string `json:"status"` // known | fixed
	Commit   string `json:"commit,omitempty"`
	What     string `json:"what"`
}

type Violation struct {
	Key     string
	What    string
	Replay  interface{}
	NoInput bool
}

type Run struct {
	ID      string
	Tier    string
	Seed    int64
	Start   time.Time
	Lean    LeanStatus
	Level   string
	Evals   int
	distinct map[string]bool
	Samples []interface{}
	Rule    string
	Extra   map[string]interface{}
	Assume  []string
	Trusted []string
	viol    []Violation
	known   map[string]Finding
	knownSeen map[string]int
	Traces  int
}

func NewRun(id, tier string, seed int64) *Run {
	r := &Run{ID: id, Tier: tier, Seed: seed, Start: time.Now(), Level: "proof",
		distinct: map[string]bool{}, Extra: map[string]interface{}{}, known: map[string]Finding{}, knownSeen: map[string]int{}}
	b, err := os.ReadFile(filepath.Join(VerifDir(), "known_findings.json"))
	if err == nil {
		var fs []Finding
		if json.Unmarshal(b, &fs) == nil {
			for _, f := range fs {
				if f.Property == id && f.Status == "known" {
					r.known[f.Key] = f
				}
			}
		}
	}
	if p := os.Getenv("VERIF_LEAN_STATUS"); p != "" {
		if b, err := os.ReadFile(p); err == nil {
			_ = json.Unmarshal(b, &r.Lean)
		}
	}
	return r
}

// Case records one evaluated case; key identifies distinct non-trivial cases ("" = trivial).
func (r *Run) Case(key string) {
	r.Evals++
	if key != "" {
		r.distinct[key] = true
	}
}

func (r *Run) Sample(s interface{}) {
	if len(r.Samples) < 6 {
		r.Samples = append(r.Samples, s)
	}
}

// IsKnown tells whether a classification key is a listed known finding.
func (r *Run) IsKnown(key string) bool { _, ok := r.known[key]; return ok }

// Deviation reports a failure of the property on the real implementation, classified by key. A listed key is
// tallied under its known finding; an unlisted key is a violation with the given replay.
func (r *Run) Deviation(key, what string, replay interface{}) {
	if _, ok := r.known[key]; ok {
		r.knownSeen[key]++
		return
	}
	for _, v := range r.viol {
		if v.Key == key {
			return
		}
	}
	r.viol = append(r.viol, Violation{Key: key, What: what, Replay: replay})
}

// Broken reports a proof obligation or correspondence that no longer checks, for which no failing input of the
// property was found.
func (r *Run) Broken(key, what string, detail interface{}) {
	for _, v := range r.viol {
		if v.Key == key {
			return
		}
	}
	r.viol = append(r.viol, Violation{Key: key, What: what, Replay: detail, NoInput: true})
}

func (r *Run) HasViolations() bool { return len(r.viol) > 0 }

// HasConcrete tells whether a violation with a concrete failing input was recorded.
func (r *Run) HasConcrete() bool {
	for _, v := range r.viol {
		if !v.NoInput {
			return true
		}
	}
	return false
}

func sanitize(s string) string {
	var b strings.Builder
	for _, c := range s {
		if (c >= 'a' && c <= 'z') || (c >= 'A' && c <= 'Z') || (c >= '0' && c <= '9') || c == '-' || c == '_' || c == '.' {
			b.WriteRune(c)
		} else {
			b.WriteByte('_')
		}
	}
	out := b.String()
	if len(out) > 60 {
		out = out[:60]
	}
	return out
}

// Finish prints the verdict lines, writes the evidence file and returns the exit status.
func (r *Run) Finish() int {
	vd := VerifDir()
	// a broken Lean phase with no concrete failing input found by the search
	if !r.Lean.OK && r.Lean.Obligations+len(r.Lean.Failed) > 0 || (!r.Lean.OK && r.Lean.Log != "") {
		if !r.HasConcrete() {
			r.Broken("lean:"+strings.Join(r.Lean.Failed, ","), "proof obligations no longer check: "+strings.Join(r.Lean.Failed, ", "),
				map[string]interface{}{"failed": r.Lean.Failed, "log": r.Lean.Log})
		}
	}
	// when a concrete failing input exists, the obligation-only entries are subsumed
	if r.HasConcrete() {
		var keep []Violation
		for _, v := range r.viol {
			if !v.NoInput {
				keep = append(keep, v)
			}
		}
		r.viol = keep
	}
	_ = os.MkdirAll(filepath.Join(vd, "replays"), 0o755)
	keys := make([]string, 0, len(r.knownSeen))
	for k := range r.knownSeen {
		keys = append(keys, k)
	}
	sort.Strings(keys)
	for _, k := range keys {
		fmt.Printf("KNOWN-FINDING: property=%s %s [%s] (%d case(s) this run)\n", r.ID, r.known[k].What, k, r.knownSeen[k])
	}
	for i, v := range r.viol {
		p := filepath.Join(vd, "replays", fmt.Sprintf("%s-%d-%d-%s.json", r.ID, r.Seed, i, sanitize(v.Key)))
		doc := map[string]interface{}{"property": r.ID, "key": v.Key, "what": v.What, "tier": r.Tier, "seed": r.Seed,
			"replay": v.Replay, "replay_cmd": fmt.Sprintf("./check.sh %s --replay %s", r.ID, p)}
		if v.NoInput {
			doc["no_failing_input_found"] = true
		}
		b, _ := json.MarshalIndent(doc, "", " ")
		_ = os.WriteFile(p, b, 0o644)
		if v.NoInput {
			fmt.Printf("VIOLATION property=%s replay=%s no-failing-input-found\n", r.ID, p)
		} else {
			fmt.Printf("VIOLATION property=%s replay=%s\n", r.ID, p)
		}
		fmt.Printf("  %s: %s\n", v.Key, v.What)
	}
	r.writeEvidence()
	if len(r.viol) > 0 {
		return 1
	}
	return 0
}

// FinishReplay reports whether the violation stored in a replay file (same property, seed, tier: the check regenerates
// the same inputs) still occurs; the evidence file is not rewritten.
func (r *Run) FinishReplay(key, file string) int {
	if _, ok := r.knownSeen[key]; ok {
		fmt.Printf("KNOWN-FINDING: property=%s %s [%s]\n", r.ID, r.known[key].What, key)
		return 0
	}
	for _, v := range r.viol {
		if v.Key == key {
			if v.NoInput {
				fmt.Printf("VIOLATION property=%s replay=%s no-failing-input-found\n", r.ID, file)
			} else {
				fmt.Printf("VIOLATION property=%s replay=%s\n", r.ID, file)
			}
			fmt.Printf("  %s: %s\n", v.Key, v.What)
			return 1
		}
	}
	fmt.Printf("not reproduced: the input stored in %s (key %s) no longer fails\n", file, key)
	return 0
}

func (r *Run) writeEvidence() {
	vd := VerifDir()
	cov := map[string]interface{}{}
	for k, v := range r.Extra {
		cov[k] = v
	}
	cov["obligations"] = r.Lean.Obligations
	cov["discharged"] = r.Lean.Discharged
	cc := r.Lean.CheckerCmd
	if cc == "" {
		cc = "lake build + #print axioms audit"
	}
	cov["checker_cmd"] = cc
	tb := append([]string{"Lean 4.33.0 kernel", "axioms allowed: propext, Classical.choice, Quot.sound"}, r.Trusted...)
	cov["trusted_base"] = tb
	cov["theorems"] = r.Lean.Theorems
	cov["axioms_used"] = r.Lean.Axioms
	cov["gen_hashes"] = r.Lean.GenHashes
	cov["evaluations"] = r.Evals
	cov["distinct_nontrivial"] = len(r.distinct)
	cov["rule"] = r.Rule
	samples := r.Samples
	if len(samples) == 0 {
		samples = []interface{}{"(no samples recorded)"}
	}
	cov["samples"] = samples
	cov["traces_validated_against_impl"] = r.Traces
	kf := []string{}
	for k, n := range r.knownSeen {
		kf = append(kf, fmt.Sprintf("%s x%d", k, n))
	}
	sort.Strings(kf)
	cov["known_findings_rederived"] = kf
	level := r.Level
	doc := map[string]interface{}{
		"property_id": r.ID, "tier": r.Tier, "seed": r.Seed, "level": level, "coverage": cov,
		"assumptions": r.Assume, "wall_s": time.Since(r.Start).Seconds() + r.Lean.LeanWallS, "violations": len(r.viol),
	}
	if doc["assumptions"] == nil {
		doc["assumptions"] = []string{}
	}
	b, _ := json.MarshalIndent(doc, "", " ")
	_ = os.MkdirAll(filepath.Join(vd, "evidence"), 0o755)
	_ = os.WriteFile(filepath.Join(vd, "evidence", r.ID+".json"), b, 0o644)
}
