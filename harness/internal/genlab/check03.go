package genlab

import (
	"encoding/json"
	"fmt"
	"github.com/go-swagger/go-swagger/generator"
	"net/http"
	"net/url"
	"os"
	"reflect"
	"sort"
	"strings"

	"verif/harness/internal/ev"
	"verif/harness/internal/proc"
	"verif/harness/internal/rng"
)

// PSpecJ is a query parameter of the modelled fragment, in the encoding of the Lean driver.
type PSpecJ struct {
	Name       string   `json:"name"`
	In         string   `json:"in"` // query | formData | header
	Required   bool     `json:"required"`
	IsArray    bool     `json:"isArray"`
	CF         string   `json:"cf"`
	Ty         string   `json:"ty"` // str | int32 | int64 | bool
	MinLen     *int     `json:"minLen"`
	MaxLen     *int     `json:"maxLen"`
	EnumS      []string `json:"enumS"`
	MinI       *int64   `json:"minI"`
	ExMin      bool     `json:"exMin"`
	MaxI       *int64   `json:"maxI"`
	ExMax      bool     `json:"exMax"`
	EnumI      []int64  `json:"enumI"`
	MinItems   *int     `json:"minItems"`
	MaxItems   *int     `json:"maxItems"`
	Unique     bool     `json:"unique"`
	AllowEmpty bool     `json:"allowEmpty"`
	// Default is the spec's default in decoded-JSON form (string, float64, bool, []interface{}); optional parameters only.
	// The Lean binder answers `absent` ("the default stays"): the harness then demands exactly this value.
	Default interface{} `json:"-"`
	// Format: a string format (strfmt type). The Lean binder reads such a parameter as a string: only the absent case (default)
	// and one valid value are sent for it.
	Format string `json:"-"`
}

// one valid value per string format used by the fixed formatted parameters
var c03FormatValues = map[string]string{"uuid": "a8098c1a-f86e-11da-bd1a-00112444be1e", "email": "a@b.example", "hostname": "h.example", "date": "2020-01-02", "uri": "http://u.example/x"}

func ip(v int) *int       { return &v }
func i64p(v int64) *int64 { return &v }

func (p *PSpecJ) scalarSchema() map[string]interface{} {
	m := map[string]interface{}{}
	if p.Format != "" {
		m["format"] = p.Format
	}
	switch p.Ty {
	case "str":
		m["type"] = "string"
	case "int32":
		m["type"], m["format"] = "integer", "int32"
	case "int64":
		m["type"], m["format"] = "integer", "int64"
	case "bool":
		m["type"] = "boolean"
	}
	if p.MinLen != nil {
		m["minLength"] = *p.MinLen
	}
	if p.MaxLen != nil {
		m["maxLength"] = *p.MaxLen
	}
	if len(p.EnumS) > 0 {
		m["enum"] = p.EnumS
	}
	if p.MinI != nil {
		m["minimum"] = *p.MinI
		if p.ExMin {
			m["exclusiveMinimum"] = true
		}
	}
	if p.MaxI != nil {
		m["maximum"] = *p.MaxI
		if p.ExMax {
			m["exclusiveMaximum"] = true
		}
	}
	if len(p.EnumI) > 0 {
		m["enum"] = p.EnumI
	}
	return m
}

func (p *PSpecJ) render() map[string]interface{} {
	m := map[string]interface{}{"name": p.Name, "in": p.In}
	if p.Required {
		m["required"] = true
	}
	if p.AllowEmpty {
		m["allowEmptyValue"] = true
	}
	if p.Default != nil {
		m["default"] = p.Default
	}
	if p.IsArray {
		m["type"] = "array"
		m["items"] = p.scalarSchema()
		if p.CF != "" {
			m["collectionFormat"] = p.CF
		}
		if p.MinItems != nil {
			m["minItems"] = *p.MinItems
		}
		if p.MaxItems != nil {
			m["maxItems"] = *p.MaxItems
		}
		if p.Unique {
			m["uniqueItems"] = true
		}
	} else {
		for k, v := range p.scalarSchema() {
			m[k] = v
		}
	}
	return m
}

func genPSpec(r *rng.R, name, in string) *PSpecJ {
	p := &PSpecJ{Name: name, In: in, Required: r.Chance(1, 3), Ty: r.Pick([]string{"str", "str", "int64", "int32", "bool"})}
	if (in == "query" || in == "formData") && r.Chance(1, 4) {
		p.AllowEmpty = true
	}
	if r.Chance(2, 5) && p.Ty != "bool" {
		p.IsArray = true
		p.CF = r.Pick([]string{"", "csv", "pipes", "ssv", "tsv"})
		if in != "header" && r.Chance(1, 3) {
			p.CF = "multi"
		}
		if r.Chance(1, 2) {
			p.MinItems = ip(1 + r.Intn(2))
		}
		if r.Chance(1, 2) {
			p.MaxItems = ip(2 + r.Intn(2))
		}
		p.Unique = r.Chance(1, 3)
	}
	switch p.Ty {
	case "str":
		if r.Chance(1, 2) {
			p.MinLen = ip(1 + r.Intn(2))
		}
		if r.Chance(1, 2) {
			p.MaxLen = ip(3 + r.Intn(3))
		}
		if r.Chance(1, 4) {
			p.EnumS = []string{"ab", "abc", "b"}
		}
	case "int32", "int64":
		if r.Chance(1, 2) {
			p.MinI = i64p(int64(r.Intn(3)))
			p.ExMin = r.Chance(1, 3)
		}
		if r.Chance(1, 2) {
			p.MaxI = i64p(int64(5 + r.Intn(10)))
			p.ExMax = r.Chance(1, 3)
		}
		if r.Chance(1, 5) {
			p.EnumI = []int64{1, 2, 7}
		}
	}
	// a default for some optional parameters: values of the constraint-satisfying pool, plus strings made of JSON / Go punctuation
	if !p.Required && r.Chance(1, 2) {
		pool := p.validPool()
		if p.Ty == "str" && len(p.EnumS) == 0 {
			for _, c := range []string{"a[1]", "b}c", "{x", "p]q", "q\"r", "a,b"} {
				if (p.MinLen == nil || len(c) >= *p.MinLen) && (p.MaxLen == nil || len(c) <= *p.MaxLen) {
					pool = append([]string{c}, pool...)
				}
			}
		}
		conv := func(s string) interface{} {
			switch p.Ty {
			case "int32", "int64":
				var n int64
				fmt.Sscan(s, &n)
				return float64(n)
			case "bool":
				return s == "true"
			}
			return s
		}
		if len(pool) > 0 {
			if !p.IsArray {
				p.Default = conv(pool[r.Intn(len(pool))])
			} else {
				n := 2
				if p.MinItems != nil && *p.MinItems > n {
					n = *p.MinItems
				}
				if (p.MaxItems == nil || *p.MaxItems >= n) && (!p.Unique || len(pool) >= n) {
					var items []interface{}
					for i := 0; i < n; i++ {
						items = append(items, conv(pool[i%len(pool)]))
					}
					p.Default = items
				}
			}
		}
	}
	return p
}

// validPool lists scalar texts that satisfy every item-level constraint of the parameter.
func (p *PSpecJ) validPool() []string {
	var out []string
	if p.Format != "" {
		return []string{c03FormatValues[p.Format]}
	}
	switch p.Ty {
	case "bool":
		return []string{"true", "false"}
	case "str":
		cands := []string{"abc", "abd", "abe", "ab", "abcd", "b", "abcde"}
		if len(p.EnumS) > 0 {
			cands = p.EnumS
		}
		for _, c := range cands {
			if (p.MinLen == nil || len(c) >= *p.MinLen) && (p.MaxLen == nil || len(c) <= *p.MaxLen) {
				out = append(out, c)
			}
		}
	default:
		var cands []int64
		if len(p.EnumI) > 0 {
			cands = p.EnumI
		} else {
			for i := int64(3); i < 20; i++ {
				cands = append(cands, i)
			}
			cands = append(cands, 0, 1, 2)
		}
		for _, c := range cands {
			if p.MinI != nil && (c < *p.MinI || (p.ExMin && c == *p.MinI)) {
				continue
			}
			if p.MaxI != nil && (c > *p.MaxI || (p.ExMax && c == *p.MaxI)) {
				continue
			}
			out = append(out, fmt.Sprint(c))
		}
	}
	return out
}

// a value that satisfies the spec (used for the parameters that are not under test); nil when the constraints contradict each other
func (p *PSpecJ) validRaw() []string {
	pool := p.validPool()
	if len(pool) == 0 {
		return nil
	}
	if !p.IsArray {
		return pool[:1]
	}
	n := 2
	if p.MinItems != nil && *p.MinItems > n {
		n = *p.MinItems
	}
	if p.MaxItems != nil && *p.MaxItems < n {
		return nil
	}
	if p.Unique && len(pool) < n {
		return nil
	}
	var items []string
	for i := 0; i < n; i++ {
		items = append(items, pool[i%len(pool)])
	}
	if p.CF == "multi" {
		return items
	}
	return []string{strings.Join(items, sepFor(p.CF))}
}

func sepFor(cf string) string {
	switch cf {
	case "ssv":
		return " "
	case "tsv":
		return "\t"
	case "pipes":
		return "|"
	}
	return ","
}

// raw values to try for a parameter: nil = key absent
func (p *PSpecJ) probes(r *rng.R) [][]string {
	if p.Format != "" {
		return [][]string{nil, {c03FormatValues[p.Format]}}
	}
	sep := sepFor(p.CF)
	out := [][]string{nil, {""}, p.validRaw(), append([]string{"zzz"}, p.validRaw()...)}
	scal := []string{"a", "ab", "abcdefgh", "0", "1", "7", "-1", "15", "16", "2147483648", "9223372036854775808", "+3", "1.5", "x1", " 3", "true", "TRUE", "no", "maybe", "é", "b",
		"ab ", " ab", " ", "abc\n", " 7 ", "true "}
	if !p.IsArray {
		for _, s := range scal {
			out = append(out, []string{s})
		}
		return out
	}
	items := [][]string{{"a"}, {"ab", "abc"}, {"ab", "ab"}, {"1", "2"}, {"1", "1"}, {"1", "2", "3", "4"}, {"7", "x"}, {"a", "", "b"}, {" 1 ", "2"}, {"ab ", "b"}, {"", ""}, {"3"}, {"16", "1"}, {"abcdefgh"}}
	if p.CF == "multi" {
		for _, it := range items {
			out = append(out, it)
		}
		return append(out, []string{"1,2"}, []string{"a,b", "c"}, []string{" 1", "2 "})
	}
	for _, it := range items {
		out = append(out, []string{strings.Join(it, sep)})
	}
	// the separator of another format inside a value
	other := "|"
	if sep == "|" {
		other = ","
	}
	out = append(out, []string{"1" + other + "2"}, []string{sep}, []string{"ab" + sep})
	return out
}

type boundJ struct {
	K string          `json:"k"`
	V json.RawMessage `json:"v"`
}

func normVal(raw json.RawMessage) interface{} {
	var v interface{}
	_ = json.Unmarshal(raw, &v)
	var conv func(x interface{}) interface{}
	conv = func(x interface{}) interface{} {
		switch t := x.(type) {
		case map[string]interface{}:
			for _, k := range []string{"s", "i", "b"} {
				if y, ok := t[k]; ok {
					return y
				}
			}
		case []interface{}:
			out := []interface{}{}
			for _, e := range t {
				out = append(out, conv(e))
			}
			return out
		}
		return x
	}
	return conv(v)
}

// observed turns what the handler saw for a parameter into the model's vocabulary.
func observed(resp *ServerResp, field string) (string, interface{}) {
	if !resp.Reached {
		return "reject", nil
	}
	var params map[string]interface{}
	_ = json.Unmarshal(resp.Params, &params)
	v, ok := params[field]
	if !ok || v == nil {
		return "absent", nil
	}
	switch t := v.(type) {
	case []interface{}:
		if len(t) == 0 {
			return "absent", nil
		}
		return "many", v
	}
	return "one", v
}

func sameValue(kind string, model interface{}, real interface{}) bool {
	return reflect.DeepEqual(model, real)
}

func zeroLike(v interface{}) bool {
	switch t := v.(type) {
	case string:
		return t == ""
	case float64:
		return t == 0
	case bool:
		return !t
	}
	return false
}

// CheckC03 — generated server binds and validates requests per the spec.
func CheckC03(run *ev.Run) {
	m := driver()
	defer m.Close()
	r := rng.New(uint64(run.Seed) + 3)
	nSpecs := 3
	if run.Tier == "thorough" {
		nSpecs = 30
	}
	if !run.Lean.OK {
		nSpecs *= 2
	}
	st := map[string]int{}
	run.Rule = "three operations (query / formData (urlencoded POST) / header) with 5 parameters each drawn from the fragment (half of the optional ones with a default, plus two fixed parameters whose defaults are made of brackets, braces, quotes and commas) (string / int32 / int64 / boolean scalars and one-level arrays in every collectionFormat incl. multi for query and formData, " +
		"required, enum, lengths, bounds incl. exclusive, item counts, uniqueness); the generated server is compiled and, parameter by parameter, ~25 raw values (absent, empty, repeated " +
		"key, boundary, overflow, malformed, blank and empty items, foreign separators) are sent while the other parameters hold valid values; handler-reached flag and the bound value " +
		"are compared with the Lean `bindGen` (correspondence) and `bindRef` (the property); distinct = (parameter spec, raw value)"
	run.Trusted = append(run.Trusted, "genlab server lab", "the projection of the handler's parameter struct (encoding/json of the generated struct)")
	run.Assume = append(run.Assume, "fragment: query, urlencoded formData and header parameters; path / body / multipart parameters, number and strfmt formats, patterns, defaults and nested arrays are not in the model (nor sent)",
		"an optional parameter given with an empty value counts as not given (documented rule)", "an absent optional non-pointer field shows its zero value")
	// the Go literal written for a default value (generator.GoLangOpts().ArrayInitializerFunc) against the Lean `render`
	{
		initFn := generator.GoLangOpts().ArrayInitializerFunc
		alpha := []string{"a", "b", " ", "[", "]", "{", "}", ",", ":", "\"", "\\", "\n", "\t", "é", "1"}
		word := func() string {
			var b strings.Builder
			for k := r.Intn(5); k >= 0; k-- {
				b.WriteString(alpha[r.Intn(len(alpha))])
			}
			return b.String()
		}
		var gen func(d int) interface{}
		gen = func(d int) interface{} {
			switch k := r.Intn(6); {
			case k < 2 || d <= 0:
				return word()
			case k == 2:
				return float64(r.Intn(2000) - 1000)
			case k == 3:
				m := map[string]interface{}{}
				for i := r.Intn(3); i > 0; i-- {
					m[word()] = gen(d - 1)
				}
				return m
			default:
				l := []interface{}{}
				for i := r.Intn(4); i > 0; i-- {
					l = append(l, gen(d-1))
				}
				return l
			}
		}
		nLit := 300
		if run.Tier == "thorough" {
			nLit = 5000
		}
		for i := 0; i < nLit; i++ {
			v := gen(3)
			real, err := initFn(v)
			if err != nil {
				continue
			}
			req, _ := json.Marshal(map[string]interface{}{"op": "text.initLiteral", "value": v})
			out, merr := m.Call(req)
			var mr struct {
				R           string `json:"r"`
				Out         string `json:"out"`
				StructureOk bool   `json:"structureOk"`
			}
			if merr == nil {
				_ = json.Unmarshal(out, &mr)
			}
			run.Traces++
			run.Case("initLiteral|" + real)
			rep := map[string]interface{}{"value": v, "real": real, "model": mr.Out}
			if mr.R != "ok" {
				run.Broken("corr:C03:driver", "model driver failed", rep)
				continue
			}
			if mr.Out != real {
				st["initLiteral-disagree"]++
				run.Broken("corr:C03:initLiteral", "Lean `render` and goSliceInitializer disagree on the literal of a default value", rep)
			} else {
				st["initLiteral-agree"]++
			}
		}
	}
	for si := 0; si < nSpecs; si++ {
		type opJ struct {
			in, method, path string
			ps               []*PSpecJ
		}
		ops := []*opJ{{in: "query", method: "get", path: "/q"}, {in: "formData", method: "post", path: "/f"}, {in: "header", method: "get", path: "/h"}}
		paths := map[string]interface{}{}
		for oi, o := range ops {
			var params []interface{}
			for i := 0; i < 5; i++ {
				p := genPSpec(r, fmt.Sprintf("p%d%d", oi, i), o.in)
				for p.validRaw() == nil { // contradictory constraints: nothing could be sent for it while the others are probed
					p = genPSpec(r, fmt.Sprintf("p%d%d", oi, i), o.in)
				}
				o.ps = append(o.ps, p)
				params = append(params, p.render())
			}
			// two fixed optional parameters with defaults made of JSON / Go punctuation: an array and a scalar
			for _, p := range []*PSpecJ{
				{Name: fmt.Sprintf("p%d8", oi), In: o.in, Ty: "str", IsArray: true, CF: "csv", Default: []interface{}{"a[1]", "b}c", "{x", "p]q", "plain"}},
				{Name: fmt.Sprintf("p%d9", oi), In: o.in, Ty: "str", Default: []string{"q\"r[0]", "}{", "a,b"}[(si+oi)%3]},
				// strfmt-typed parameters with defaults: one string-kind type (uuid / email / hostname / uri) and one struct-kind type (date)
				{Name: fmt.Sprintf("p%d6", oi), In: o.in, Ty: "str", Format: []string{"uuid", "email", "hostname", "uri"}[(si+oi)%4], Default: c03FormatValues[[]string{"uuid", "email", "hostname", "uri"}[(si+oi)%4]]},
				{Name: fmt.Sprintf("p%d7", oi), In: o.in, Ty: "str", Format: "date", Default: "2020-01-02"},
			} {
				o.ps = append(o.ps, p)
				params = append(params, p.render())
			}
			opd := map[string]interface{}{"operationId": "op" + o.in, "parameters": params,
				"responses": map[string]interface{}{"200": map[string]interface{}{"description": "ok"}}}
			if o.in == "formData" {
				opd["consumes"] = []string{"application/x-www-form-urlencoded"}
			}
			paths[o.path] = map[string]interface{}{o.method: opd}
		}
		doc := map[string]interface{}{"swagger": "2.0", "info": map[string]interface{}{"title": "bind", "version": "1"}, "produces": []string{"application/json"},
			"consumes": []string{"application/json"}, "paths": paths}
		spec, _ := json.MarshalIndent(doc, "", " ")
		sb, err := BuildServer("c03", spec)
		if err != nil {
			st["build-failed"]++
			// a subject that does not compile is C01's finding, not this property's; it is counted, and a run in which NOTHING could be built is a broken tie
			st["subject-does-not-build(C01)"]++
			if os.Getenv("VERIF_DEBUG") != "" {
				fmt.Fprintln(os.Stderr, "build failed:", tail(err.Error(), 400))
			}
			if sb != nil {
				sb.Remove()
			}
			continue
		}
		for _, o := range ops {
			ps := o.ps
			for pi, p := range ps {
				for _, raw := range p.probes(r) {
					q := url.Values{}
					for oi, x := range ps {
						if oi != pi {
							for _, v := range x.validRaw() {
								q.Add(x.Name, v)
							}
						}
					}
					for _, v := range raw {
						q.Add(p.Name, v)
					}
					var rq ServerReq
					switch o.in {
					case "query":
						rq = ServerReq{Method: "GET", URL: o.path + "?" + q.Encode()}
					case "formData":
						body := q.Encode()
						rq = ServerReq{Method: "POST", URL: o.path, Body: &body, Headers: map[string][]string{"Content-Type": {"application/x-www-form-urlencoded"}}}
					case "header":
						h := map[string][]string{}
						for k, vs := range q {
							h[http.CanonicalHeaderKey(k)] = vs
						}
						rq = ServerReq{Method: "GET", URL: o.path, Headers: h}
					}
					st["requests:"+o.in]++
					resp, err := sb.Do(rq)
					if err != nil {
						st["server-error"]++
						continue
					}
					var rawJ interface{}
					if raw != nil {
						rawJ = raw
					}
					mb, _ := json.Marshal(map[string]interface{}{"op": "param.bind", "spec": p, "raw": rawJ})
					out, merr := m.Call(mb)
					var mr struct {
						R   string `json:"r"`
						Gen boundJ `json:"gen"`
						Ref boundJ `json:"ref"`
					}
					if merr == nil {
						_ = json.Unmarshal(out, &mr)
					}
					if mr.R != "ok" {
						run.Broken("corr:C03:driver", "model driver failed", nil)
						continue
					}
					run.Traces++
					sj, _ := json.Marshal(p)
					run.Case(string(sj) + "|" + fmt.Sprint(raw))
					kind, val := observed(resp, strings.ToUpper(p.Name[:1])+p.Name[1:])
					matches := func(b boundJ) bool {
						switch b.K {
						case "reject":
							return kind == "reject"
						case "absent":
							if p.Default != nil {
								return (kind == "one" || kind == "many") && reflect.DeepEqual(p.Default, val)
							}
							return kind == "absent" || (kind == "one" && zeroLike(val))
						case "one":
							return kind == "one" && sameValue(kind, normVal(b.V), val)
						case "many":
							return kind == "many" && sameValue(kind, normVal(b.V), val)
						}
						return false
					}
					replay := map[string]interface{}{"spec": json.RawMessage(spec), "parameter": p, "raw_values": raw, "request": rq, "real": resp,
						"model_generated": mr.Gen, "reference": mr.Ref, "how": "generate the server, register a handler that prints its parameters, send the request"}
					if !resp.Reached && (resp.Status < 400 || resp.Status > 499) {
						run.Deviation("reject-status", fmt.Sprintf("an invalid request is answered with status %d", resp.Status), replay)
					}
					okRef := matches(mr.Ref)
					okGen := matches(mr.Gen)
					if !okRef {
						key := "binding-differs-from-reference"
						switch {
						case mr.Ref.K == "absent" && p.Default != nil && resp.Reached:
							key = "default-differs-from-spec"
						case p.Ty == "bool":
							key = "boolean-garbage-accepted-as-false"
						case p.IsArray && okGen:
							key = "array-items-trimmed-or-empty-items-dropped"
						}
						st["ref-mismatch:"+key]++
						run.Deviation(key, fmt.Sprintf("the server's decision for %s=%v (reached=%v, value=%v) is not what the parameter rules say (%s)", p.Name, raw, resp.Reached, val, mr.Ref.K), replay)
					} else {
						st["ref-agree"]++
					}
					if !okGen {
						st["gen-mismatch"]++
						if okRef || !run.HasConcrete() {
							run.Broken("corr:C03", "Lean `bindGen` and the generated binder disagree", replay)
						}
					}
					if len(run.Samples) < 3 && p.IsArray && kind == "many" {
						run.Sample(map[string]interface{}{"parameter": p, "raw": raw, "bound": val})
					}
				}
			}
		}
		sb.Remove()
	}
	keys := []string{}
	for k := range st {
		keys = append(keys, k)
	}
	sort.Strings(keys)
	if st["subject-does-not-build(C01)"] > 0 && run.Traces == 0 {
		run.Broken("corr:C03:lab", "no subject of this run could be generated and compiled: the property was not exercised (see C01)", nil)
	}
	run.Extra["distribution"] = st
}

var _ = proc.ErrCrash
