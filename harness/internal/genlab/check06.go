package genlab

import (
	"encoding/base64"
	"encoding/json"
	"fmt"
	"net/url"
	"os"
	"sort"
	"strings"

	"verif/harness/internal/ev"
	"verif/harness/internal/rng"
)

type secAlt map[string][]string // scheme -> scopes ({} = anonymous alternative)

var secDefs = map[string]interface{}{
	"key":   map[string]interface{}{"type": "apiKey", "in": "header", "name": "X-Key"},
	"qkey":  map[string]interface{}{"type": "apiKey", "in": "query", "name": "api_key"},
	"basic": map[string]interface{}{"type": "basic"},
	"oauth": map[string]interface{}{"type": "oauth2", "flow": "accessCode", "authorizationUrl": "http://a.example/auth", "tokenUrl": "http://a.example/token",
		"scopes": map[string]interface{}{"read": "r", "write": "w"}},
}

var secShapes = [][]secAlt{
	nil, // no security key on the operation: inherit the global requirement
	{},  // security: []
	{{"key": {}}},
	{{"key": {}, "qkey": {}}},
	{{"basic": {}}, {"oauth": {"read"}}},
	{{"oauth": {"read", "write"}}},
	{{}, {"key": {}}},
	{{"key": {}}, {"basic": {}, "qkey": {}}},
	{{"qkey": {}}},
}

var secGlobals = [][]secAlt{nil, {{"key": {}}}, {{"basic": {}}, {"qkey": {}}}, {{"key": {}, "oauth": {"read"}}}}

func renderAlts(alts []secAlt) []interface{} {
	out := []interface{}{}
	for _, a := range alts {
		m := map[string]interface{}{}
		for s, sc := range a {
			if sc == nil {
				sc = []string{}
			}
			m[s] = sc
		}
		out = append(out, m)
	}
	return out
}

type secOp struct {
	Path   string
	Shape  int
	Method string // lower case; "" = get
}

// every HTTP method of a Swagger 2.0 path item: the requirement applies to all of them alike
var secMethods = []string{"get", "options", "post", "head", "put", "patch", "delete"}

func secSpec(global []secAlt, ops []secOp) []byte {
	paths := map[string]interface{}{}
	for i, o := range ops {
		op := map[string]interface{}{"operationId": fmt.Sprintf("op%d", i), "responses": map[string]interface{}{"200": map[string]interface{}{"description": "ok"}}}
		if secShapes[o.Shape] != nil {
			op["security"] = renderAlts(secShapes[o.Shape])
		}
		m := o.Method
		if m == "" {
			m = "get"
		}
		paths[o.Path] = map[string]interface{}{m: op}
	}
	doc := map[string]interface{}{"swagger": "2.0", "info": map[string]interface{}{"title": "sec", "version": "1"}, "produces": []string{"application/json"},
		"securityDefinitions": secDefs, "paths": paths}
	if global != nil {
		doc["security"] = renderAlts(global)
	}
	b, _ := json.MarshalIndent(doc, "", " ")
	return b
}

// credential values a request may carry per scheme
var credChoices = []string{"absent", "good", "bad"}

type credRes struct {
	R    string `json:"r"`
	Code int    `json:"code,omitempty"`
	P    string `json:"p,omitempty"`
}

func title(s string) string { return strings.ToUpper(s[:1]) + s[1:] }

// expectedRes mirrors the stub authenticators of the glue main.
func expectedRes(scheme, cred string, required []string) credRes {
	name := title(scheme)
	switch cred {
	case "absent":
		return credRes{R: "na"}
	case "good":
		return credRes{R: "ok", P: name + ":good"}
	case "nil":
		return credRes{R: "nil"}
	case "plain":
		if scheme == "key" || scheme == "qkey" {
			return credRes{R: "err", Code: 500} // uncoded error of the token stub
		}
		return credRes{R: "err", Code: 401}
	}
	if strings.HasPrefix(cred, "good:") && scheme == "oauth" {
		granted := strings.Split(strings.TrimPrefix(cred, "good:"), ",")
		for _, r := range required {
			ok := false
			for _, g := range granted {
				if g == r {
					ok = true
				}
			}
			if !ok {
				return credRes{R: "err", Code: 403}
			}
		}
		return credRes{R: "ok", P: name + ":" + cred}
	}
	return credRes{R: "err", Code: 401}
}

func applyCreds(path string, creds map[string]string) ServerReq { return applyCredsM("get", path, creds) }

func applyCredsM(method, path string, creds map[string]string) ServerReq {
	if method == "" {
		method = "get"
	}
	rq := ServerReq{Method: strings.ToUpper(method), Headers: map[string][]string{}}
	q := url.Values{}
	for s, c := range creds {
		if c == "absent" {
			continue
		}
		switch s {
		case "key":
			rq.Headers["X-Key"] = []string{c}
		case "qkey":
			q.Set("api_key", c)
		case "basic":
			rq.Headers["Authorization"] = []string{"Basic " + base64.StdEncoding.EncodeToString([]byte(c+":pw"))}
		case "oauth":
			q.Set("access_token", c)
		}
	}
	rq.URL = path
	if len(q) > 0 {
		rq.URL += "?" + q.Encode()
	}
	return rq
}

// CheckC06 — generated server enforces security requirements exactly.
func CheckC06(run *ev.Run) {
	m := driver()
	defer m.Close()
	r := rng.New(uint64(run.Seed) + 6)
	nSpecs := 3
	if run.Tier == "thorough" {
		nSpecs = 24
	}
	if !run.Lean.OK {
		nSpecs *= 2
	}
	st := map[string]int{}
	run.Rule = "specs with a global requirement and 6 operations (methods cycling through get, options, post, head, put, patch, delete) drawn from 9 requirement shapes (inherit, `security: []`, single scheme, AND, OR, oauth2 scopes, anonymous " +
		"alternative); the generated server is compiled with stub authenticators and every assignment of {absent, good, bad} to the schemes the operation names is sent (plus " +
		"nil-principal, uncoded-error and partial-scope credentials); status, handler-reached flag and principal are compared with the Lean `serve`; distinct = (shape, global, credentials)"
	run.Trusted = append(run.Trusted, "genlab server lab (generated server + glue main with stub authenticators, driven in-process through httptest)", "the stub authenticators and their mirror in the harness")
	run.Assume = append(run.Assume, "authenticators return coded errors (errors.New(401/403, ...)); an uncoded error yields 500 (runtime dependency) and is exercised as such",
		"the principal of an AND alternative is compared as membership among its schemes' answers", "OAuth2 token introspection is a stub")
	for si := 0; si < nSpecs; si++ {
		global := secGlobals[(si+int(run.Seed))%len(secGlobals)]
		var ops []secOp
		perm := []int{0, 1, 2, 3, 4, 5, 6, 7, 8}
		r.Shuffle(len(perm), func(i, j int) { perm[i], perm[j] = perm[j], perm[i] })
		for i := 0; i < 6; i++ {
			ops = append(ops, secOp{Path: fmt.Sprintf("/p%d", i), Shape: perm[i], Method: secMethods[(i+si)%len(secMethods)]})
		}
		spec := secSpec(global, ops)
		sb, err := BuildServer("c06", spec)
		if err != nil {
			st["build-failed"]++
			// a subject that does not compile is C01's finding, not this property's; it is counted, and a run in which NOTHING could be built is a broken tie
			st["subject-does-not-build(C01)"]++
			if os.Getenv("VERIF_DEBUG") != "" {
				fmt.Fprintln(os.Stderr, "build failed:", tail(err.Error(), 400))
			}
			if sb != nil {
				sb.Remove()
			}
			continue
		}
		for _, o := range ops {
			eff := secShapes[o.Shape]
			if eff == nil {
				eff = global
			}
			// schemes involved
			set := map[string]bool{}
			for _, a := range eff {
				for s := range a {
					set[s] = true
				}
			}
			var schemes []string
			for s := range set {
				schemes = append(schemes, s)
			}
			sort.Strings(schemes)
			if len(schemes) == 0 {
				schemes = []string{"key"} // presenting a credential to an open operation must not matter
			}
			// all assignments of the basic choices, plus special ones
			var assigns []map[string]string
			total := 1
			for range schemes {
				total *= len(credChoices)
			}
			for k := 0; k < total; k++ {
				a := map[string]string{}
				x := k
				for _, s := range schemes {
					a[s] = credChoices[x%len(credChoices)]
					x /= len(credChoices)
				}
				assigns = append(assigns, a)
			}
			for _, s := range schemes {
				special := []string{"plain"}
				if s == "key" || s == "qkey" {
					special = append(special, "nil")
				}
				if s == "oauth" {
					special = append(special, "good:read", "good:write", "good:read,write")
				}
				for _, c := range special {
					a := map[string]string{}
					for _, t := range schemes {
						a[t] = "good"
					}
					a[s] = c
					assigns = append(assigns, a)
				}
			}
			reverse := false
			toModel := func(alts []secAlt) [][]string {
				out := [][]string{}
				for _, a := range alts {
					var ss []string
					for s := range a {
						ss = append(ss, s)
					}
					sort.Strings(ss)
					if reverse {
						for x, y := 0, len(ss)-1; x < y; x, y = x+1, y-1 {
							ss[x], ss[y] = ss[y], ss[x]
						}
					}
					if ss == nil {
						ss = []string{}
					}
					out = append(out, ss)
				}
				return out
			}
			for _, a := range assigns {
				rq := applyCredsM(o.Method, o.Path, a)
				resp, err := sb.Do(rq)
				if err != nil {
					st["server-error"]++
					continue
				}
				// expected per-scheme answers
				cred := map[string]credRes{}
				for _, alt := range eff {
					for s, scopes := range alt {
						cred[s] = expectedRes(s, a[s], scopes)
					}
				}
				type modelRes struct {
					R         string  `json:"r"`
					Out       string  `json:"out"`
					Principal *string `json:"principal"`
					Status    int     `json:"status"`
				}
				callModel := func(rev bool) modelRes {
					reverse = rev
					mreq := map[string]interface{}{"op": "sec.serve", "global": toModel(global), "cred": cred}
					if secShapes[o.Shape] != nil {
						mreq["opsec"] = toModel(secShapes[o.Shape])
					} else {
						mreq["opsec"] = nil
					}
					if global == nil {
						mreq["global"] = [][]string{}
					}
					mb, _ := json.Marshal(mreq)
					out, merr := m.Call(mb)
					var x modelRes
					if merr == nil {
						_ = json.Unmarshal(out, &x)
					}
					return x
				}
				// the router lists the schemes of an alternative in map order: the model is evaluated under both orders
				mr := callModel(false)
				mr2 := callModel(true)
				run.Traces++
				key := fmt.Sprintf("shape%d|global%d|%s|%v", o.Shape, (si+int(run.Seed))%len(secGlobals), o.Method, a)
				run.Case(key)
				replay := map[string]interface{}{"spec": json.RawMessage(spec), "request": rq, "credentials": a, "operation_path": o.Path,
					"effective_requirement": renderAlts(eff), "real": resp, "model": mr,
					"how": "generate the server, register authenticators that accept the credential `good`, send the request"}
				// property oracle on the real server
				satisfied, anon := false, len(eff) == 0
				for _, alt := range eff {
					if len(alt) == 0 {
						anon = true
						continue
					}
					all := true
					for s, scopes := range alt {
						e := expectedRes(s, a[s], scopes)
						if e.R != "ok" {
							all = false
						}
					}
					if all {
						satisfied = true
					}
				}
				if resp.Reached && !satisfied && !anon {
					k := fmt.Sprintf("handler-reached-unauthenticated:shape%d", o.Shape)
					for _, c := range a {
						if c == "nil" {
							k = "handler-reached-unauthenticated:nil-principal-inside-AND-alternative"
						}
					}
					run.Deviation(k, "the handler ran although no alternative of the effective security requirement is satisfied", replay)
					continue
				}
				if !resp.Reached && satisfied {
					run.Deviation(fmt.Sprintf("rejected-although-satisfied:shape%d", o.Shape), fmt.Sprintf("the request satisfies an alternative but was answered %d", resp.Status), replay)
					continue
				}
				if !resp.Reached && (resp.Status < 400 || resp.Status > 599) {
					run.Deviation("reject-status", fmt.Sprintf("rejected request answered with status %d", resp.Status), replay)
					continue
				}
				// correspondence with the model
				agreesWith := func(mr modelRes) bool {
					agree := mr.R == "ok" && ((mr.Out == "handler") == resp.Reached)
					if agree && resp.Reached {
						if mr.Principal == nil {
							agree = resp.Principal == ""
						} else if resp.Principal != *mr.Principal {
							agree = false
						}
					}
					if agree && !resp.Reached && mr.Status != resp.Status {
						agree = false
					}
					return agree
				}
				agree := agreesWith(mr) || agreesWith(mr2)
				if !agree {
					st["model-disagrees"]++
					run.Broken("corr:C06", "Lean `serve` and the generated server disagree", replay)
				} else {
					st["agree"]++
				}
				if resp.Reached {
					st["reached"]++
				} else {
					st[fmt.Sprintf("rejected:%d", resp.Status)]++
				}
				if len(run.Samples) < 3 && len(a) > 1 && resp.Reached {
					run.Sample(map[string]interface{}{"requirement": renderAlts(eff), "credentials": a, "status": resp.Status, "principal": resp.Principal})
				}
			}
		}
		sb.Remove()
	}
	if st["subject-does-not-build(C01)"] > 0 && run.Traces == 0 {
		run.Broken("corr:C06:lab", "no subject of this run could be generated and compiled: the property was not exercised (see C01)", nil)
	}
	run.Extra["distribution"] = st
}
