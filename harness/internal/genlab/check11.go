package genlab

import (
	"encoding/json"
	"fmt"
	"os"
	"path/filepath"
	"sort"
	"strings"
	"time"

	"verif/harness/internal/ev"
	"verif/harness/internal/proc"
	"verif/harness/internal/rng"
)

// regenSpec renders a small server spec whose operations and extra definitions are switched by bit masks (the spec
// "evolves" along a history).
func regenSpec(ops, defs uint) []byte {
	paths := map[string]interface{}{}
	add := func(url, method string, op map[string]interface{}) {
		if paths[url] == nil {
			paths[url] = map[string]interface{}{}
		}
		paths[url].(map[string]interface{})[method] = op
	}
	thing := map[string]interface{}{"$ref": "#/definitions/Thing"}
	ok := func(s interface{}) map[string]interface{} {
		r := map[string]interface{}{"description": "ok"}
		if s != nil {
			r["schema"] = s
		}
		return map[string]interface{}{"200": r}
	}
	// listThings is always present
	add("/things", "get", map[string]interface{}{"operationId": "listThings", "responses": ok(map[string]interface{}{"type": "array", "items": thing})})
	if ops&1 != 0 {
		add("/things", "post", map[string]interface{}{"operationId": "createThing", "parameters": []interface{}{
			map[string]interface{}{"name": "body", "in": "body", "required": true, "schema": thing}}, "responses": ok(thing)})
	}
	if ops&2 != 0 {
		add("/things/{id}", "get", map[string]interface{}{"operationId": "getThing", "parameters": []interface{}{
			map[string]interface{}{"name": "id", "in": "path", "required": true, "type": "string"}}, "responses": ok(thing)})
	}
	if ops&4 != 0 {
		add("/things/{id}", "delete", map[string]interface{}{"operationId": "deleteThing", "tags": []string{"admin"}, "parameters": []interface{}{
			map[string]interface{}{"name": "id", "in": "path", "required": true, "type": "string"}}, "responses": ok(nil)})
	}
	d := map[string]interface{}{
		"Thing": map[string]interface{}{"type": "object", "required": []string{"name"}, "properties": map[string]interface{}{
			"name": map[string]interface{}{"type": "string"}, "size": map[string]interface{}{"type": "integer", "format": "int32"}}},
	}
	if defs&1 != 0 {
		d["Other"] = map[string]interface{}{"type": "object", "properties": map[string]interface{}{"x": map[string]interface{}{"type": "string"}}}
	}
	if defs&2 != 0 {
		d["Extra"] = map[string]interface{}{"type": "string", "enum": []string{"a", "b"}}
	}
	doc := map[string]interface{}{"swagger": "2.0", "info": map[string]interface{}{"title": "regen", "version": "1"},
		"consumes": []string{"application/json"}, "produces": []string{"application/json"}, "paths": paths, "definitions": d}
	b, _ := json.MarshalIndent(doc, "", " ")
	return b
}

type regenStep struct {
	Kind string `json:"kind"` // server | client | model | edit-configure | add-file | edit-generated
	// per-history options of the server runs
	Config  bool   `json:"layout_config_file,omitempty"`     // -C layout.yml (the default layout in the documented format)
	Impl    bool   `json:"implementation_package,omitempty"` // --implementation-package x/impl
	Contrib bool   `json:"template_stratoscale,omitempty"`   // --template stratoscale (a contributed template set that regenerates its configure file)
	Ops     uint   `json:"ops,omitempty"`
	Defs    uint   `json:"defs,omitempty"`
	Regen   bool   `json:"regenerate_configure,omitempty"`
	Path    string `json:"path,omitempty"`
}

func genArgs(st regenStep, specFile string) []string {
	switch st.Kind {
	case "server":
		a := []string{"generate", "server", "-q", "-f", specFile, "-t", "target", "-A", "regen"}
		if st.Regen {
			a = append(a, "--regenerate-configureapi")
		}
		if st.Config {
			a = append(a, "-C", "layout.yml")
		}
		if st.Impl {
			a = append(a, "--implementation-package", "x/impl")
		}
		if st.Contrib {
			a = append(a, "--template", "stratoscale")
		}
		return a
	case "client":
		return []string{"generate", "client", "-q", "-f", specFile, "-t", "target", "-A", "regen"}
	case "model":
		return []string{"generate", "model", "-q", "-f", specFile, "-t", "target"}
	}
	return nil
}

// runGen runs one generate command with cwd = root (so that the relative target is always "target").
func runGen(swagger, root string, st regenStep) RunResult {
	spec := filepath.Join(root, "spec.json")
	_ = os.WriteFile(spec, regenSpec(st.Ops, st.Defs), 0o644)
	_ = os.MkdirAll(filepath.Join(root, "target"), 0o755) // the CLI wants the target directory to exist
	if st.Config {
		if yml, err := DefaultLayoutYAML(); err == nil {
			_ = os.WriteFile(filepath.Join(root, "layout.yml"), yml, 0o644)
		}
	}
	return Run(root, 120*time.Second, swagger, genArgs(st, "spec.json")...)
}

func isConfigure(p string) bool {
	return strings.HasPrefix(filepath.Base(p), "configure_") && strings.HasSuffix(p, ".go")
}

// CheckC11 — regeneration never destroys user code and converges.
func CheckC11(run *ev.Run) {
	swagger, err := BuildSwagger()
	if err != nil {
		run.Broken("tie:swagger-build", "cmd/swagger does not build: "+err.Error(), nil)
		return
	}
	defer os.Remove(swagger)
	model := proc.New(20*time.Second, filepath.Join(ev.VerifDir(), "lean", ".lake", "build", "bin", "gsdriver"))
	defer model.Close()
	r := rng.New(uint64(run.Seed) + 11)
	histories, steps := 8, 7
	if run.Tier == "thorough" {
		histories, steps = 40, 14
	}
	if !run.Lean.OK {
		histories *= 2
	}
	st := map[string]int{}
	run.Rule = "random histories over {generate server (evolving spec, with/without --regenerate-configureapi), generate client, generate model, user edits " +
		"the configure file, user adds a file, user edits a generated file} run with the swagger CLI built from the tree into one target; after every step " +
		"the tree (path -> hash) is compared with the Lean state machine, whose runs are taken from a fresh generation into an empty directory; distinct = " +
		"(step kind, options, what existed before)"
	run.Trusted = append(run.Trusted, "vx extract (Layout from the live GenOpts.Sections through the createSwagger plumbing)", "genlab (CLI runs, tree hashing)")
	run.Assume = append(run.Assume, "the relative target path is an input (it is embedded in a go:generate line), so every run uses the same relative target",
		"which files a run is responsible for is observed from a fresh generation, not predicted")

	for h := 0; h < histories; h++ {
		root, err := ScratchRoot("c11")
		if err != nil {
			run.Broken("tie:scratch", err.Error(), nil)
			return
		}
		_ = InitModule(root, "x")
		target := filepath.Join(root, "target")
		var hist []regenStep
		modelFS := [][2]string{}
		userFiles := map[string]string{}
		ops, defs := uint(r.Intn(8)), uint(r.Intn(4))
		useConfig, useImpl := h%4 == 1, h%4 == 3
		useContrib := h%4 == 2 && h%8 == 2 // one history in eight runs the contributed stratoscale templates
		fail := func(key, what string, extra map[string]interface{}) {
			m := map[string]interface{}{"history": hist, "how": "run the listed steps with `swagger generate ... -t target` in one scratch module (spec from regenSpec(ops, defs)); see harness/internal/genlab/check11.go"}
			for k, v := range extra {
				m[k] = v
			}
			run.Deviation(key, what, m)
		}
		for s := 0; s < steps; s++ {
			before := Tree(target)
			var step regenStep
			switch k := r.Intn(10); {
			case s == 0 || k < 4:
				if r.Chance(1, 2) {
					ops = uint(r.Intn(8))
				}
				if r.Chance(1, 3) {
					defs = uint(r.Intn(4))
				}
				step = regenStep{Kind: "server", Ops: ops, Defs: defs, Regen: s > 0 && r.Chance(1, 4), Config: useConfig, Impl: useImpl, Contrib: useContrib}
			case k < 5:
				step = regenStep{Kind: "client", Ops: ops, Defs: defs}
			case k < 6:
				step = regenStep{Kind: "model", Ops: ops, Defs: defs}
			case k < 8:
				step = regenStep{Kind: "edit-configure"}
			case k < 9:
				step = regenStep{Kind: "add-file", Path: r.Pick([]string{"restapi/user_code.go", "models/user_model.go", "NOTES.md", "restapi/operations/user_helper.go"})}
			default:
				step = regenStep{Kind: "edit-generated"}
			}
			var modelOp map[string]interface{}
			switch step.Kind {
			case "server", "client", "model":
				res := runGen(swagger, root, step)
				if res.Code != 0 {
					st["gen-failed"]++
					fail("generate-failed:"+step.Kind, "generation fails on the regeneration spec: "+tail(res.Out, 400), nil)
					continue
				}
				// what this run is responsible for: a fresh generation into an empty directory
				fresh, _ := ScratchRoot("c11f")
				_ = InitModule(fresh, "x")
				fr := runGen(swagger, fresh, step)
				ft := Tree(filepath.Join(fresh, "target"))
				_ = os.RemoveAll(fresh)
				if fr.Code != 0 {
					continue
				}
				var ws [][]interface{}
				for _, p := range SortedKeys(ft) {
					// a layout given with -C carries its own skip_exists flag, which the command-line switch does not override
					skip := isConfigure(p) && (!step.Regen || step.Config) && step.Kind == "server" && !step.Impl && !step.Contrib
					ws = append(ws, []interface{}{p, ft[p], skip})
				}
				modelOp = map[string]interface{}{"run": ws}
				after := Tree(target)
				// property oracle, directly on the trees
				for p, hsh := range userFiles {
					if after[p] != hsh {
						fail("user-file-touched:"+step.Kind, fmt.Sprintf("a file the generator did not produce (%s) was modified or removed by generate %s", p, step.Kind), map[string]interface{}{"file": p})
					}
				}
				for p := range before {
					if _, ok := after[p]; !ok {
						fail("file-removed:"+step.Kind, fmt.Sprintf("generate %s removed %s", step.Kind, p), map[string]interface{}{"file": p})
					}
				}
				for p, hsh := range ft {
					_, existed := before[p]
					if isConfigure(p) && existed && !((step.Regen || step.Contrib) && !step.Config && step.Kind == "server") {
						if after[p] != before[p] {
							fail("configure-rewritten", "the configure file was rewritten although regeneration was not requested", map[string]interface{}{"file": p})
						}
						continue
					}
					if after[p] != hsh {
						fail("not-converged:"+step.Kind, fmt.Sprintf("after generate %s, %s differs from what a fresh generation contains", step.Kind, p), map[string]interface{}{"file": p})
					}
				}
				st["run:"+step.Kind]++
			case "edit-configure", "edit-generated":
				var cands []string
				for p := range before {
					if (step.Kind == "edit-configure") == isConfigure(p) && strings.HasSuffix(p, ".go") && userFiles[p] == "" {
						cands = append(cands, p)
					}
				}
				if len(cands) == 0 {
					continue
				}
				sort.Strings(cands)
				p := cands[r.Intn(len(cands))]
				f, _ := os.OpenFile(filepath.Join(target, p), os.O_APPEND|os.O_WRONLY, 0o644)
				fmt.Fprintf(f, "\n// user edit %d.%d\n", h, s)
				f.Close()
				step.Path = p
				modelOp = map[string]interface{}{"user": []string{p, Tree(target)[p]}}
				st["user:"+step.Kind]++
			case "add-file":
				full := filepath.Join(target, step.Path)
				if _, err := os.Stat(full); err == nil {
					continue
				}
				_ = os.MkdirAll(filepath.Dir(full), 0o755)
				body := fmt.Sprintf("user content %d.%d\n", h, s)
				if strings.HasSuffix(step.Path, ".go") {
					body = fmt.Sprintf("package %s\n\n// user file %d.%d\n", filepath.Base(filepath.Dir(full)), h, s)
				}
				_ = os.WriteFile(full, []byte(body), 0o644)
				userFiles[step.Path] = Tree(target)[step.Path]
				modelOp = map[string]interface{}{"user": []string{step.Path, userFiles[step.Path]}}
				st["user:add-file"]++
			}
			hist = append(hist, step)
			// correspondence with the state machine
			req, _ := json.Marshal(map[string]interface{}{"op": "regen.exec", "fs": modelFS, "ops": []interface{}{modelOp}})
			out, err := model.Call(req)
			var mr struct {
				R  string      `json:"r"`
				FS [][2]string `json:"fs"`
			}
			if err == nil {
				_ = json.Unmarshal(out, &mr)
			}
			if err != nil || mr.R != "ok" {
				run.Broken("corr:C11:model", "model driver failed", map[string]interface{}{"history": hist})
				break
			}
			modelFS = mr.FS
			actual := Tree(target)
			pred := map[string]string{}
			for _, kv := range modelFS {
				pred[kv[0]] = kv[1]
			}
			run.Traces++
			existedCfg := false
			for p := range before {
				if isConfigure(p) {
					existedCfg = true
				}
			}
			run.Case(fmt.Sprintf("%s|regen=%v|cfg-existed=%v|ops=%d|defs=%d|-C=%v|impl=%v", step.Kind, step.Regen, existedCfg, step.Ops, step.Defs, step.Config, step.Impl))
			if TreeHash(actual) != TreeHash(pred) {
				var diffs []string
				for _, p := range SortedKeys(actual) {
					if pred[p] != actual[p] {
						diffs = append(diffs, p)
					}
				}
				for _, p := range SortedKeys(pred) {
					if _, ok := actual[p]; !ok {
						diffs = append(diffs, "missing:"+p)
					}
				}
				if !run.HasConcrete() {
					run.Broken("corr:C11", fmt.Sprintf("target tree and Lean state machine disagree after step %d (%s): %v", s, step.Kind, diffs), map[string]interface{}{"history": hist, "paths": diffs})
				}
				break
			}
			if len(run.Samples) < 2 && s == steps-1 {
				run.Sample(map[string]interface{}{"history": hist, "files_in_target": len(actual)})
			}
		}
		_ = os.RemoveAll(root)
	}
	run.Extra["distribution"] = st
}

func tail(s string, n int) string {
	if len(s) > n {
		return s[len(s)-n:]
	}
	return s
}
