package genlab

import (
	"encoding/json"
	"fmt"
	"os"
	"path/filepath"
	"reflect"
	"regexp"
	"strings"

	"github.com/go-swagger/go-swagger/codescan"

	"verif/harness/internal/ev"
	"verif/harness/internal/rng"
)

type c17Route struct {
	Method, Path, Tag, ID string
	Yaml                  bool // swagger:operation with a YAML body instead of swagger:route
	Params                []c17Param
	Codes                 []string
}

type c17Param struct{ Name, In, GoType string }

var c17Hostile = []string{"//", "// ", "//\t", "//   \t ", "// ---", "// - ", "// :", "// foo:", "//   bar: [", "// Extensions:", "// x-a: b", "//  - item", "// swagger:route", "// swagger:operation GET",
	"// in: nowhere", "// maximum: abc", "// enum: [", "// Responses:", "//   200", "// \u00a0\u2003", "// Security:", "//   api_key:", "// Consumes:", "// - ", "// required: maybe", "// items.maximum: 3",
	"// items.items.enum: a,b", "// default: {", "// example: [1,", "// pattern: (", "// swagger:allOf", "// swagger:strfmt", "// swagger:enum", "// swagger:ignore", "// swagger:model", "// swagger:parameters",
	"// swagger:response", "// Deprecated: true", "// Schemes: ftp,", "// min items: -1", "// unique: yes", "// multiple of: 0", "// in: body", "// swagger:name", "// swagger:type", "//\t\t- x:", "// Extensions:\n// ---",
	"// x-list:\n//   - a\n//   - b", "// Extensions:\n//", "// SecurityDefinitions:", "// InfoExtensions:", "// TermsOfService:", "// Contact: <", "// License: MIT http://"}

func c17Program(r *rng.R, fuzz bool) (string, []c17Route) {
	var b strings.Builder
	hostile := func() {
		if fuzz && r.Chance(1, 3) {
			for k := 1 + r.Intn(2); k > 0; k-- {
				b.WriteString(c17Hostile[r.Intn(len(c17Hostile))] + "\n")
			}
		}
	}
	b.WriteString("// Package api is a generated annotated program.\n//\n// The API of the check.\n//\n")
	hostile()
	b.WriteString("//\tSchemes: " + r.Pick([]string{"http, https", "http,https", "https,  http", "http"}) + "\n//\tHost: localhost\n//\tBasePath: /v1\n//\tVersion: 1.0.0\n//\n//\tConsumes:\n//\t- application/json\n//\n//\tProduces:\n//\t- application/json\n//\n")
	hostile()
	b.WriteString("// swagger:meta\npackage api\n\n")
	// models
	b.WriteString("// Pet is a model.\n//\n")
	hostile()
	b.WriteString("// swagger:model Pet\ntype Pet struct {\n\t// the id\n\t//\n\t// required: true\n\t// minimum: 1\n")
	hostile()
	b.WriteString("\tID int64 `json:\"id\"`\n\t// the name\n\t//\n\t// min length: 2\n\t// max length: 20\n\t// pattern: ^[a-z]+$\n\tName string `json:\"name\"`\n\t// tags\n\t//\n\t// max items: 5\n\t// unique: true\n\t// items.min length: 1\n")
	hostile()
	b.WriteString("\tTags []string `json:\"tags,omitempty\"`\n\t// kind\n\t//\n\t// enum: cat,dog\n\tKind string `json:\"kind\"`\n")
	if fuzz && r.Chance(1, 3) { // field types a model may legally have although JSON cannot carry them
		b.WriteString("\tOdd " + r.Pick([]string{"func()", "chan int", "complex128", "map[int]string", "[]func() error", "*struct{ F func() }", "interface{ M() }", "uintptr"}) + " `json:\"odd\"`\n")
	}
	b.WriteString("}\n\n")
	b.WriteString("// Fault is the error model.\n//\n// swagger:model Fault\ntype Fault struct {\n\tCode int32 `json:\"code\"`\n\tMessage string `json:\"message\"`\n}\n\n")
	b.WriteString("// petResponse is a response.\n//\n")
	hostile()
	b.WriteString("// swagger:response petResponse\ntype petResponse struct {\n\t// in: body\n\tBody Pet\n\t// the rate\n\tXRate int32 `json:\"X-Rate\"`\n}\n\n")
	b.WriteString("// faultResponse is the error response.\n//\n// swagger:response faultResponse\ntype faultResponse struct {\n\t// in: body\n\tBody Fault\n}\n\n")
	// a response and a model that share their name (the usual `error` pair)
	b.WriteString("// genericErrorModel is the payload of genericError.\n//\n// swagger:model genericError\ntype genericErrorModel struct {\n\tMessage string `json:\"message\"`\n}\n\n")
	b.WriteString("// genericErrorResponse is a response named like its model.\n//\n// swagger:response genericError\ntype genericErrorResponse struct {\n\t// in: body\n\tBody genericErrorModel\n\t// how long to wait\n\tRetryAfter int32 `json:\"Retry-After\"`\n}\n\n")
	methods := []string{"GET", "POST", "PUT", "PATCH", "DELETE", "HEAD", "OPTIONS"}
	var routes []c17Route
	n := 4 + r.Intn(4)
	for i := 0; i < n; i++ {
		rt := c17Route{Method: methods[(i+r.Intn(7))%7], Path: fmt.Sprintf("/pets%d/{id}", i), Tag: r.Pick([]string{"pets", "admin", ""}), ID: fmt.Sprintf("op%d", i), Yaml: r.Chance(1, 3)}
		if r.Chance(1, 4) {
			rt.Method = strings.ToLower(rt.Method)
		}
		rt.Codes = []string{"200", "default"}
		if r.Chance(1, 2) {
			rt.Codes = append(rt.Codes, r.Pick([]string{"404", "422", "500"}))
		}
		rt.Params = []c17Param{{"id", "path", "int64"}}
		for k := r.Intn(3); k > 0; k-- {
			rt.Params = append(rt.Params, c17Param{fmt.Sprintf("q%d", k), r.Pick([]string{"query", "header"}), r.Pick([]string{"string", "int32", "bool", "[]string"})})
		}
		// a body parameter whose schema reaches a type that nothing else mentions and that carries no swagger:model annotation:
		// inline envelope struct, named struct, slice and map (each route index has its own helper types)
		if m := strings.ToUpper(rt.Method); !rt.Yaml && (m == "POST" || m == "PUT" || m == "PATCH") {
			bodyTy := []string{
				fmt.Sprintf("struct {\n\t\tPet Pet `json:\"pet\"`\n\t\tTags []Tag%d `json:\"tags\"`\n\t}", i),
				fmt.Sprintf("Tag%d", i), fmt.Sprintf("[]Tag%d", i), fmt.Sprintf("map[string]Tag%d", i), fmt.Sprintf("*Tag%d", i)}[r.Intn(5)]
			rt.Params = append(rt.Params, c17Param{"body", "body", bodyTy})
			fmt.Fprintf(&b, "// Tag%d is reachable through the body of op%d only.\ntype Tag%d struct {\n\tLabel string `json:\"label\"`\n\tWeight int32 `json:\"weight\"`\n}\n\n", i, i, i)
		}
		routes = append(routes, rt)
		tag := ""
		if rt.Tag != "" {
			tag = rt.Tag + r.Pick([]string{" ", " ", "  "}) // one or two blanks before the operation id
		}
		if rt.Yaml {
			fmt.Fprintf(&b, "// swagger:operation %s %s %s%s\n//\n// Operation %d.\n//\n", rt.Method, rt.Path, tag, rt.ID, i)
			hostile()
			b.WriteString("// ---\n// produces:\n// - application/json\n")
			if fuzz && r.Chance(1, 2) { // blank-ish lines inside the YAML body
				b.WriteString(r.Pick([]string{"//", "//   ", "//\t", "// \t \t", "//     # comment"}) + "\n")
			}
			b.WriteString("// parameters:\n")
			for _, p := range rt.Params {
				ty := map[string]string{"string": "string", "int32": "integer", "int64": "integer", "bool": "boolean", "[]string": "array"}[p.GoType]
				fmt.Fprintf(&b, "// - name: %s\n//   in: %s\n//   type: %s\n", p.Name, p.In, ty)
				if ty == "array" {
					b.WriteString("//   items:\n//     type: string\n")
				}
				if p.In == "path" {
					b.WriteString("//   required: true\n")
				}
			}
			b.WriteString("// responses:\n")
			for _, c := range rt.Codes {
				resp := "faultResponse"
				if c == "200" {
					resp = "petResponse"
				}
				key := c
				if c != "default" {
					key = "'" + c + "'"
				}
				fmt.Fprintf(&b, "//   %s:\n//     \"$ref\": \"#/responses/%s\"\n", key, resp)
			}
			fmt.Fprintf(&b, "func %sHandler() {}\n\n", rt.ID)
		} else {
			fmt.Fprintf(&b, "// swagger:route %s %s %s%s\n//\n// Operation %d.\n//\n// It does things.\n//\n", rt.Method, rt.Path, tag, rt.ID, i)
			hostile()
			b.WriteString("//\tResponses:\n")
			for _, c := range rt.Codes {
				resp := "faultResponse"
				if c == "200" {
					resp = "petResponse"
				} else if c == "default" && i%2 == 0 {
					resp = "genericError"
				}
				fmt.Fprintf(&b, "//\t  %s: %s\n", c, resp)
			}
			hostile()
			fmt.Fprintf(&b, "func %sHandler() {}\n\n", rt.ID)
			fmt.Fprintf(&b, "// %sParams are the parameters of %s.\n//\n// swagger:parameters %s\ntype %sParams struct {\n", rt.ID, rt.ID, rt.ID, rt.ID)
			for _, p := range rt.Params {
				fmt.Fprintf(&b, "\t// %s\n\t//\n\t// in: %s\n", p.Name, p.In)
				if p.In == "path" {
					b.WriteString("\t// required: true\n")
				}
				hostile()
				fmt.Fprintf(&b, "\t%s %s `json:%q`\n", strings.ToUpper(p.Name[:1])+p.Name[1:], p.GoType, p.Name)
			}
			b.WriteString("}\n\n")
		}
	}
	return b.String(), routes
}

var rxPanicFunc = regexp.MustCompile(`codescan\.(\(?\*?\w+\)?\.?\w+)\(`)

// CheckC17 — generate spec yields a valid, faithful document or an error.
func CheckC17(run *ev.Run) {
	r := rng.New(uint64(run.Seed) + 17)
	nClean, nFuzz := 10, 14
	if run.Tier == "thorough" {
		nClean, nFuzz = 30, 300
	}
	if !run.Lean.OK {
		nClean, nFuzz = nClean*2, nFuzz*2
	}
	st := map[string]int{}
	run.Rule = "annotated programs built from the documented grammar (swagger:meta with sections, swagger:route with Responses, swagger:operation with a YAML body, swagger:parameters structs with in / required / " +
		"validations, swagger:response structs with body and headers, swagger:model structs with validations at items depth) in every HTTP method and letter case; clean programs must scan into a document that " +
		"passes go-openapi/validate and holds every annotated route with its method, path, id, tag, parameters (name, location) and response codes; fuzzed programs (hostile lines - blank-only lines, tabs, " +
		"list markers, half-written sections, stray annotations - inserted into every comment group) must never make the scanner panic"
	run.Trusted = append(run.Trusted, "codescan.Run in-process with recover()", "go-openapi/validate as the judge of a valid Swagger 2.0 document", "the expectation derived from the program generator")
	run.Trusted = append(run.Trusted, "build-tag accessors VerifRemoveIndent / VerifSchemes / VerifPathAnnotation (run the real functions and regexps; the models of the two item splitters are given the group the real regexp captured)")
	run.Assume = append(run.Assume, "the regular expressions rxSchemes / rxRoute / rxOperation are run, not modelled: the theorems about schemes and tags start at the captured group",
		"annotation lines written per the documented grammar (any blanks of class Zs between tokens, one-letter tags included) must be recognised and read back exactly; hostile Schemes lines may be rejected")
	run.Assume = append(run.Assume, "for fuzzed programs only the absence of a crash is required (an error or any document is acceptable)", "merging with an input spec is not exercised here")
	scan := func(src string) ([]byte, error, string) {
		root, err := ScratchRoot("c17")
		if err != nil {
			return nil, err, ""
		}
		defer os.RemoveAll(root)
		_ = InitModule(root, "x")
		_ = os.MkdirAll(filepath.Join(root, "api"), 0o755)
		_ = os.WriteFile(filepath.Join(root, "api", "api.go"), []byte(src), 0o644)
		return Scan(root, []string{"./api"}, true, nil)
	}
	for i := 0; i < nClean+nFuzz; i++ {
		fuzz := i >= nClean
		src, routes := c17Program(r, fuzz)
		replay := map[string]interface{}{"api_go": src, "how": "put api_go into package x/api of a module with the repository's requirements; swagger generate spec -m -w . ./api"}
		doc, serr, pan := scan(src)
		run.Traces++
		run.Case(fmt.Sprintf("%v|%x", fuzz, hashBytes([]byte(src))))
		if pan != "" {
			fn := "unknown"
			if m := rxPanicFunc.FindAllStringSubmatch(pan, -1); len(m) > 0 {
				fn = m[0][1]
				for _, x := range m {
					if !strings.Contains(x[1], "Scan") && !strings.HasPrefix(x[1], "Run") {
						fn = x[1]
						break
					}
				}
			}
			st["PANIC:"+fn]++
			replay["panic"] = tail(pan, 1500)
			run.Deviation("scanner-panics:"+fn, "the scanner crashes on a compilable program: "+firstLine(pan), replay)
			continue
		}
		if serr != nil {
			st[map[bool]string{true: "fuzzed:error", false: "CLEAN-PROGRAM-REFUSED"}[fuzz]]++
			if !fuzz {
				replay["error"] = serr.Error()
				run.Deviation("clean-program-refused", "a program that follows the documented grammar is refused: "+firstLine(serr.Error()), replay)
			}
			continue
		}
		if fuzz {
			st["fuzzed:document"]++
			continue
		}
		// clean program: valid and faithful
		if ok, msg := specValid(doc); !ok {
			st["INVALID-DOCUMENT"]++
			replay["validation"] = msg
			replay["document"] = json.RawMessage(doc)
			run.Deviation("invalid-document:"+regexp.MustCompile(`["'][^"']*["']|\d+`).ReplaceAllString(firstLine(msg), "_"), "the scanned document does not pass Swagger 2.0 validation: "+firstLine(msg), replay)
		} else {
			st["valid-document"]++
		}
		var d struct {
			Paths map[string]map[string]struct {
				OperationID string   `json:"operationId"`
				Tags        []string `json:"tags"`
				Parameters  []struct {
					Name string `json:"name"`
					In   string `json:"in"`
				} `json:"parameters"`
				Responses map[string]interface{} `json:"responses"`
			} `json:"paths"`
			Definitions map[string]interface{} `json:"definitions"`
			Responses   map[string]interface{} `json:"responses"`
		}
		_ = json.Unmarshal(doc, &d)
		for _, rt := range routes {
			op, ok := d.Paths[rt.Path][strings.ToLower(rt.Method)]
			what := ""
			switch {
			case !ok:
				what = "is missing from the document"
			case op.OperationID != rt.ID:
				what = fmt.Sprintf("has operationId %q", op.OperationID)
			case rt.Tag != "" && (len(op.Tags) != 1 || op.Tags[0] != rt.Tag):
				what = fmt.Sprintf("has tags %v, annotated %q", op.Tags, rt.Tag)
			default:
				have := map[string]bool{}
				for _, p := range op.Parameters {
					have[p.In+":"+p.Name] = true
				}
				for _, p := range rt.Params {
					if !have[p.In+":"+p.Name] {
						what = fmt.Sprintf("lacks parameter %s in %s", p.Name, p.In)
					}
				}
				for _, c := range rt.Codes {
					rv, ok := op.Responses[c]
					if !ok {
						what = fmt.Sprintf("lacks response %s", c)
						continue
					}
					// a response given by name must come out as a reference to that response (headers and description live there)
					if rm, ok := rv.(map[string]interface{}); ok {
						if ref, _ := rm["$ref"].(string); !strings.HasPrefix(ref, "#/responses/") {
							what = fmt.Sprintf("response %s is not a reference to a named response (%v)", c, clip(fmt.Sprint(rm), 120))
						}
					}
				}
			}
			if what != "" {
				st["ROUTE-NOT-FAITHFUL"]++
				rp := map[string]interface{}{"route": rt, "document": json.RawMessage(doc)}
				for k, v := range replay {
					rp[k] = v
				}
				kind := "route"
				if rt.Yaml {
					kind = "operation"
				}
				run.Deviation("unfaithful:"+kind+":"+strings.ToUpper(rt.Method)+":"+strings.SplitN(what, " ", 3)[0], fmt.Sprintf("annotated %s %s %s (%s) %s", kind, rt.Method, rt.Path, rt.ID, what), rp)
			} else {
				st["route-faithful"]++
			}
		}
		for _, m := range []string{"Pet", "Fault"} {
			if _, ok := d.Definitions[m]; !ok {
				run.Deviation("model-missing", "annotated model "+m+" is missing from the document", replay)
			}
		}
		if len(run.Samples) < 1 {
			run.Sample(map[string]interface{}{"routes": routes})
		}
	}
	// correspondence of the one modelled stage: removeIndent on random ASCII bodies
	m := driver()
	defer m.Close()
	pieces := []string{" ", "  ", "\t", "/", "//", "a", "b: 1", "- x", ":", "", "#"}
	nRI := 300
	if run.Tier == "thorough" {
		nRI = 5000
	}
	for i := 0; i < nRI; i++ {
		var lines []string
		for k := 1 + r.Intn(4); k > 0; k-- {
			var l strings.Builder
			for p := r.Intn(6); p > 0; p-- {
				l.WriteString(pieces[r.Intn(len(pieces))])
			}
			lines = append(lines, l.String())
		}
		var real []string
		realPanic := ""
		func() {
			defer func() {
				if e := recover(); e != nil {
					realPanic = fmt.Sprint(e)
				}
			}()
			real = codescan.VerifRemoveIndent(lines)
		}()
		mb, _ := json.Marshal(map[string]interface{}{"op": "scan.removeIndent", "lines": lines})
		out, merr := m.Call(mb)
		var mr struct {
			R     string   `json:"r"`
			Lines []string `json:"lines"`
			Panic string   `json:"panic"`
		}
		if merr == nil {
			_ = json.Unmarshal(out, &mr)
		}
		run.Traces++
		if mr.R != "ok" {
			run.Broken("corr:C17:driver", "model driver failed", nil)
			break
		}
		if realPanic != "" {
			st["REMOVEINDENT-PANICS"]++
			run.Deviation("scanner-panics:removeIndent", "removeIndent panics: "+realPanic, map[string]interface{}{"lines": lines})
			continue
		}
		if mr.Panic != "" || !reflect.DeepEqual(append([]string{}, mr.Lines...), append([]string{}, real...)) {
			st["REMOVEINDENT-DIFFERS"]++
			run.Broken("corr:C17:removeIndent", fmt.Sprintf("Lean removeIndent and the scanner disagree on %q: model %q, real %q", lines, mr.Lines, real), map[string]interface{}{"lines": lines, "model": mr.Lines, "real": real})
		} else {
			st["removeIndent-agrees"]++
		}
	}
	// correspondence of the two item splitters behind the regexp captures: `Schemes:` lines and the tag list of
	// swagger:route / swagger:operation lines. The real regexp cuts the group out; the model is given that group.
	blanks := []string{" ", "  ", " ", "　", "  "}
	schemeWords := []string{"http", "https", "HTTP", "HTTPS", "ws", "wss", "WS", "WSS"}
	tagWords := []string{"pets", "users", "a", "Zoo9", "x-y", "été", "b_c"}
	callList := func(op, capture string) ([]string, bool) {
		mb, _ := json.Marshal(map[string]interface{}{"op": op, "s": capture})
		out, merr := m.Call(mb)
		var mr struct {
			R     string   `json:"r"`
			Items []string `json:"items"`
		}
		if merr == nil {
			_ = json.Unmarshal(out, &mr)
		}
		return mr.Items, mr.R == "ok"
	}
	same := func(a, b []string) bool { return reflect.DeepEqual(append([]string{}, a...), append([]string{}, b...)) }
	nSL := 400
	if run.Tier == "thorough" {
		nSL = 6000
	}
	for i := 0; i < nSL; i++ {
		// a Schemes line: grammar-generated (separators: comma with any blanks, doubled commas, trailing ones) or hostile
		var l strings.Builder
		var want []string
		l.WriteString([]string{"Schemes", "schemes"}[r.Intn(2)])
		if r.Intn(3) == 0 {
			l.WriteString(blanks[r.Intn(len(blanks))])
		}
		l.WriteString(":")
		hostile := r.Intn(8) == 0
		for k := 1 + r.Intn(4); k > 0; k-- {
			if r.Intn(2) == 0 {
				l.WriteString(blanks[r.Intn(len(blanks))])
			}
			w := schemeWords[r.Intn(len(schemeWords))]
			l.WriteString(w)
			want = append(want, w)
			if r.Intn(2) == 0 {
				l.WriteString(blanks[r.Intn(len(blanks))])
			}
			if k > 1 || r.Intn(4) == 0 {
				l.WriteString(",")
				if r.Intn(5) == 0 {
					l.WriteString([]string{",", " ,", ", ,"}[r.Intn(3)])
				}
			}
		}
		if hostile {
			l.WriteString([]string{"x", ";", " ftp", "\t"}[r.Intn(4)])
		}
		line := l.String()
		var matched bool
		var capture, realPanic string
		var real []string
		func() {
			defer func() {
				if e := recover(); e != nil {
					realPanic = fmt.Sprint(e)
				}
			}()
			matched, capture, real = codescan.VerifSchemes(line)
		}()
		run.Traces++
		if realPanic != "" {
			st["SCHEMES-PANICS"]++
			run.Deviation("scanner-panics:schemes", "the Schemes tagger panics: "+realPanic, map[string]interface{}{"line": line})
			continue
		}
		if !matched {
			st["schemes-line-not-matched"]++
			if !hostile {
				st["SCHEMES-GRAMMAR-LINE-REJECTED"]++
				run.Deviation("schemes-line-rejected", fmt.Sprintf("a Schemes line written per the documented grammar is not recognised: %q", line), map[string]interface{}{"line": line})
			}
			continue
		}
		items, ok := callList("scan.schemes", capture)
		if !ok {
			run.Broken("corr:C17:driver", "model driver failed", nil)
			break
		}
		if !same(items, real) {
			st["SCHEMES-DIFFERS"]++
			run.Broken("corr:C17:schemes", fmt.Sprintf("Lean schemesOf and the scanner disagree on %q (captured %q): model %q, real %q", line, capture, items, real), map[string]interface{}{"line": line, "capture": capture, "model": items, "real": real})
			continue
		}
		st["schemes-agrees"]++
		if !hostile && !same(real, want) {
			// faithfulness (theorem schemes_faithful, on the real code): the schemes written are the schemes scanned
			st["SCHEMES-UNFAITHFUL"]++
			run.Deviation("schemes-unfaithful", fmt.Sprintf("the line %q declares the schemes %q, the scanner sets %q", line, want, real), map[string]interface{}{"line": line, "want": want, "real": real})
		}
	}
	methods := []string{"GET", "post", "Delete", "PATCH", "head", "OPTIONS", "put"}
	for i := 0; i < nSL; i++ {
		route := r.Intn(2) == 0
		var l strings.Builder
		if route {
			l.WriteString("swagger:route ")
		} else {
			l.WriteString("swagger:operation ")
		}
		meth := methods[r.Intn(len(methods))]
		pth := []string{"/pets", "/pets/{id}", "/v1.2/a-b", "/"}[r.Intn(4)]
		l.WriteString(meth + blanks[r.Intn(2)] + pth)
		var want []string
		for k := r.Intn(4); k > 0; k-- {
			l.WriteString(blanks[r.Intn(len(blanks))])
			w := tagWords[r.Intn(len(tagWords))]
			l.WriteString(w)
			want = append(want, w)
		}
		l.WriteString(blanks[r.Intn(len(blanks))])
		id := []string{"listPets", "op1", "get-it"}[r.Intn(3)]
		l.WriteString(id)
		if r.Intn(3) == 0 {
			l.WriteString(blanks[r.Intn(len(blanks))])
		}
		line := l.String()
		var matched bool
		var capture, rm, rp, rid, realPanic string
		var real []string
		func() {
			defer func() {
				if e := recover(); e != nil {
					realPanic = fmt.Sprint(e)
				}
			}()
			matched, capture, rm, rp, rid, real = codescan.VerifPathAnnotation(route, line)
		}()
		run.Traces++
		if realPanic != "" {
			st["HEADER-PANICS"]++
			run.Deviation("scanner-panics:header", "parsePathAnnotation panics: "+realPanic, map[string]interface{}{"line": line})
			continue
		}
		if !matched {
			st["HEADER-GRAMMAR-LINE-REJECTED"]++
			run.Deviation("header-line-rejected", fmt.Sprintf("an annotation line written per the documented grammar is not recognised: %q", line), map[string]interface{}{"line": line})
			continue
		}
		items, ok := callList("scan.tags", capture)
		if !ok {
			run.Broken("corr:C17:driver", "model driver failed", nil)
			break
		}
		if !same(items, real) {
			st["TAGS-DIFFER"]++
			run.Broken("corr:C17:tags", fmt.Sprintf("Lean fields and the scanner disagree on %q (captured %q): model %q, real %q", line, capture, items, real), map[string]interface{}{"line": line, "capture": capture, "model": items, "real": real})
			continue
		}
		st["tags-agree"]++
		if rm != meth || rp != pth || rid != id || !same(real, want) {
			// faithfulness (theorem tags_faithful, on the real code, and the three single-valued groups)
			st["HEADER-UNFAITHFUL"]++
			run.Deviation("header-unfaithful", fmt.Sprintf("the line %q declares %s %s tags %q id %s, the scanner reads %s %s tags %q id %s", line, meth, pth, want, id, rm, rp, real, rid), map[string]interface{}{"line": line, "wantTags": want, "tags": real, "method": rm, "path": rp, "id": rid})
		}
	}
	run.Extra["distribution"] = st
}
