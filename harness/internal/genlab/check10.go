package genlab

import (
	"encoding/json"
	"fmt"
	"go/ast"
	"go/parser"
	"go/token"
	"os"
	"path/filepath"
	"reflect"
	"strconv"
	"strings"

	"github.com/go-openapi/loads"
	"github.com/go-openapi/spec"
	"github.com/go-openapi/swag"
	yaml "gopkg.in/yaml.v3"

	"verif/harness/internal/ev"
	"verif/harness/internal/rng"
)

// evalStringExpr evaluates a Go expression made of string literals joined by + (what the embed template produces).
func evalStringExpr(e ast.Expr) (string, error) {
	switch x := e.(type) {
	case *ast.BasicLit:
		if x.Kind != token.STRING {
			return "", fmt.Errorf("non-string literal")
		}
		return strconv.Unquote(x.Value)
	case *ast.BinaryExpr:
		if x.Op != token.ADD {
			return "", fmt.Errorf("unexpected operator %s", x.Op)
		}
		a, err := evalStringExpr(x.X)
		if err != nil {
			return "", err
		}
		b, err := evalStringExpr(x.Y)
		if err != nil {
			return "", err
		}
		return a + b, nil
	case *ast.ParenExpr:
		return evalStringExpr(x.X)
	}
	return "", fmt.Errorf("unexpected expression %T (the embedded document is no longer a concatenation of string literals)", e)
}

// EmbeddedDocs reads SwaggerJSON and FlatSwaggerJSON out of a generated embedded_spec.go without compiling it.
func EmbeddedDocs(file string) (orig, flat string, err error) {
	fset := token.NewFileSet()
	f, err := parser.ParseFile(fset, file, nil, 0)
	if err != nil {
		return "", "", err
	}
	found := map[string]string{}
	var ferr error
	ast.Inspect(f, func(n ast.Node) bool {
		as, ok := n.(*ast.AssignStmt)
		if !ok || len(as.Lhs) != 1 || len(as.Rhs) != 1 {
			return true
		}
		id, ok := as.Lhs[0].(*ast.Ident)
		if !ok || (id.Name != "SwaggerJSON" && id.Name != "FlatSwaggerJSON") {
			return true
		}
		// json.RawMessage([]byte(<expr>))
		e := as.Rhs[0]
		for {
			c, ok := e.(*ast.CallExpr)
			if !ok || len(c.Args) != 1 {
				break
			}
			e = c.Args[0]
		}
		v, err := evalStringExpr(e)
		if err != nil {
			ferr = fmt.Errorf("%s: %v", id.Name, err)
			return false
		}
		found[id.Name] = v
		return true
	})
	if ferr != nil {
		return "", "", ferr
	}
	if _, ok := found["SwaggerJSON"]; !ok {
		return "", "", fmt.Errorf("SwaggerJSON assignment not found")
	}
	return found["SwaggerJSON"], found["FlatSwaggerJSON"], nil
}

func jsonEqual(a, b []byte) (bool, error) {
	var x, y interface{}
	if err := json.Unmarshal(a, &x); err != nil {
		return false, fmt.Errorf("first document: %v", err)
	}
	if err := json.Unmarshal(b, &y); err != nil {
		return false, fmt.Errorf("second document: %v", err)
	}
	return reflect.DeepEqual(x, y), nil
}

// expandedAPI loads a document, expands every $ref and returns the parts that describe the API surface.
func expandedAPI(doc []byte) (interface{}, error) {
	d, err := loads.Analyzed(json.RawMessage(doc), "")
	if err != nil {
		return nil, err
	}
	ex, err := d.Expanded(&spec.ExpandOptions{SkipSchemas: false, ContinueOnError: false})
	if err != nil {
		return nil, err
	}
	sw := ex.Spec()
	b, err := json.Marshal(map[string]interface{}{"paths": sw.Paths, "security": sw.Security, "securityDefinitions": sw.SecurityDefinitions,
		"consumes": sw.Consumes, "produces": sw.Produces, "schemes": sw.Schemes, "host": sw.Host, "basePath": sw.BasePath,
		"parameters": sw.Parameters, "responses": sw.Responses, "info": sw.Info, "tags": sw.Tags})
	if err != nil {
		return nil, err
	}
	var v interface{}
	_ = json.Unmarshal(b, &v)
	return stripGoExt(v), nil
}

// stripGoExt removes generator-added x-go-* hints (they do not change what the API accepts or returns).
func stripGoExt(v interface{}) interface{} {
	switch x := v.(type) {
	case map[string]interface{}:
		for k := range x {
			if strings.HasPrefix(k, "x-go-") {
				delete(x, k)
			} else {
				x[k] = stripGoExt(x[k])
			}
		}
	case []interface{}:
		for i := range x {
			x[i] = stripGoExt(x[i])
		}
	}
	return v
}

var hostileChars = []string{"\u200b", "`", "``", "\"", "'", "\\", "\n", "\t", "\r\n", "é", "日本", " ", "\u0001", "<&>", "${x}", "`+\"`\"+`", "%s", "{{.}}", " "}

func hostileText(r *rng.R) string {
	var b strings.Builder
	b.WriteString("t")
	for k := 1 + r.Intn(4); k > 0; k-- {
		b.WriteString(hostileChars[r.Intn(len(hostileChars))])
		b.WriteString(r.Pick([]string{"a", "b", ""}))
	}
	return b.String()
}

// CheckC10 — the spec embedded in a generated server is the input spec.
func CheckC10(run *ev.Run) {
	r := rng.New(uint64(run.Seed) + 10)
	n := 12
	if run.Tier == "thorough" {
		n = 150
	}
	if !run.Lean.OK {
		n *= 2
	}
	st := map[string]int{}
	run.Rule = "the 43-position text spec with seeded hostile strings (backticks, quotes, backslashes, control and non-ASCII characters, template syntax) in the " +
		"description-like positions, given as JSON or YAML, generated as a server under minimal flatten / full flatten / expand; SwaggerJSON and FlatSwaggerJSON are " +
		"read back from embedded_spec.go by evaluating the Go string expression (go/parser + strconv.Unquote); SwaggerJSON must be JSON-equal to the input, the flat " +
		"document must describe the same API after full $ref expansion of both; distinct = (input format, flatten mode, string contents)"
	run.Trusted = append(run.Trusted, "genlab in-process generation", "go/parser + strconv.Unquote as evaluator of the embedded expression (the Lean evalGo models it)",
		"go-openapi/loads + spec.ExpandSpec as the $ref resolution oracle", "gopkg.in/yaml.v3 for writing the YAML variant of an input")
	run.Assume = append(run.Assume, "GET /swagger.json of the running server is not exercised here (needs the compiled server; covered by the C03/C06 server runs when built)",
		"analysis.Flatten and the model-planning rewrites are explored, not proved")
	fields := TextFields()
	modes := [][]string{{}, {"--with-flatten=full"}, {"--with-expand"}}
	for i := 0; i < n; i++ {
		vals := map[string]string{}
		for _, f := range fields {
			if strings.HasSuffix(f.Key, "description") || strings.HasSuffix(f.Key, "title") || strings.HasSuffix(f.Key, "summary") ||
				f.Key == "info.termsOfService" || strings.HasSuffix(f.Key, ".name") || f.Key == "property.example" {
				vals[f.Key] = hostileText(r)
			}
		}
		doc := TextSpec(vals)
		// a vendor extension carries text that only ever lands in the embedded documents: this is where a byte order mark (illegal in Go source, legal in JSON) is placed
		{
			var dm map[string]interface{}
			_ = json.Unmarshal(doc, &dm)
			note := hostileText(r) + "\ufeff" + hostileText(r)
			dm["info"].(map[string]interface{})["x-verif-note"] = note
			// every other spec has operations WITHOUT operationId (the generator invents a name for its own use; the embedded
			// documents must not gain it) and two operations whose ids differ only by case
			if i%2 == 0 {
				if paths, ok := dm["paths"].(map[string]interface{}); ok {
					k := 0
					for _, pk := range sortedKeysOf(paths) {
						if item, ok := paths[pk].(map[string]interface{}); ok {
							for _, mk := range sortedKeysOf(item) {
								if op, ok := item[mk].(map[string]interface{}); ok && op["responses"] != nil {
									if k%2 == 0 {
										delete(op, "operationId")
									}
									k++
								}
							}
						}
					}
				}
			}
			// two specs out of three carry EMPTY items in the media-type and tag lists of their operations (and of the document):
			// the generator prunes them for its own use; the embedded documents must still list them where the input does
			if i%3 != 2 {
				dm["produces"] = []interface{}{"", "application/json"}
				if paths, ok := dm["paths"].(map[string]interface{}); ok {
					k := 0
					for _, pk := range sortedKeysOf(paths) {
						if item, ok := paths[pk].(map[string]interface{}); ok {
							for _, mk := range sortedKeysOf(item) {
								if op, ok := item[mk].(map[string]interface{}); ok && op["responses"] != nil {
									switch k % 3 {
									case 0:
										op["produces"] = []interface{}{"", "text/plain", "application/json"}
									case 1:
										op["consumes"] = []interface{}{"application/json", "", "application/xml"}
									}
									if tags, ok := op["tags"].([]interface{}); ok {
										op["tags"] = append([]interface{}{""}, tags...)
									} else {
										op["tags"] = []interface{}{"", "items"}
									}
									k++
								}
							}
						}
					}
					st["specs-with-empty-list-items"]++
				}
			}
			doc, _ = json.MarshalIndent(dm, "", " ")
		}
		mode := modes[i%len(modes)]
		asYAML := i%2 == 1
		input := doc
		specName := "spec.json"
		if asYAML {
			var v interface{}
			_ = json.Unmarshal(doc, &v)
			yb, err := yaml.Marshal(v)
			if err != nil {
				continue
			}
			// the YAML text must itself load back to the same JSON (otherwise the sample says nothing about the generator)
			jb, err := swag.YAMLToJSON(mustYAMLDoc(yb))
			if err != nil {
				st["yaml-input-not-loadable"]++
				continue
			}
			if eq, _ := jsonEqual(jb, doc); !eq {
				st["yaml-input-not-equal"]++
				continue
			}
			input, specName = yb, "spec.yaml"
		}
		root, err := ScratchRoot("c10")
		if err != nil {
			continue
		}
		_ = InitModule(root, "x")
		specPath := filepath.Join(root, specName)
		_ = os.WriteFile(specPath, input, 0o644)
		target := filepath.Join(root, "target")
		_ = os.MkdirAll(target, 0o755)
		args := append([]string{"-f", specPath, "-t", target, "-A", "textapp"}, mode...)
		gerr := GenInProc("server", args, nil)
		key := "minimal"
		if len(mode) > 0 {
			key = strings.TrimPrefix(strings.TrimPrefix(mode[0], "--with-"), "flatten=")
		}
		replay := map[string]interface{}{"input_format": specName, "mode": mode, "spec_json": json.RawMessage(doc), "how": "swagger generate server -f <spec> -t target -A textapp " + strings.Join(mode, " ") + "; compare restapi.SwaggerJSON with the input"}
		if gerr != nil {
			st["generation-fails"]++
			// a valid spec must generate: hostile description text does not make a spec invalid
			run.Deviation("generate-fails:"+key, "generation fails on a valid spec with hostile free text: "+tail(gerr.Error(), 300), replay)
			_ = os.RemoveAll(root)
			continue
		}
		orig, flat, err := EmbeddedDocs(filepath.Join(target, "restapi", "embedded_spec.go"))
		run.Case(fmt.Sprintf("%s|yaml=%v|%d|%s", key, asYAML, len(doc), vals["info.description"]))
		run.Traces++
		if err != nil {
			run.Deviation("embedded-unreadable", "embedded_spec.go is not a pair of string-literal concatenations: "+err.Error(), replay)
			_ = os.RemoveAll(root)
			continue
		}
		if eq, jerr := jsonEqual([]byte(orig), doc); jerr != nil || !eq {
			st["orig-differs"]++
			replay["embedded"] = orig
			run.Deviation("orig-not-equal:"+key, fmt.Sprintf("restapi.SwaggerJSON is not JSON-equal to the input document (%v)", jerr), replay)
		} else {
			st["orig-equal"]++
		}
		a, e1 := expandedAPI(doc)
		b, e2 := expandedAPI([]byte(flat))
		if e1 != nil || e2 != nil {
			st["expand-error"]++
			if e2 != nil {
				replay["flat"] = flat
				run.Deviation("flat-not-loadable:"+key, "FlatSwaggerJSON cannot be loaded and expanded: "+fmt.Sprint(e2), replay)
			}
		} else if !reflect.DeepEqual(a, b) {
			st["flat-differs"]++
			replay["flat"] = flat
			run.Deviation("flat-not-equivalent:"+key, "FlatSwaggerJSON does not describe the same paths/operations/parameters/responses/security after $ref expansion", replay)
		} else {
			st["flat-equivalent"]++
		}
		if len(run.Samples) < 3 {
			run.Sample(map[string]interface{}{"input": specName, "mode": mode, "info.description": vals["info.description"], "embedded_bytes": len(orig)})
		}
		_ = os.RemoveAll(root)
	}
	run.Extra["distribution"] = st
}

func mustYAMLDoc(b []byte) interface{} {
	var n yaml.Node
	_ = yaml.Unmarshal(b, &n)
	return &n
}
