package genlab

import (
	"encoding/json"
	"fmt"
	"os"
	"path/filepath"
	"reflect"
	"regexp"
	"strings"
	"time"

	"github.com/go-openapi/swag"
	yaml "gopkg.in/yaml.v3"

	"verif/harness/internal/ev"
	"verif/harness/internal/rng"
)

var c19Scalars = []string{"yes", "no", "On", "off", "y", "n", "~", "null", "Null", "NULL", "true", "True", "FALSE", "1e3", "1E3", "0x1F", "0o17", "0b101", "2001-01-01", "2001-12-14T21:59:43Z",
	"1_000", ".5", "5.", "+1", "-0", "012", "1.0", "1:30", "190:20:30", ".inf", "-.Inf", ".NaN", "", " ", " lead", "trail ", "a: b", "a #b", "- x", "? x", "@at", "`bt", "%pc", "!bang", "&anc", "*ali", "|pipe", ">gt",
	"[seq]", "{map}", "tab\there", "multi\nline", "multi\n\nline\n", "é", "日本", " nbsp", "<<", "<", "<<x", "=", "#hash", "'sq'", "\"dq\"", "back\\slash", "9007199254740993", "123456789012345678901234567890",
	"0.1", "1e400", "-", "+", ".", "..", "0x", "1__0", "٣", "NaN", "Infinity"}

func c19Spec(r *rng.R) ([]byte, []string) {
	pool := append([]string{}, c19Scalars...)
	r.Shuffle(len(pool), func(i, j int) { pool[i], pool[j] = pool[j], pool[i] })
	n := 24
	used := pool[:n]
	info := map[string]interface{}{"title": used[0] + " title", "version": used[1], "description": used[2]}
	for i, s := range used {
		info[fmt.Sprintf("x-s%02d", i)] = s
	}
	props := map[string]interface{}{}
	for i, s := range used[:10] {
		k := s
		if k == "" || strings.ContainsAny(k, "\n") {
			k = fmt.Sprintf("k%d", i)
		}
		props[k] = map[string]interface{}{"type": "string", "description": s, "enum": []interface{}{s, used[(i+1)%n]}, "default": s}
	}
	props["big"] = map[string]interface{}{"type": "integer", "maximum": 9007199254740993, "minimum": -9223372036854775808}
	props["maxi64"] = map[string]interface{}{"type": "integer", "format": "int64", "maximum": json.Number("9223372036854775807"), "minimum": json.Number("-9223372036854775807")}
	props["maxu64"] = map[string]interface{}{"type": "integer", "format": "uint64", "maximum": json.Number("18446744073709551615"), "default": 5, "maxLength": 3}
	props["pow63"] = map[string]interface{}{"type": "number", "maximum": json.Number("9223372036854775808"), "minimum": json.Number("-9223372036854775809")}
	props["flt"] = map[string]interface{}{"type": "number", "maximum": 1e21, "minimum": 0.1, "multipleOf": 1e-7}
	doc := map[string]interface{}{"swagger": "2.0", "info": info,
		"paths": map[string]interface{}{"/p": map[string]interface{}{"get": map[string]interface{}{"operationId": "getP", "responses": map[string]interface{}{
			"200": map[string]interface{}{"description": used[3], "schema": map[string]interface{}{"$ref": "#/definitions/thing"}},
			"404": map[string]interface{}{"description": used[4]}, "default": map[string]interface{}{"description": used[5]}}}}},
		"definitions": map[string]interface{}{"thing": map[string]interface{}{"type": "object", "properties": props}}}
	b, _ := json.MarshalIndent(doc, "", " ")
	return b, used
}

func loadAsJSON(path string) (interface{}, error) {
	var raw json.RawMessage
	var err error
	if strings.HasSuffix(path, ".yaml") || strings.HasSuffix(path, ".yml") {
		raw, err = swag.YAMLDoc(path)
	} else {
		raw, err = os.ReadFile(path)
	}
	if err != nil {
		return nil, err
	}
	var v interface{}
	if err := json.Unmarshal(raw, &v); err != nil {
		return nil, err
	}
	return v, nil
}

// CheckC19 — JSON and YAML renderings of a spec are interchangeable.
func CheckC19(run *ev.Run) {
	r := rng.New(uint64(run.Seed) + 19)
	n := 6
	if run.Tier == "thorough" {
		n = 60
	}
	if !run.Lean.OK {
		n *= 2
	}
	st := map[string]int{}
	run.Rule = "specs seeded with 24 of 80 ambiguous scalars (YAML 1.1/1.2 booleans, nulls, ints in every base, floats, timestamps, base-60, indicators, blanks, multi-line, non-ASCII, `<<`, big numbers) as " +
		"values (info, descriptions, enums, defaults, vendor extensions) and as keys (property names, status codes); expand, flatten, mixin with JSON and YAML input x --format json / yaml x compact / pretty, generate spec -i <seeded spec> written as .json / .yml / compact (multi-line text with trailing blanks, CRLF, tabs), " +
		"init spec with --format json / yaml; the YAML output read with the toolkit's own reader (swag.YAMLDoc) must be JSON-equal to the JSON output of the same command, and the outputs for JSON and YAML " +
		"input must be equal; every scalar the writer printed plain must read back as itself"
	run.Trusted = append(run.Trusted, "the swagger CLI built from the working tree", "gopkg.in/yaml.v3 value encoder for producing the YAML rendering of an INPUT spec", "swag.YAMLDoc as the toolkit's reader", "reflect.DeepEqual on decoded JSON")
	run.Assume = append(run.Assume, "yaml.v3's scanner and emitter are inverse on the content of a scalar for each style (not modelled)", "generate spec (second write path) runs on one probe package merged with the seeded input spec")
	bin, err := BuildSwagger()
	if err != nil {
		run.Broken("corr:C19:build", "the CLI does not build: "+err.Error(), nil)
		return
	}
	defer os.Remove(bin)
	rxExt := regexp.MustCompile(`(?m)^  x-s(\d\d): (.*)$`)
	for i := 0; i < n; i++ {
		spec, used := c19Spec(r)
		root, err := ScratchRoot("c19")
		if err != nil {
			continue
		}
		_ = os.WriteFile(filepath.Join(root, "in.json"), spec, 0o644)
		var v interface{}
		_ = json.Unmarshal(spec, &v)
		yb, _ := yaml.Marshal(v)
		_ = os.WriteFile(filepath.Join(root, "in.yaml"), yb, 0o644)
		_ = os.WriteFile(filepath.Join(root, "mix.json"), []byte(`{"swagger":"2.0","info":{"title":"m","version":"1"},"paths":{},"definitions":{"extra":{"type":"string","description":"yes"}}}`), 0o644)
		// the mixin in both renderings, with a definition that has ordered properties (what --keep-spec-order is about)
		mixDoc := []byte(`{"swagger":"2.0","info":{"title":"m","version":"1"},"paths":{},"definitions":{"extra":{"type":"string","description":"yes"},"ordered":{"type":"object","properties":{"zeta":{"type":"string"},"alpha":{"type":"integer"},"mid":{"type":"object","properties":{"b2":{"type":"string"},"a1":{"type":"string"}}}}}}}`)
		_ = os.WriteFile(filepath.Join(root, "mixo.json"), mixDoc, 0o644)
		{
			var mv interface{}
			_ = json.Unmarshal(mixDoc, &mv)
			// written through an ordered node so that both renderings list the properties in the same order
			var on yaml.Node
			_ = yaml.Unmarshal(mixDoc, &on)
			myb, _ := yaml.Marshal(&on)
			_ = os.WriteFile(filepath.Join(root, "mixo.yaml"), myb, 0o644)
		}
		keepOrder := (i/3)%2 == 0 // every other mixin sample (the first one included)
		replay := map[string]interface{}{"spec": json.RawMessage(spec), "scalars": used, "how": "write the spec as in.json; run the command with --format json and --format yaml; load the YAML output with the toolkit (any command reading it) and compare with the JSON output"}
		type cmdT struct {
			name string
			args []string
		}
		cmds := []cmdT{{"expand", []string{"expand"}}, {"flatten", []string{"flatten"}}, {"mixin", []string{"mixin"}}}
		c := cmds[i%len(cmds)]
		outs := map[string]interface{}{}
		failed := false
		type failT struct {
			key string
			rp  map[string]interface{}
			msg string
		}
		var fails []failT
		variants := 0
		for _, inFmt := range []string{"json", "yaml"} {
			for _, outFmt := range []string{"json", "yaml"} {
				for _, compact := range []bool{false, true} {
					if compact && outFmt == "yaml" {
						continue
					}
					out := filepath.Join(root, fmt.Sprintf("out_%s_%v.%s", inFmt, compact, outFmt))
					args := append([]string{}, c.args...)
					args = append(args, "in."+inFmt)
					if c.name == "mixin" {
						if keepOrder {
							// the mixin is given in the same rendering as the primary: the two inputs are renderings of the same documents
							args = append(args, "mixo."+inFmt, "--keep-spec-order")
						} else {
							args = append(args, "mix.json")
						}
					}
					args = append(args, "-o", out, "--format", outFmt)
					if compact {
						args = append(args, "--compact")
					}
					res := Run(root, 120*time.Second, bin, args...)
					run.Traces++
					variants++
					key := fmt.Sprintf("%s in=%s out=%s compact=%v", c.name, inFmt, outFmt, compact)
					if c.name == "mixin" && keepOrder {
						st["mixin-keep-spec-order-variants"]++
					}
					run.Case(fmt.Sprintf("%s|%x", key, hashBytes(spec)))
					if res.Code != 0 {
						st["command-fails"]++
						failed = true
						rp := map[string]interface{}{"command": args, "output": tail(res.Out, 600)}
						for k, v := range replay {
							rp[k] = v
						}
						hasMerge := false
						for _, s := range used {
							if s == "<<" {
								hasMerge = true
							}
						}
						k := "command-fails:" + c.name + ":in=" + inFmt
						if hasMerge && inFmt == "yaml" {
							k = "merge-key-string-unreadable"
						}
						fails = append(fails, failT{k, rp, fmt.Sprintf("`swagger %s` fails on one rendering of a spec it accepts in another: %s", strings.Join(args, " "), firstLine(tail(res.Out, 300)))})
						continue
					}
					doc, lerr := loadAsJSON(out)
					if lerr != nil {
						st["OUTPUT-UNREADABLE"]++
						rp := map[string]interface{}{"command": args, "error": lerr.Error()}
						for k, v := range replay {
							rp[k] = v
						}
						k := "output-unreadable:" + outFmt
						if strings.Contains(lerr.Error(), "merge") {
							k = "merge-key-string-unreadable"
						}
						run.Deviation(k, fmt.Sprintf("the %s output of `swagger %s` cannot be read back: %s", outFmt, c.name, firstLine(lerr.Error())), rp)
						continue
					}
					outs[key] = doc
					// scalars printed plain must read back as themselves
					if outFmt == "yaml" {
						b, _ := os.ReadFile(out)
						for _, m := range rxExt.FindAllStringSubmatch(string(b), -1) {
							var idx int
							fmt.Sscan(m[1], &idx)
							txt := m[2]
							if idx < len(used) && txt == used[idx] && txt != "" {
								// plain: what does the reader make of it?
								info, _ := doc.(map[string]interface{})["info"].(map[string]interface{})
								if got, ok := info[fmt.Sprintf("x-s%02d", idx)].(string); !ok || got != used[idx] {
									st["PLAIN-SCALAR-CHANGED"]++
									run.Deviation("plain-scalar-changed", fmt.Sprintf("the string %q is written plain and read back as %v", used[idx], info[fmt.Sprintf("x-s%02d", idx)]), replay)
								} else {
									st["plain-scalar-ok"]++
								}
							} else {
								st["quoted-or-block"]++
							}
						}
					}
				}
			}
		}
		if len(fails) == variants {
			st["fails-on-every-rendering(not this property)"]++
		} else {
			for _, f := range fails {
				run.Deviation(f.key, f.msg, f.rp)
			}
		}
		if !failed {
			var ref interface{}
			var refKey string
			for _, k := range SortedKeysIface(outs) {
				if ref == nil {
					ref, refKey = outs[k], k
					continue
				}
				if !reflect.DeepEqual(ref, outs[k]) {
					st["OUTPUTS-DIFFER"]++
					var paths []string
					diffKeys(ref, outs[k], "", &paths)
					rp := map[string]interface{}{"a": refKey, "b": k, "differing_paths": paths}
					for kk, v := range replay {
						rp[kk] = v
					}
					run.Deviation("renderings-differ:"+c.name, fmt.Sprintf("%s and %s give different documents (at %v)", refKey, k, clipList(paths, 5)), rp)
				} else {
					st["renderings-equal"]++
				}
			}
		}
		_ = os.RemoveAll(root)
	}
	// generate spec (the second YAML write path): a probe package scanned with -i <input spec seeded with ambiguous scalars>;
	// the document written as .json and as .yml must be the same document
	for k := 0; k < max(2, n/2); k++ {
		spec, used := c19Spec(r)
		var dm map[string]interface{}
		_ = json.Unmarshal(spec, &dm)
		// multi-line text with trailing blanks (markdown hard breaks), CRLF text, tabs
		dm["info"].(map[string]interface{})["description"] = "first line  \nsecond line\t\nthird\r\nfourth \n\nlast"
		dm["definitions"].(map[string]interface{})["legacy"] = map[string]interface{}{"type": "object", "description": "ends with blanks   \nand goes on\n"}
		// whole numbers beyond int64 are written by this path as integers the toolkit's own reader refuses (known finding, exercised
		// on its own below): kept out of the comparison runs so that they do not mask everything else
		bigOnly := k == 0
		if tp, ok := dm["definitions"].(map[string]interface{})["thing"].(map[string]interface{}); ok {
			props := tp["properties"].(map[string]interface{})
			if bigOnly {
				for pk := range props {
					if pk != "maxi64" && pk != "maxu64" && pk != "pow63" {
						delete(props, pk)
					}
				}
			} else {
				delete(props, "maxi64")
				delete(props, "maxu64")
				delete(props, "pow63")
			}
		}
		spec, _ = json.MarshalIndent(dm, "", " ")
		root, err := ScratchRoot("c19g")
		if err != nil {
			continue
		}
		_ = InitModule(root, "x")
		_ = os.MkdirAll(filepath.Join(root, "api"), 0o755)
		_ = os.WriteFile(filepath.Join(root, "api", "doc.go"), []byte("// Package api is scanned together with an input spec.\n//\n// swagger:meta\npackage api\n\n// Extra is a scanned model.\n//\n// swagger:model Extra\ntype Extra struct {\n\t// the note\n\tNote string `json:\"note\"`\n}\n"), 0o644)
		_ = os.WriteFile(filepath.Join(root, "in.json"), spec, 0o644)
		outs := map[string]interface{}{}
		bad := false
		for _, variant := range [][]string{{"out.json"}, {"out.yml"}, {"outc.json", "--compact"}} {
			args := append([]string{"generate", "spec", "-m", "-w", ".", "-i", "in.json", "-o", variant[0]}, variant[1:]...)
			args = append(args, "./api")
			res := Run(root, 180*time.Second, bin, args...)
			run.Traces++
			run.Case(fmt.Sprintf("generate spec %s|%x", variant[0], hashBytes(spec)))
			if res.Code != 0 {
				st["generate-spec-fails"]++
				bad = true
				continue
			}
			doc, lerr := loadAsJSON(filepath.Join(root, variant[0]))
			if lerr != nil {
				bad = true
				k := "output-unreadable:generate spec"
				if strings.Contains(lerr.Error(), "merge") {
					k = "merge-key-string-unreadable"
				} else if strings.Contains(lerr.Error(), "value out of range") {
					k = "generate-spec-yaml-integer-beyond-int64-unreadable"
				}
				run.Deviation(k, fmt.Sprintf("the %s output of `swagger generate spec` cannot be read back: %s", variant[0], firstLine(lerr.Error())), map[string]interface{}{"input_spec": json.RawMessage(spec), "scalars": used})
				continue
			}
			outs[variant[0]] = doc
		}
		if !bad {
			for _, o := range []string{"out.yml", "outc.json"} {
				if !reflect.DeepEqual(outs["out.json"], outs[o]) {
					var paths []string
					diffKeys(outs["out.json"], outs[o], "", &paths)
					st["OUTPUTS-DIFFER:generate spec"]++
					run.Deviation("renderings-differ:generate spec", fmt.Sprintf("generate spec writes different documents to out.json and %s (at %v)", o, clipList(paths, 5)),
						map[string]interface{}{"input_spec": json.RawMessage(spec), "differing_paths": paths, "how": "package api with swagger:meta; swagger generate spec -m -w . -i in.json -o out.json|out.yml ./api"})
				} else {
					st["generate-spec-renderings-equal"]++
				}
			}
		}
		_ = os.RemoveAll(root)
	}
	// init spec
	{
		root, _ := ScratchRoot("c19i")
		for _, f := range []string{"json", "yaml"} {
			d := filepath.Join(root, f)
			_ = os.MkdirAll(d, 0o755)
			res := Run(d, 60*time.Second, bin, "init", "spec", "--format", f, "--title", "yes", "--description", "1e3", "--version", "1.0", "--terms", "~", "--contact.name", "null", "--license.name", "0x1F")
			if res.Code != 0 {
				st["init-fails"]++
			}
		}
		a, ea := loadAsJSON(filepath.Join(root, "json", "swagger.json"))
		b, eb := loadAsJSON(filepath.Join(root, "yaml", "swagger.yml"))
		run.Traces++
		run.Case("init spec")
		if ea != nil || eb != nil {
			st["init-unreadable"]++
			run.Deviation("init-spec-unreadable", fmt.Sprintf("init spec output cannot be read back: %v %v", ea, eb), nil)
		} else if !reflect.DeepEqual(a, b) {
			var paths []string
			diffKeys(a, b, "", &paths)
			run.Deviation("renderings-differ:init spec", fmt.Sprintf("init spec --format json and --format yaml give different documents (at %v)", paths), map[string]interface{}{"json": a, "yaml": b})
		} else {
			st["init-equal"]++
		}
		_ = os.RemoveAll(root)
	}
	run.Extra["distribution"] = st
}

func SortedKeysIface(m map[string]interface{}) []string {
	return sortedKeysOf(m)
}

func clipList(xs []string, n int) []string {
	if len(xs) > n {
		return xs[:n]
	}
	return xs
}
