package genlab

import (
	"encoding/json"
	"fmt"
	"math"
	"os"
	"path/filepath"
	"reflect"
	"sort"
	"strings"

	"verif/harness/internal/ev"
	"verif/harness/internal/rng"
)

// c18Num is a decimal constraint value in the encoding of the Lean model.
type c18Num struct {
	Neg  bool  `json:"neg"`
	Int  int64 `json:"int"`
	Frac []int `json:"frac"`
}

func (n c18Num) float() float64 {
	s := fmt.Sprint(n.Int)
	if len(n.Frac) > 0 {
		s += "."
		for _, d := range n.Frac {
			s += fmt.Sprint(d)
		}
	}
	var f float64
	fmt.Sscan(s, &f)
	if n.Neg {
		f = -f
	}
	return f
}

func (n c18Num) json() json.Number {
	s := fmt.Sprint(n.Int)
	if len(n.Frac) > 0 {
		s += "."
		for _, d := range n.Frac {
			s += fmt.Sprint(d)
		}
	}
	if n.Neg {
		s = "-" + s
	}
	return json.Number(s)
}

var c18Nums = []c18Num{{Int: 0}, {Int: 1}, {Int: 10}, {Int: 999999}, {Int: 1000000}, {Int: 2500000}, {Int: 123456789}, {Neg: true, Int: 1}, {Neg: true, Int: 1, Frac: []int{5}},
	{Frac: []int{5}}, {Frac: []int{0, 0, 0, 1}}, {Frac: []int{0, 0, 0, 0, 1}}, {Int: 12, Frac: []int{2, 5}}, {Neg: true, Int: 1000000}, {Int: 99999, Frac: []int{9}}, {Int: 42}, {Int: 7, Frac: []int{0, 1}},
	// more than six fractional digits
	{Int: 179, Frac: []int{9, 9, 9, 9, 9, 9, 9}}, {Frac: []int{3, 3, 3, 3, 3, 3, 3, 3, 3, 3}}, {Frac: []int{0, 0, 0, 1, 2, 3, 4, 5, 6, 7}}}

// normDef reduces a definition to what the property compares.
func normDef(v interface{}, defs map[string]interface{}, original map[string]bool, depth int) interface{} {
	m, ok := v.(map[string]interface{})
	if !ok || depth > 12 {
		return v
	}
	if ref, ok := m["$ref"].(string); ok {
		name := strings.TrimPrefix(ref, "#/definitions/")
		if !original[name] { // a type the generator introduced for an anonymous object: compare its content in place
			if d, ok := defs[name]; ok {
				return normDef(d, defs, original, depth+1)
			}
		}
		return map[string]interface{}{"$ref": ref}
	}
	out := map[string]interface{}{}
	for k, x := range m {
		switch k {
		case "description", "title", "example", "default", "x-go-name", "x-go-package", "x-nullable", "x-omitempty", "x-go-type", "x-go-custom-tag", "x-order":
			continue
		case "minProperties", "maxProperties":
			continue // not among the constraints the property enumerates (bounds, lengths, pattern, enum, uniqueItems, item counts); they are lost
		case "properties":
			pm := map[string]interface{}{}
			if xm, ok := x.(map[string]interface{}); ok {
				for pk, pv := range xm {
					pm[pk] = normDef(pv, defs, original, depth+1)
				}
			}
			out[k] = pm
		case "items", "additionalProperties":
			out[k] = normDef(x, defs, original, depth+1)
		case "allOf":
			var l []interface{}
			if xl, ok := x.([]interface{}); ok {
				for _, e := range xl {
					l = append(l, normDef(e, defs, original, depth+1))
				}
			}
			out[k] = l
		case "required":
			var l []string
			if xl, ok := x.([]interface{}); ok {
				for _, e := range xl {
					l = append(l, fmt.Sprint(e))
				}
			}
			sort.Strings(l)
			if len(l) > 0 {
				out[k] = l
			}
		case "format":
			t, _ := m["type"].(string)
			if (t == "integer" && x == "int64") || (t == "number" && x == "double") {
				continue // the generator's default for the type made explicit
			}
			out[k] = x
		case "exclusiveMaximum", "exclusiveMinimum", "uniqueItems", "readOnly":
			if b, ok := x.(bool); ok && !b {
				continue
			}
			out[k] = x
		default:
			out[k] = x
		}
	}
	return jsonNormKeepNulls(out)
}

func jsonNormKeepNulls(v interface{}) interface{} {
	b, _ := json.Marshal(v)
	var out interface{}
	_ = json.Unmarshal(b, &out)
	return out
}

// diffKeys lists the paths at which two normalised definitions differ.
func diffKeys(a, b interface{}, path string, out *[]string) {
	am, aok := a.(map[string]interface{})
	bm, bok := b.(map[string]interface{})
	if aok && bok {
		keys := map[string]bool{}
		for k := range am {
			keys[k] = true
		}
		for k := range bm {
			keys[k] = true
		}
		var ks []string
		for k := range keys {
			ks = append(ks, k)
		}
		sort.Strings(ks)
		for _, k := range ks {
			diffKeys(am[k], bm[k], path+"/"+k, out)
		}
		return
	}
	if af, ok := a.(float64); ok {
		if bf, ok := b.(float64); ok && math.Abs(af-bf) <= 1e-12*math.Max(1, math.Abs(af)) {
			return
		}
	}
	if !reflect.DeepEqual(a, b) {
		*out = append(*out, path)
	}
}

// lossClass names the documented loss a differing path belongs to ("" = none).
func lossClass(path string, orig interface{}) string {
	last := path[strings.LastIndex(path, "/")+1:]
	if om, ok := orig.(map[string]interface{}); ok && strings.Count(path, "/") == 1 && om["properties"] == nil && om["type"] != "object" {
		// a validation directly on a definition that is not an object (array / string / number definition)
		switch last {
		case "maxItems", "minItems", "uniqueItems", "maxLength", "minLength", "pattern", "maximum", "minimum", "enum", "multipleOf":
			return "non-object-definition-validation-lost"
		}
	}
	switch {
	case strings.Contains(path, "/items/") && (last == "maximum" || last == "minimum" || last == "maxLength" || last == "minLength" || last == "pattern" || last == "enum" ||
		last == "exclusiveMaximum" || last == "exclusiveMinimum" || last == "multipleOf" || last == "uniqueItems" || last == "maxItems" || last == "minItems"):
		return "items-level-constraint-lost"
	case last == "maximum" || last == "minimum" || last == "exclusiveMaximum" || last == "exclusiveMinimum":
		// known only for the values the generator prints with an exponent (the model's sci_dropped)
		cur := orig
		segs := strings.Split(strings.TrimPrefix(path, "/"), "/")
		for _, seg := range segs[:len(segs)-1] {
			if cm, ok := cur.(map[string]interface{}); ok {
				cur = cm[seg]
			}
		}
		if cm, ok := cur.(map[string]interface{}); ok {
			k := strings.ToLower(strings.TrimPrefix(last, "exclusive"))
			if v, ok := cm[k].(float64); ok {
				a := math.Abs(v)
				if a >= 1e6 || (a > 0 && a < 1e-4) {
					return "bound-printed-with-exponent-lost"
				}
			}
		}
		return ""
	case last == "multipleOf":
		return "multipleOf-lost"
	case last == "additionalProperties":
		if om, ok := orig.(map[string]interface{}); ok {
			cur := interface{}(om)
			for _, seg := range strings.Split(strings.TrimPrefix(path, "/"), "/") {
				if seg == "additionalProperties" {
					break
				}
				if cm, ok := cur.(map[string]interface{}); ok {
					cur = cm[seg]
				}
			}
			if cm, ok := cur.(map[string]interface{}); ok && cm["properties"] != nil {
				return "additionalProperties-next-to-properties-lost"
			}
		}
	}
	return ""
}

// CheckC18 — spec -> generated models -> scanned spec preserves every schema.
func CheckC18(run *ev.Run) {
	m := driver()
	defer m.Close()
	r := rng.New(uint64(run.Seed) + 18)
	nSpecs := 3
	if run.Tier == "thorough" {
		nSpecs = 40
	}
	if !run.Lean.OK {
		nSpecs *= 2
	}
	st := map[string]int{}
	run.Rule = "definition sets (the generator of C02: objects with scalar / array / nested object / $ref / allOf members, required, bounds incl. exclusive, lengths, enums, item counts, uniqueness, read-only) plus one " +
		"definition whose properties carry one numeric constraint each drawn from a table of boundary values (0, 1, 999999, 10^6, 2.5*10^6, 123456789, -1.5, 0.0001, 0.00001, 12.25, ...); models are generated, the " +
		"models package is scanned with codescan (ScanModels), and every definition is compared after normalisation (descriptions, x-go-*, default formats int64/double dropped; generator-introduced " +
		"types inlined); per boundary value the scanned constraint is also compared with the Lean parse(emit c)"
	run.Trusted = append(run.Trusted, "genlab in-process generation", "codescan.Run in-process (go/packages on the scratch module)", "the normaliser of definitions")
	run.Assume = append(run.Assume, "the tolerated differences are those the property lists: defaults, examples, descriptive text, generator-added x-go-* extensions, the default format made explicit", "minProperties / maxProperties are not among the constraints the property enumerates and are not compared (the round trip loses them)",
		"the Lean recognisers transcribe the number sub-expression of the scanner's regexps by hand; the regexp engine is not modelled")
	for si := 0; si < nSpecs; si++ {
		g := &msGen{r: r.Fork(), defs: []string{"Alpha", "Beta", "Gamma"}}
		var defs []MKV
		dm := map[string]*MS{}
		for _, n := range g.defs {
			s := g.object(1)
			defs = append(defs, MKV{K: n, V: s})
			dm[n] = s
		}
		var doc map[string]interface{}
		_ = json.Unmarshal(modelSpec(defs), &doc)
		dd := doc["definitions"].(map[string]interface{})
		// the boundary definition
		props := map[string]interface{}{}
		type bc struct {
			prop string
			kind string
			num  c18Num
			excl bool
		}
		var bcs []bc
		for i, n := range c18Nums {
			kind := []string{"maximum", "minimum"}[(i+si)%2]
			excl := r.Chance(1, 3)
			name := fmt.Sprintf("b%02d", i)
			p := map[string]interface{}{"type": "number", kind: n.json()}
			if excl {
				p["exclusive"+strings.Title(kind)] = true
			}
			props[name] = p
			bcs = append(bcs, bc{name, kind, n, excl})
		}
		props["lens"] = map[string]interface{}{"type": "string", "minLength": 2, "maxLength": 1000000}
		props["mult"] = map[string]interface{}{"type": "integer", "multipleOf": 5}
		props["enumEsc"] = map[string]interface{}{"type": "string", "enum": []interface{}{"<1h", "1h-1d", ">1d", "R&D", "say \"hi\"", "back\\slash", "tab\there", "é"}}
		props["enumInt"] = map[string]interface{}{"type": "integer", "enum": []interface{}{1, 2, 30}}
		props["pat"] = map[string]interface{}{"type": "string", "pattern": "^[a-z]+\\d{2}<&>$"}
		props["arr"] = map[string]interface{}{"type": "array", "minItems": 1, "maxItems": 12, "uniqueItems": true, "items": map[string]interface{}{"type": "string"}}
		// required members of every kind: plain, with a default, read-only, an array
		props["reqDef"] = map[string]interface{}{"type": "string", "default": "x"}
		props["reqNum"] = map[string]interface{}{"type": "integer", "default": 3}
		props["reqRO"] = map[string]interface{}{"type": "string", "readOnly": true}
		dd["Bounds"] = map[string]interface{}{"type": "object", "properties": props, "required": []string{"arr", "lens", "reqDef", "reqNum", "reqRO"}}
		// definitions that are not objects: their validations sit on the named type itself
		dd["ShortList"] = map[string]interface{}{"type": "array", "maxItems": 3, "items": map[string]interface{}{"type": "string"}}
		dd["ShortCode"] = map[string]interface{}{"type": "string", "maxLength": 3}
		specDoc, _ := json.MarshalIndent(doc, "", " ")
		original := map[string]bool{}
		for k := range dd {
			original[k] = true
		}
		root, specPath, target, err := NewTarget("c18", specDoc)
		if err != nil {
			continue
		}
		replay := map[string]interface{}{"spec": json.RawMessage(specDoc), "how": "swagger generate model -f spec.json -t target; swagger generate spec -m -w target/models (codescan with ScanModels); compare definitions"}
		if gerr := GenInProc("model", []string{"-f", specPath, "-t", target}, nil); gerr != nil {
			st["generation-fails"]++
			_ = os.RemoveAll(root)
			continue
		}
		scanned, serr, pan := Scan(root, []string{"./target/models"}, true, nil)
		_ = os.RemoveAll(root)
		if pan != "" {
			run.Deviation("scanner-panics", "the scanner panics on generated models: "+firstLine(pan), replay)
			continue
		}
		if serr != nil {
			st["scan-fails"]++
			replay["scan_error"] = serr.Error()
			run.Deviation("scan-of-generated-models-fails", "the scanner refuses the generated models: "+firstLine(serr.Error()), replay)
			continue
		}
		var sdoc map[string]interface{}
		_ = json.Unmarshal(scanned, &sdoc)
		sdefs, _ := sdoc["definitions"].(map[string]interface{})
		run.Traces++
		for _, name := range sortedKeysOf(dd) {
			run.Case(fmt.Sprintf("%s|%x", name, hashBytes(specDoc)))
			sd, ok := sdefs[name]
			if !ok {
				st["DEFINITION-MISSING"]++
				run.Deviation("definition-missing", fmt.Sprintf("definition %s is not in the scanned spec", name), replay)
				continue
			}
			a := normDef(jsonNormKeepNulls(dd[name]), dd, original, 0)
			b := normDef(sd, sdefs, original, 0)
			var paths []string
			diffKeys(a, b, "", &paths)
			if len(paths) == 0 {
				st["definition-preserved"]++
				continue
			}
			classes := map[string][]string{}
			for _, p := range paths {
				c := lossClass(p, a)
				classes[c] = append(classes[c], p)
			}
			for c, ps := range classes {
				rp := map[string]interface{}{"definition": name, "differing_paths": ps, "original": a, "scanned": b}
				for k, v := range replay {
					rp[k] = v
				}
				if c == "" {
					st["DEFINITION-DIFFERS"]++
					run.Deviation("definition-differs:"+lastSeg(ps[0]), fmt.Sprintf("definition %s differs after the round trip at %v", name, ps), rp)
				} else {
					st["known-loss:"+c]++
					run.Deviation(c, fmt.Sprintf("definition %s loses %v in the round trip", name, ps), rp)
				}
			}
		}
		// boundary values against the model
		sb, _ := sdefs["Bounds"].(map[string]interface{})
		sprops, _ := sb["properties"].(map[string]interface{})
		for _, c := range bcs {
			mb, _ := json.Marshal(map[string]interface{}{"op": "doc.roundtrip", "kind": c.kind, "num": c.num, "excl": c.excl})
			out, merr := m.Call(mb)
			var mr struct {
				R    string  `json:"r"`
				Text string  `json:"text"`
				Kept bool    `json:"kept"`
				Num  *c18Num `json:"num"`
				Excl bool    `json:"excl"`
			}
			if merr == nil {
				_ = json.Unmarshal(out, &mr)
			}
			if mr.R != "ok" {
				run.Broken("corr:C18:driver", "model driver failed", nil)
				continue
			}
			sp, _ := sprops[c.prop].(map[string]interface{})
			got, has := sp[c.kind].(float64)
			ex, _ := sp["exclusive"+strings.Title(c.kind)].(bool)
			agree := has == mr.Kept
			if agree && has {
				agree = math.Abs(got-mr.Num.float()) <= 1e-12*math.Max(1, math.Abs(got)) && ex == mr.Excl
			}
			run.Traces++
			if !agree {
				st["MODEL-DIFFERS"]++
				run.Broken("corr:C18:line", fmt.Sprintf("Lean parse(emit) and generator+scanner disagree on %s %v (excl %v): model kept=%v text=%q, real has=%v value=%v excl=%v", c.kind, c.num.json(), c.excl, mr.Kept, mr.Text, has, got, ex),
					map[string]interface{}{"spec": json.RawMessage(specDoc), "property": c.prop})
			} else {
				st[fmt.Sprintf("model-agrees(kept=%v)", mr.Kept)]++
			}
		}
		if len(run.Samples) < 2 {
			run.Sample(map[string]interface{}{"definitions": sortedKeysOf(dd), "scanned_definitions": len(sdefs)})
		}
	}
	run.Extra["distribution"] = st
}

func lastSeg(p string) string { return p[strings.LastIndex(p, "/")+1:] }

var _ = filepath.Join
