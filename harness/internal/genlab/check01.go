package genlab

import (
	"encoding/json"
	"fmt"
	"os"
	"path/filepath"
	"regexp"
	"sort"
	"strings"
	"sync"
	"time"

	"github.com/go-openapi/loads"
	"github.com/go-openapi/strfmt"
	"github.com/go-openapi/swag"
	"github.com/go-openapi/validate"
	"github.com/go-swagger/go-swagger/generator"

	"verif/harness/internal/ev"
	"verif/harness/internal/rng"
)

// specValid asks the reference validator (go-openapi/validate) whether a document is a valid Swagger 2.0 spec.
func specValid(doc []byte) (ok bool, msg string) {
	defer func() {
		if r := recover(); r != nil {
			ok, msg = false, fmt.Sprint("validator panic: ", r)
		}
	}()
	d, err := loads.Analyzed(json.RawMessage(doc), "")
	if err != nil {
		return false, err.Error()
	}
	v := validate.NewSpecValidator(d.Schema(), strfmt.Default)
	v.Options.SkipSchemataResult = true
	res, _ := v.Validate(d)
	if res != nil && len(res.Errors) > 0 {
		return false, res.Errors[0].Error()
	}
	return true, ""
}

type c01Outcome struct {
	GenErr   map[string]string // target -> error
	BuildOut string
	BuildOK  bool
	Files    int
	Dur      float64
}

// c01Generate generates the given targets from a spec into one scratch module.
func c01Generate(tag string, doc []byte, targets []string, mode []string) (*c01Outcome, string) {
	root, specPath, target, err := NewTarget(tag, doc)
	if err != nil {
		return nil, ""
	}
	out := &c01Outcome{GenErr: map[string]string{}}
	for _, t := range targets {
		args := append([]string{"-f", specPath, "-t", target}, mode...)
		if t != "model" {
			args = append(args, "-A", "c01")
		}
		if e := GenInProc(t, args, nil); e != nil {
			out.GenErr[t] = e.Error()
		}
	}
	out.Files = len(goFiles(target))
	return out, root
}

// c01Compile compiles everything in the scratch module (skipped when a generation step failed: the tree is partial).
func c01Compile(root string, out *c01Outcome) {
	out.BuildOK = true
	if out.Files > 0 && len(out.GenErr) == 0 {
		res := Run(root, 600*time.Second, "go", "build", "./...")
		out.BuildOK = res.Code == 0
		out.BuildOut = res.Out
	}
}

var rxPath = regexp.MustCompile(`(/[^\s:/]+)+/([^\s:/]+)`)

// normGenErr: the generation error without scratch paths, positions and counts.
func normGenErr(e string) string {
	l := firstLine(e)
	l = rxPath.ReplaceAllString(l, "")
	l = regexp.MustCompile(`\d+`).ReplaceAllString(l, "N")
	l = regexp.MustCompile(`"[^"]*"`).ReplaceAllString(l, "_")
	if len(l) > 110 {
		l = l[:110]
	}
	return l
}

var (
	rxBuildErr = regexp.MustCompile(`(?m)^(\S+\.go):\d+:\d+: (.*)$`)
	rxIdent    = regexp.MustCompile(`[\pL_][\pL\pN_.]*`)
)

// classifyBuild turns compiler output into a stable key: the role of the file, the message with identifiers blanked,
// and the spec name whose Go form appears in the message (when one does).
func classifyBuild(out string, names []string) (key, first string) {
	m := rxBuildErr.FindStringSubmatch(out)
	if m == nil {
		return "build:unparsed", tail(out, 300)
	}
	file, msg := m[1], m[2]
	role := "other"
	switch {
	case strings.Contains(file, "/models/"):
		role = "models"
	case strings.Contains(file, "/restapi/"):
		role = "server"
	case strings.Contains(file, "/client/"):
		role = "client"
	case strings.Contains(file, "/cli/"):
		role = "cli"
	case strings.Contains(file, "/cmd/"):
		role = "cmd"
	}
	culprit := ""
	idents := rxIdent.FindAllString(msg, -1)
	best := 0
	for _, n := range names {
		for _, form := range []string{swag.ToGoName(n), swag.ToVarName(n), swag.ToFileName(n)} {
			if len(form) < 2 {
				continue
			}
			for _, id := range idents {
				if strings.Contains(id, form) && len(form) > best {
					best, culprit = len(form), n
				}
			}
		}
	}
	keywords := map[string]bool{"undefined": true, "redeclared": true, "declared": true, "and": true, "not": true, "used": true, "cannot": true, "use": true, "as": true, "value": true, "in": true,
		"type": true, "variable": true, "of": true, "argument": true, "to": true, "assignment": true, "missing": true, "return": true, "has": true, "no": true, "field": true, "or": true, "method": true,
		"invalid": true, "operation": true, "mismatched": true, "types": true, "untyped": true, "constant": true, "overflows": true, "syntax": true, "error": true, "unexpected": true, "expected": true,
		"duplicate": true, "case": true, "this": true, "block": true, "other": true, "declaration": true, "imported": true, "is": true, "not a type": true, "struct": true, "literal": true, "unknown": true,
		"too": true, "many": true, "few": true, "values": true, "arguments": true, "call": true, "have": true, "want": true, "does": true, "implement": true, "pointer": true, "receiver": true, "nil": true,
		"func": true, "expression": true, "convert": true, "non": true, "name": true, "on": true, "left": true, "side": true, "new": true, "variables": true, "label": true, "defined": true, "string": true}
	norm := rxIdent.ReplaceAllStringFunc(msg, func(id string) string {
		if keywords[id] {
			return id
		}
		return "_"
	})
	norm = regexp.MustCompile(`\d+`).ReplaceAllString(norm, "N")
	if len(norm) > 90 {
		norm = norm[:90]
	}
	return "build:" + role + ":" + norm + ":" + culprit, filepath.Base(file) + ": " + msg
}

// tableSpecTokens: one definition per file-name token (thing_<t>), all referenced from a holder: if any of the files is left
// out by go build, the holder does not compile.
func tableSpecTokens(tokens []string) []byte {
	defs := map[string]interface{}{}
	props := map[string]interface{}{}
	for _, t := range tokens {
		n := "thing_" + t
		defs[n] = map[string]interface{}{"type": "object", "properties": map[string]interface{}{"v": map[string]interface{}{"type": "string"}}}
		props["p_"+t] = map[string]interface{}{"$ref": "#/definitions/" + n}
	}
	defs["holder"] = map[string]interface{}{"type": "object", "properties": props}
	doc := map[string]interface{}{"swagger": "2.0", "info": map[string]interface{}{"title": "tokens", "version": "1"}, "paths": map[string]interface{}{}, "definitions": defs}
	b, _ := json.MarshalIndent(doc, "", " ")
	return b
}

// tableSpecFormats: every format of formatMapping as a query parameter, a header parameter, an array item, a response header
// and a model property.
func tableSpecFormats() ([]byte, []string) {
	_, formats, _, _, _, _ := generator.VerifFormatTables()
	var params []interface{}
	props := map[string]interface{}{}
	hdrs := map[string]interface{}{}
	var names []string
	i := 0
	for _, ty := range []string{"string", "integer", "number"} {
		var fs []string
		for f := range formats[ty] {
			fs = append(fs, f)
		}
		sort.Strings(fs)
		for _, f := range fs {
			if f == "binary" || f == "file" || f == "char" {
				continue // not parameter material (io.ReadCloser / runtime.File / rune): covered by body and file parameters
			}
			i++
			n := fmt.Sprintf("f%d_%s", i, strings.ToLower(strings.ReplaceAll(f, "-", "")))
			names = append(names, ty+":"+f)
			params = append(params, map[string]interface{}{"name": "q_" + n, "in": "query", "type": ty, "format": f})
			params = append(params, map[string]interface{}{"name": "h_" + n, "in": "header", "type": ty, "format": f})
			params = append(params, map[string]interface{}{"name": "a_" + n, "in": "query", "type": "array", "items": map[string]interface{}{"type": ty, "format": f}})
			props[n] = map[string]interface{}{"type": ty, "format": f}
			hdrs["X-"+n] = map[string]interface{}{"type": ty, "format": f}
		}
	}
	doc := map[string]interface{}{"swagger": "2.0", "info": map[string]interface{}{"title": "formats", "version": "1"},
		"consumes": []string{"application/json"}, "produces": []string{"application/json"},
		"paths": map[string]interface{}{"/f": map[string]interface{}{"get": map[string]interface{}{"operationId": "formats", "parameters": params,
			"responses": map[string]interface{}{"200": map[string]interface{}{"description": "ok", "headers": hdrs, "schema": map[string]interface{}{"$ref": "#/definitions/all"}}}}}},
		"definitions": map[string]interface{}{"all": map[string]interface{}{"type": "object", "properties": props}}}
	b, _ := json.MarshalIndent(doc, "", " ")
	return b, names
}

// tableSpecResponses: every response layout — JSON model, primitive, array, map, no body, headers only, binary stream —
// at every kind of status code (2xx, non-2xx, default), alone and combined.
func tableSpecResponses() []byte {
	bin := map[string]interface{}{"type": "string", "format": "binary"}
	file := map[string]interface{}{"type": "file"}
	ref := map[string]interface{}{"$ref": "#/definitions/item"}
	hdr := map[string]interface{}{"X-Count": map[string]interface{}{"type": "integer"}, "X-Tags": map[string]interface{}{"type": "array", "items": map[string]interface{}{"type": "string"}}}
	r := func(desc string, schema interface{}, headers interface{}) map[string]interface{} {
		m := map[string]interface{}{"description": desc}
		if schema != nil {
			m["schema"] = schema
		}
		if headers != nil {
			m["headers"] = headers
		}
		return m
	}
	op := func(id string, produces []string, resps map[string]interface{}) map[string]interface{} {
		return map[string]interface{}{"operationId": id, "produces": produces, "responses": resps,
			"parameters": []interface{}{map[string]interface{}{"name": "id", "in": "path", "required": true, "type": "string"}}}
	}
	js, oct := []string{"application/json"}, []string{"application/json", "application/octet-stream"}
	paths := map[string]interface{}{
		"/a/{id}": map[string]interface{}{"get": op("modelThenStreamOnError", oct, map[string]interface{}{"200": r("ok", ref, nil), "410": r("gone", bin, nil)})},
		"/b/{id}": map[string]interface{}{"get": op("streamThenModel", oct, map[string]interface{}{"200": r("ok", file, nil), "default": r("err", ref, nil)})},
		"/c/{id}": map[string]interface{}{"get": op("headersOnly", js, map[string]interface{}{"200": r("ok", nil, hdr), "404": r("nf", map[string]interface{}{"type": "string"}, nil),
			"500": r("err", map[string]interface{}{"type": "array", "items": ref}, hdr)})},
		"/d/{id}": map[string]interface{}{"get": op("defaultStreamOnly", oct, map[string]interface{}{"default": r("any", bin, nil)})},
		"/e/{id}": map[string]interface{}{"get": op("primitiveMapNone", js, map[string]interface{}{"200": r("ok", map[string]interface{}{"type": "integer", "format": "int32"}, nil),
			"201": r("created", map[string]interface{}{"type": "object", "additionalProperties": ref}, nil), "204": r("none", nil, nil)})},
		"/f/{id}": map[string]interface{}{"get": op("streamEverywhere", oct, map[string]interface{}{"200": r("ok", bin, hdr), "202": r("later", bin, nil), "409": r("conflict", bin, nil), "default": r("err", bin, nil)})},
		"/g/{id}": map[string]interface{}{"get": op("redirectStream", oct, map[string]interface{}{"200": r("ok", ref, nil), "302": r("moved", bin, nil), "503": r("busy", file, nil)})},
	}
	doc := map[string]interface{}{"swagger": "2.0", "info": map[string]interface{}{"title": "responses", "version": "1"}, "consumes": []string{"application/json"}, "produces": []string{"application/json"},
		"paths": paths, "definitions": map[string]interface{}{"item": map[string]interface{}{"type": "object", "properties": map[string]interface{}{"name": map[string]interface{}{"type": "string"}}}}}
	b, _ := json.MarshalIndent(doc, "", " ")
	return b
}

// CheckC01 — generated code always builds.
func CheckC01(run *ev.Run) {
	r := rng.New(uint64(run.Seed) + 1)
	nStream := 4
	if run.Tier == "thorough" {
		nStream = 60
	}
	if !run.Lean.OK {
		nStream += 2
	}
	if v := os.Getenv("VERIF_C01_N"); v != "" {
		fmt.Sscan(v, &nStream)
	}
	st := map[string]int{}
	feat := map[string]int{}
	run.Rule = "(a) table-directed specs: one definition per go/build file-name token (thing_<t>, all referenced), every format of formatMapping as query / header / array-item parameter, " +
		"response header and model property, every response layout (model / primitive / array / map / none / headers only / binary stream) at 2xx, non-2xx and default codes; (b) a stream of valid specs covering every schema shape, parameter location, collectionFormat and response layout of the quantifier with names from a " +
		"180-entry adversarial pool (keywords, predeclared identifiers, identifiers of the generated code, file-name tokens, punctuation, digits, spaces, non-ASCII); each spec is generated as " +
		"server + client into one module and as cli (with its own client) into another, under minimal flatten / full flatten / expand in rotation and compiled with go build ./...; (c) the manglers against the Lean functions on " +
		"the whole pool; distinct = spec content x mode"
	run.Trusted = append(run.Trusted, "genlab in-process generation (real CLI option plumbing)", "go build of the installed toolchain as the judge of 'builds'",
		"go-openapi/validate as the judge of 'valid Swagger 2.0 document'", "go/build as the judge of which file names carry a build constraint")
	run.Assume = append(run.Assume, "no model of the Go type checker: well-typedness of template output is explored by compiling, not proved",
		"names colliding after mangling are kept apart by the generator of the stream (that is C08's subject)",
		"constructions upstream lists as unsupported (hack/codegen-fixtures.yaml: discriminators in expand mode) are not generated")

	// (c) mangler correspondence on the pool
	o := generator.GoLangOpts()
	o.Init()
	toks, terr := GoBuildTokens(TokenCandidates())
	tokSet := map[string]bool{}
	for _, t := range toks {
		tokSet[t] = true
	}
	if terr != nil {
		run.Broken("corr:C01:gobuild-probe", "the go/build probe failed: "+terr.Error(), nil)
	}
	var excluded []string
	for _, n := range append(append([]string{}, c01Names...), func() []string {
		var xs []string
		for _, t := range toks {
			xs = append(xs, "thing_"+t, "Thing "+strings.ToUpper(t), t)
		}
		return xs
	}()...) {
		fn := o.MangleFileName(n)
		segs := strings.Split(fn, "_")
		run.Traces++
		if len(segs) > 1 && tokSet[segs[len(segs)-1]] {
			excluded = append(excluded, n+" -> "+fn+".go")
		}
		if v := o.MangleVarName(n); goKeyword[v] {
			run.Deviation("var-is-keyword:"+n, fmt.Sprintf("MangleVarName(%q) = %q is a Go keyword", n, v), map[string]interface{}{"name": n})
		}
	}
	st["mangler-names"] = run.Traces
	// renameTimeout against the Lean model on random sets of parameter names (incl. the whole fixed chain)
	{
		m := driver()
		chain := []string{"timeout", "requesttimeout", "httprequesttimeout", "swaggertimeout", "operationtimeout", "optimeout", "opertimeout", "opertimeout1", "opertimeout11", "id", "limit", "timeout1", "requesttimeout1"}
		for i := 0; i < 200; i++ {
			var seen []string
			for _, c := range chain {
				if r.Chance(1, 2) {
					seen = append(seen, c)
				}
			}
			start := r.Pick([]string{"timeout", "timeout", "Timeout", "requestTimeout", "opTimeout", "x"})
			real := generator.VerifRenameTimeout(seen, start)
			mb, _ := json.Marshal(map[string]interface{}{"op": "names.renameTimeout", "seen": seen, "name": start})
			out, merr := m.Call(mb)
			var mr struct {
				R    string `json:"r"`
				Name string `json:"name"`
				Fuel bool   `json:"fuel"`
			}
			if merr == nil {
				_ = json.Unmarshal(out, &mr)
			}
			run.Traces++
			if mr.R != "ok" {
				run.Broken("corr:C01:driver", "model driver failed", nil)
				break
			}
			if mr.Fuel || mr.Name != real {
				st["RENAMETIMEOUT-DIFFERS"]++
				run.Broken("corr:C01:renameTimeout", fmt.Sprintf("Lean renameTimeout and the generator disagree on seen=%v start=%q: model %q (fuel exhausted: %v), real %q", seen, start, mr.Name, mr.Fuel, real), map[string]interface{}{"seen": seen, "start": start})
			} else {
				st["renameTimeout-agrees"]++
			}
			for _, sname := range seen {
				if strings.ToLower(real) == sname {
					run.Deviation("timeout-field-collides", fmt.Sprintf("renameTimeout returns %q which collides with parameter %q", real, sname), map[string]interface{}{"seen": seen, "start": start})
				}
			}
		}
		m.Close()
	}

	curKey := func(k string) string { return k }
	// generation is sequential (in-process, changes the working directory); compilation runs on a pool; results are
	// reported in submission order at the end
	type job struct {
		idx     int
		keyFn   func(string) string
		doc     []byte
		names   []string
		targets []string
		mode    []string
		what    string
		root    string
		out     *c01Outcome
	}
	var jobs []*job
	var wg sync.WaitGroup
	sem := make(chan struct{}, 10)
	build := func(tag string, doc []byte, names []string, targets, mode []string, what string) {
		ok, msg := specValid(doc)
		if !ok {
			st["invalid-spec-discarded"]++
			if os.Getenv("VERIF_DEBUG") != "" {
				fmt.Fprintln(os.Stderr, "invalid spec:", what, msg)
			}
			return
		}
		out, root := c01Generate(tag, doc, targets, mode)
		if out == nil {
			return
		}
		j := &job{idx: len(jobs), keyFn: curKey, doc: doc, names: names, targets: targets, mode: mode, what: what, root: root, out: out}
		jobs = append(jobs, j)
		wg.Add(1)
		sem <- struct{}{}
		go func() {
			defer wg.Done()
			defer func() { <-sem }()
			c01Compile(j.root, j.out)
			if os.Getenv("VERIF_KEEP") != "" {
				fmt.Fprintln(os.Stderr, "kept:", j.root, j.what)
			} else {
				os.RemoveAll(j.root)
			}
		}()
	}
	report := func() {
		wg.Wait()
		for _, j := range jobs {
			out := j.out
			run.Case(fmt.Sprintf("%s|%x", strings.Join(j.mode, ","), hashBytes(j.doc)))
			replay := map[string]interface{}{"spec": json.RawMessage(j.doc), "targets": j.targets, "mode": j.mode,
				"how": "in a scratch module (go.mod with the repository's requirements), from the module root: swagger generate <target> -f spec.json -t target -A c01 <mode>; go build ./..."}
			var ts []string
			for t := range out.GenErr {
				ts = append(ts, t)
			}
			sort.Strings(ts)
			for _, t := range ts {
				e := out.GenErr[t]
				st["generation-fails:"+t]++
				replay["generation_error"] = tail(e, 800)
				run.Deviation(j.keyFn("generate:"+t+":"+normGenErr(e)), fmt.Sprintf("%s: a valid spec is refused by generate %s: %s", j.what, t, firstLine(e)), replay)
			}
			if !out.BuildOK {
				st["build-fails"]++
				key, first := classifyBuild(out.BuildOut, j.names)
				replay["build_output"] = tail(out.BuildOut, 1500)
				run.Deviation(j.keyFn(key), fmt.Sprintf("%s: generation exits 0 and the generated code does not build: %s", j.what, first), replay)
			} else if len(out.GenErr) == 0 {
				st["builds"]++
			}
			st["go-files"] += out.Files
		}
	}

	// (a) table-directed
	if len(toks) > 0 {
		build("c01tok", tableSpecTokens(toks), func() []string {
			var xs []string
			for _, t := range toks {
				xs = append(xs, "thing_"+t)
			}
			return xs
		}(), []string{"model"}, nil, "file-name tokens")
	}
	fdoc, fnames := tableSpecFormats()
	st["formats-probed"] = len(fnames)
	build("c01fmt", fdoc, nil, []string{"server", "client"}, nil, "format tables")
	build("c01rsp", tableSpecResponses(), nil, []string{"server", "client"}, nil, "response layouts")
	report()
	jobs = nil
	// a definition whose additionalProperties reach itself: run through the CLI in a process of its own (the generator
	// overflows its stack on it, which no recover() survives)
	if sw, berr := BuildSwagger(); berr == nil {
		rec := []byte(`{"swagger":"2.0","info":{"title":"t","version":"1"},"paths":{},"definitions":{"node":{"type":"object","properties":{"n":{"type":"string"}},"additionalProperties":{"$ref":"#/definitions/node"}}}}`)
		if ok, _ := specValid(rec); ok {
			root, specPath, _, nerr := NewTarget("c01rec", rec)
			if nerr == nil {
				res := Run(root, 180*time.Second, sw, "generate", "model", "-f", specPath, "-t", "target")
				run.Traces++
				run.Case("recursive-additionalProperties")
				if res.Code != 0 {
					st["generation-crashes:recursive-map"]++
					why := "exit status " + fmt.Sprint(res.Code)
					if strings.Contains(res.Out, "stack overflow") {
						why = "fatal error: stack overflow"
					}
					run.Deviation("generate:model:crash:recursive-additionalProperties", "a valid spec is not generated: "+why+" in the type resolver on a definition whose additionalProperties refer to the definition itself",
						map[string]interface{}{"spec": json.RawMessage(rec), "how": "swagger generate model -f spec.json -t target", "output_head": clip(res.Out, 600)})
				} else {
					st["recursive-map-generated"]++
				}
				_ = os.RemoveAll(root)
			}
		}
		_ = os.Remove(sw)
	}
	if len(excluded) > 0 && !run.HasConcrete() {
		run.Deviation("file-excluded", fmt.Sprintf("generated file names that go build leaves out on some platform: %v", excluded), map[string]interface{}{"names": excluded})
	}

	// (b) shape stream: plain names, every shape
	modes := [][]string{nil, {"--with-flatten=full"}, {"--with-expand"}}
	// the shape stream is a FIXED corpus (its own constant seed): the pinned tree fails on a long tail of shape
	// combinations, each entry of which is listed as a known finding by corpus index; a seed-dependent stream would
	// keep meeting unlisted members of that tail
	cr := rng.New(1001)
	for i := 0; i < nStream; i++ {
		mode := modes[i%3]
		sp := GenC01Spec(cr, len(mode) > 0 && mode[0] == "--with-expand", true)
		for _, f := range sp.Feats {
			feat[f]++
		}
		idx := i
		shapeKey := func(tgt string) func(string) string {
			return func(k string) string {
				tgt := fmt.Sprintf("#%02d:%s", idx, tgt)
				// corpus entry + phase: the first message go build prints for an entry is not stable across runs
				if strings.HasPrefix(k, "build:") {
					return "shape:" + tgt + ":build"
				}
				return "shape:" + tgt + ":generate"
			}
		}
		curKey = shapeKey("server+client")
		build("c01s", sp.Doc, nil, []string{"server", "client"}, mode, "shape stream")
		curKey = shapeKey("cli")
		build("c01c", sp.Doc, nil, []string{"cli"}, mode, "shape stream (cli)")
		if len(run.Samples) < 2 {
			run.Sample(map[string]interface{}{"mode": mode, "features": sp.Feats})
		}
	}
	// (c) name stream: one adversarial name at one position of a fixed spec
	type pn struct{ pos, name string }
	var pairs []pn
	for _, p := range C01Positions {
		for _, n := range c01Names {
			if p == "pathparam" && strings.ContainsAny(n, "{}/?#") {
				continue
			}
			pairs = append(pairs, pn{p, n})
		}
	}
	nNames := 3 * nStream
	if run.Tier == "thorough" {
		nNames = len(pairs)
	}
	if v := os.Getenv("VERIF_C01_NAMES"); v != "" {
		fmt.Sscan(v, &nNames)
	}
	for i := len(pairs) - 1; i > 0; i-- {
		j := r.Intn(i + 1)
		pairs[i], pairs[j] = pairs[j], pairs[i]
	}
	if nNames > len(pairs) {
		nNames = len(pairs)
	}
	// names the generator treats specially (renameTimeout and friends) are always run, at every parameter position
	sample := append([]pn{}, pairs[:nNames]...)
	if nNames < len(pairs) {
		for _, pos := range []string{"query", "header", "pathparam", "formdata"} {
			for _, n := range []string{"timeout", "Timeout", "TimeOut", "timeout_"} {
				sample = append(sample, pn{pos, n})
			}
		}
	}
	for _, p := range sample {
		p := p
		curKey = func(k string) string {
			// systematic classes are keyed by class, name collisions by the name itself; the phase is "generate" or "build:<role>"
			phase := "generate"
			if strings.HasPrefix(k, "build:") {
				phase = "build" // not the package: the order in which go build reports packages is not fixed
			}
			switch c := NameClass(p.name); c {
			case "non-ascii", "digit-first", "punctuation":
				return "name@" + p.pos + ":" + c + ":" + phase
			}
			return "name@" + p.pos + "=" + strings.TrimSpace(p.name) + ":" + phase
		}
		feat["name@"+p.pos+":"+NameClass(p.name)]++
		build("c01n", NameSpec(p.pos, p.name), []string{p.name}, []string{"server", "client"}, nil, fmt.Sprintf("name %q as %s", p.name, p.pos))
	}
	report()
	run.Extra["distribution"] = st
	run.Extra["features"] = feat
}

var goKeyword = map[string]bool{"break": true, "case": true, "chan": true, "const": true, "continue": true, "default": true, "defer": true, "else": true, "fallthrough": true,
	"for": true, "func": true, "go": true, "goto": true, "if": true, "import": true, "interface": true, "map": true, "package": true, "range": true, "return": true, "select": true,
	"struct": true, "switch": true, "type": true, "var": true}

func firstLine(s string) string {
	if i := strings.IndexByte(s, '\n'); i >= 0 {
		s = s[:i]
	}
	if len(s) > 300 {
		s = s[:300]
	}
	return s
}

func hashBytes(b []byte) uint64 {
	var h uint64 = 1469598103934665603
	for _, c := range b {
		h ^= uint64(c)
		h *= 1099511628211
	}
	return h
}
