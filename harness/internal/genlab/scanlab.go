package genlab

import (
	"encoding/json"
	"fmt"
	"io"
	"log"
	"os"
	"runtime/debug"

	"github.com/go-openapi/spec"
	"github.com/go-swagger/go-swagger/codescan"
)

func init() {
	// go/packages runs `go list` in this process's environment
	for k, v := range map[string]string{"GOFLAGS": "-mod=mod", "GOPROXY": "off", "GOSUMDB": "off", "GOTOOLCHAIN": "local"} {
		if os.Getenv(k) == "" {
			_ = os.Setenv(k, v)
		}
	}
}

// Scan runs the code scanner (the library behind `swagger generate spec`) over packages of a module directory.
func Scan(workDir string, pkgs []string, scanModels bool, input *spec.Swagger) (doc []byte, err error, panicked string) {
	log.SetOutput(io.Discard)
	defer func() {
		if r := recover(); r != nil {
			st := string(debug.Stack())
			if len(st) > 2600 {
				st = st[:2600]
			}
			panicked = fmt.Sprintf("%v\n%s", r, st)
		}
	}()
	sw, e := codescan.Run(&codescan.Options{Packages: pkgs, WorkDir: workDir, ScanModels: scanModels, InputSpec: input})
	if e != nil {
		return nil, e, ""
	}
	b, e := json.Marshal(sw)
	return b, e, ""
}
