package genlab

import (
	"encoding/json"
	"fmt"
	"go/build"
	"os"
	"path/filepath"
	"regexp"
	"sort"
	"strings"

	"github.com/go-openapi/analysis"
	"github.com/go-openapi/loads"
	"github.com/go-swagger/go-swagger/generator"

	"verif/harness/internal/ev"
	"verif/harness/internal/rng"
)

var (
	collPaths = []string{"/a-b", "/a_b", "/A-B", "/ab", "/a/b", "/a.b", "/things", "/things/{id}", "/Things"}
	collIDs   = []string{"getA", "GetA", "get-a", "get_a", "geta", "listThings", "list_things", "ListThings", "x"}
	collDefs  = []string{"a-b", "a_b", "AB", "ab", "Ab", "thing", "Thing", "THING", "other", "build_sparc", "agentZos", "thing_linux", "probe_test", "unit_nacl", "cpu_riscv"}
	collMeths = []string{"get", "post", "put", "delete"}
)

type c08op struct {
	Method, Path, ID string
}

// c08Spec builds a valid spec from a choice of operations and definitions.
func c08Spec(ops []c08op, defs []string) []byte { return c08SpecShaped(ops, defs, -1) }

// shapes a definition may take (every one of them is a definition of its own and must yield a Go type of its own)
var c08Shapes = []map[string]interface{}{
	{"type": "object", "properties": map[string]interface{}{"v": map[string]interface{}{"type": "string"}}},
	{"type": "string", "format": "binary"},
	{"type": "string", "enum": []interface{}{"a", "b"}},
	{"type": "array", "items": map[string]interface{}{"type": "string"}},
	{"type": "object", "additionalProperties": map[string]interface{}{"type": "integer"}},
	{"type": "string", "format": "date"},
	{"type": "integer", "format": "int64"},
}

// c08SpecShaped: shapeOff < 0 gives every definition the object shape; otherwise definition k takes shape (k + shapeOff) mod len.
func c08SpecShaped(ops []c08op, defs []string, shapeOff int) []byte {
	paths := map[string]interface{}{}
	for _, o := range ops {
		if paths[o.Path] == nil {
			paths[o.Path] = map[string]interface{}{}
		}
		op := map[string]interface{}{"responses": map[string]interface{}{"200": map[string]interface{}{"description": "ok"}}}
		if o.ID != "" {
			op["operationId"] = o.ID
		}
		var params []interface{}
		for _, seg := range strings.Split(o.Path, "/") {
			if strings.HasPrefix(seg, "{") {
				params = append(params, map[string]interface{}{"name": strings.Trim(seg, "{}"), "in": "path", "required": true, "type": "string"})
			}
		}
		if params != nil {
			op["parameters"] = params
		}
		paths[o.Path].(map[string]interface{})[o.Method] = op
	}
	d := map[string]interface{}{}
	for k, n := range defs {
		if shapeOff < 0 {
			d[n] = c08Shapes[0]
		} else {
			d[n] = c08Shapes[(k+shapeOff)%len(c08Shapes)]
		}
	}
	doc := map[string]interface{}{"swagger": "2.0", "info": map[string]interface{}{"title": "t", "version": "1"}, "paths": paths}
	if len(d) > 0 {
		doc["definitions"] = d
	}
	b, _ := json.MarshalIndent(doc, "", " ")
	return b
}

var rxHandlerReg = regexp.MustCompile(`o\.handlers\["([A-Z]+)"\]\["([^"]*)"\]\s*=\s*([A-Za-z0-9_.]+)\(`)
var rxTypeDecl = regexp.MustCompile(`(?m)^type ([A-Za-z0-9_]+) `)

// CheckC08 — no operation or definition is silently dropped or merged.
func CheckC08(run *ev.Run) {
	m := driver()
	defer m.Close()
	r := rng.New(uint64(run.Seed) + 8)
	n := 25
	if run.Tier == "thorough" {
		n = 300
	}
	if !run.Lean.OK {
		n *= 2
	}
	st := map[string]int{}
	run.Rule = "specs built from pools of paths, operationIds and definition names that collide after Go-name mangling (case, punctuation), with and without operationId; " +
		"(a) the real gatherOperations (verif accessor) against the Lean model on the same candidates; (b) generate server and count: one handler registration per " +
		"(method, path) of the spec, each with its own constructor, one model type per definition — or generation must fail; distinct = (name multiset, which collide)"
	run.Trusted = append(run.Trusted, "generator.VerifGatherOperations (verif accessor)", "genlab in-process generation; regexp scan of the generated API file")
	run.Assume = append(run.Assume, "routing of the colliding-name specs is checked statically from the generated initHandlerCache (method, path -> constructor); requests are sent only in the reachability phase (distinct operationIds, paths incl. / and trailing slash)",
		"candidates with equal keys are given to the model in both tie orders (sort.Sort is not stable)")
	for i := 0; i < n; i++ {
		// choose operations
		var ops []c08op
		seen := map[string]bool{}
		ids := map[string]bool{}
		for k := 2 + r.Intn(4); k > 0; k-- {
			o := c08op{Method: r.Pick(collMeths), Path: r.Pick(collPaths)}
			if seen[o.Method+" "+o.Path] {
				continue
			}
			seen[o.Method+" "+o.Path] = true
			if r.Chance(1, 2) {
				id := r.Pick(collIDs)
				if !ids[id] {
					ids[id] = true
					o.ID = id
				}
			}
			ops = append(ops, o)
		}
		var defs []string
		for _, d := range collDefs {
			if r.Chance(1, 3) {
				defs = append(defs, d)
			}
		}
		shapeOff := -1
		if i%2 == 1 {
			shapeOff = i / 2
		}
		spec := c08SpecShaped(ops, defs, shapeOff)
		replay := map[string]interface{}{"spec": json.RawMessage(spec), "operations": ops, "definitions": defs,
			"how": "swagger generate server -f spec.json -t target -A c08; count handler registrations in restapi/operations/c08_api.go and types in models/"}
		// (a) gatherOperations vs model
		doc, err := loads.Analyzed(json.RawMessage(spec), "")
		if err != nil {
			st["unloadable"]++
			continue
		}
		cands, result := generator.VerifGatherOperations(analysis.New(doc.Spec()), nil)
		sort.SliceStable(cands, func(a, b int) bool {
			if cands[a].Key != cands[b].Key {
				return cands[a].Key < cands[b].Key
			}
			return cands[a].Method+cands[a].Path < cands[b].Method+cands[b].Path
		})
		realSet := map[string]bool{}
		for _, o := range result {
			realSet[o.Name+"|"+o.Method+"|"+o.Path] = true
		}
		agree := false
		var modelSets []map[string]bool
		for tie := 0; tie < 2 && !agree; tie++ {
			in := append([]generator.VerifOpRef{}, cands...)
			if tie == 1 { // reverse inside groups of equal keys
				for a := 0; a < len(in); {
					b := a
					for b < len(in) && in[b].Key == in[a].Key {
						b++
					}
					for x, y := a, b-1; x < y; x, y = x+1, y-1 {
						in[x], in[y] = in[y], in[x]
					}
					a = b
				}
			}
			var mo []map[string]string
			for _, c := range in {
				mo = append(mo, map[string]string{"key": c.Key, "method": c.Method, "path": c.Path, "id": c.ID})
			}
			req, _ := json.Marshal(map[string]interface{}{"op": "ops.gather", "ops": mo})
			out, err := m.Call(req)
			var mr struct {
				R    string     `json:"r"`
				Kept [][]string `json:"kept"`
			}
			if err == nil {
				_ = json.Unmarshal(out, &mr)
			}
			if mr.R != "ok" {
				run.Broken("corr:C08:driver", "model driver failed", replay)
				break
			}
			ms := map[string]bool{}
			for _, k := range mr.Kept {
				ms[strings.Join(k, "|")] = true
			}
			modelSets = append(modelSets, ms)
			if len(ms) == len(realSet) {
				agree = true
				for k := range ms {
					if !realSet[k] {
						agree = false
					}
				}
			}
		}
		run.Traces++
		if !agree {
			replay["real_gather"] = result
			replay["model_gather"] = modelSets
			run.Broken("corr:C08:gather", "Lean gather and gatherOperations register different operations", replay)
		}
		// (b) generation census
		root, specPath, target, err := NewTarget("c08", spec)
		if err != nil {
			continue
		}
		gerr := GenInProc("server", []string{"-f", specPath, "-t", target, "-A", "c08"}, nil)
		names := []string{}
		for _, o := range ops {
			names = append(names, o.Method+" "+o.Path+" "+o.ID)
		}
		sort.Strings(names)
		run.Case(strings.Join(names, ",") + "|" + strings.Join(defs, ","))
		if gerr != nil {
			st["generation-fails"]++
			_ = os.RemoveAll(root)
			continue
		}
		api, _ := os.ReadFile(filepath.Join(target, "restapi", "operations", "c08_api.go"))
		regs := rxHandlerReg.FindAllStringSubmatch(string(api), -1)
		routes := map[string]string{}
		ctors := map[string]int{}
		for _, g := range regs {
			routes[g[1]+" "+g[2]] = g[3]
			ctors[g[3]]++
		}
		missing := []string{}
		for _, o := range ops {
			if _, ok := routes[strings.ToUpper(o.Method)+" "+o.Path]; !ok {
				missing = append(missing, o.Method+" "+o.Path)
			}
		}
		shared := []string{}
		for c, k := range ctors {
			if k > 1 {
				shared = append(shared, c)
			}
		}
		if len(missing) > 0 || len(shared) > 0 {
			st["operations-merged"]++
			key := "merged:operations"
			replay["missing_routes"] = missing
			replay["shared_constructors"] = shared
			run.Deviation(key, fmt.Sprintf("generation succeeds but %d of %d operations have no handler of their own (routes missing: %v, constructors registered for several routes: %v)", len(missing)+len(shared), len(ops), missing, shared), replay)
		} else {
			st["operations-complete"]++
		}
		// model types
		types := map[string]bool{}
		files := 0
		for _, f := range goFiles(filepath.Join(target, "models")) {
			files++
			b, _ := os.ReadFile(f)
			for _, g := range rxTypeDecl.FindAllStringSubmatch(string(b), -1) {
				types[g[1]] = true
			}
		}
		// a generated file that the go tool leaves out on some platform is a definition dropped from the compiled package
		{
			ctx := build.Default
			ctx.GOOS, ctx.GOARCH, ctx.CgoEnabled = "verifos", "verifarch", false
			ctx.BuildTags, ctx.ToolTags, ctx.ReleaseTags = nil, nil, nil
			if pk, ierr := ctx.ImportDir(filepath.Join(target, "models"), 0); ierr == nil || pk != nil {
				var ignored []string
				if pk != nil {
					ignored = append(ignored, pk.IgnoredGoFiles...)
					ignored = append(ignored, pk.TestGoFiles...)
				}
				if len(ignored) > 0 {
					st["definitions-left-out-by-go-build"]++
					replay["ignored_files"] = ignored
					run.Deviation("dropped:file-left-out-by-go-build", fmt.Sprintf("generation succeeds but go build leaves out %v (file-name build constraint): the definitions in them are missing from the compiled package on other platforms", ignored), replay)
				}
			}
		}
		// definitions in distinct collision classes (names that differ by more than case and punctuation) can always be
		// given distinct Go names: fewer types than classes is a definition dropped WITHOUT any collision
		classes := map[string]bool{}
		for _, dn := range defs {
			classes[strings.Map(func(c rune) rune {
				if c >= 'A' && c <= 'Z' {
					return c + 32
				}
				if (c >= 'a' && c <= 'z') || (c >= '0' && c <= '9') {
					return c
				}
				return -1
			}, dn)] = true
		}
		if len(types) < len(classes) {
			st["definitions-dropped"]++
			replay["model_types"] = len(types)
			replay["collision_classes"] = len(classes)
			run.Deviation("dropped:definition-without-collision", fmt.Sprintf("generation succeeds but %d definitions in %d collision classes yield only %d model types: a definition is missing although its name collides with no other", len(defs), len(classes), len(types)), replay)
		} else if len(defs) > 0 && (files < len(defs) || len(types) < len(defs)) {
			st["definitions-merged"]++
			replay["model_files"] = files
			replay["model_types"] = len(types)
			run.Deviation("merged:definitions", fmt.Sprintf("generation succeeds but %d definitions yield %d model files and %d types", len(defs), files, len(types)), replay)
		} else {
			st["definitions-complete"]++
		}
		// the same census for `generate client` (shaped definition sets): every definition class has a type in the client's models too
		if shapeOff >= 0 && len(defs) > 0 {
			ctarget := filepath.Join(root, "ctarget")
			_ = os.MkdirAll(ctarget, 0o755)
			if cerr := GenInProc("client", []string{"-f", specPath, "-t", ctarget, "-A", "c08"}, nil); cerr == nil {
				ctypes := map[string]bool{}
				for _, f := range goFiles(filepath.Join(ctarget, "models")) {
					b, _ := os.ReadFile(f)
					for _, g := range rxTypeDecl.FindAllStringSubmatch(string(b), -1) {
						ctypes[g[1]] = true
					}
				}
				if len(ctypes) < len(classes) {
					st["client-definitions-dropped"]++
					replay["client_model_types"] = len(ctypes)
					run.Deviation("dropped:client:definition-without-collision", fmt.Sprintf("generate client succeeds but %d definitions in %d collision classes yield only %d model types", len(defs), len(classes), len(ctypes)), replay)
				} else {
					st["client-definitions-complete"]++
				}
			} else {
				st["client-generation-fails"]++
			}
		}
		if len(run.Samples) < 3 {
			run.Sample(map[string]interface{}{"operations": ops, "definitions": defs, "routes_registered": len(routes), "model_files": files})
		}
		_ = os.RemoveAll(root)
	}
	// (c) reachability: every operation of a spec answers on its own (method, path) in the compiled server
	nReach := 1
	if run.Tier == "thorough" {
		nReach = 4
	}
	routePool := []string{"/", "/x", "/x/{id}", "/x/{id}/y", "/x-y", "/X", "/x.json", "/y/", "/z/{a}/{b}", "/w/{id}/", "/v/{a}/{b}/"}
	for k := 0; k < nReach; k++ {
		var ops []c08op
		seen := map[string]bool{}
		for _, p := range routePool {
			always := p == "/" || strings.HasSuffix(p, "}/") // the root and templated paths with a trailing slash are in every spec
			if !always && r.Chance(1, 4) {
				continue
			}
			n0 := len(ops)
			for _, m := range collMeths {
				if r.Chance(1, 2) && !seen[m+p] {
					seen[m+p] = true
					ops = append(ops, c08op{Method: m, Path: p, ID: fmt.Sprintf("op%d", len(ops))})
				}
			}
			if always && len(ops) == n0 {
				seen["get"+p] = true
				ops = append(ops, c08op{Method: "get", Path: p, ID: fmt.Sprintf("op%d", len(ops))})
			}
		}
		if len(ops) == 0 {
			continue
		}
		spec := c08Spec(ops, nil)
		sb, err := BuildServer("c08r", spec)
		replay := map[string]interface{}{"spec": json.RawMessage(spec), "how": "generate the server, register one handler per operation, send one request per (method, path) of the spec"}
		if err != nil {
			st["reach-build-failed"]++
			// a subject that does not compile is C01's finding, not this property's; it is counted, and a run in which NOTHING could be built is a broken tie
			st["subject-does-not-build(C01)"]++
			if os.Getenv("VERIF_DEBUG") != "" {
				fmt.Fprintln(os.Stderr, "build failed:", tail(err.Error(), 400))
			}
			if sb != nil {
				sb.Remove()
			}
			continue
		}
		reached := map[string]string{}
		for _, o := range ops {
			u := strings.NewReplacer("{id}", "v1", "{a}", "v2", "{b}", "v3").Replace(o.Path)
			resp, err := sb.Do(ServerReq{Method: strings.ToUpper(o.Method), URL: u})
			run.Traces++
			run.Case("reach|" + o.Method + " " + o.Path)
			if err != nil {
				st["reach-server-error"]++
				continue
			}
			if !resp.Reached {
				st["reach-missed"]++
				replay["request"] = o
				replay["response"] = resp
				run.Deviation("unreachable:"+o.Path, fmt.Sprintf("%s %s is an operation of the spec but the generated server answers %d without reaching a handler", strings.ToUpper(o.Method), o.Path, resp.Status), replay)
				continue
			}
			if prev, dup := reached[resp.Op]; dup {
				st["reach-shared"]++
				replay["request"] = o
				run.Deviation("shared-handler:"+o.Path, fmt.Sprintf("%s %s reaches the handler %s that %s also reaches", o.Method, o.Path, resp.Op, prev), replay)
				continue
			}
			reached[resp.Op] = o.Method + " " + o.Path
			st["reach-ok"]++
		}
		sb.Remove()
	}
	run.Extra["distribution"] = st
}
