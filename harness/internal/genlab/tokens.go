package genlab

import (
	"fmt"
	"go/build"
	"os"
	"os/exec"
	"path/filepath"
	"sort"
	"strings"
)

// TokenCandidates is the probe set for file-name suffixes: every GOOS / GOARCH name any Go release has known, the
// platforms of the installed toolchain (`go tool dist list`), `test`, and a few words that must NOT be special.
// It is only a probe set: which of them matter is decided by go/build (GoBuildTokens) and by the generator
// (suffixTable), both asked at extraction time.
func TokenCandidates() []string {
	base := strings.Fields(`aix android darwin dragonfly freebsd hurd illumos ios js linux nacl netbsd openbsd plan9 solaris wasip1 wasip2 windows zos
		386 amd64 amd64p32 arm armbe arm64 arm64be loong64 mips mipsle mips64 mips64le mips64p32 mips64p32le ppc ppc64 ppc64le riscv riscv64 s390 s390x sparc sparc64 wasm
		test swagger unix cgo go main model models gen generated foo`)
	set := map[string]bool{}
	for _, b := range base {
		set[b] = true
	}
	if out, err := exec.Command("go", "tool", "dist", "list").Output(); err == nil {
		for _, l := range strings.Fields(string(out)) {
			for _, p := range strings.Split(l, "/") {
				set[p] = true
			}
		}
	}
	var all []string
	for k := range set {
		all = append(all, k)
	}
	sort.Strings(all)
	return all
}

// GoBuildTokens asks go/build which candidates, as the last `_`-separated element of a file name, make `go build`
// leave the file out on some platform: the file x_<t>.go is imported under a GOOS/GOARCH pair that no token names.
func GoBuildTokens(cands []string) ([]string, error) {
	dir, err := os.MkdirTemp("", "vxtok")
	if err != nil {
		return nil, err
	}
	defer os.RemoveAll(dir)
	for _, t := range cands {
		if err := os.WriteFile(filepath.Join(dir, "x_"+t+".go"), []byte("package x\n"), 0o644); err != nil {
			return nil, err
		}
	}
	ctx := build.Default
	ctx.GOOS, ctx.GOARCH = "verifos", "verifarch"
	ctx.CgoEnabled = false
	ctx.BuildTags, ctx.ToolTags, ctx.ReleaseTags = nil, nil, nil
	p, err := ctx.ImportDir(dir, 0)
	if err != nil {
		return nil, fmt.Errorf("go/build ImportDir: %w", err)
	}
	built := map[string]bool{}
	for _, f := range p.GoFiles {
		built[f] = true
	}
	var out []string
	for _, t := range cands {
		if !built["x_"+t+".go"] {
			out = append(out, t)
		}
	}
	if len(out) < 10 {
		return nil, fmt.Errorf("go/build excluded only %d of %d probe files: the probe no longer works", len(out), len(cands))
	}
	return out, nil
}

