package genlab

import (
	"fmt"
	"io"
	"log"
	"strings"

	"github.com/go-swagger/go-swagger/cmd/swagger/commands/generate"
	"github.com/go-swagger/go-swagger/generator"
)

// DefaultLayoutYAML renders the live default server layout in the documented config-file format (`-C file`), every
// flag spelled with the documented keys (skip_exists, skip_format).
func DefaultLayoutYAML() ([]byte, error) {
	log.SetOutput(io.Discard)
	o, _, err := generate.VerifOpts("server", nil)
	if err != nil {
		return nil, err
	}
	var b strings.Builder
	b.WriteString("layout:\n")
	sec := func(name string, ts []generator.TemplateOpts) {
		if len(ts) == 0 {
			return
		}
		fmt.Fprintf(&b, "  %s:\n", name)
		for _, t := range ts {
			fmt.Fprintf(&b, "    - name: %q\n      source: %q\n      target: %q\n      file_name: %q\n", t.Name, t.Source, t.Target, t.FileName)
			if t.SkipExists {
				b.WriteString("      skip_exists: true\n")
			}
			if t.SkipFormat {
				b.WriteString("      skip_format: true\n")
			}
		}
	}
	sec("application", o.Sections.Application)
	sec("models", o.Sections.Models)
	sec("operations", o.Sections.Operations)
	sec("operation_groups", o.Sections.OperationGroups)
	return []byte(b.String()), nil
}
