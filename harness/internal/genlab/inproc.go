package genlab

import (
	"fmt"
	"io"
	"log"
	"os"
	"path/filepath"
	"runtime/debug"

	"github.com/go-swagger/go-swagger/cmd/swagger/commands/generate"
	"github.com/go-swagger/go-swagger/generator"
)

// GenInProc runs `swagger generate <kind> args...` in-process through the command's own option plumbing (go-flags
// defaults, createSwagger) and generate step. tweak, when not nil, may adjust the options in between (e.g. SkipFormat).
func GenInProc(kind string, args []string, tweak func(o *generator.GenOpts)) (err error) {
	log.SetOutput(io.Discard)
	defer func() {
		if r := recover(); r != nil {
			err = fmt.Errorf("panic: %v\n%s", r, debug.Stack())
		}
	}()
	// run from the root of the module that holds the target, as the documentation asks (generation resolves import
	// paths relative to the working directory: run from elsewhere, the real CLI drops imports of generated packages)
	for i, a := range args {
		if a == "-t" && i+1 < len(args) {
			dir := args[i+1]
			for d := dir; d != filepath.Dir(d); d = filepath.Dir(d) {
				if _, serr := os.Stat(filepath.Join(d, "go.mod")); serr == nil {
					if old, werr := os.Getwd(); werr == nil && os.Chdir(d) == nil {
						defer os.Chdir(old)
					}
					break
				}
			}
		}
	}
	opts, gen, e := generate.VerifOpts(kind, args)
	if e != nil {
		return e
	}
	if tweak != nil {
		tweak(opts)
	}
	return gen()
}

// SkipFormatAll switches source formatting off for every template entry (the rendered text is written as is).
func SkipFormatAll(o *generator.GenOpts) {
	for _, sec := range []*[]generator.TemplateOpts{&o.Sections.Models, &o.Sections.Operations, &o.Sections.OperationGroups, &o.Sections.Application, &o.Sections.PostModels} {
		for i := range *sec {
			(*sec)[i].SkipFormat = true
		}
	}
}

// NewTarget creates a scratch module with an empty target directory and the spec written next to it.
func NewTarget(tag string, spec []byte) (root, specPath, target string, err error) {
	root, err = ScratchRoot(tag)
	if err != nil {
		return
	}
	if err = InitModule(root, "x"); err != nil {
		return
	}
	specPath = filepath.Join(root, "spec.json")
	if err = os.WriteFile(specPath, spec, 0o644); err != nil {
		return
	}
	target = filepath.Join(root, "target")
	err = os.MkdirAll(target, 0o755)
	return
}
