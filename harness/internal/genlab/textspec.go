package genlab

import (
	"encoding/json"
	"fmt"
)

// TextField is one free-text position of a spec.
type TextField struct {
	Key  string        // stable name of the position, e.g. "operation.summary"
	Path []interface{} // JSON path inside the document
}

// textSpecBase is a small but complete server spec; every free-text position listed by TextFields exists in it.
func textSpecBase() map[string]interface{} {
	var doc map[string]interface{}
	_ = json.Unmarshal([]byte(`{
 "swagger": "2.0",
 "info": {"title": "t", "description": "d", "termsOfService": "tos", "version": "1.0",
          "contact": {"name": "cn", "url": "http://c.example", "email": "c@example.com"},
          "license": {"name": "ln", "url": "http://l.example"}},
 "host": "h.example", "basePath": "/base",
 "schemes": ["http"], "consumes": ["application/json"], "produces": ["application/json"],
 "externalDocs": {"description": "ed", "url": "http://e.example"},
 "tags": [{"name": "pets", "description": "td", "externalDocs": {"description": "ted", "url": "http://te.example"}}],
 "securityDefinitions": {"key": {"type": "apiKey", "in": "header", "name": "X-Key", "description": "sd"}},
 "paths": {"/pets/{id}": {
   "get": {"operationId": "getPet", "tags": ["pets"], "summary": "os", "description": "od",
     "externalDocs": {"description": "oed", "url": "http://oe.example"},
     "security": [{"key": []}],
     "parameters": [
       {"name": "id", "in": "path", "required": true, "type": "string", "description": "ppd", "pattern": "^[a-z]+$"},
       {"name": "q", "in": "query", "type": "string", "description": "pqd", "default": "qdef", "enum": ["qdef", "other"]},
       {"name": "X-H", "in": "header", "type": "string", "description": "phd", "pattern": "^h+$"},
       {"name": "body", "in": "body", "description": "pbd", "schema": {"$ref": "#/definitions/Pet"}}],
     "responses": {
       "200": {"description": "rd", "headers": {"X-Rate": {"type": "string", "description": "rhd", "default": "hdef"}, "X-Pat": {"type": "string", "pattern": "^r+$"}},
               "schema": {"$ref": "#/definitions/Pet"}},
       "404": {"description": "rd4", "schema": {"type": "object", "description": "inl", "properties": {"msg": {"type": "string", "description": "inlp"}}}},
       "default": {"description": "rdd", "schema": {"$ref": "#/definitions/Err"}}}}}},
 "definitions": {
   "Pet": {"type": "object", "title": "dt", "description": "dd", "required": ["name"],
     "properties": {
       "name": {"type": "string", "title": "pt", "description": "pd", "example": "pex", "default": "pdef"},
       "pat": {"type": "string", "pattern": "^p+$"},
       "kind": {"type": "string", "description": "ked", "enum": ["cat", "dog"]},
       "tagged": {"type": "array", "description": "ard", "items": {"type": "string", "description": "itd", "pattern": "^i+$"}}}},
   "Code": {"type": "string", "title": "ct", "description": "cd", "example": "cex"},
   "Err": {"type": "object", "description": "errd", "properties": {"code": {"type": "integer", "description": "ecd", "example": 7}}}}
}`), &doc)
	return doc
}

// TextFields lists the free-text positions of textSpecBase.
func TextFields() []TextField {
	p := func(xs ...interface{}) []interface{} { return xs }
	get := p("paths", "/pets/{id}", "get")
	at := func(base []interface{}, xs ...interface{}) []interface{} { return append(append([]interface{}{}, base...), xs...) }
	return []TextField{
		{"basePath", p("basePath")},
		{"info.title", p("info", "title")}, {"info.description", p("info", "description")}, {"info.termsOfService", p("info", "termsOfService")},
		{"info.version", p("info", "version")}, {"info.contact.name", p("info", "contact", "name")}, {"info.contact.url", p("info", "contact", "url")},
		{"info.contact.email", p("info", "contact", "email")}, {"info.license.name", p("info", "license", "name")}, {"info.license.url", p("info", "license", "url")},
		{"externalDocs.description", p("externalDocs", "description")}, {"externalDocs.url", p("externalDocs", "url")},
		{"tag.description", p("tags", 0, "description")}, {"tag.externalDocs.description", p("tags", 0, "externalDocs", "description")},
		{"securityDefinition.description", p("securityDefinitions", "key", "description")},
		{"operation.summary", at(get, "summary")}, {"operation.description", at(get, "description")},
		{"operation.externalDocs.description", at(get, "externalDocs", "description")}, {"operation.externalDocs.url", at(get, "externalDocs", "url")},
		{"param.path.description", at(get, "parameters", 0, "description")}, {"param.path.pattern", at(get, "parameters", 0, "pattern")},
		{"param.query.description", at(get, "parameters", 1, "description")}, {"param.query.default", at(get, "parameters", 1, "default")},
		{"param.header.description", at(get, "parameters", 2, "description")}, {"param.header.pattern", at(get, "parameters", 2, "pattern")},
		{"param.body.description", at(get, "parameters", 3, "description")},
		{"response.description", at(get, "responses", "200", "description")}, {"response.header.description", at(get, "responses", "200", "headers", "X-Rate", "description")},
		{"response.header.default", at(get, "responses", "200", "headers", "X-Rate", "default")}, {"response.header.pattern", at(get, "responses", "200", "headers", "X-Pat", "pattern")},
		{"response.inline.description", at(get, "responses", "404", "schema", "description")},
		{"response.inline.property.description", at(get, "responses", "404", "schema", "properties", "msg", "description")},
		{"response.default.description", at(get, "responses", "default", "description")},
		{"definition.title", p("definitions", "Pet", "title")}, {"definition.description", p("definitions", "Pet", "description")},
		{"property.title", p("definitions", "Pet", "properties", "name", "title")}, {"property.description", p("definitions", "Pet", "properties", "name", "description")},
		{"property.example", p("definitions", "Pet", "properties", "name", "example")}, {"property.default", p("definitions", "Pet", "properties", "name", "default")},
		{"property.pattern", p("definitions", "Pet", "properties", "pat", "pattern")},
		{"property.enum.description", p("definitions", "Pet", "properties", "kind", "description")},
		{"array.description", p("definitions", "Pet", "properties", "tagged", "description")}, {"items.pattern", p("definitions", "Pet", "properties", "tagged", "items", "pattern")},
		{"definition2.description", p("definitions", "Err", "description")},
		{"definition3.title", p("definitions", "Code", "title")}, {"definition3.description", p("definitions", "Code", "description")},
		{"definition3.example", p("definitions", "Code", "example")},
	}
}

func setPath(doc interface{}, path []interface{}, val interface{}) error {
	cur := doc
	for i, k := range path {
		last := i == len(path)-1
		switch key := k.(type) {
		case string:
			m, ok := cur.(map[string]interface{})
			if !ok {
				return fmt.Errorf("path %v: not an object at %v", path, key)
			}
			if last {
				m[key] = val
				return nil
			}
			cur = m[key]
		case int:
			a, ok := cur.([]interface{})
			if !ok || key >= len(a) {
				return fmt.Errorf("path %v: not an array at %v", path, key)
			}
			if last {
				a[key] = val
				return nil
			}
			cur = a[key]
		}
	}
	return nil
}

// TextSpec renders the base spec with vals[key] substituted at each listed position.
func TextSpec(vals map[string]string) []byte {
	doc := textSpecBase()
	for _, f := range TextFields() {
		if v, ok := vals[f.Key]; ok {
			_ = setPath(doc, f.Path, v)
		}
	}
	// a string default must be a member of the enum next to it
	if v, ok := vals["param.query.default"]; ok {
		_ = setPath(doc, []interface{}{"paths", "/pets/{id}", "get", "parameters", 1, "enum"}, []interface{}{v, "other"})
	}
	b, _ := json.MarshalIndent(doc, "", " ")
	return b
}
