package genlab

import (
	"bufio"
	"encoding/json"
	"fmt"
	"os"
	"path/filepath"
	"reflect"
	"strings"
	"time"

	"github.com/go-openapi/spec"
	"github.com/go-openapi/strfmt"
	"github.com/go-openapi/validate"

	"verif/harness/internal/ev"
	"verif/harness/internal/rng"
)

// gty is a Go type expression in the encoding of the Lean model (Scan.GoTy), with what the Go source needs on top.
// c16Embeds are helper struct types declared in every generated package and embedded into models.
const c16Embeds = `
type timestamps struct {
	CreatedAt int64  ` + "`json:\"created_at\"`" + `
	Revision  uint32
}

// Audit is an exported embedded type.
type Audit struct {
	By   string ` + "`json:\"by,omitempty\"`" + `
	Note *string
}

// Money is written as text through a VALUE receiver.
type Money struct{ Units int64 }

func (m Money) MarshalText() ([]byte, error) { return []byte(fmt.Sprintf("%d", m.Units)), nil }
func (m *Money) UnmarshalText(b []byte) error {
	_, err := fmt.Sscanf(string(b), "%d", &m.Units)
	return err
}

// Ratio is written as text through a POINTER receiver (like *big.Float, *big.Rat).
type Ratio struct{ N, D int64 }

func (r *Ratio) MarshalText() ([]byte, error) { return []byte(fmt.Sprintf("%d/%d", r.N, r.D)), nil }
func (r *Ratio) UnmarshalText(b []byte) error {
	_, err := fmt.Sscanf(string(b), "%d/%d", &r.N, &r.D)
	return err
}

`

// fields of the text-marshalling helper types (outside the Lean fragment, like the embedded helpers)
var c16TextFields = []string{
	"Price Money `json:\"price\"`",
	"PriceP *Money `json:\"price_p,omitempty\"`",
	"Share *Ratio `json:\"share\"`",
	"Shares []*Ratio `json:\"shares\"`",
	"ByName map[string]*Ratio `json:\"by_name\"`",
}

type gty struct {
	Embeds []string `json:"-"` // embedded helper types (timestamps, *Audit): outside the Lean fragment
	Extra  []string `json:"-"` // further field declarations written verbatim (text-marshalling helper types): outside the Lean fragment
	K      string   `json:"k"` // basic | ptr | slice | arr | map | strct | time | text | bytes | iface | named
	Kind   string   `json:"kind,omitempty"`
	GoName string   `json:"-"` // spelling of a basic kind (int32, uint8, float32, ...)
	Elem   *gty     `json:"elem,omitempty"`
	Fields []gfield `json:"fields,omitempty"`
	Name   string   `json:"name,omitempty"`
}

type gfield struct {
	Go        string `json:"-"`
	JSON      string `json:"json"`
	Omitempty bool   `json:"omitempty"`
	AsString  bool   `json:"asString"`
	Skip      bool   `json:"-"`
	Ty        *gty   `json:"ty"`
}

var c16Basics = []struct{ goName, kind string }{{"bool", "bool"}, {"int", "int"}, {"int8", "int"}, {"int16", "int"}, {"int32", "int"}, {"int64", "int"},
	{"uint", "int"}, {"uint8", "int"}, {"uint16", "int"}, {"uint32", "int"}, {"uint64", "int"}, {"float32", "float"}, {"float64", "float"}, {"string", "str"}}

func genGty(r *rng.R, depth int, models []string) *gty {
	k := r.Intn(12)
	if depth <= 0 && k >= 3 {
		k = r.Intn(3)
	}
	switch {
	case k < 4:
		b := c16Basics[r.Intn(len(c16Basics))]
		return &gty{K: "basic", Kind: b.kind, GoName: b.goName}
	case k == 4:
		return &gty{K: "ptr", Elem: genGty(r, depth-1, models)}
	case k == 5 || k == 6:
		return &gty{K: "slice", Elem: genGty(r, depth-1, models)}
	case k == 7:
		return &gty{K: "arr", Elem: genGty(r, depth-1, models)}
	case k == 8:
		return &gty{K: "map", Elem: genGty(r, depth-1, models)}
	case k == 9:
		return genStruct(r, depth-1, models)
	case k == 10:
		switch r.Intn(6) {
		case 3:
			return &gty{K: "text", GoName: "Money"} // MarshalText with a value receiver
		case 4:
			return &gty{K: "ptr", Elem: &gty{K: "text", GoName: "Money"}}
		case 5:
			return &gty{K: "ptr", Elem: &gty{K: "text", GoName: "Ratio"}} // pointer receiver: only ever used through a pointer
		}
		return &gty{K: []string{"time", "bytes", "iface"}[r.Intn(3)]}
	default:
		if len(models) > 0 {
			return &gty{K: "named", Name: models[r.Intn(len(models))]}
		}
		return &gty{K: "basic", Kind: "str", GoName: "string"}
	}
}

func genStruct(r *rng.R, depth int, models []string) *gty {
	t := &gty{K: "strct"}
	n := 2 + r.Intn(4)
	for i := 0; i < n; i++ {
		f := gfield{Go: fmt.Sprintf("F%d", i), Ty: genGty(r, depth, models)}
		switch r.Intn(6) {
		case 0:
			f.JSON = f.Go // no tag: the Go name
		case 1:
			f.JSON = fmt.Sprintf("renamed_%d", i)
		default:
			f.JSON = fmt.Sprintf("f%d", i)
		}
		f.Omitempty = r.Chance(1, 3)
		f.AsString = r.Chance(1, 6)
		f.Skip = r.Chance(1, 12)
		t.Fields = append(t.Fields, f)
	}
	return t
}

func (t *gty) src() string {
	switch t.K {
	case "basic":
		return t.GoName
	case "ptr":
		return "*" + t.Elem.src()
	case "slice":
		return "[]" + t.Elem.src()
	case "arr":
		return "[2]" + t.Elem.src()
	case "map":
		return "map[string]" + t.Elem.src()
	case "time":
		return "time.Time"
	case "text":
		return t.GoName
	case "bytes":
		return "[]byte"
	case "iface":
		return "interface{}"
	case "named":
		return t.Name
	case "strct":
		var b strings.Builder
		b.WriteString("struct {\n")
		for _, e := range t.Embeds {
			fmt.Fprintf(&b, "\t%s\n", e)
		}
		for _, e := range t.Extra {
			fmt.Fprintf(&b, "\t%s\n", e)
		}
		for _, f := range t.Fields {
			tag := f.JSON
			if f.Skip {
				tag = "-"
			} else {
				if f.JSON == f.Go {
					tag = ""
				}
				if f.Omitempty {
					tag += ",omitempty"
				}
				if f.AsString {
					tag += ",string"
				}
			}
			if tag == "" {
				fmt.Fprintf(&b, "\t%s %s\n", f.Go, f.Ty.src())
			} else {
				fmt.Fprintf(&b, "\t%s %s `json:%q`\n", f.Go, f.Ty.src(), tag)
			}
		}
		b.WriteString("}")
		return b.String()
	}
	return "string"
}

// lean drops what the Lean model does not see (skipped fields).
func (t *gty) lean() interface{} {
	if t == nil {
		return nil
	}
	m := map[string]interface{}{"k": t.K}
	if t.K == "slice" && t.Elem != nil && t.Elem.K == "basic" && t.Elem.GoName == "uint8" {
		return map[string]interface{}{"k": "bytes"} // []uint8 IS []byte
	}
	switch t.K {
	case "basic":
		m["kind"] = t.Kind
	case "ptr", "slice", "arr", "map":
		m["elem"] = t.Elem.lean()
	case "named":
		m["name"] = t.Name
	case "strct":
		var fs []interface{}
		for _, f := range t.Fields {
			if f.Skip {
				continue
			}
			fs = append(fs, map[string]interface{}{"json": f.JSON, "omitempty": f.Omitempty, "asString": f.AsString, "ty": f.Ty.lean()})
		}
		m["fields"] = fs
	}
	return m
}

func (t *gty) hasNamed() bool {
	if t == nil {
		return false
	}
	if t.K == "named" {
		return true
	}
	if t.Elem.hasNamed() {
		return true
	}
	for _, f := range t.Fields {
		if f.Ty.hasNamed() {
			return true
		}
	}
	return false
}

const c16Main = `// Code generated by the verification harness. DO NOT EDIT.
package main

import (
	"encoding/json"
	"fmt"
	"math/rand"
	"os"
	"reflect"
	"time"

	"x/types"
)

var rnd = rand.New(rand.NewSource(%SEED%))

func fill(v reflect.Value, depth int) {
	switch v.Kind() {
	case reflect.Bool:
		v.SetBool(rnd.Intn(2) == 0)
	case reflect.Int, reflect.Int8, reflect.Int16, reflect.Int32, reflect.Int64:
		v.SetInt(int64(rnd.Intn(5)) - 1)
	case reflect.Uint, reflect.Uint8, reflect.Uint16, reflect.Uint32, reflect.Uint64:
		v.SetUint(uint64(rnd.Intn(4)))
	case reflect.Float32, reflect.Float64:
		v.SetFloat([]float64{0, 1.5, -2, 0.25}[rnd.Intn(4)])
	case reflect.String:
		v.SetString([]string{"", "a", "b c"}[rnd.Intn(3)])
	case reflect.Ptr:
		if rnd.Intn(4) > 0 && depth > 0 {
			v.Set(reflect.New(v.Type().Elem()))
			fill(v.Elem(), depth-1)
		}
	case reflect.Slice:
		if rnd.Intn(4) > 0 {
			n := rnd.Intn(3)
			s := reflect.MakeSlice(v.Type(), n, n)
			for i := 0; i < n; i++ {
				fill(s.Index(i), depth-1)
			}
			v.Set(s)
		}
	case reflect.Array:
		for i := 0; i < v.Len(); i++ {
			fill(v.Index(i), depth-1)
		}
	case reflect.Map:
		if rnd.Intn(4) > 0 {
			m := reflect.MakeMap(v.Type())
			for i := rnd.Intn(3); i > 0; i-- {
				e := reflect.New(v.Type().Elem()).Elem()
				fill(e, depth-1)
				m.SetMapIndex(reflect.ValueOf(fmt.Sprintf("k%d", i)).Convert(v.Type().Key()), e)
			}
			v.Set(m)
		}
	case reflect.Struct:
		if v.Type() == reflect.TypeOf(time.Time{}) {
			v.Set(reflect.ValueOf(time.Date(2020, 1, 2, 3, 4, 5, 0, time.UTC)))
			return
		}
		for i := 0; i < v.NumField(); i++ {
			if v.Field(i).CanSet() {
				fill(v.Field(i), depth-1)
			}
		}
	case reflect.Interface:
		switch rnd.Intn(4) {
		case 0:
			v.Set(reflect.ValueOf("dyn"))
		case 1:
			v.Set(reflect.ValueOf(3.5))
		case 2:
			v.Set(reflect.ValueOf(map[string]interface{}{"a": true}))
		}
	}
}

func main() {
	out := json.NewEncoder(os.Stdout)
	for _, mk := range []struct {
		name string
		mk   func() interface{}
	}{
%REG%
	} {
		for i := 0; i < %N%; i++ {
			p := mk.mk()
			fill(reflect.ValueOf(p).Elem(), 6)
			b, err := json.Marshal(p)
			if err != nil {
				_ = out.Encode(map[string]interface{}{"type": mk.name, "error": err.Error()})
				continue
			}
			// decode back: JSON the type itself produced must decode into the type
			q := mk.mk()
			derr := ""
			if e := json.Unmarshal(b, q); e != nil {
				derr = e.Error()
			}
			_ = out.Encode(map[string]interface{}{"type": mk.name, "json": json.RawMessage(b), "decode_error": derr})
		}
	}
}
`

// structShape reduces a schema to the structural part both sides can be compared on.
func structShape(v interface{}, defs map[string]interface{}, depth int) interface{} {
	m, ok := v.(map[string]interface{})
	if !ok || depth > 14 {
		return nil
	}
	if ref, ok := m["$ref"].(string); ok {
		return map[string]interface{}{"ref": strings.TrimPrefix(ref, "#/definitions/")}
	}
	out := map[string]interface{}{}
	if t, ok := m["type"].(string); ok {
		out["ty"] = t
	}
	if it, ok := m["items"]; ok {
		out["items"] = structShape(it, defs, depth+1)
	}
	if ap, ok := m["additionalProperties"]; ok {
		out["addl"] = structShape(ap, defs, depth+1)
	}
	if ps, ok := m["properties"].(map[string]interface{}); ok && len(ps) > 0 {
		pm := map[string]interface{}{}
		for k, x := range ps {
			pm[k] = structShape(x, defs, depth+1)
		}
		out["props"] = pm
	}
	return out
}

// CheckC16 — scanned model schemas describe the type's actual JSON encoding.
func CheckC16(run *ev.Run) {
	m := driver()
	defer m.Close()
	r := rng.New(uint64(run.Seed) + 16)
	nPkgs, nVals := 2, 12
	if run.Tier == "thorough" {
		nPkgs, nVals = 25, 30
	}
	if !run.Lean.OK {
		nPkgs *= 2
	}
	st := map[string]int{}
	run.Rule = "Go packages with 6 annotated model structs whose fields are random type expressions (every basic kind and width, pointers, slices, arrays, string-keyed maps, anonymous structs, time.Time, []byte, " +
		"interface{}, references to other models; json tags with rename, '-', omitempty, ',string', untagged fields) are scanned with codescan AND compiled into a program that fills values by reflection and marshals " +
		"them; every marshalled document is validated against the scanned definition (go-openapi/validate) and decoded back into the type; the scanned definition is compared with the Lean schemaOf on the same type"
	run.Trusted = append(run.Trusted, "codescan.Run in-process", "the compiled program (encoding/json of the real types)", "go-openapi/validate as acceptance oracle (strict about null)", "structural projection of schemas (type, items, properties, additionalProperties, $ref)")
	run.Assume = append(run.Assume, "formats (int32, float, date-time) are compared only through the validator", "oracle gap: strfmt refuses the empty string as base64 (an empty non-nil []byte); such reports are discarded", "embedded structs and text-marshalling helper fields of fixed shape are outside the Lean fragment (validated only); TextMarshaler types as random field / element / map-value types are inside it")
	for pi := 0; pi < nPkgs; pi++ {
		models := []string{}
		types := map[string]*gty{}
		var src strings.Builder
		src.WriteString("// Package types holds generated model types.\npackage types\n\nimport (\n\t\"fmt\"\n\t\"time\"\n)\n\nvar _ = time.Now\n\n")
		src.WriteString(c16Embeds)
		for i := 0; i < 6; i++ {
			name := fmt.Sprintf("Model%c", 'A'+i)
			t := genStruct(r, 3, models)
			if i == 0 {
				// members NAMED like json tag options (the name is element 0 of the tag, not an option)
				t.Fields = append(t.Fields,
					gfield{Go: "S0", JSON: "string", Ty: &gty{K: "basic", Kind: "int", GoName: "int64"}},
					gfield{Go: "S1", JSON: "omitempty", Ty: &gty{K: "ptr", Elem: &gty{K: "basic", Kind: "float", GoName: "float64"}}})
			}
			switch i { // every package has each kind of embedding once
			case 1:
				t.Embeds = []string{"timestamps"}
			case 2:
				t.Embeds = []string{"*timestamps", "Audit"}
			case 3:
				t.Embeds = []string{"*Audit"}
			case 4:
				t.Extra = c16TextFields
			case 5:
				// the same shapes INSIDE the Lean fragment: the scanned schema of this model is compared with schemaOf
				money, ratio := &gty{K: "text", GoName: "Money"}, &gty{K: "text", GoName: "Ratio"}
				for j, ft := range []*gty{money, {K: "ptr", Elem: money}, {K: "ptr", Elem: ratio}, {K: "slice", Elem: &gty{K: "ptr", Elem: ratio}},
					{K: "map", Elem: &gty{K: "ptr", Elem: ratio}}, {K: "arr", Elem: money}} {
					t.Fields = append(t.Fields, gfield{Go: fmt.Sprintf("T%d", j), JSON: fmt.Sprintf("t%d", j), Omitempty: j == 1, Ty: ft})
				}
			}
			types[name] = t
			fmt.Fprintf(&src, "// %s is a generated model.\n//\n// swagger:model %s\ntype %s %s\n\n", name, name, name, t.src())
			models = append(models, name)
		}
		root, err := ScratchRoot("c16")
		if err != nil {
			continue
		}
		_ = InitModule(root, "x")
		_ = os.MkdirAll(filepath.Join(root, "types"), 0o755)
		_ = os.MkdirAll(filepath.Join(root, "cmd"), 0o755)
		_ = os.WriteFile(filepath.Join(root, "types", "types.go"), []byte(src.String()), 0o644)
		var reg []string
		for _, n := range models {
			reg = append(reg, fmt.Sprintf("\t\t{%q, func() interface{} { return new(types.%s) }},", n, n))
		}
		mainSrc := strings.ReplaceAll(strings.ReplaceAll(strings.ReplaceAll(c16Main, "%REG%", strings.Join(reg, "\n")), "%N%", fmt.Sprint(nVals)), "%SEED%", fmt.Sprint(run.Seed*1000+int64(pi)))
		_ = os.WriteFile(filepath.Join(root, "cmd", "main.go"), []byte(mainSrc), 0o644)
		replay := map[string]interface{}{"types_go": src.String(), "how": "put types_go into package x/types of a module with the repository's requirements; swagger generate spec -m -w . ./types; marshal values of the types with encoding/json and validate them against the definitions"}
		scanned, serr, pan := Scan(root, []string{"./types"}, true, nil)
		if pan != "" {
			st["scanner-panics"]++
			run.Deviation("scanner-panics", "the scanner panics on a compilable package: "+firstLine(pan), replay)
			_ = os.RemoveAll(root)
			continue
		}
		if serr != nil {
			st["scan-fails"]++
			replay["scan_error"] = serr.Error()
			run.Deviation("scan-fails:"+normGenErr(serr.Error()), "the scanner refuses a compilable annotated package: "+firstLine(serr.Error()), replay)
			_ = os.RemoveAll(root)
			continue
		}
		res := Run(root, 240*time.Second, "go", "run", "./cmd")
		_ = os.RemoveAll(root)
		if res.Code != 0 {
			st["program-fails"]++
			run.Broken("corr:C16:program", "the generated program does not run: "+tail(res.Out, 500), replay)
			continue
		}
		var sdoc spec.Swagger
		if err := json.Unmarshal(scanned, &sdoc); err != nil {
			continue
		}
		var sraw map[string]interface{}
		_ = json.Unmarshal(scanned, &sraw)
		sdefs, _ := sraw["definitions"].(map[string]interface{})
		// (1) schema vs the Lean model
		for _, name := range models {
			t := types[name]
			if len(t.Embeds) > 0 || len(t.Extra) > 0 {
				st["schema-comparison-skipped(embedded)"]++
				continue
			}
			mb, _ := json.Marshal(map[string]interface{}{"op": "scan.schema", "ty": t.lean()})
			out, merr := m.Call(mb)
			var mr struct {
				R      string      `json:"r"`
				Schema interface{} `json:"schema"`
			}
			if merr == nil {
				_ = json.Unmarshal(out, &mr)
			}
			if mr.R != "ok" {
				run.Broken("corr:C16:driver", "model driver failed", nil)
				continue
			}
			run.Traces++
			got := structShape(sdefs[name], sdefs, 0)
			if !reflect.DeepEqual(jsonNormKeepNulls(got), jsonNormKeepNulls(mr.Schema)) {
				st["MODEL-SCHEMA-DIFFERS"]++
				var paths []string
				diffKeys(jsonNormKeepNulls(mr.Schema), jsonNormKeepNulls(got), "", &paths)
				rp := map[string]interface{}{"model": name, "lean_schema": mr.Schema, "scanned": got, "differing_paths": paths}
				for k, v := range replay {
					rp[k] = v
				}
				run.Broken("corr:C16:schema", fmt.Sprintf("Lean schemaOf and the scanner build different schemas for %s (at %v)", name, clipList(paths, 4)), rp)
			} else {
				st["model-schema-agrees"]++
			}
		}
		// (2) every marshalled value against the scanned definition
		sc := bufio.NewScanner(strings.NewReader(res.Out))
		sc.Buffer(make([]byte, 1<<20), 1<<24)
		for sc.Scan() {
			var rec struct {
				Type   string          `json:"type"`
				JSON   json.RawMessage `json:"json"`
				Error  string          `json:"error"`
				DecErr string          `json:"decode_error"`
			}
			if json.Unmarshal(sc.Bytes(), &rec) != nil || rec.Type == "" {
				continue
			}
			run.Case(rec.Type + "|" + string(rec.JSON))
			if rec.Error != "" {
				st["marshal-error"]++
				continue
			}
			sch, ok := sdoc.Definitions[rec.Type]
			if !ok {
				st["DEFINITION-MISSING"]++
				run.Deviation("definition-missing", "an annotated model is not in the scanned spec: "+rec.Type, replay)
				continue
			}
			var doc interface{}
			_ = json.Unmarshal(rec.JSON, &doc)
			vres := validate.NewSchemaValidator(&sch, &sdoc, "", strfmt.Default).Validate(doc)
			rejected := map[string]string{}
			if vres != nil {
				for _, e := range vres.Errors { // every complaint, not only the first: a known one must not hide another
					msg := e.Error()
					if strings.Contains(msg, `must be of type byte: ""`) {
						st["oracle-gap(empty base64 string refused by strfmt)"]++
						continue
					}
					key := "encoding-not-accepted"
					switch {
					case strings.Contains(msg, "null") || strings.Contains(msg, "is required"):
						key = "null-for-nil-pointer-slice-or-map"
					case strings.Contains(msg, "must be of type array: \"string\""):
						key = "bytes-scanned-as-array-of-integers"
					case strings.Contains(msg, "must be of type string"):
						key = "declared-string-but-sent-otherwise"
					}
					if _, ok := rejected[key]; !ok {
						rejected[key] = msg
					}
				}
			}
			for key, msg := range rejected {
				st["REJECTED:"+key]++
				rp := map[string]interface{}{"model": rec.Type, "document": rec.JSON, "validator": msg, "definition": sdefs[rec.Type]}
				for k, v := range replay {
					rp[k] = v
				}
				run.Deviation(key, fmt.Sprintf("a value of %s marshals to a document its scanned definition rejects: %s", rec.Type, msg), rp)
			}
			if len(rejected) == 0 {
				st["encoding-accepted"]++
			}
			if tm := typeMismatches(doc, sdefs[rec.Type], sdefs, "", 0); len(tm) > 0 {
				st["JSON-TYPE-DIFFERS"]++
				rp := map[string]interface{}{"model": rec.Type, "document": rec.JSON, "mismatches": tm, "definition": sdefs[rec.Type]}
				for k, v := range replay {
					rp[k] = v
				}
				run.Deviation("json-type-differs", fmt.Sprintf("a value of %s marshals with a JSON type other than the one its scanned definition declares: %v", rec.Type, clipList(tm, 4)), rp)
			}
			if und := undeclaredMembers(doc, sdefs[rec.Type], sdefs, "", 0); len(und) > 0 {
				st["MEMBER-NOT-DECLARED"]++
				rp := map[string]interface{}{"model": rec.Type, "document": rec.JSON, "undeclared": und, "definition": sdefs[rec.Type]}
				for k, v := range replay {
					rp[k] = v
				}
				run.Deviation("member-not-declared", fmt.Sprintf("a value of %s marshals with members %v that the scanned definition does not declare", rec.Type, und), rp)
			} else {
				st["members-declared"]++
			}
			if rec.DecErr != "" {
				st["DECODE-BACK-FAILS"]++
			}
		}
		if len(run.Samples) < 2 {
			run.Sample(map[string]interface{}{"package": src.String()[:min(600, src.Len())]})
		}
	}
	run.Extra["distribution"] = st
}

// undeclaredMembers lists the JSON members of a document that the (struct-derived) schema does not declare.
func undeclaredMembers(doc interface{}, schema interface{}, defs map[string]interface{}, path string, depth int) []string {
	sm, ok := schema.(map[string]interface{})
	if !ok || depth > 14 {
		return nil
	}
	if ref, ok := sm["$ref"].(string); ok {
		return undeclaredMembers(doc, defs[strings.TrimPrefix(ref, "#/definitions/")], defs, path, depth+1)
	}
	switch d := doc.(type) {
	case []interface{}:
		var out []string
		for i, e := range d {
			out = append(out, undeclaredMembers(e, sm["items"], defs, fmt.Sprintf("%s[%d]", path, i), depth+1)...)
		}
		return out
	case map[string]interface{}:
		props := map[string]interface{}{}
		var collect func(s map[string]interface{}, dep int)
		collect = func(s map[string]interface{}, dep int) {
			if dep > 10 {
				return
			}
			if ref, ok := s["$ref"].(string); ok {
				if t, ok := defs[strings.TrimPrefix(ref, "#/definitions/")].(map[string]interface{}); ok {
					collect(t, dep+1)
				}
			}
			if ps, ok := s["properties"].(map[string]interface{}); ok {
				for k, v := range ps {
					props[k] = v
				}
			}
			if all, ok := s["allOf"].([]interface{}); ok {
				for _, a := range all {
					if am, ok := a.(map[string]interface{}); ok {
						collect(am, dep+1)
					}
				}
			}
		}
		collect(sm, 0)
		addl := sm["additionalProperties"]
		if len(props) == 0 && (addl != nil || sm["type"] != "object") {
			var out []string
			for k, v := range d {
				out = append(out, undeclaredMembers(v, addl, defs, path+"."+k, depth+1)...)
			}
			return out
		}
		var out []string
		for k, v := range d {
			ps, ok := props[k]
			if !ok {
				if addl == nil {
					out = append(out, path+"."+k)
				}
				continue
			}
			out = append(out, undeclaredMembers(v, ps, defs, path+"."+k, depth+1)...)
		}
		return out
	}
	return nil
}

// typeMismatches lists the places where the JSON type of a (non-null) value is not the declared `type` of its schema
// (the reference validator does not report this for string schemas that carry a format).
func typeMismatches(doc interface{}, schema interface{}, defs map[string]interface{}, path string, depth int) []string {
	sm, ok := schema.(map[string]interface{})
	if !ok || depth > 14 || doc == nil {
		return nil
	}
	if ref, ok := sm["$ref"].(string); ok {
		return typeMismatches(doc, defs[strings.TrimPrefix(ref, "#/definitions/")], defs, path, depth+1)
	}
	var out []string
	if t, ok := sm["type"].(string); ok {
		got := ""
		switch doc.(type) {
		case string:
			got = "string"
		case float64:
			got = "number"
		case bool:
			got = "boolean"
		case []interface{}:
			got = "array"
		case map[string]interface{}:
			got = "object"
		}
		if got != t && !(t == "integer" && got == "number") {
			out = append(out, fmt.Sprintf("%s: declared %s, sent %s", path, t, got))
			return out
		}
	}
	switch d := doc.(type) {
	case []interface{}:
		for i, e := range d {
			out = append(out, typeMismatches(e, sm["items"], defs, fmt.Sprintf("%s[%d]", path, i), depth+1)...)
		}
	case map[string]interface{}:
		props, _ := sm["properties"].(map[string]interface{})
		for k, v := range d {
			if ps, ok := props[k]; ok {
				out = append(out, typeMismatches(v, ps, defs, path+"."+k, depth+1)...)
			} else if ap, ok := sm["additionalProperties"]; ok {
				out = append(out, typeMismatches(v, ap, defs, path+"."+k, depth+1)...)
			}
		}
	}
	return out
}
