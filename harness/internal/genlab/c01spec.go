package genlab

import (
	"encoding/json"
	"fmt"
	"sort"
	"strings"

	"github.com/go-openapi/swag"

	"verif/harness/internal/rng"
)

// C01 spec generator: every schema shape / parameter location / response layout of the property's quantifier, with
// names drawn from an adversarial pool.

// NamePool: text with at least one letter — keywords, predeclared identifiers, names of packages and locals the templates
// use, file-name tokens, punctuation, digits, spaces, non-ASCII.
var c01Names = []string{
	// keywords and predeclared
	"type", "func", "range", "map", "go", "select", "default", "interface", "package", "var", "return", "import", "chan", "const", "for", "if",
	"string", "error", "int", "nil", "true", "len", "new", "make", "any", "bool", "byte", "float64", "iota", "append", "panic",
	// identifiers of the generated code and its imports
	"models", "client", "operations", "params", "timeout", "Timeout", "TimeOut", "timeout_", "context_", "httpClient", "http-client", "context", "Context", "HTTPClient", "err", "result", "res", "payload", "body", "Body",
	"runtime", "strfmt", "swag", "validate", "errors", "middleware", "json", "http", "fmt", "io", "time", "url", "api", "API", "o", "m", "r", "v", "i",
	"Validate", "MarshalJSON", "String", "Error", "Code", "Payload", "WriteResponse", "Handle", "NewThing", "Params", "Parameters", "Responses", "OK", "Default",
	// file-name and directory tokens
	"thing_linux", "thing_test", "thing_wasip1", "thing_amd64", "x_windows_amd64", "vendor", "internal", "testdata", "main", "doc", "swagger",
	// punctuation, digits, spaces, case
	"foo-bar", "foo_bar baz", "foo.bar", "a/b", "x+y", "+1", "-1", "@type", "$ref-like", "_id", "9lives", "123abc", "1st item", "UPPER", "camelCase", "snake_case_name",
	"kebab-case-name", "with space", " padded ", "dots.in.name", "colon:name", "hash#tag", "per%cent", "q?mark", "amp&ersand", "star*", "(paren)", "[bracket]", "{brace}", "quote'd",
	"a", "A", "Id", "ids", "HTTPServer", "xHTTPx", "IPv4Address", "UUID", "Url", "x-header-name", "X-Rate-Limit", "Content-Type", "Accept",
	// non-ASCII letters
	"日本語", "Ünicode", "éclair", "naïve name", "имя", "größe", "ß", "名前1",
}

type c01Gen struct {
	benign bool // names are n<k> only (the shape stream)
	xgo    int
	r      *rng.R
	used   map[string]bool // Go names taken (case-insensitive) in the current scope of uniqueness
	names  []string        // every pool name placed in the spec
	feats  map[string]bool
}

func goKey(n string) string {
	return strings.ToLower(swag.ToGoName(n)) + "|" + strings.ToLower(swag.ToFileName(n))
}

// pick returns a pool name whose Go name does not collide (case-insensitively) with one already used in scope.
func (g *c01Gen) pick(scope map[string]bool, plainChance int) string {
	for tries := 0; tries < 50; tries++ {
		var n string
		if g.benign || g.r.Chance(plainChance, 10) {
			n = fmt.Sprintf("n%d", g.r.Intn(1000))
		} else {
			n = c01Names[g.r.Intn(len(c01Names))]
		}
		k := goKey(n)
		if scope[k] || strings.TrimSpace(n) == "" {
			continue
		}
		scope[k] = true
		g.names = append(g.names, n)
		return n
	}
	n := fmt.Sprintf("fallback%d", len(scope))
	scope[goKey(n)] = true
	return n
}

var c01StringFormats = []string{"", "", "date", "date-time", "byte", "password", "uuid", "uuid3", "uuid4", "uuid5", "email", "hostname", "ipv4", "ipv6", "uri", "mac", "creditcard",
	"isbn", "isbn10", "isbn13", "ssn", "hexcolor", "rgbcolor", "duration", "bsonobjectid", "ulid", "datetime", "unknown-format"}
var c01IntFormats = []string{"", "int32", "int64", "int8", "int16", "uint8", "uint16", "uint32", "uint64"}
var c01NumFormats = []string{"", "float", "double"}

// prim is a primitive schema / simple-schema (usable for parameters, headers and items as well).
func (g *c01Gen) prim(forParam bool) map[string]interface{} {
	r := g.r
	m := map[string]interface{}{}
	switch r.Intn(4) {
	case 0:
		m["type"] = "string"
		if f := r.Pick(c01StringFormats); f != "" {
			m["format"] = f
			g.feats["format:"+f] = true
		} else {
			if r.Chance(1, 3) {
				m["minLength"] = 1
			}
			if r.Chance(1, 3) {
				m["maxLength"] = 20
			}
			if r.Chance(1, 4) {
				m["pattern"] = "^[a-z]+$"
			}
			if r.Chance(1, 4) {
				vals := []interface{}{}
				scope := map[string]bool{}
				for k := 2 + r.Intn(2); k > 0; k-- {
					vals = append(vals, g.pick(scope, 3))
				}
				m["enum"] = vals
				g.feats["enum:string"] = true
			}
		}
	case 1:
		m["type"] = "integer"
		if f := r.Pick(c01IntFormats); f != "" {
			m["format"] = f
		}
		if r.Chance(1, 3) {
			m["minimum"] = 1
		}
		if r.Chance(1, 3) {
			m["maximum"] = 100
			if r.Chance(1, 2) {
				m["exclusiveMaximum"] = true
			}
		}
		if r.Chance(1, 5) {
			m["multipleOf"] = 2
		}
		if r.Chance(1, 5) {
			m["enum"] = []interface{}{2, 4, 8}
			g.feats["enum:int"] = true
		}
	case 2:
		m["type"] = "number"
		if f := r.Pick(c01NumFormats); f != "" {
			m["format"] = f
		}
		if r.Chance(1, 3) {
			m["minimum"] = 0.5
		}
		if r.Chance(1, 5) {
			m["multipleOf"] = 0.5
		}
	case 3:
		m["type"] = "boolean"
	}
	if !forParam && r.Chance(1, 5) {
		m["x-nullable"] = true
		g.feats["x-nullable"] = true
	}
	return m
}

func (g *c01Gen) ref(defs []string) map[string]interface{} {
	return map[string]interface{}{"$ref": "#/definitions/" + jsonPtrEsc(g.r.Pick(defs))}
}

func jsonPtrEsc(s string) string {
	s = strings.ReplaceAll(s, "~", "~0")
	s = strings.ReplaceAll(s, "/", "~1")
	s = strings.ReplaceAll(s, "%", "%25")
	return s
}

// schema builds a schema of bounded depth; defs = names that may be referenced.
func (g *c01Gen) schema(depth int, defs []string) map[string]interface{} {
	r := g.r
	k := r.Intn(10)
	if depth <= 0 && k > 3 {
		k = r.Intn(3)
	}
	switch k {
	case 0, 1:
		return g.prim(false)
	case 2:
		if len(defs) > 0 {
			return g.ref(defs)
		}
		return g.prim(false)
	case 3, 4: // array
		g.feats["array"] = true
		m := map[string]interface{}{"type": "array", "items": g.schema(depth-1, defs)}
		if r.Chance(1, 3) {
			m["minItems"] = 1
		}
		if r.Chance(1, 3) {
			m["maxItems"] = 5
		}
		if r.Chance(1, 4) {
			m["uniqueItems"] = true
		}
		return m
	case 5: // map
		g.feats["map"] = true
		return map[string]interface{}{"type": "object", "additionalProperties": g.schema(depth-1, defs)}
	case 6, 7: // object
		return g.object(depth, defs, r.Chance(1, 4))
	case 8: // allOf
		if len(defs) > 0 {
			g.feats["allOf"] = true
			return map[string]interface{}{"allOf": []interface{}{g.ref(defs), g.object(depth-1, defs, false)}}
		}
		return g.object(depth, defs, false)
	default: // tuple
		g.feats["tuple"] = true
		m := map[string]interface{}{"type": "array", "items": []interface{}{g.prim(false), g.schema(depth-1, defs)}}
		if r.Chance(1, 3) {
			m["additionalItems"] = g.prim(false)
		}
		return m
	}
}

func (g *c01Gen) object(depth int, defs []string, withAddl bool) map[string]interface{} {
	r := g.r
	props := map[string]interface{}{}
	scope := map[string]bool{}
	var req []string
	for k := 1 + r.Intn(4); k > 0; k-- {
		n := g.pick(scope, 4)
		s := g.schema(depth-1, defs)
		if r.Chance(1, 6) {
			s["x-omitempty"] = r.Chance(1, 2)
			g.feats["x-omitempty"] = true
		}
		if r.Chance(1, 8) && s["$ref"] == nil {
			s["readOnly"] = true
		}
		if t, _ := s["type"].(string); r.Chance(1, 8) && s["$ref"] == nil && (t == "string" || t == "integer" || t == "number" || t == "boolean") {
			g.xgo++
			s["x-go-name"] = fmt.Sprintf("Custom%d%s", g.xgo, swag.ToGoName(n))
			g.feats["x-go-name"] = true
		}
		props[n] = s
		if r.Chance(1, 3) {
			req = append(req, n)
		}
	}
	m := map[string]interface{}{"type": "object", "properties": props}
	if len(req) > 0 {
		sort.Strings(req)
		m["required"] = req
	}
	if withAddl {
		g.feats["object+additionalProperties"] = true
		if r.Chance(1, 2) {
			m["additionalProperties"] = g.prim(false)
		} else {
			m["additionalProperties"] = true
		}
	}
	return m
}

func (g *c01Gen) simpleParam(name, in string) map[string]interface{} {
	r := g.r
	p := map[string]interface{}{"name": name, "in": in}
	if in == "path" {
		p["required"] = true
	} else if r.Chance(1, 3) {
		p["required"] = true
	}
	if in != "path" && r.Chance(1, 3) {
		g.feats["param-array:"+in] = true
		p["type"] = "array"
		items := g.prim(true)
		if r.Chance(1, 6) {
			items = map[string]interface{}{"type": "array", "items": g.prim(true)}
			g.feats["param-nested-array"] = true
		}
		p["items"] = items
		cfs := []string{"", "csv", "ssv", "tsv", "pipes"}
		if in == "query" || in == "formData" {
			cfs = append(cfs, "multi")
		}
		if cf := r.Pick(cfs); cf != "" {
			p["collectionFormat"] = cf
		}
	} else {
		for k, v := range g.prim(true) {
			p[k] = v
		}
		if in == "path" {
			delete(p, "enum") // enum values from the pool may contain '/', which cannot be sent in a path segment
		}
	}
	return p
}

// C01Spec is a generated document with the bookkeeping the check needs.
type C01Spec struct {
	Doc   []byte
	Names []string
	Feats []string
}

// GenC01Spec draws a spec. flatOnly avoids the constructions upstream documents as unsupported in expand mode.
func GenC01Spec(r *rng.R, forExpand, benign bool) *C01Spec {
	g := &c01Gen{r: r, feats: map[string]bool{}, benign: benign}
	defScope := map[string]bool{}
	var defNames []string
	nDefs := 3 + r.Intn(4)
	for i := 0; i < nDefs; i++ {
		defNames = append(defNames, g.pick(defScope, 3))
	}
	defs := map[string]interface{}{}
	for i, n := range defNames {
		// a definition may reference the ones before it (acyclic)
		var s map[string]interface{}
		switch {
		case i == 0:
			s = g.object(2, nil, false)
		case r.Chance(1, 6):
			s = g.prim(false) // alias of a primitive
			delete(s, "x-nullable")
			g.feats["primitive-alias"] = true
		default:
			s = g.schema(2, defNames[:i])
			if s["$ref"] != nil { // a bare alias of another definition
				g.feats["ref-alias"] = true
			}
		}
		defs[n] = s
	}
	// polymorphism: one base with a discriminator and one subtype (not in expand mode: documented as unsupported)
	if !forExpand && r.Chance(1, 3) {
		base := g.pick(defScope, 3)
		sub := g.pick(defScope, 3)
		disc := g.pick(map[string]bool{}, 5)
		defs[base] = map[string]interface{}{"type": "object", "discriminator": disc, "required": []string{disc},
			"properties": map[string]interface{}{disc: map[string]interface{}{"type": "string"}, "common": map[string]interface{}{"type": "integer"}}}
		defs[sub] = map[string]interface{}{"allOf": []interface{}{map[string]interface{}{"$ref": "#/definitions/" + jsonPtrEsc(base)},
			map[string]interface{}{"type": "object", "properties": map[string]interface{}{"extra": g.prim(false)}}}}
		defNames = append(defNames, base)
		g.feats["discriminator"] = true
	}
	// security schemes
	secDefs := map[string]interface{}{}
	secScope := map[string]bool{}
	var secNames []string
	for k := r.Intn(3); k > 0; k-- {
		n := g.pick(secScope, 3)
		secNames = append(secNames, n)
		switch r.Intn(3) {
		case 0:
			secDefs[n] = map[string]interface{}{"type": "apiKey", "in": r.Pick([]string{"header", "query"}), "name": "X-Key-" + fmt.Sprint(len(secNames))}
		case 1:
			secDefs[n] = map[string]interface{}{"type": "basic"}
		default:
			secDefs[n] = map[string]interface{}{"type": "oauth2", "flow": "implicit", "authorizationUrl": "https://example.com/auth", "scopes": map[string]interface{}{"read": "r"}}
		}
	}
	// operations
	paths := map[string]interface{}{}
	opScope := map[string]bool{}
	tagScope := map[string]bool{}
	var tags []string
	for k := r.Intn(3); k > 0; k-- {
		tags = append(tags, g.pick(tagScope, 3))
	}
	nOps := 2 + r.Intn(3)
	for i := 0; i < nOps; i++ {
		id := g.pick(opScope, 3)
		method := []string{"get", "post", "put", "delete", "patch"}[i%5]
		var params []interface{}
		pscope := map[string]bool{}
		pathName := g.pick(pscope, 5)
		path := fmt.Sprintf("/r%d/{%s}", i, pathName)
		if strings.ContainsAny(pathName, "{}/?#") {
			pathName = "pid"
			path = fmt.Sprintf("/r%d/{pid}", i)
			pscope[goKey("pid")] = true
		}
		params = append(params, g.simpleParam(pathName, "path"))
		for k := r.Intn(3); k > 0; k-- {
			params = append(params, g.simpleParam(g.pick(pscope, 3), "query"))
		}
		for k := r.Intn(2); k > 0; k-- {
			params = append(params, g.simpleParam(g.pick(pscope, 3), "header"))
		}
		op := map[string]interface{}{"operationId": id}
		if method != "get" && method != "delete" {
			if r.Chance(1, 3) {
				g.feats["formData"] = true
				op["consumes"] = []string{"application/x-www-form-urlencoded"}
				for k := 1 + r.Intn(2); k > 0; k-- {
					params = append(params, g.simpleParam(g.pick(pscope, 3), "formData"))
				}
				if r.Chance(1, 3) {
					op["consumes"] = []string{"multipart/form-data"}
					params = append(params, map[string]interface{}{"name": g.pick(pscope, 3), "in": "formData", "type": "file"})
					g.feats["file-param"] = true
				}
			} else {
				b := map[string]interface{}{"name": g.pick(pscope, 3), "in": "body", "schema": g.schema(1, defNames)}
				if r.Chance(1, 2) {
					b["required"] = true
				}
				params = append(params, b)
				g.feats["body"] = true
			}
		}
		op["parameters"] = params
		resps := map[string]interface{}{}
		mk := func() map[string]interface{} {
			rs := map[string]interface{}{"description": "d"}
			if r.Chance(2, 3) {
				rs["schema"] = g.schema(1, defNames)
			}
			if r.Chance(1, 3) {
				hs := map[string]interface{}{}
				hscope := map[string]bool{}
				for k := 1 + r.Intn(2); k > 0; k-- {
					h := g.prim(true)
					if r.Chance(1, 4) {
						h = map[string]interface{}{"type": "array", "items": g.prim(true)}
						g.feats["header-array"] = true
					}
					hs[g.pick(hscope, 3)] = h
				}
				rs["headers"] = hs
				g.feats["response-headers"] = true
			}
			return rs
		}
		resps["200"] = mk()
		if r.Chance(1, 2) {
			resps[r.Pick([]string{"201", "204", "400", "404", "500"})] = mk()
		}
		if r.Chance(1, 2) {
			resps["default"] = mk()
		}
		op["responses"] = resps
		if len(tags) > 0 && r.Chance(2, 3) {
			op["tags"] = []string{r.Pick(tags)}
		}
		if len(secNames) > 0 && r.Chance(1, 2) {
			n := r.Pick(secNames)
			scopes := []string{}
			if sd := secDefs[n].(map[string]interface{}); sd["type"] == "oauth2" {
				scopes = []string{"read"}
			}
			op["security"] = []interface{}{map[string]interface{}{n: scopes}}
		}
		paths[path] = map[string]interface{}{method: op}
	}
	doc := map[string]interface{}{"swagger": "2.0", "info": map[string]interface{}{"title": "c01", "version": "1"},
		"consumes": []string{"application/json"}, "produces": []string{"application/json"}, "paths": paths, "definitions": defs}
	if len(secDefs) > 0 {
		doc["securityDefinitions"] = secDefs
	}
	b, _ := json.MarshalIndent(doc, "", " ")
	var feats []string
	for f := range g.feats {
		feats = append(feats, f)
	}
	sort.Strings(feats)
	return &C01Spec{Doc: b, Names: g.names, Feats: feats}
}

// C01Positions are the places of a spec a name is taken from.
var C01Positions = []string{"definition", "property", "enum", "pathparam", "query", "header", "formdata", "operationId", "tag", "responseHeader", "securityScheme", "discriminator"}

// NameSpec is the fixed small spec with ONE adversarial name at ONE position; everything else is plain.
func NameSpec(pos, name string) []byte {
	n := map[string]string{"definition": "thing", "property": "name", "enum": "red", "pathparam": "pid", "query": "q", "header": "X-H", "formdata": "fd",
		"operationId": "doThing", "tag": "things", "responseHeader": "X-R", "securityScheme": "key", "discriminator": "kind"}
	n[pos] = name
	ref := map[string]interface{}{"$ref": "#/definitions/" + jsonPtrEsc(n["definition"])}
	defs := map[string]interface{}{
		n["definition"]: map[string]interface{}{"type": "object", "required": []string{n["property"]}, "properties": map[string]interface{}{
			n["property"]: map[string]interface{}{"type": "string", "minLength": 1},
			"count":       map[string]interface{}{"type": "integer"},
			"colour":      map[string]interface{}{"type": "string", "enum": []string{n["enum"], "plain"}},
			"when":        map[string]interface{}{"type": "string", "format": "date-time"},
		}},
		"holder": map[string]interface{}{"type": "object", "properties": map[string]interface{}{"one": ref, "many": map[string]interface{}{"type": "array", "items": ref}}},
	}
	if pos == "discriminator" {
		defs["base"] = map[string]interface{}{"type": "object", "discriminator": n["discriminator"], "required": []string{n["discriminator"]},
			"properties": map[string]interface{}{n["discriminator"]: map[string]interface{}{"type": "string"}}}
		defs["sub"] = map[string]interface{}{"allOf": []interface{}{map[string]interface{}{"$ref": "#/definitions/base"},
			map[string]interface{}{"type": "object", "properties": map[string]interface{}{"extra": map[string]interface{}{"type": "string"}}}}}
	}
	op := func(id string, params []interface{}, consumes string) map[string]interface{} {
		o := map[string]interface{}{"operationId": id, "tags": []string{n["tag"]}, "parameters": params,
			"security": []interface{}{map[string]interface{}{n["securityScheme"]: []string{}}},
			"responses": map[string]interface{}{
				"200":     map[string]interface{}{"description": "ok", "schema": ref, "headers": map[string]interface{}{n["responseHeader"]: map[string]interface{}{"type": "string"}}},
				"default": map[string]interface{}{"description": "error", "schema": map[string]interface{}{"$ref": "#/definitions/holder"}}}}
		if consumes != "" {
			o["consumes"] = []string{consumes}
		}
		return o
	}
	pathP := map[string]interface{}{"name": n["pathparam"], "in": "path", "required": true, "type": "string"}
	doc := map[string]interface{}{"swagger": "2.0", "info": map[string]interface{}{"title": "names", "version": "1"},
		"consumes": []string{"application/json"}, "produces": []string{"application/json"},
		"securityDefinitions": map[string]interface{}{n["securityScheme"]: map[string]interface{}{"type": "apiKey", "in": "header", "name": "X-Key"}},
		"paths": map[string]interface{}{
			"/things/{" + n["pathparam"] + "}": map[string]interface{}{
				"post": op(n["operationId"], []interface{}{pathP,
					map[string]interface{}{"name": n["query"], "in": "query", "type": "integer", "required": true},
					map[string]interface{}{"name": n["header"], "in": "header", "type": "string"},
					map[string]interface{}{"name": "body", "in": "body", "required": true, "schema": ref}}, ""),
				"put": op("putForm", []interface{}{pathP,
					map[string]interface{}{"name": n["formdata"], "in": "formData", "type": "array", "items": map[string]interface{}{"type": "string"}},
					map[string]interface{}{"name": "other", "in": "formData", "type": "integer"}}, "application/x-www-form-urlencoded"),
			}},
		"definitions": defs}
	b, _ := json.MarshalIndent(doc, "", " ")
	return b
}

// NameClass groups pool names by what makes them hard.
func NameClass(n string) string {
	kw := map[string]bool{"type": true, "func": true, "range": true, "map": true, "go": true, "select": true, "default": true, "interface": true, "package": true, "var": true,
		"return": true, "import": true, "chan": true, "const": true, "for": true, "if": true}
	pre := map[string]bool{"string": true, "error": true, "int": true, "nil": true, "true": true, "len": true, "new": true, "make": true, "any": true, "bool": true, "byte": true,
		"float64": true, "iota": true, "append": true, "panic": true}
	for _, c := range n {
		if c > 127 {
			return "non-ascii"
		}
	}
	t := strings.TrimSpace(n)
	switch {
	case kw[t]:
		return "keyword"
	case pre[t]:
		return "predeclared"
	case t != "" && t[0] >= '0' && t[0] <= '9':
		return "digit-first"
	case strings.ContainsAny(n, " -./+@$#%?&*()[]{}':"):
		return "punctuation"
	case strings.HasPrefix(n, "thing_") || strings.HasPrefix(n, "x_windows") || t == "vendor" || t == "internal" || t == "testdata" || t == "main" || t == "doc" || t == "swagger":
		return "file-token"
	}
	return "identifier" // a legal Go identifier that the generated code or its imports also use, or plain
}
