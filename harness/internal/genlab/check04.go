package genlab

import (
	"encoding/json"
	"fmt"
	"os"
	"path/filepath"
	"reflect"
	"regexp"
	"strings"

	"verif/harness/internal/ev"
	"verif/harness/internal/rng"
)

var c04Strings = []string{"abc", "x y", "a/b?c&d=e", "100%", "é", "+1", "a=b", "q#r", "tab\there", "pipe|d", "semi;colon", "c,d",
	// white space at either end is part of a string value
	"todo ", " lead", " -", "two\n"}

func goCleanFor(sep string, s string) bool {
	return s != "" && strings.TrimSpace(s) == s && !strings.Contains(s, sep)
}

// c04Value draws a value that satisfies the parameter's spec and is representable in its collectionFormat; nil if none.
func c04Value(r *rng.R, p *PSpecJ) interface{} {
	pool := p.validPool()
	if p.Ty == "str" && len(p.EnumS) == 0 {
		for _, s := range c04Strings {
			if (p.MinLen == nil || len([]rune(s)) >= *p.MinLen) && (p.MaxLen == nil || len([]rune(s)) <= *p.MaxLen) {
				pool = append(pool, s)
			}
		}
	}
	sep := sepFor(p.CF)
	var ok []string
	dup := map[string]bool{}
	for _, s := range pool {
		if dup[s] {
			continue
		}
		dup[s] = true
		if !p.IsArray || p.CF == "multi" || goCleanFor(sep, s) {
			if p.IsArray && p.CF == "multi" && s == "" {
				continue
			}
			if p.In == "header" && strings.ContainsAny(s, "\t\n") { // not a legal header value for net/http's client
				continue
			}
			if p.In == "header" && !isASCII(s) {
				continue
			}
			if p.In == "header" && strings.TrimSpace(s) != s { // net/http trims header values on the wire
				continue
			}
			ok = append(ok, s)
		}
	}
	if len(ok) == 0 {
		return nil
	}
	conv := func(s string) interface{} {
		switch p.Ty {
		case "int32", "int64":
			var n int64
			fmt.Sscan(s, &n)
			return n
		case "bool":
			return s == "true"
		}
		return s
	}
	if !p.IsArray {
		return conv(ok[r.Intn(len(ok))])
	}
	n := 1 + r.Intn(3)
	if p.MinItems != nil && *p.MinItems > n {
		n = *p.MinItems
	}
	if p.MaxItems != nil && *p.MaxItems < n {
		n = *p.MaxItems
	}
	if n == 0 || (p.Unique && len(ok) < n) {
		return nil
	}
	r.Shuffle(len(ok), func(i, j int) { ok[i], ok[j] = ok[j], ok[i] })
	var items []interface{}
	for i := 0; i < n; i++ {
		items = append(items, conv(ok[i%len(ok)]))
	}
	return items
}

func isASCII(s string) bool {
	for _, c := range s {
		if c > 126 || c < 32 {
			return false
		}
	}
	return true
}

func boundOf(p *PSpecJ, v interface{}) map[string]interface{} {
	one := func(x interface{}) map[string]interface{} {
		switch t := x.(type) {
		case string:
			return map[string]interface{}{"s": t}
		case int64:
			return map[string]interface{}{"i": t}
		case bool:
			return map[string]interface{}{"b": t}
		}
		return nil
	}
	if items, ok := v.([]interface{}); ok {
		var vs []interface{}
		for _, it := range items {
			vs = append(vs, one(it))
		}
		return map[string]interface{}{"k": "many", "v": vs}
	}
	return map[string]interface{}{"k": "one", "v": one(v)}
}

func jsonNorm(v interface{}) interface{} {
	b, _ := json.Marshal(v)
	var out interface{}
	_ = json.Unmarshal(b, &out)
	return dropNulls(out)
}

// dropNulls removes null members (an unset optional member of a model is written as null or left out: C05's subject)
func dropNulls(v interface{}) interface{} {
	switch t := v.(type) {
	case map[string]interface{}:
		for k, x := range t {
			if x == nil {
				delete(t, k)
			} else {
				t[k] = dropNulls(x)
			}
		}
	case []interface{}:
		for i := range t {
			t[i] = dropNulls(t[i])
		}
	}
	return v
}

// body schemas of the first operation, by spec index
var c04BodyKinds = []string{"thing", "bytes", "thing", "date", "ints"}

type c04Op struct {
	name   string
	method string
	path   string
	params []*PSpecJ
	body   bool
	codes  []int
	dflt   bool
}

// CheckC04 — generated client and server interoperate losslessly.
func CheckC04(run *ev.Run) {
	m := driver()
	defer m.Close()
	r := rng.New(uint64(run.Seed) + 4)
	nSpecs, nCalls := 2, 60
	if run.Tier == "thorough" {
		nSpecs, nCalls = 20, 150
	}
	if !run.Lean.OK {
		nSpecs *= 2
	}
	st := map[string]int{}
	run.Rule = "specs with two operations (path + query + header parameters and a JSON body; urlencoded formData parameters) whose parameters are drawn from the fragment of C03 (string / int32 / " +
		"int64 / boolean scalars and arrays in every collectionFormat incl. multi) and whose responses are a random subset of 200 (body + integer and string headers), 201 (empty), 404 (string), " +
		"422 (object) and default; the generated client calls the generated server over loopback HTTP in one process; per call every parameter gets a value that satisfies its spec and is " +
		"representable in its collectionFormat (strings with URL-special, non-ASCII and separator-of-other-format characters) or is left out, and the handler answers with a scripted typed responder " +
		"(declared, default or undeclared code); compared: struct given vs struct seen, responder vs client result/error, and both with the Lean encodeGen/bindGenAny/readResp on the same inputs"
	run.Trusted = append(run.Trusted, "genlab pair lab (generated client + generated server + glue main using reflection only to list results)", "encoding/json projection of the parameter and response structs")
	run.Assume = append(run.Assume, "fragment: no security, no tags, no file / multipart parameters, no number or strfmt formats in parameters, JSON bodies of one object shape",
		"integers: the decimal formatter / parser pair is a hypothesis of the round-trip theorems, checked on every integer sent", "header values are restricted to printable ASCII (net/http rejects others on the client side)")
	for si := 0; si < nSpecs; si++ {
		ops := []*c04Op{{name: "OpQuery", method: "post", path: "/q/{pid}", body: true}, {name: "OpForm", method: "put", path: "/f/{pid}"}}
		paths := map[string]interface{}{}
		for oi, o := range ops {
			params := []interface{}{}
			pp := &PSpecJ{Name: "pid", In: "path", Required: true, Ty: r.Pick([]string{"str", "int64", "int32"})}
			o.params = append(o.params, pp)
			add := func(in string, k int) {
				for i := 0; i < k; i++ {
					p := genPSpec(r, fmt.Sprintf("p%d%s%d", oi, in[:1], i), in)
					for p.validRaw() == nil || (i == 0 && in != "header" && !(p.IsArray && p.CF == "multi")) || (i == 1 && !(p.IsArray && p.CF != "multi")) {
						p = genPSpec(r, p.Name, in) // every location gets a multi array (where legal) and a joined array
					}
					o.params = append(o.params, p)
				}
			}
			// one unconstrained string scalar per operation (query / formData): it takes the values with white space at either end
			free := &PSpecJ{Name: fmt.Sprintf("p%dfree", oi), In: map[int]string{0: "query", 1: "formData"}[oi], Ty: "str"}
			o.params = append(o.params, free)
			if oi == 0 {
				add("query", 4)
				add("header", 2)
			} else {
				add("formData", 4)
				add("query", 1)
			}
			for _, p := range o.params {
				params = append(params, p.render())
			}
			if o.body {
				// the body schema varies from spec to spec: a model, base64 bytes, a date, an array of integers
				bodySchema := map[string]map[string]interface{}{
					"thing": {"$ref": "#/definitions/thing"}, "bytes": {"type": "string", "format": "byte"}, "date": {"type": "string", "format": "date"},
					"ints": {"type": "array", "items": map[string]interface{}{"type": "integer", "format": "int64"}}}[c04BodyKinds[si%len(c04BodyKinds)]]
				params = append(params, map[string]interface{}{"name": "body", "in": "body", "schema": bodySchema})
			}
			resps := map[string]interface{}{"200": map[string]interface{}{"description": "ok", "schema": map[string]interface{}{"$ref": "#/definitions/thing"},
				"headers": map[string]interface{}{"X-Rate": map[string]interface{}{"type": "integer"}, "X-Tag": map[string]interface{}{"type": "string"}}}}
			o.codes = []int{200}
			if r.Chance(1, 2) {
				resps["201"] = map[string]interface{}{"description": "created"}
				o.codes = append(o.codes, 201)
			}
			if r.Chance(1, 2) {
				resps["404"] = map[string]interface{}{"description": "nf", "schema": map[string]interface{}{"type": "string"}}
				o.codes = append(o.codes, 404)
			}
			if r.Chance(1, 2) {
				resps["422"] = map[string]interface{}{"description": "bad", "schema": map[string]interface{}{"$ref": "#/definitions/thing"}}
				o.codes = append(o.codes, 422)
			}
			if r.Chance(1, 2) {
				resps["default"] = map[string]interface{}{"description": "err", "schema": map[string]interface{}{"$ref": "#/definitions/thing"}}
				o.dflt = true
			}
			opd := map[string]interface{}{"operationId": o.name, "parameters": params, "responses": resps}
			if oi == 1 {
				opd["consumes"] = []string{"application/x-www-form-urlencoded"}
			}
			paths[o.path] = map[string]interface{}{o.method: opd}
		}
		doc := map[string]interface{}{"swagger": "2.0", "info": map[string]interface{}{"title": "pair", "version": "1"}, "consumes": []string{"application/json", "application/xml"}, "produces": []string{"application/json"},
			"paths": paths, "definitions": map[string]interface{}{"thing": map[string]interface{}{"type": "object", "properties": map[string]interface{}{
				"name": map[string]interface{}{"type": "string"}, "count": map[string]interface{}{"type": "integer"}, "tags": map[string]interface{}{"type": "array", "items": map[string]interface{}{"type": "string"}}}}}}
		spec, _ := json.MarshalIndent(doc, "", " ")
		pb, err := BuildPair("c04", spec, "/")
		if err != nil {
			st["build-failed"]++
			// a subject that does not compile is C01's finding, not this property's; it is counted, and a run in which NOTHING could be built is a broken tie
			st["subject-does-not-build(C01)"]++
			if os.Getenv("VERIF_DEBUG") != "" {
				fmt.Fprintln(os.Stderr, "build failed:", tail(err.Error(), 400))
			}
			if pb != nil {
				pb.Remove()
			}
			continue
		}
		// media types: every generated client operation declares exactly the effective consumes / produces of its operation
		// (the operation's own list, else the spec's), in this order
		if cb, rerr := os.ReadFile(filepath.Join(pb.Root, "target", "client", "operations", "operations_client.go")); rerr == nil {
			for oi, o := range ops {
				wantC := []string{"application/json", "application/xml"}
				if oi == 1 {
					wantC = []string{"application/x-www-form-urlencoded"}
				}
				wantP := []string{"application/json"}
				blk := ""
				if i := strings.Index(string(cb), fmt.Sprintf("ID:                 %q", o.name)); i >= 0 {
					blk = string(cb)[i:]
					if j := strings.Index(blk, "}\n"); j >= 0 {
						blk = blk[:j]
					}
				} else if m := regexp.MustCompile(`ID:\s+"` + regexp.QuoteMeta(o.name) + `"(?s:.*?)Reader:`).FindString(string(cb)); m != "" {
					blk = m
				}
				got := map[string][]string{}
				for _, m := range regexp.MustCompile(`(Consumes|Produces)MediaTypes:\s+\[\]string\{([^}]*)\}`).FindAllStringSubmatch(blk, -1) {
					for _, q := range regexp.MustCompile(`"([^"]*)"`).FindAllStringSubmatch(m[2], -1) {
						got[m[1]] = append(got[m[1]], q[1])
					}
				}
				run.Case("media|" + o.name)
				if blk == "" {
					st["media-census-unreadable"]++
					continue
				}
				if !reflect.DeepEqual(got["Consumes"], wantC) || !reflect.DeepEqual(got["Produces"], wantP) {
					st["MEDIA-TYPES-DIFFER"]++
					run.Deviation("client-media-types-differ", fmt.Sprintf("the generated client operation %s declares consumes %v / produces %v; the spec says %v / %v", o.name, got["Consumes"], got["Produces"], wantC, wantP),
						map[string]interface{}{"spec": json.RawMessage(spec), "operation": o.name, "client_consumes": got["Consumes"], "client_produces": got["Produces"], "spec_consumes": wantC, "spec_produces": wantP,
							"how": "swagger generate client; read ConsumesMediaTypes / ProducesMediaTypes of the operation in client/operations/operations_client.go"})
				} else {
					st["media-types-agree"]++
				}
			}
		}
		for ci := 0; ci < nCalls; ci++ {
			o := ops[ci%2]
			given := map[string]interface{}{}
			specOf := map[string]*PSpecJ{}
			for _, p := range o.params {
				field := strings.ToUpper(p.Name[:1]) + p.Name[1:]
				specOf[field] = p
				if !p.Required && r.Chance(1, 4) {
					continue
				}
				v := c04Value(r, p)
				if strings.HasSuffix(p.Name, "free") && ci%3 == 0 {
					v = c04Strings[len(c04Strings)-1-(ci/3)%4] // the four padded strings in turn
				}
				if v == nil {
					if p.Required {
						given = nil
						break
					}
					continue
				}
				given[field] = v
			}
			if given == nil {
				st["no-representable-value"]++
				continue
			}
			if o.body && r.Chance(3, 4) {
				switch c04BodyKinds[si%len(c04BodyKinds)] {
				case "bytes":
					given["Body"] = r.Pick([]string{"aGVsbG8=", "AAEC", "/w=="})
				case "date":
					given["Body"] = r.Pick([]string{"2020-01-02", "1999-12-31"})
				case "ints":
					given["Body"] = []interface{}{int64(1), int64(-2), int64(3000000000)}
				default:
					given["Body"] = map[string]interface{}{"name": r.Pick(c04Strings), "count": int64(1 + r.Intn(100)), "tags": []interface{}{"a", "b c"}}
				}
			}
			// script
			var sc PairScript
			body := map[string]interface{}{"name": r.Pick(c04Strings), "count": int64(1 + r.Intn(1000)), "tags": []interface{}{"t"}}
			switch r.Intn(5) {
			case 0, 1:
				sc.Code = o.codes[r.Intn(len(o.codes))]
			case 2:
				sc.Code = []int{500, 503, 400, 409}[r.Intn(4)]
			case 3:
				sc.Code = []int{202, 203, 206}[r.Intn(3)] // not 204: it cannot carry the payload the script gives
			default:
				sc.Code = 200
			}
			declared := false
			for _, c := range o.codes {
				if c == sc.Code {
					declared = true
				}
			}
			hdrRate, hdrTag := int64(r.Intn(50)), r.Pick([]string{"t1", "a b", "x,y"})
			var wantPayload interface{}
			noPayload := r.Chance(1, 5) // the handler returns the typed responder WITHOUT a payload (legal: the body is then empty)
			switch {
			case sc.Code == 200 && noPayload:
				rb, _ := json.Marshal(map[string]interface{}{"X-Rate": hdrRate, "X-Tag": hdrTag})
				sc.Responder = rb
			case sc.Code == 200:
				rb, _ := json.Marshal(map[string]interface{}{"body": body, "X-Rate": hdrRate, "X-Tag": hdrTag})
				sc.Responder, wantPayload = rb, body
			case sc.Code == 404 && declared:
				rb, _ := json.Marshal(map[string]interface{}{"body": "gone " + r.Pick(c04Strings)})
				sc.Responder = rb
				var t map[string]interface{}
				_ = json.Unmarshal(rb, &t)
				wantPayload = t["body"]
			case sc.Code == 201 && declared:
			default:
				if (declared || o.dflt) && noPayload {
					// typed responder, no payload
				} else if declared || o.dflt {
					rb, _ := json.Marshal(map[string]interface{}{"body": body})
					sc.Responder, wantPayload = rb, body
				} else {
					sc.Raw = true
					sc.RawBody = `{"name":"raw"}`
				}
			}
			resp, err := pb.Do(o.name, given, sc)
			if err != nil {
				st["lab-error"]++
				continue
			}
			run.Traces++
			gj, _ := json.Marshal(given)
			run.Case(fmt.Sprintf("%s|%s|%d", o.name, gj, sc.Code))
			replay := map[string]interface{}{"spec": json.RawMessage(spec), "operation": o.name, "client_params": json.RawMessage(gj), "script": sc, "real": resp,
				"how": "generate server and client from the spec, serve the API with httptest, call the client method with these parameters; the handler records its parameters and returns the scripted responder"}
			if resp.Panic != "" || resp.Error != "" || resp.ScriptError != "" {
				st["call-problem"]++
				run.Deviation("client-call-fails", fmt.Sprintf("the generated client cannot make the call: panic=%q error=%q script=%q", resp.Panic, resp.Error, resp.ScriptError), replay)
				continue
			}
			// ---- request side
			if !resp.Reached {
				st["NOT-REACHED"]++
				run.Deviation("valid-call-rejected", fmt.Sprintf("the server did not hand a spec-conforming call to its handler (client got %v)", resp.Results), replay)
				continue
			}
			var seen map[string]interface{}
			_ = json.Unmarshal(resp.Seen, &seen)
			for field, v := range given {
				want := jsonNorm(v)
				got := seen[field]
				p := specOf[field]
				if p != nil {
					// the model on the same value
					mb, _ := json.Marshal(map[string]interface{}{"op": "pair.roundtrip", "spec": p, "value": boundOf(p, v)})
					out, merr := m.Call(mb)
					var mr struct {
						R     string   `json:"r"`
						Wire  []string `json:"wire"`
						Bound boundJ   `json:"bound"`
					}
					if merr == nil {
						_ = json.Unmarshal(out, &mr)
					}
					if mr.R != "ok" {
						run.Broken("corr:C04:driver", "model driver failed", replay)
						continue
					}
					modelVal := normVal(mr.Bound.V)
					if (mr.Bound.K != "one" && mr.Bound.K != "many") || !reflect.DeepEqual(jsonNorm(modelVal), want) {
						st["model-says-not-representable"]++
						continue
					}
				}
				if !reflect.DeepEqual(dropNulls(got), want) {
					st["PARAM-DIFFERS"]++
					replay["field"], replay["given"], replay["seen_value"] = field, want, got
					key := "param-differs:" + field
					if p != nil {
						key = "param-differs:" + p.In + ":" + map[bool]string{true: "array:" + p.CF, false: "scalar"}[p.IsArray] + ":" + p.Ty
					}
					run.Deviation(key, fmt.Sprintf("the handler received %v for %s, the client was given %v", got, field, want), replay)
				} else {
					st["param-equal"]++
				}
			}
			for field, p := range specOf {
				if _, ok := given[field]; !ok {
					if p.Default != nil {
						// an omitted parameter with a default: whichever side applies it, the handler must hold exactly the spec's default
						if got := seen[field]; !reflect.DeepEqual(got, p.Default) {
							st["DEFAULT-DIFFERS"]++
							replay["field"] = field
							run.Deviation("omitted-param-default-differs:"+p.In, fmt.Sprintf("parameter %s was not given to the client; its default is %v but the handler received %v", field, p.Default, got), replay)
						} else {
							st["default-applied"]++
						}
						continue
					}
					if got := seen[field]; got != nil && !zeroLike(got) && !reflect.DeepEqual(got, []interface{}{}) {
						st["OMITTED-NOT-ABSENT"]++
						replay["field"] = field
						run.Deviation("omitted-param-present:"+p.In, fmt.Sprintf("parameter %s was not given to the client but the handler received %v", field, got), replay)
					}
				}
			}
			// ---- response side
			db, _ := json.Marshal(map[string]interface{}{"op": "resp.dispatch", "declared": o.codes, "default": o.dflt, "code": sc.Code})
			out, merr := m.Call(db)
			var dr struct {
				R    string `json:"r"`
				Kind string `json:"kind"`
			}
			if merr == nil {
				_ = json.Unmarshal(out, &dr)
			}
			if dr.R != "ok" {
				run.Broken("corr:C04:driver", "model driver failed", replay)
				continue
			}
			if len(resp.Results) != 1 {
				st["RESULT-COUNT"]++
				run.Deviation("client-returns-no-single-outcome", fmt.Sprintf("the client call returned %d non-nil values", len(resp.Results)), replay)
				continue
			}
			res := resp.Results[0]
			okKind, why := false, ""
			var payload interface{}
			var val map[string]interface{}
			switch dr.Kind {
			case "success":
				okKind = !res.IsError && res.Type == pb.Ops[o.name].Responders[sc.Code] && res.Code == sc.Code
				_ = json.Unmarshal(res.Value, &val)
			case "typedError":
				okKind = res.IsError && res.Type == pb.Ops[o.name].Responders[sc.Code] && res.Code == sc.Code
				_ = json.Unmarshal(res.Value, &val)
			case "defaultError":
				okKind = res.IsError && res.Type == pb.Ops[o.name].Default && res.Code == sc.Code
				_ = json.Unmarshal(res.Value, &val)
			case "defaultSuccess":
				okKind = res.IsError && res.Type == "APIError" && res.Code == sc.Code && res.WrappedType == pb.Ops[o.name].Default
				_ = json.Unmarshal(res.Wrapped, &val)
			case "apiError":
				okKind = res.IsError && res.Type == "APIError" && res.Code == sc.Code && res.WrappedType != pb.Ops[o.name].Default
			}
			if val != nil {
				payload = val["Payload"]
			}
			if !okKind {
				why = fmt.Sprintf("expected %s for code %d, the client returned %s (is_error=%v, code %d, wrapped %q)", dr.Kind, sc.Code, res.Type, res.IsError, res.Code, res.WrappedType)
				st["DISPATCH-DIFFERS"]++
				replay["model_kind"] = dr.Kind
				run.Deviation("dispatch:"+dr.Kind, why, replay)
				continue
			}
			st["dispatch:"+dr.Kind]++
			if wantPayload != nil && dr.Kind != "apiError" {
				if !reflect.DeepEqual(jsonNorm(payload), jsonNorm(wantPayload)) {
					st["PAYLOAD-DIFFERS"]++
					replay["want_payload"], replay["got_payload"] = wantPayload, payload
					run.Deviation("payload-differs:"+dr.Kind, fmt.Sprintf("the handler responded with payload %v, the client returned %v", wantPayload, payload), replay)
				} else {
					st["payload-equal"]++
				}
			}
			if sc.Code == 200 && val != nil {
				if !reflect.DeepEqual(val["XRate"], float64(hdrRate)) || !reflect.DeepEqual(val["XTag"], hdrTag) {
					st["HEADER-DIFFERS"]++
					run.Deviation("response-header-differs", fmt.Sprintf("the handler set X-Rate=%d X-Tag=%q, the client returned %v / %v", hdrRate, hdrTag, val["XRate"], val["XTag"]), replay)
				} else {
					st["headers-equal"]++
				}
			}
			if len(run.Samples) < 3 {
				run.Sample(map[string]interface{}{"operation": o.name, "given": given, "code": sc.Code, "kind": dr.Kind})
			}
		}
		pb.Remove()
	}
	if st["subject-does-not-build(C01)"] > 0 && run.Traces == 0 {
		run.Broken("corr:C04:lab", "no subject of this run could be generated and compiled: the property was not exercised (see C01)", nil)
	}
	run.Extra["distribution"] = st
}
