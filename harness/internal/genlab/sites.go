package genlab

import (
	"fmt"
	"go/scanner"
	"go/token"
	"os"
	"path/filepath"
	"regexp"
	"sort"
	"strings"

	"github.com/go-swagger/go-swagger/generator"
)

// Site is one place where a free-text field of the spec lands in a generated Go file.
type Site struct {
	Target   string // server | client
	File     string // path relative to the generation target
	Field    string
	Ord      int    // occurrence index of the field within the file
	Ctx      string // line | block | raw | interp | code
	BlockEnd bool   // "*/" is neutralised
	Backtick bool   // "`" is neutralised
	Quote    bool   // `"` is escaped
	Bslash   bool   // `\` is escaped
	Newline  string // raw | comment | escaped | (empty when the probe was not found)
}

func (s Site) Key() string { return fmt.Sprintf("%s:%s:%s#%d", s.Target, s.File, s.Field, s.Ord) }

// SiteOK mirrors Gs.Text.siteOk.
func (s Site) OK() bool {
	switch s.Ctx {
	case "line":
		return s.Newline == "comment" || s.Newline == "escaped"
	case "block":
		return s.BlockEnd
	case "raw":
		return s.Backtick
	case "interp":
		return s.Quote && s.Bslash && s.Newline == "escaped"
	}
	return false
}

func markerVals(suffix func(i int) string) (map[string]string, map[string]int) {
	vals := map[string]string{}
	idx := map[string]int{}
	for i, f := range TextFields() {
		v := suffix(i)
		switch {
		case strings.HasSuffix(f.Key, ".url"):
			v = "http://e.example/" + v
		case strings.HasSuffix(f.Key, ".email"):
			v = v + "@example.com"
		case f.Key == "basePath":
			v = "/" + v
		}
		vals[f.Key] = v
		idx[f.Key] = i
	}
	return vals, idx
}

func genTargets(tag string, spec []byte, skipFormat bool) (root string, trees map[string]string, err error) {
	root, specPath, target, err := NewTarget(tag, spec)
	if err != nil {
		return "", nil, err
	}
	var tweak func(o *generator.GenOpts)
	if skipFormat {
		tweak = SkipFormatAll
	}
	trees = map[string]string{}
	for _, kind := range []string{"server", "client"} {
		t := filepath.Join(target, kind)
		_ = os.MkdirAll(t, 0o755)
		if e := GenInProc(kind, []string{"-f", specPath, "-t", t, "-A", "textapp", "--skip-validation"}, tweak); e != nil {
			return root, nil, fmt.Errorf("generate %s: %v", kind, e)
		}
		trees[kind] = t
	}
	return root, trees, nil
}

func goFiles(dir string) []string {
	var out []string
	_ = filepath.Walk(dir, func(p string, info os.FileInfo, err error) error {
		if err == nil && !info.IsDir() && strings.HasSuffix(p, ".go") {
			out = append(out, p)
		}
		return nil
	})
	sort.Strings(out)
	return out
}

var rxMarker = regexp.MustCompile(`ZQ(\d+)m`)

// DiscoverSites renders the marker spec (neutral, formatted) and the probe specs (unformatted) and returns the table
// of sites.
func DiscoverSites() ([]Site, error) {
	fields := TextFields()
	neutral, _ := markerVals(func(i int) string { return fmt.Sprintf("ZQ%dm", i) })
	rootN, treesN, err := genTargets("sitesN", TextSpec(neutral), false)
	defer os.RemoveAll(rootN)
	if err != nil {
		return nil, fmt.Errorf("neutral rendering: %w", err)
	}
	probe, _ := markerVals(func(i int) string {
		return fmt.Sprintf("ZQ%da*/ZQ%db`ZQ%dc\"ZQ%dd\\ZQ%de", i, i, i, i, i)
	})
	rootP, treesP, err := genTargets("sitesP", TextSpec(probe), true)
	defer os.RemoveAll(rootP)
	if err != nil {
		return nil, fmt.Errorf("probe rendering: %w", err)
	}
	nl, _ := markerVals(func(i int) string { return fmt.Sprintf("ZQ%df\nZQ%dg", i, i) })
	rootL, treesL, err := genTargets("sitesL", TextSpec(nl), true)
	defer os.RemoveAll(rootL)
	if err != nil {
		return nil, fmt.Errorf("newline rendering: %w", err)
	}
	var sites []Site
	for _, kind := range []string{"server", "client"} {
		for _, file := range goFiles(treesN[kind]) {
			rel, _ := filepath.Rel(treesN[kind], file)
			src, _ := os.ReadFile(file)
			fset := token.NewFileSet()
			f := fset.AddFile(file, fset.Base(), len(src))
			var sc scanner.Scanner
			sc.Init(f, src, nil, scanner.ScanComments)
			ord := map[int]int{}
			var here []Site
			for {
				_, tok, lit := sc.Scan()
				if tok == token.EOF {
					break
				}
				if lit == "" {
					continue
				}
				for _, m := range rxMarker.FindAllStringSubmatch(lit, -1) {
					var i int
					fmt.Sscan(m[1], &i)
					if i >= len(fields) {
						continue
					}
					ctx := "code"
					switch {
					case tok == token.COMMENT && strings.HasPrefix(lit, "//"):
						ctx = "line"
					case tok == token.COMMENT:
						ctx = "block"
					case tok == token.STRING && strings.HasPrefix(lit, "`"):
						ctx = "raw"
					case tok == token.STRING:
						ctx = "interp"
					case tok == token.CHAR:
						ctx = "code"
					}
					here = append(here, Site{Target: kind, File: rel, Field: fields[i].Key, Ord: ord[i], Ctx: ctx})
					ord[i]++
				}
			}
			if len(here) == 0 {
				continue
			}
			// probe renderings of the same file
			pb, _ := os.ReadFile(filepath.Join(treesP[kind], rel))
			lb, _ := os.ReadFile(filepath.Join(treesL[kind], rel))
			ps, ls := string(pb), string(lb)
			for k := range here {
				s := &here[k]
				var i int
				for j, f := range fields {
					if f.Key == s.Field {
						i = j
					}
				}
				seg := func(text, a, b string, ord int) (string, bool) {
					pos := 0
					for n := 0; ; n++ {
						x := strings.Index(text[pos:], a)
						if x < 0 {
							return "", false
						}
						x += pos + len(a)
						y := strings.Index(text[x:], b)
						if y < 0 {
							return "", false
						}
						if n == ord {
							return text[x : x+y], true
						}
						pos = x + y
					}
				}
				mk := func(c string) string { return fmt.Sprintf("ZQ%d%s", i, c) }
				if v, ok := seg(ps, mk("a"), mk("b"), s.Ord); ok {
					s.BlockEnd = !strings.Contains(v, "*/")
				}
				if v, ok := seg(ps, mk("b"), mk("c"), s.Ord); ok {
					s.Backtick = v != "`"
				}
				if v, ok := seg(ps, mk("c"), mk("d"), s.Ord); ok {
					s.Quote = v != `"`
				}
				if v, ok := seg(ps, mk("d"), mk("e"), s.Ord); ok {
					s.Bslash = v != `\`
				}
				if v, ok := seg(ls, mk("f"), mk("g"), s.Ord); ok {
					switch {
					case !strings.Contains(v, "\n"):
						s.Newline = "escaped"
					case strings.HasPrefix(strings.TrimLeft(v[strings.Index(v, "\n")+1:], " \t"), "//"):
						s.Newline = "comment"
					default:
						s.Newline = "raw"
					}
				}
			}
			sites = append(sites, here...)
		}
	}
	sort.Slice(sites, func(i, j int) bool { return sites[i].Key() < sites[j].Key() })
	return sites, nil
}
