package genlab

import (
	"encoding/json"
	"fmt"
	"go/ast"
	"go/parser"
	"go/scanner"
	"go/token"
	"os"
	"path/filepath"
	"sort"
	"strconv"
	"strings"
	"text/template"
	"time"

	"github.com/go-swagger/go-swagger/generator"

	"verif/harness/internal/ev"
	"verif/harness/internal/proc"
	"verif/harness/internal/rng"
)

func driver() *proc.P {
	return proc.New(20*time.Second, filepath.Join(ev.VerifDir(), "lean", ".lake", "build", "bin", "gsdriver"))
}

type escResp struct {
	R        string  `json:"r"`
	Out      string  `json:"out"`
	Eval     *string `json:"eval"`
	BlockEnd bool    `json:"blockEnd"`
	InLine   bool    `json:"inLine"`
}

func callEscape(m *proc.P, fn, in, pad string) (escResp, error) {
	req, _ := json.Marshal(map[string]string{"op": "text.escape", "fn": fn, "in": in, "pad": pad})
	out, err := m.Call(req)
	var r escResp
	if err == nil {
		err = json.Unmarshal(out, &r)
	}
	return r, err
}

// hostile payloads for a lexical context; every payload declares the identifier ZQInjected when it escapes. Several
// shapes are tried: at top level, and closing an enclosing struct or function body first.
func payloadsFor(ctx string) []string {
	switch ctx {
	case "block":
		return []string{"a */ var ZQInjected = 1 /* b", "a */ }\nvar ZQInjected = 1\ntype ZQT struct { /* b", "a*/\nvar ZQInjected = 1\n/*b"}
	case "line":
		return []string{"a\nvar ZQInjected = 1 // b", "a\n}\nvar ZQInjected = 1\ntype ZQT struct {\n// b", "a\n}\nvar ZQInjected = 1\nfunc ZQF() {\n// b"}
	case "raw":
		return []string{"a` + \"\"; var ZQInjected = `b"}
	case "interp":
		return []string{"a\"; var ZQInjected = \"b", "a\"\nvar ZQInjected = \"b"}
	}
	return []string{"a"}
}

func payloadFor(ctx string) string { return payloadsFor(ctx)[0] }

// oneGoStringLiteral: src scans (go/scanner) as exactly one STRING token and nothing else.
func oneGoStringLiteral(src string) bool {
	var s scanner.Scanner
	fset := token.NewFileSet()
	f := fset.AddFile("", fset.Base(), len(src))
	errs := 0
	s.Init(f, []byte(src), func(token.Position, string) { errs++ }, 0)
	_, tok, _ := s.Scan()
	if tok != token.STRING {
		return false
	}
	_, tok2, lit2 := s.Scan()
	// the scanner inserts an automatic semicolon ("\n") at the end of input
	if tok2 == token.SEMICOLON && lit2 == "\n" {
		_, tok2, _ = s.Scan()
	}
	return tok2 == token.EOF && errs == 0
}

// unquoteIfQuoted returns the tag text of a literal in either form.
func unquoteIfQuoted(lit string) string {
	if v, err := strconv.Unquote(lit); err == nil {
		return v
	}
	return lit
}

// declSkeleton lists the top-level declarations of every Go file of a tree (comments and literal values erased).
func declSkeleton(dir string) (map[string][]string, bool) {
	out := map[string][]string{}
	injected := false
	for _, f := range goFiles(dir) {
		rel, _ := filepath.Rel(dir, f)
		fset := token.NewFileSet()
		af, err := parser.ParseFile(fset, f, nil, 0)
		if err != nil {
			out[rel] = []string{"PARSE-ERROR"}
			continue
		}
		var ds []string
		for _, d := range af.Decls {
			switch x := d.(type) {
			case *ast.FuncDecl:
				n := x.Name.Name
				if x.Recv != nil {
					n = "method:" + n
				}
				stmts := 0
				if x.Body != nil {
					ast.Inspect(x.Body, func(nd ast.Node) bool {
						if _, ok := nd.(ast.Stmt); ok {
							stmts++
						}
						return true
					})
				}
				ds = append(ds, fmt.Sprintf("func %s/%d", n, stmts))
			case *ast.GenDecl:
				for _, s := range x.Specs {
					switch y := s.(type) {
					case *ast.TypeSpec:
						ds = append(ds, "type "+y.Name.Name)
					case *ast.ValueSpec:
						for _, n := range y.Names {
							ds = append(ds, x.Tok.String()+" "+n.Name)
						}
					case *ast.ImportSpec:
						ds = append(ds, "import "+y.Path.Value)
					}
				}
			}
		}
		ast.Inspect(af, func(nd ast.Node) bool {
			if id, ok := nd.(*ast.Ident); ok && id.Name == "ZQInjected" {
				injected = true
			}
			return true
		})
		out[rel] = ds
	}
	return out, injected
}

func skeletonDiff(a, b map[string][]string) []string {
	var out []string
	for f, da := range a {
		if strings.Join(da, ";") != strings.Join(b[f], ";") {
			out = append(out, f)
		}
	}
	for f := range b {
		if _, ok := a[f]; !ok {
			out = append(out, "+"+f)
		}
	}
	sort.Strings(out)
	return out
}

// renderBoth generates server and client (formatting and validation on) for a spec; error = generation failed.
func renderBoth(tag string, spec []byte) (root string, trees map[string]string, err error) {
	root, specPath, target, err := NewTarget(tag, spec)
	if err != nil {
		return "", nil, err
	}
	trees = map[string]string{}
	for _, kind := range []string{"server", "client"} {
		t := filepath.Join(target, kind)
		_ = os.MkdirAll(t, 0o755)
		if e := GenInProc(kind, []string{"-f", specPath, "-t", t, "-A", "textapp"}, nil); e != nil {
			return root, trees, fmt.Errorf("generate %s: %v", kind, e)
		}
		trees[kind] = t
	}
	return root, trees, nil
}

// CheckC09 — free text from the spec never becomes code.
func CheckC09(run *ev.Run) {
	m := driver()
	defer m.Close()
	r := rng.New(uint64(run.Seed) + 9)
	st := map[string]int{}
	run.Rule = "(a) escaper correspondence: the real comment / blockcomment / escapeBackticks / generateReadableSpec helpers against the Lean functions on hostile and " +
		"random strings over the alphabet of delimiters; (b) site table: marker rendering of a spec with 43 free-text positions into server and client (157 sites); " +
		"(c) hostile differential: each field receives a payload closing the lexical context it lands in; generation must fail or the declaration skeleton " +
		"(go/parser, comments and literals erased) must equal the neutral rendering and no injected identifier may appear; distinct = (field, payload context)"
	run.Trusted = append(run.Trusted, "vx extract (Sites.lean from marker rendering + go/scanner; Layout)", "genlab in-process generation through the generate command plumbing",
		"go/parser, go/scanner")
	run.Assume = append(run.Assume, "the marker spec reaches every template action that prints a free-text field (sites no marker reaches are not in the table)",
		"junction characters between literal template text and an escaped value are not modelled (an escaped value ending in '*' directly followed by '/')")

	// (a) escapers
	funcs := generator.DefaultFuncMap(generator.GoLangOpts())
	escBT, _ := funcs["escapeBackticks"].(func(string) string)
	if escBT == nil {
		run.Broken("tie:funcmap", "escapeBackticks is no longer a func(string) string in the FuncMap", nil)
		return
	}
	_ = template.FuncMap{}
	alphabet := []string{"*", "/", "`", "\"", "\\", "\n", "a", " ", "[", "]", "+", "\t", "é", "\ufeff"}
	var inputs []string
	inputs = append(inputs, "\ufeff", "a\ufeffb`", "", "*/", "**/", "*//", "/*/", "a*/b*/", "`", "``", "a`b", "\n", "a\nb\n", "x */ func init() {} /*", "a\n//go:build ignore", "`+\"`\"+`")
	n := 400
	if run.Tier == "thorough" {
		n = 20000
	}
	for i := 0; i < n; i++ {
		var b strings.Builder
		for k := r.Intn(10); k >= 0; k-- {
			b.WriteString(alphabet[r.Intn(len(alphabet))])
		}
		inputs = append(inputs, b.String())
	}
	for _, in := range inputs {
		type c struct{ fn, real, pad string }
		cases := []c{{"comment", generator.VerifPadComment(in), " "}, {"comment", generator.VerifPadComment(in, "  "), "  "},
			{"blockcomment", generator.VerifBlockComment(in), ""}, {"backticks", escBT(in), ""}, {"readable", generator.VerifReadableSpec([]byte(in)), ""}}
		for _, x := range cases {
			resp, err := callEscape(m, x.fn, in, x.pad)
			run.Traces++
			run.Case(x.fn + "|" + in)
			if err != nil || resp.R != "ok" {
				run.Broken("corr:C09:driver", "model driver failed", map[string]string{"fn": x.fn, "in": in})
				continue
			}
			if resp.Out != x.real {
				st["escaper-disagree"]++
				// search: does the real output break the lexical property the escaper is there for?
				bad := false
				switch x.fn {
				case "blockcomment":
					bad = strings.Contains(x.real, "*/")
				case "comment":
					for _, ln := range strings.Split(x.real, "\n")[1:] {
						if !strings.HasPrefix(ln, "//") {
							bad = true
						}
					}
				case "backticks", "readable":
					bad = strings.Count(strings.ReplaceAll(x.real, "`+\"`\"+`", ""), "`") > 0
				}
				rep := map[string]string{"helper": x.fn, "input": in, "real_output": x.real, "model_output": resp.Out}
				if bad {
					run.Deviation("escaper-unsafe:"+x.fn, "the "+x.fn+" helper lets its delimiter through", rep)
				} else {
					run.Broken("corr:C09:"+x.fn, "Lean model and the "+x.fn+" helper disagree", rep)
				}
			}
			if x.fn == "readable" && !strings.Contains(in, "\r") {
				// the embedded expression must evaluate to a text that is the input up to the JSON escape of U+FEFF
				want := strings.ReplaceAll(in, "\ufeff", `\ufeff`)
				if resp.Eval == nil || *resp.Eval != want {
					run.Broken("model:evalGo-readable", "model evaluation of the readable spec text is not the input", map[string]string{"in": in})
				}
				if strings.Contains(x.real, "\ufeff") {
					run.Deviation("escaper-unsafe:readable-bom", "generateReadableSpec lets a byte order mark through (illegal in Go source)", map[string]string{"input": in, "real_output": x.real})
				}
			}
			if x.fn == "backticks" && !strings.Contains(in, "\r") && (resp.Eval == nil || *resp.Eval != in) {
				run.Broken("model:evalGo", "model evaluation of the escaped raw string does not give the input back", map[string]string{"in": in})
			}
		}
	}
	st["escaper-inputs"] = len(inputs)

	// (a') PrintTags (Go code that writes struct tags, free text included with --struct-tags description|example) against the Lean model
	{
		tagAlpha := []string{"a", "b", " ", "`", "\"", "\\", "\n", "\t", "é", "\ufeff", "\x01", "}", ";", ":", ","}
		word := func() string {
			var b strings.Builder
			for k := r.Intn(6); k >= 0; k-- {
				b.WriteString(tagAlpha[r.Intn(len(tagAlpha))])
			}
			return b.String()
		}
		nTags := 300
		if run.Tier == "thorough" {
			nTags = 6000
		}
		for i := 0; i < nTags; i++ {
			g := generator.GenSchema{}
			g.Name = r.Pick([]string{"name", "a-b", "X Y"})
			g.OriginalName = g.Name
			g.Required = r.Chance(1, 2)
			g.IsEmptyOmitted = r.Chance(1, 2)
			if r.Chance(1, 3) {
				g.XMLName = r.Pick([]string{"n", "ns:n"})
			}
			if r.Chance(2, 3) {
				g.Description = word()
			}
			if r.Chance(1, 2) {
				g.Example = word()
			}
			pool := []string{"description", "yaml", "example", "db", "json", "xml", "description"}
			r.Shuffle(len(pool), func(i, j int) { pool[i], pool[j] = pool[j], pool[i] })
			g.StructTags = pool[:r.Intn(5)]
			if r.Chance(1, 5) {
				g.CustomTag = "validate:\"required\""
			}
			real := g.PrintTags()
			// the ordered (key, value) list PrintTags assembles (mirror of its first loop; the literal form is the model's business)
			jsonTag := ""
			if txt := unquoteIfQuoted(real); strings.HasPrefix(txt, "json:") {
				if q, err := strconv.QuotedPrefix(txt[5:]); err == nil {
					jsonTag, _ = strconv.Unquote(q)
				}
			}
			tags := [][2]string{{"json", jsonTag}}
			have := map[string]bool{"json": true}
			if g.XMLName != "" {
				x := g.XMLName
				if !g.Required && g.IsEmptyOmitted {
					x += ",omitempty"
				}
				tags = append(tags, [2]string{"xml", x})
				have["xml"] = true
			}
			for _, t := range g.StructTags {
				if have[t] {
					continue
				}
				have[t] = true
				switch {
				case t == "example" && g.Example != "":
					tags = append(tags, [2]string{t, g.Example})
				case t == "description" && g.Description != "":
					tags = append(tags, [2]string{t, g.Description})
				default:
					tags = append(tags, [2]string{t, jsonTag})
				}
			}
			req, _ := json.Marshal(map[string]interface{}{"op": "text.printTags", "tags": tags, "custom": g.CustomTag})
			out, merr := m.Call(req)
			var mr struct {
				R        string `json:"r"`
				Out      string `json:"out"`
				OneToken bool   `json:"oneToken"`
			}
			if merr == nil {
				_ = json.Unmarshal(out, &mr)
			}
			run.Traces++
			run.Case("printTags|" + real)
			rep := map[string]interface{}{"gen_schema": map[string]interface{}{"Name": g.Name, "Required": g.Required, "IsEmptyOmitted": g.IsEmptyOmitted, "XMLName": g.XMLName,
				"Description": g.Description, "Example": g.Example, "StructTags": g.StructTags, "CustomTag": g.CustomTag}, "real": real, "model": mr.Out, "tags": tags}
			if mr.R != "ok" {
				run.Broken("corr:C09:driver", "model driver failed", rep)
				continue
			}
			// property oracle on the real output: the tag must scan as exactly one Go string literal
			if !oneGoStringLiteral(real) {
				st["printTags:NOT-ONE-LITERAL"]++
				run.Deviation("injection:struct-tag:not-one-literal", "GenSchema.PrintTags writes a struct tag that is not exactly one Go string literal", rep)
				continue
			}
			if mr.Out != real {
				st["printTags-disagree"]++
				run.Broken("corr:C09:printTags", "Lean printTags and GenSchema.PrintTags disagree", rep)
			} else {
				st["printTags-agree"]++
			}
		}
	}

	// (b) site table
	sites, err := DiscoverSites()
	if err != nil {
		run.Broken("tie:sites", "site discovery failed: "+err.Error(), nil)
		return
	}
	byField := map[string]map[string]bool{} // field -> contexts
	notOK := map[string][]Site{}
	for _, s := range sites {
		if byField[s.Field] == nil {
			byField[s.Field] = map[string]bool{}
		}
		byField[s.Field][s.Ctx] = true
		if !s.OK() {
			notOK[s.Field] = append(notOK[s.Field], s)
		}
	}
	st["sites"] = len(sites)
	st["sites-not-protected"] = 0
	for _, v := range notOK {
		st["sites-not-protected"] += len(v)
	}

	// (c) hostile differential
	neutralVals, _ := markerVals(func(i int) string { return fmt.Sprintf("ZQ%dm", i) })
	rootN, treesN, err := renderBoth("c09n", TextSpec(neutralVals))
	defer os.RemoveAll(rootN)
	if err != nil {
		run.Broken("tie:neutral-render", "the neutral marker spec does not generate: "+err.Error(), nil)
		return
	}
	skN := map[string]map[string][]string{}
	for k, t := range treesN {
		skN[k], _ = declSkeleton(t)
	}
	var fields []string
	for f := range byField {
		fields = append(fields, f)
	}
	sort.Strings(fields)
	budget := 14
	if run.Tier == "thorough" || !run.Lean.OK {
		budget = len(fields)
	}
	// unprotected fields first, then a seeded selection of the others
	var order []string
	for _, f := range fields {
		if len(notOK[f]) > 0 {
			order = append(order, f)
		}
	}
	rest := []string{}
	for _, f := range fields {
		if len(notOK[f]) == 0 {
			rest = append(rest, f)
		}
	}
	r.Shuffle(len(rest), func(i, j int) { rest[i], rest[j] = rest[j], rest[i] })
	order = append(order, rest...)
	if len(order) > budget+len(notOK) {
		order = order[:budget+len(notOK)]
	}
	for _, f := range order {
		ctxs := []string{}
		for c := range byField[f] {
			ctxs = append(ctxs, c)
		}
		sort.Strings(ctxs)
		for _, ctx := range ctxs {
			if ctx == "code" {
				run.Deviation("site-in-code:"+f, "the free-text field "+f+" is printed in code position", map[string]string{"field": f})
				continue
			}
			pls := payloadsFor(ctx)
			if len(notOK[f]) == 0 && run.Tier != "thorough" {
				pls = pls[:1]
			}
			for pi, payload := range pls {
				vals := map[string]string{}
				for k, v := range neutralVals {
					vals[k] = v
				}
				vals[f] = payload
				if f == "basePath" {
					vals[f] = "/" + payload // a base path starts with a slash; the rest is free
				}
				spec := TextSpec(vals)
				root, trees, gerr := renderBoth("c09h", spec)
				run.Case(fmt.Sprintf("%s|%s|%d", f, ctx, pi))
				if gerr != nil {
					st["hostile:generation-fails"]++
					_ = os.RemoveAll(root)
					continue
				}
				for kind, t := range trees {
					sk, injected := declSkeleton(t)
					delta := skeletonDiff(skN[kind], sk)
					if injected || len(delta) > 0 {
						st["hostile:INJECTED"]++
						run.Deviation(fmt.Sprintf("injection:%s:%s:%s", kind, f, ctx),
							fmt.Sprintf("free text in %s escapes its %s context in the generated %s: files with a different declaration skeleton %v, injected identifier present: %v", f, ctx, kind, delta, injected),
							map[string]interface{}{"field": f, "payload": vals[f], "target": kind, "files": delta, "spec": json.RawMessage(spec),
								"how": "swagger generate " + kind + " -f spec.json -t target -A textapp, then look for ZQInjected in the listed files"})
					} else {
						st["hostile:contained"]++
					}
				}
				_ = os.RemoveAll(root)
			}
		}
	}
	// (d) struct tags: `--struct-tags description|example` copies free text into the field tag (generator.PrintTags, Go code, no
	// template site); in every order with other tags the declaration skeleton must not change
	tagSets := [][]string{{"description", "yaml"}, {"yaml", "description"}, {"example", "db"}, {"description"}, {"json", "example", "description", "xml"}}
	tagFields := []string{"property.description", "property.example", "property.enum.description", "array.description"}
	tagPayloads := []string{"a` }; var ZQInjected = 1; type ZQT struct { F int `b", "a\" zq:\"b", "a` }\nvar ZQInjected = 1\ntype ZQT struct { F int `b", "a`b"}
	if run.Tier != "thorough" && run.Lean.OK {
		tagSets = tagSets[:3]
		tagPayloads = tagPayloads[:2]
	}
	renderModel := func(tag string, spec []byte, tags []string) (string, string, error) {
		root, specPath, target, err := NewTarget(tag, spec)
		if err != nil {
			return "", "", err
		}
		args := []string{"-f", specPath, "-t", target}
		for _, t := range tags {
			args = append(args, "--struct-tags", t)
		}
		return root, target, GenInProc("model", args, nil)
	}
	for _, ts := range tagSets {
		rootT, tN, err := renderModel("c09t", TextSpec(neutralVals), ts)
		if err != nil {
			_ = os.RemoveAll(rootT)
			run.Broken("tie:neutral-render-tags", fmt.Sprintf("the neutral marker spec does not generate with --struct-tags %v: %v", ts, err), nil)
			continue
		}
		skT, _ := declSkeleton(tN)
		_ = os.RemoveAll(rootT)
		for _, f := range tagFields {
			for pi, payload := range tagPayloads {
				vals := map[string]string{}
				for k, v := range neutralVals {
					vals[k] = v
				}
				vals[f] = payload
				spec := TextSpec(vals)
				root, t, gerr := renderModel("c09u", spec, ts)
				run.Case(fmt.Sprintf("tags%v|%s|%d", ts, f, pi))
				if gerr != nil {
					st["tags:generation-fails"]++
					_ = os.RemoveAll(root)
					continue
				}
				sk, injected := declSkeleton(t)
				delta := skeletonDiff(skT, sk)
				_ = os.RemoveAll(root)
				if injected || len(delta) > 0 {
					st["tags:INJECTED"]++
					run.Deviation("injection:model:struct-tag:"+f, fmt.Sprintf("free text in %s escapes the struct tag written for --struct-tags %v: files with a different declaration skeleton %v, injected identifier present: %v", f, ts, delta, injected),
						map[string]interface{}{"field": f, "payload": payload, "struct_tags": ts, "files": delta, "spec": json.RawMessage(spec),
							"how": "swagger generate model -f spec.json -t target --struct-tags <each>, then look for ZQInjected in the listed files"})
				} else {
					st["tags:contained"]++
				}
			}
		}
	}
	// (e) enum VALUES: they are names (constants are derived from them, so the declaration skeleton legitimately depends on
	// them) but they are also written as JSON text inside raw string literals of the generated validators: a backtick in a value
	// must not end that literal. Only the injected identifier is looked for.
	for _, kind := range []string{"model", "server", "client"} {
		var doc map[string]interface{}
		_ = json.Unmarshal(TextSpec(neutralVals), &doc)
		pet := doc["definitions"].(map[string]interface{})["Pet"].(map[string]interface{})["properties"].(map[string]interface{})
		curK, _ := pet["kind"].(map[string]interface{})["enum"].([]interface{})
		pet["kind"].(map[string]interface{})["enum"] = append(append([]interface{}{}, curK...), "a`+ZQInjected+`b")
		get := doc["paths"].(map[string]interface{})["/pets/{id}"].(map[string]interface{})["get"].(map[string]interface{})
		for _, pp := range get["parameters"].([]interface{}) {
			if pm := pp.(map[string]interface{}); pm["name"] == "q" {
				cur, _ := pm["enum"].([]interface{})
				pm["enum"] = append(append([]interface{}{}, cur...), "c`+ZQInjected+`d")
			}
		}
		spec, _ := json.Marshal(doc)
		root, specPath, target, err := NewTarget("c09e", spec)
		if err != nil {
			continue
		}
		args := []string{"-f", specPath, "-t", target}
		if kind != "model" {
			args = append(args, "-A", "textapp")
		}
		gerr := GenInProc(kind, args, nil)
		run.Case("enum-value|" + kind)
		if gerr != nil {
			st["enum-value:generation-fails"]++
			if os.Getenv("VERIF_DEBUG") != "" {
				fmt.Fprintln(os.Stderr, "enum-value probe:", kind, tail(gerr.Error(), 400))
			}
			_ = os.RemoveAll(root)
			continue
		}
		_, injected := declSkeleton(target)
		_ = os.RemoveAll(root)
		if injected {
			st["enum-value:INJECTED"]++
			run.Deviation("injection:"+kind+":enum-value:raw", "a backtick in an enum value ends the raw string literal the generated validator embeds the enum in: text of the spec is compiled as Go",
				map[string]interface{}{"spec": json.RawMessage(spec), "target": kind, "how": "swagger generate " + kind + " -f spec.json -t target, then look for the identifier ZQInjected"})
		} else {
			st["enum-value:contained"]++
		}
	}
	// (f) targets outside the site table: `generate cli` (free text between backticks in the cobra commands) and
	// `generate server --implementation-package` (the autoconfigure file writes descriptions inside /* */)
	for _, pr := range []struct {
		name, kind, field, payload string
		extra                      []string
	}{
		{"cli:securityDefinition.description", "cli", "securityDefinition.description", "a` + ZQInjected + `b", nil},
		{"cli:tag.description", "cli", "tag.description", "a` + ZQInjected + `b", nil},
		{"autoconfigure:tag.description", "server", "tag.description", "a */ var ZQInjected = 1 /* b", []string{"--implementation-package", "x/target/impl"}},
	} {
		vals := map[string]string{}
		for k, v := range neutralVals {
			vals[k] = v
		}
		vals[pr.field] = pr.payload
		spec := TextSpec(vals)
		root, specPath, target, err := NewTarget("c09f", spec)
		if err != nil {
			continue
		}
		args := append([]string{"-f", specPath, "-t", target, "-A", "textapp"}, pr.extra...)
		gerr := GenInProc(pr.kind, args, nil)
		run.Case("other-target|" + pr.name)
		if gerr != nil {
			st["other-target:generation-fails"]++
			if os.Getenv("VERIF_DEBUG") != "" {
				fmt.Fprintln(os.Stderr, "other-target probe:", pr.name, tail(gerr.Error(), 300))
			}
			_ = os.RemoveAll(root)
			continue
		}
		_, injected := declSkeleton(target)
		_ = os.RemoveAll(root)
		if injected {
			st["other-target:INJECTED"]++
			run.Deviation("injection:"+pr.name, "free text of the spec is compiled as Go in a target outside the site table ("+pr.name+")",
				map[string]interface{}{"spec": json.RawMessage(spec), "field": pr.field, "payload": pr.payload, "command": append([]string{"swagger", "generate", pr.kind}, args...)})
		} else {
			st["other-target:contained"]++
		}
	}
	if len(run.Samples) == 0 {
		run.Sample(map[string]interface{}{"field": "operation.summary", "payload": payloadFor("block"), "sites": len(sites)})
		for f, v := range notOK {
			run.Sample(map[string]interface{}{"unprotected_field": f, "site": v[0].Key(), "ctx": v[0].Ctx})
			break
		}
	}
	run.Extra["distribution"] = st
}
