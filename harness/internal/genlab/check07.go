package genlab

import (
	"crypto/sha256"
	"encoding/hex"
	"encoding/json"
	"fmt"
	"os"
	"os/exec"
	"path/filepath"
	"sort"
	"strings"
	"sync"
	"time"

	"verif/harness/internal/ev"
	"verif/harness/internal/rng"
)

// wideSpec builds a valid spec with many entries in every map the generators iterate over.
func wideSpec(r *rng.R, variant int) []byte {
	letters := []string{"alpha", "bravo", "charlie", "delta", "echo", "foxtrot", "golf", "hotel", "india", "juliet", "kilo", "lima"}
	r.Shuffle(len(letters), func(i, j int) { letters[i], letters[j] = letters[j], letters[i] })
	ext := func(n int) map[string]interface{} {
		m := map[string]interface{}{}
		for i := 0; i < n; i++ {
			m["x-"+letters[i]] = fmt.Sprintf("v%d", i)
		}
		return m
	}
	defs := map[string]interface{}{}
	for di := 0; di < 10; di++ {
		props := map[string]interface{}{}
		var req []string
		for pi := 0; pi < 9; pi++ {
			var p map[string]interface{}
			switch pi % 5 {
			case 0:
				p = map[string]interface{}{"type": "string", "enum": []string{letters[pi], letters[pi+1], letters[pi+2]}}
			case 1:
				p = map[string]interface{}{"type": "integer", "format": "int32", "minimum": 1}
			case 2:
				p = map[string]interface{}{"type": "array", "items": map[string]interface{}{"type": "string", "format": "date"}}
			case 3:
				if di > 0 {
					p = map[string]interface{}{"$ref": "#/definitions/" + letters[di-1]}
				} else {
					p = map[string]interface{}{"type": "boolean"}
				}
			default:
				p = map[string]interface{}{"type": "object", "properties": map[string]interface{}{letters[0]: map[string]interface{}{"type": "string"}, letters[1]: map[string]interface{}{"type": "number"}, letters[2]: map[string]interface{}{"type": "string", "format": "uuid"}}}
			}
			if p["$ref"] == nil {
				for k, v := range ext(3) {
					p[k] = v
				}
			}
			props[letters[pi]+"Prop"] = p
			if pi%3 == 0 {
				req = append(req, letters[pi]+"Prop")
			}
		}
		d := map[string]interface{}{"type": "object", "properties": props, "required": req}
		for k, v := range ext(4) {
			d[k] = v
		}
		defs[letters[di]] = d
	}
	// an alias of an alias used as a property (the generator registers helper schemas in the shared document while it works)
	defs["shortCode"] = map[string]interface{}{"type": "string", "maxLength": 3}
	defs["codeAlias"] = map[string]interface{}{"$ref": "#/definitions/shortCode"}
	defs["codeHolder"] = map[string]interface{}{"type": "object", "properties": map[string]interface{}{
		"viaAlias": map[string]interface{}{"$ref": "#/definitions/codeAlias"}, "direct": map[string]interface{}{"$ref": "#/definitions/shortCode"}}}
	scopes := map[string]interface{}{}
	for i := 0; i < 9; i++ {
		scopes[letters[i]+":"+letters[(i+3)%12]] = "scope " + letters[i]
	}
	secDefs := map[string]interface{}{
		"oauth":  map[string]interface{}{"type": "oauth2", "flow": "accessCode", "authorizationUrl": "https://example.com/a", "tokenUrl": "https://example.com/t", "scopes": scopes},
		"keyH":   map[string]interface{}{"type": "apiKey", "in": "header", "name": "X-Key"},
		"keyQ":   map[string]interface{}{"type": "apiKey", "in": "query", "name": "key"},
		"basicA": map[string]interface{}{"type": "basic"},
	}
	medias := []string{"application/json", "application/xml", "text/plain", "application/x-tar+gzip", "text/csv", "application/x-yaml"} // x-tar+gzip matches two of the generator's media-type patterns
	paths := map[string]interface{}{}
	for pi := 0; pi < 9; pi++ {
		item := map[string]interface{}{}
		for mi, m := range []string{"get", "post", "put"} {
			if (pi+mi)%3 != 0 {
				continue
			}
			params := []interface{}{map[string]interface{}{"name": "id", "in": "path", "required": true, "type": "string"}}
			for qi := 0; qi < 4; qi++ {
				params = append(params, map[string]interface{}{"name": letters[qi] + "Q", "in": "query", "type": []string{"string", "integer", "boolean", "number"}[qi]})
			}
			params = append(params, map[string]interface{}{"name": "X-" + letters[5], "in": "header", "type": "string"})
			if m != "get" {
				params = append(params, map[string]interface{}{"name": "body", "in": "body", "schema": map[string]interface{}{"$ref": "#/definitions/" + letters[pi]}})
			}
			resps := map[string]interface{}{}
			for _, code := range []string{"200", "404", "default"} {
				hs := map[string]interface{}{}
				for hi := 0; hi < 4; hi++ {
					hs["X-"+letters[hi]+"-H"] = map[string]interface{}{"type": "string"}
				}
				rs := map[string]interface{}{"description": code, "headers": hs, "schema": map[string]interface{}{"$ref": "#/definitions/" + letters[(pi+1)%10]}}
				if code == "200" {
					rs["examples"] = map[string]interface{}{"application/json": map[string]interface{}{"a": 1}, "application/xml": "<a/>", "text/plain": "a", "text/csv": "a,b"}
				}
				resps[code] = rs
			}
			op := map[string]interface{}{"operationId": fmt.Sprintf("%s%s%d", m, strings.Title(letters[pi]), pi), "tags": []string{letters[pi%4]}, "parameters": params, "responses": resps,
				"consumes": []string{medias[(pi+mi)%6], medias[(pi+mi+1)%6], medias[(pi+mi+2)%6]}, "produces": []string{medias[(pi+mi+3)%6], medias[(pi+mi+4)%6], medias[(pi+mi+5)%6]},
				"security": []interface{}{map[string]interface{}{"oauth": []string{letters[0] + ":" + letters[3], letters[1] + ":" + letters[4]}, "keyH": []string{}, "keyQ": []string{}}, map[string]interface{}{"basicA": []string{}}}}
			for k, v := range ext(5) {
				op[k] = v
			}
			item[m] = op
		}
		paths[fmt.Sprintf("/%s/{id}", letters[pi])] = item
	}
	tags := []interface{}{}
	for i := 0; i < 4; i++ {
		tags = append(tags, map[string]interface{}{"name": letters[i], "description": "tag " + letters[i]})
	}
	info := map[string]interface{}{"title": "wide", "version": fmt.Sprintf("1.%d", variant), "description": "many entries in every map"}
	for k, v := range ext(6) {
		info[k] = v
	}
	doc := map[string]interface{}{"swagger": "2.0", "info": info, "host": "example.com", "basePath": "/v1", "schemes": []string{"https", "http", "wss"},
		"consumes": []string{"application/json", "application/xml"}, "produces": []string{"application/json", "text/plain"},
		"paths": paths, "definitions": defs, "securityDefinitions": secDefs, "tags": tags,
		"security": []interface{}{map[string]interface{}{"keyH": []string{}, "keyQ": []string{}}}}
	for k, v := range ext(8) {
		doc[k] = v
	}
	b, _ := json.MarshalIndent(doc, "", " ")
	return b
}

func treeDigest(dir string) (string, map[string]string) {
	t := Tree(dir)
	ks := SortedKeys(t)
	h := sha256.New()
	for _, k := range ks {
		h.Write([]byte(k + "\x00" + t[k] + "\n"))
	}
	return hex.EncodeToString(h.Sum(nil))[:16], t
}

type c07Cmd struct {
	name string
	args func(root string) []string // arguments after `swagger`
	out  func(root string) string   // "" = stdout is the output; else directory or file to hash
	wd   string
}

// CheckC07 — every command's output depends only on its inputs.
func CheckC07(run *ev.Run) {
	r := rng.New(uint64(run.Seed) + 7)
	n := 4
	if run.Tier == "thorough" {
		n = 16
	}
	if !run.Lean.OK {
		n += 8
	}
	if v := os.Getenv("VERIF_C07_N"); v != "" {
		fmt.Sscan(v, &n)
	}
	st := map[string]int{}
	run.Rule = "a spec with 9-12 entries in every map the generators iterate over (definitions, properties, paths, responses, headers, examples, scopes, requirements, media types, vendor " +
		"extensions at six levels) and a mutated copy; every command (generate model / server / client / cli / markdown, flatten, expand, mixin, diff as text and as JSON, generate spec on the " +
		"repository's scanner fixtures) is run N times in fresh processes of the CLI built from the working tree, always into the same relative target; outputs are compared byte for byte"
	run.Trusted = append(run.Trusted, "the swagger CLI built from the working tree (no build tags)", "sha256 of the generated tree", "go/packages + go/types for the map-range census (translator)")
	run.Assume = append(run.Assume, "the classification of a loop (syntactic rules / hand-made, tied to the body hash) is validated by this differential, not proved",
		"Go picks a fresh iteration order per range statement and a fresh hash seed per process: N runs sample N orders per loop",
		"concurrent library calls are not modelled: no theorem covers data races; they are exercised (six concurrent generations under the race detector, compared with the sequential run)", "option parsing of the generate COMMANDS (sharedOptionsCommon.apply -> swag.AddInitialisms) is serialised in that run: it is command-line plumbing, not the library API, and does race")
	bin, err := BuildSwagger()
	if err != nil {
		run.Broken("corr:C07:build", "the CLI does not build: "+err.Error(), nil)
		return
	}
	defer os.Remove(bin)
	root, err := ScratchRoot("c07")
	if err != nil {
		return
	}
	defer os.RemoveAll(root)
	_ = InitModule(root, "x")
	specA := wideSpec(r, 0)
	specB := wideSpec(r, 1)
	// B: some entries removed / changed so that the diff has many lines in every category
	{
		var d map[string]interface{}
		_ = json.Unmarshal(specB, &d)
		defs := d["definitions"].(map[string]interface{})
		i := 0
		for _, k := range sortedKeysOf(defs) {
			i++
			dm := defs[k].(map[string]interface{})
			props, isObj := dm["properties"].(map[string]interface{})
			if !isObj || len(props) < 3 { // the alias definitions stay as they are
				continue
			}
			pk := sortedKeysOf(props)
			switch i % 3 {
			case 0:
				delete(props, pk[0])
				dm["required"] = []string{}
			case 1:
				props["added"+k] = map[string]interface{}{"type": "string"}
				props[pk[1]] = map[string]interface{}{"type": "number"}
			}
		}
		paths := d["paths"].(map[string]interface{})
		pks := sortedKeysOf(paths)
		delete(paths, pks[0])
		paths["/new/{id}"] = paths[pks[1]]
		specB, _ = json.MarshalIndent(d, "", " ")
	}
	_ = os.WriteFile(filepath.Join(root, "a.json"), specA, 0o644)
	_ = os.WriteFile(filepath.Join(root, "b.json"), specB, 0o644)
	mixin := []byte(`{"swagger":"2.0","info":{"title":"m","version":"1"},"paths":{"/mixed":{"get":{"operationId":"mixed","responses":{"200":{"description":"ok"}}}}},"definitions":{"mixedDef":{"type":"object","properties":{"a":{"type":"string"},"b":{"type":"string"},"c":{"type":"string"}}}},"x-mixed":1}`)
	_ = os.WriteFile(filepath.Join(root, "m.json"), mixin, 0o644)
	replayBase := map[string]interface{}{"spec_a": json.RawMessage(specA), "spec_b": json.RawMessage(specB), "mixin": json.RawMessage(mixin)}
	tgt := func(root string) string { return filepath.Join(root, "target") }
	cmds := []c07Cmd{
		{name: "generate model", args: func(string) []string { return []string{"generate", "model", "-f", "a.json", "-t", "target"} }, out: tgt},
		{name: "generate server", args: func(string) []string {
			return []string{"generate", "server", "-f", "a.json", "-t", "target", "-A", "wide"}
		}, out: tgt},
		{name: "generate client", args: func(string) []string {
			return []string{"generate", "client", "-f", "a.json", "-t", "target", "-A", "wide"}
		}, out: tgt},
		{name: "generate cli", args: func(string) []string {
			return []string{"generate", "cli", "-f", "a.json", "-t", "target", "-A", "wide"}
		}, out: tgt},
		{name: "generate markdown", args: func(string) []string {
			return []string{"generate", "markdown", "-f", "a.json", "-t", "target", "--output", "api.md"}
		}, out: tgt},
		{name: "flatten", args: func(string) []string { return []string{"flatten", "a.json", "-o", "target/flat.json"} }, out: tgt},
		{name: "flatten --with-flatten=full", args: func(string) []string {
			return []string{"flatten", "--with-flatten=full", "a.json", "-o", "target/flat.json"}
		}, out: tgt},
		{name: "expand", args: func(string) []string { return []string{"expand", "a.json", "-o", "target/expanded.json"} }, out: tgt},
		{name: "mixin", args: func(string) []string { return []string{"mixin", "a.json", "m.json", "-o", "target/mixed.json"} }, out: tgt},
		{name: "diff (text)", args: func(string) []string { return []string{"diff", "-d", "target/report.txt", "a.json", "b.json"} }, out: tgt},
		{name: "diff (json)", args: func(string) []string {
			return []string{"diff", "-f", "json", "-d", "target/report.json", "a.json", "b.json"}
		}, out: tgt},
		{name: "generate spec (petstore fixture)", args: func(root string) []string {
			return []string{"generate", "spec", "-w", "./fixtures/goparsing/petstore/petstore-fixture", "-o", filepath.Join(root, "target", "scanned.json")}
		}, out: tgt, wd: Repo()},
		{name: "generate spec (classification fixture)", args: func(root string) []string {
			return []string{"generate", "spec", "-w", "./fixtures/goparsing/classification", "-o", filepath.Join(root, "target", "scanned.json")}
		}, out: tgt, wd: Repo()},
	}
	type runOut struct {
		code int
		out  string
		dg   string
		tree map[string]string
		dir  string
	}
	results := make([][]runOut, len(cmds))
	type jobT struct{ ci, k int }
	jobs := make(chan jobT)
	var wg sync.WaitGroup
	for w := 0; w < 12; w++ {
		wg.Add(1)
		go func() {
			defer wg.Done()
			for j := range jobs {
				c := cmds[j.ci]
				sub := filepath.Join(root, fmt.Sprintf("c%d", j.ci), fmt.Sprintf("r%d", j.k))
				_ = os.MkdirAll(filepath.Join(sub, "target"), 0o755)
				_ = InitModule(sub, "x")
				for _, f := range []string{"a.json", "b.json", "m.json"} {
					b, _ := os.ReadFile(filepath.Join(root, f))
					_ = os.WriteFile(filepath.Join(sub, f), b, 0o644)
				}
				wd := sub
				if c.wd != "" {
					wd = c.wd
				}
				res := Run(wd, 300*time.Second, bin, c.args(sub)...)
				ro := runOut{code: res.Code, out: res.Out, dir: sub}
				if c.out == nil {
					h := sha256.Sum256([]byte(res.Out))
					ro.dg = hex.EncodeToString(h[:8])
				} else {
					ro.dg, ro.tree = treeDigest(c.out(sub))
				}
				results[j.ci][j.k] = ro
			}
		}()
	}
	for ci := range cmds {
		results[ci] = make([]runOut, n)
	}
	for k := 0; k < n; k++ {
		for ci := range cmds {
			jobs <- jobT{ci, k}
		}
	}
	close(jobs)
	wg.Wait()
	for ci, c := range cmds {
		digests := map[string]int{}
		var diffFile, exA, exB string
		fails := 0
		firstK := -1
		for k := 0; k < n; k++ {
			ro := results[ci][k]
			run.Traces++
			// diff exits non-zero when it reports breaking differences: the report is the output
			if ro.code != 0 && !strings.HasPrefix(c.name, "diff") {
				fails++
				if fails == 1 {
					st["command-fails:"+c.name]++
					if os.Getenv("VERIF_DEBUG") != "" {
						fmt.Fprintln(os.Stderr, c.name, "fails:", tail(ro.out, 600))
					}
				}
				continue
			}
			digests[ro.dg]++
			if firstK < 0 {
				firstK = k
				continue
			}
			f0 := results[ci][firstK]
			if diffFile == "" && ro.dg != f0.dg {
				if c.out == nil {
					diffFile, exA, exB = "stdout", f0.out, ro.out
				} else {
					for _, f := range SortedKeys(ro.tree) {
						if f0.tree[f] != ro.tree[f] {
							diffFile = f
							ba, _ := os.ReadFile(filepath.Join(c.out(f0.dir), f))
							bb, _ := os.ReadFile(filepath.Join(c.out(ro.dir), f))
							exA, exB = string(ba), string(bb)
							break
						}
					}
					if diffFile == "" {
						diffFile = "(file set differs)"
					}
				}
			}
		}
		first := map[string]string{}
		if firstK >= 0 {
			first = results[ci][firstK].tree
		}
		run.Case(c.name)
		if fails == n {
			st["skipped(command fails)"]++
			continue
		}
		if len(digests) > 1 {
			st["UNSTABLE:"+c.name]++
			la, lb := firstDiffLines(exA, exB)
			replay := map[string]interface{}{"command": append([]string{"swagger"}, c.args("<root>")...), "runs": n, "distinct_outputs": len(digests), "first_differing_file": diffFile,
				"line_in_one_run": la, "line_in_another_run": lb, "how": "write spec_a as a.json (spec_b as b.json, mixin as m.json), run the command repeatedly into an emptied ./target and compare"}
			for k, v := range replayBase {
				replay[k] = v
			}
			kind := diffFile
			if strings.HasPrefix(c.name, "diff") {
				// same lines in another order, or different lines?
				sa, sb := strings.Split(exA, "\n"), strings.Split(exB, "\n")
				sort.Strings(sa)
				sort.Strings(sb)
				if strings.Join(sa, "\n") == strings.Join(sb, "\n") {
					kind = "same-differences-in-another-order"
				} else {
					kind = "different-differences"
				}
			}
			run.Deviation("unstable:"+c.name+":"+kind, fmt.Sprintf("%d runs of `swagger %s` on the same input gave %d different outputs (first differing file %s: %q vs %q)", n, c.name, len(digests), diffFile, clip(la, 120), clip(lb, 120)), replay)
		} else {
			st["stable:"+c.name]++
		}
		if len(run.Samples) < 3 {
			run.Sample(map[string]interface{}{"command": c.name, "runs": n, "distinct_outputs": len(digests), "files": len(first)})
		}
	}
	c07Small(run, st, bin)
	// schedules: concurrent generations through the library in ONE process, under the race detector
	raceSpec := c08Spec([]c08op{{"get", "/a/{id}", "getA"}, {"post", "/a", "postA"}, {"put", "/b/{id}", "putB"}, {"delete", "/b/{id}", "delB"}}, []string{"alpha", "beta", "gamma"})
	c07Race(run, st, raceSpec)
	c07History(run, st, raceSpec)
	run.Extra["distribution"] = st
	run.Extra["runs_per_command"] = n
}

// c07Race builds cmd/vxrace with -race, runs six generations (server, client, model twice) concurrently and
// sequentially into sibling targets of one module and compares the trees; data races are reported by the runtime.
func c07Race(run *ev.Run, st map[string]int, spec []byte) {
	hdir := filepath.Join(ev.VerifDir(), "harness")
	bin := filepath.Join(hdir, "bin", "vxrace")
	cmd := exec.Command("go", "build", "-race", "-tags", "verif", "-o", bin, "./cmd/vxrace")
	cmd.Dir = hdir
	cmd.Env = append(goEnv(), "CGO_ENABLED=1")
	if out, err := cmd.CombinedOutput(); err != nil {
		st["race-build-unavailable"]++
		run.Assume = append(run.Assume, "the race-detector build of the concurrency harness failed ("+firstLine(string(out))+"): schedules were not exercised in this run")
		return
	}
	kinds := "server,client,model,server,client,model"
	trees := map[bool]map[string]string{}
	for _, conc := range []bool{false, true} {
		root, err := ScratchRoot("c07r")
		if err != nil {
			return
		}
		defer os.RemoveAll(root)
		_ = InitModule(root, "x")
		sp := filepath.Join(root, "spec.json")
		_ = os.WriteFile(sp, spec, 0o644)
		res := Run(root, 600*time.Second, bin, root, sp, kinds, fmt.Sprint(conc))
		run.Traces++
		run.Case(fmt.Sprintf("race|%v", conc))
		if n := strings.Count(res.Out, "WARNING: DATA RACE"); n > 0 {
			st["DATA-RACES"] += n
			i := strings.Index(res.Out, "WARNING: DATA RACE")
			run.Deviation("data-race:"+raceSite(res.Out[i:]), fmt.Sprintf("%d data race reports while %s generations ran in one process (concurrent=%v)", n, kinds, conc),
				map[string]interface{}{"spec": json.RawMessage(spec), "first_report": clip(res.Out[i:], 3000), "how": "go build -race ./cmd/vxrace (harness); vxrace <module root> spec.json " + kinds + " true"})
		}
		if strings.Contains(res.Out, "ERR ") || strings.Contains(res.Out, "PANIC ") {
			st["race-run-generation-error"]++
		}
		t := map[string]string{}
		for i := range strings.Split(kinds, ",") {
			for f, h := range Tree(filepath.Join(root, fmt.Sprintf("t%d", i))) {
				if strings.HasSuffix(f, ".go") {
					b, _ := os.ReadFile(filepath.Join(root, fmt.Sprintf("t%d", i), f))
					// the target directory name is embedded in a go:generate line and in import paths: not noise, an input
					hs := sha256.Sum256([]byte(strings.ReplaceAll(string(b), fmt.Sprintf("t%d", i), "tN")))
					h = hex.EncodeToString(hs[:8])
				}
				t[fmt.Sprintf("t%d/%s", i, f)] = h
			}
		}
		trees[conc] = t
	}
	var diff []string
	for f, h := range trees[false] {
		if trees[true][f] != h {
			diff = append(diff, f)
		}
	}
	for f := range trees[true] {
		if _, ok := trees[false][f]; !ok {
			diff = append(diff, f)
		}
	}
	sort.Strings(diff)
	if len(diff) > 0 {
		st["CONCURRENT-OUTPUT-DIFFERS"]++
		run.Deviation("concurrent-output-differs", fmt.Sprintf("concurrent generations in one process write different files than the same generations run one after the other: %v", clipList(diff, 6)),
			map[string]interface{}{"spec": json.RawMessage(spec), "files": diff})
	} else {
		st["concurrent-equals-sequential"]++
		st["files-compared"] = len(trees[false])
	}
}

// c07SmallSpecs: compact definition sets whose generation order matters only if the generator keeps state between definitions
// (few definitions: each of the few possible orders is likely within a couple of dozen runs).
var c07SmallSpecs = map[string]string{
	"alias-of-alias": `{"swagger":"2.0","info":{"title":"t","version":"1"},"paths":{},"definitions":{"B1":{"type":"string","maxLength":3},"A1":{"$ref":"#/definitions/B1"},
		"Obj":{"type":"object","properties":{"p":{"$ref":"#/definitions/A1"},"q":{"$ref":"#/definitions/B1"}}}}}`,
	"alias-of-array-and-map": `{"swagger":"2.0","info":{"title":"t","version":"1"},"paths":{},"definitions":{"L":{"type":"array","items":{"type":"integer","minimum":1}},"LA":{"$ref":"#/definitions/L"},
		"M":{"type":"object","additionalProperties":{"type":"string","minLength":2}},"MA":{"$ref":"#/definitions/M"},
		"User":{"type":"object","properties":{"l":{"$ref":"#/definitions/LA"},"m":{"$ref":"#/definitions/MA"},"ll":{"type":"array","items":{"$ref":"#/definitions/LA"}}}}}}`,
	"allOf-chain": `{"swagger":"2.0","info":{"title":"t","version":"1"},"paths":{},"definitions":{"Base":{"type":"object","required":["id"],"properties":{"id":{"type":"integer"}}},
		"Mid":{"allOf":[{"$ref":"#/definitions/Base"},{"type":"object","properties":{"n":{"type":"string","maxLength":2}}}]},"MidAlias":{"$ref":"#/definitions/Mid"},
		"Top":{"type":"object","properties":{"m":{"$ref":"#/definitions/MidAlias"},"ms":{"type":"object","additionalProperties":{"$ref":"#/definitions/MidAlias"}}}}}}`,
}

// c07Small runs `generate model` many times on each small spec and compares the trees.
func c07Small(run *ev.Run, st map[string]int, bin string) {
	runs := 24
	if run.Tier == "thorough" {
		runs = 96
	}
	names := []string{}
	for k := range c07SmallSpecs {
		names = append(names, k)
	}
	sort.Strings(names)
	for _, name := range names {
		root, err := ScratchRoot("c07s")
		if err != nil {
			return
		}
		type res struct {
			dg   string
			tree map[string]string
			dir  string
			code int
		}
		out := make([]res, runs)
		var wg sync.WaitGroup
		sem := make(chan struct{}, 12)
		for k := 0; k < runs; k++ {
			wg.Add(1)
			go func(k int) {
				defer wg.Done()
				sem <- struct{}{}
				defer func() { <-sem }()
				sub := filepath.Join(root, fmt.Sprintf("r%d", k))
				_ = os.MkdirAll(filepath.Join(sub, "target"), 0o755)
				_ = InitModule(sub, "x")
				_ = os.WriteFile(filepath.Join(sub, "s.json"), []byte(c07SmallSpecs[name]), 0o644)
				r := Run(sub, 120*time.Second, bin, "generate", "model", "-f", "s.json", "-t", "target")
				dg, tree := treeDigest(filepath.Join(sub, "target"))
				out[k] = res{dg: dg, tree: tree, dir: sub, code: r.Code}
			}(k)
		}
		wg.Wait()
		digests := map[string]int{}
		other := -1
		for k := range out {
			run.Traces++
			if out[k].code != 0 {
				st["small-spec-generation-fails:"+name]++
				continue
			}
			digests[out[k].dg]++
			if out[k].dg != out[0].dg && other < 0 {
				other = k
			}
		}
		run.Case("small:" + name)
		if len(digests) > 1 && other >= 0 {
			st["UNSTABLE:small:"+name]++
			file := "(file set differs)"
			var la, lb string
			for _, f := range SortedKeys(out[other].tree) {
				if out[0].tree[f] != out[other].tree[f] {
					file = f
					ba, _ := os.ReadFile(filepath.Join(out[0].dir, "target", f))
					bb, _ := os.ReadFile(filepath.Join(out[other].dir, "target", f))
					la, lb = firstDiffLines(string(ba), string(bb))
					break
				}
			}
			run.Deviation("unstable:generate model:small-spec:"+name, fmt.Sprintf("%d runs of `swagger generate model` on the %s spec gave %d different outputs (first differing file %s: %q vs %q)", runs, name, len(digests), file, clip(la, 120), clip(lb, 120)),
				map[string]interface{}{"spec": json.RawMessage(c07SmallSpecs[name]), "runs": runs, "distinct_outputs": len(digests), "first_differing_file": file, "line_in_one_run": la, "line_in_another_run": lb,
					"how": "swagger generate model -f spec.json -t target, repeatedly into an emptied target; compare the trees"})
		} else {
			st["stable:small:"+name]++
		}
		_ = os.RemoveAll(root)
	}
}

// c07Docstring is a template directory that overrides one DEPENDENCY template (docstring is pulled in by the model templates).
const c07Docstring = `{{ define "docstring" }}
  {{- if .Title }}{{ comment .Title }}{{ else }}{{ humanize .Name }}{{ end }}
//
// (house style of the verification harness)
{{- end }}
`

// c07History: several generations one after the other in ONE process, some with a custom template directory: each target must
// be byte-identical to what a fresh process writes for that generation alone (no state may leak from one call of the library
// into the next). Uses the race-detector binary built by c07Race.
func c07History(run *ev.Run, st map[string]int, spec []byte) {
	bin := filepath.Join(ev.VerifDir(), "harness", "bin", "vxrace")
	if _, err := os.Stat(bin); err != nil {
		return
	}
	histories := []string{"model,model@tpl,model,server@tpl,server", "model@tpl,model,client,client@tpl"}
	for hi, kinds := range histories {
		mk := func() (string, string) {
			root, err := ScratchRoot("c07h")
			if err != nil {
				return "", ""
			}
			_ = InitModule(root, "x")
			_ = os.MkdirAll(filepath.Join(root, "tpl"), 0o755)
			_ = os.WriteFile(filepath.Join(root, "tpl", "docstring.gotmpl"), []byte(c07Docstring), 0o644)
			sp := filepath.Join(root, "spec.json")
			_ = os.WriteFile(sp, spec, 0o644)
			return root, sp
		}
		hash := func(root string, i int) map[string]string {
			t := map[string]string{}
			dir := filepath.Join(root, fmt.Sprintf("t%d", i))
			for f, h := range Tree(dir) {
				if strings.HasSuffix(f, ".go") {
					b, _ := os.ReadFile(filepath.Join(dir, f))
					// the scratch root (it appears in the go:generate line through --template-dir) is an input, not noise
					txt := strings.ReplaceAll(strings.ReplaceAll(string(b), root, "ROOT"), fmt.Sprintf("t%d", i), "tN")
					hs := sha256.Sum256([]byte(txt))
					h = hex.EncodeToString(hs[:8])
				}
				t[f] = h
			}
			return t
		}
		root, sp := mk()
		if root == "" {
			return
		}
		res := Run(root, 600*time.Second, bin, root, sp, kinds, "false")
		run.Traces++
		run.Case(fmt.Sprintf("history|%d", hi))
		if strings.Contains(res.Out, "ERR ") || strings.Contains(res.Out, "PANIC ") {
			st["history-generation-error"]++
		}
		for i, k := range strings.Split(kinds, ",") {
			// the same generation alone in a fresh process, at the same target index
			froot, fsp := mk()
			if froot == "" {
				continue
			}
			pad := make([]string, i+1)
			for j := range pad {
				pad[j] = "skip"
			}
			pad[i] = k
			_ = Run(froot, 600*time.Second, bin, froot, fsp, strings.Join(pad, ","), "false")
			a, b := hash(root, i), hash(froot, i)
			var diff []string
			for f, h := range b {
				if a[f] != h {
					diff = append(diff, f)
				}
			}
			for f := range a {
				if _, ok := b[f]; !ok {
					diff = append(diff, "+"+f)
				}
			}
			sort.Strings(diff)
			_ = os.RemoveAll(froot)
			if len(b) == 0 {
				st["history-reference-empty"]++
				continue
			}
			if len(diff) > 0 {
				st["HISTORY-DEPENDENT-OUTPUT"]++
				run.Deviation("history-dependent-output", fmt.Sprintf("generation %d (%s) of the in-process history [%s] writes other files than the same generation alone in a fresh process: %v", i, k, kinds, clipList(diff, 6)),
					map[string]interface{}{"spec": json.RawMessage(spec), "history": kinds, "generation": i, "files": diff, "template_dir/docstring.gotmpl": c07Docstring,
						"how": "vxrace <module root> spec.json " + kinds + " false (kind@tpl = --template-dir <root>/tpl), then the generation alone in a fresh process"})
			} else {
				st["history-independent"]++
			}
		}
		_ = os.RemoveAll(root)
	}
}

func raceSite(report string) string {
	for _, l := range strings.Split(report, "\n") {
		l = strings.TrimSpace(l)
		if strings.HasPrefix(l, "github.com/") {
			if i := strings.Index(l, "("); i > 0 {
				l = l[:i]
			}
			return l[strings.LastIndex(l, "/")+1:]
		}
	}
	return "unknown"
}

func sortedKeysOf(m map[string]interface{}) []string {
	var ks []string
	for k := range m {
		ks = append(ks, k)
	}
	sort.Strings(ks)
	return ks
}

func clip(s string, n int) string {
	if len(s) > n {
		return s[:n]
	}
	return s
}

func firstDiffLines(a, b string) (string, string) {
	la, lb := strings.Split(a, "\n"), strings.Split(b, "\n")
	for i := 0; i < len(la) && i < len(lb); i++ {
		if la[i] != lb[i] {
			return la[i], lb[i]
		}
	}
	return "", ""
}
