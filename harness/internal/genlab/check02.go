package genlab

import (
	"encoding/json"
	"fmt"
	"sort"
	"strings"

	"github.com/go-openapi/spec"
	"github.com/go-openapi/strfmt"
	"github.com/go-openapi/validate"

	"verif/harness/internal/ev"
	"verif/harness/internal/proc"
	"verif/harness/internal/rng"
)

// MS is a model schema in the encoding of the Lean driver (numbers scaled by 1000).
type MS struct {
	Ref        string        `json:"ref,omitempty"`
	Ty         string        `json:"ty,omitempty"`
	Format     string        `json:"-"` // string formats (C05 only; the Lean semantics reads a formatted string as a string)
	Discrim    string        `json:"-"` // discriminator property of a polymorphic base type (C05 probes only)
	XClass     string        `json:"-"` // x-class: the discriminator value of a subtype
	Nullable   bool          `json:"nullable,omitempty"`
	ReadOnly   bool          `json:"readOnly,omitempty"`
	HasDefault bool          `json:"hasDefault,omitempty"`
	MinLen     *int          `json:"minLen,omitempty"`
	MaxLen     *int          `json:"maxLen,omitempty"`
	Minimum    *int64        `json:"minimum,omitempty"`
	ExMin      bool          `json:"exMin,omitempty"`
	Maximum    *int64        `json:"maximum,omitempty"`
	ExMax      bool          `json:"exMax,omitempty"`
	MultipleOf *int64        `json:"multipleOf,omitempty"`
	Enum       []interface{} `json:"enum,omitempty"`
	Items      *MS           `json:"items,omitempty"`
	MinItems   *int          `json:"minItems,omitempty"`
	MaxItems   *int          `json:"maxItems,omitempty"`
	Unique     bool          `json:"unique,omitempty"`
	MinProps   *int          `json:"minProps,omitempty"`
	MaxProps   *int          `json:"maxProps,omitempty"`
	Props      []MKV         `json:"props,omitempty"`
	Required   []string      `json:"required,omitempty"`
	Addl       *MS           `json:"addl,omitempty"`
	AllOf      []*MS         `json:"allOf,omitempty"`
	Default    interface{}   `json:"-"`
}

type MKV struct {
	K string `json:"k"`
	V *MS    `json:"v"`
}

func (s *MS) Render() map[string]interface{} {
	m := map[string]interface{}{}
	if s.Ref != "" {
		m["$ref"] = "#/definitions/" + s.Ref
		return m
	}
	if s.Ty != "" {
		m["type"] = s.Ty
	}
	if s.Format != "" {
		m["format"] = s.Format
	}
	if s.Discrim != "" {
		m["discriminator"] = s.Discrim
	}
	if s.XClass != "" {
		m["x-class"] = s.XClass
	}
	if s.Nullable {
		m["x-nullable"] = true
	}
	if s.ReadOnly {
		m["readOnly"] = true
	}
	if s.HasDefault {
		m["default"] = s.Default
	}
	if s.MinLen != nil {
		m["minLength"] = *s.MinLen
	}
	if s.MaxLen != nil {
		m["maxLength"] = *s.MaxLen
	}
	if s.Minimum != nil {
		m["minimum"] = float64(*s.Minimum) / 1000
		if s.ExMin {
			m["exclusiveMinimum"] = true
		}
	}
	if s.Maximum != nil {
		m["maximum"] = float64(*s.Maximum) / 1000
		if s.ExMax {
			m["exclusiveMaximum"] = true
		}
	}
	if s.MultipleOf != nil {
		m["multipleOf"] = float64(*s.MultipleOf) / 1000
	}
	if len(s.Enum) > 0 {
		m["enum"] = s.Enum
	}
	if s.Items != nil {
		m["items"] = s.Items.Render()
	}
	if s.MinItems != nil {
		m["minItems"] = *s.MinItems
	}
	if s.MaxItems != nil {
		m["maxItems"] = *s.MaxItems
	}
	if s.MinProps != nil {
		m["minProperties"] = *s.MinProps
	}
	if s.MaxProps != nil {
		m["maxProperties"] = *s.MaxProps
	}
	if s.Unique {
		m["uniqueItems"] = true
	}
	if len(s.Props) > 0 {
		p := map[string]interface{}{}
		for _, kv := range s.Props {
			p[kv.K] = kv.V.Render()
		}
		m["properties"] = p
	}
	if len(s.Required) > 0 {
		m["required"] = s.Required
	}
	if s.Addl != nil {
		m["additionalProperties"] = s.Addl.Render()
	}
	if len(s.AllOf) > 0 {
		var l []interface{}
		for _, a := range s.AllOf {
			l = append(l, a.Render())
		}
		m["allOf"] = l
	}
	return m
}

// definitions of the C05 run that carry string formats
var formatDefs = map[string]bool{"Lapse": true, "Day": true, "Stamp": true, "Ident": true, "Blob": true, "Task": true, "Budgets": true}

// values of the string formats in the canonical text strfmt writes back (so that a loss-free round trip is the identity)
var formatValues = map[string][]string{
	"duration":  {"3h0m0s", "1.5s", "250ms", "1m30s"},
	"date":      {"2020-01-02", "1999-12-31"},
	"date-time": {"2020-01-02T03:04:05.000Z", "1999-12-31T23:59:59.500Z"},
	"uuid":      {"a8098c1a-f86e-11da-bd1a-00112444be1e", "6ba7b810-9dad-11d1-80b4-00c04fd430c8"},
	"byte":      {"aGVsbG8=", "AAEC"},
}

type msGen struct {
	r        *rng.R
	defs     []string
	addlRefs []string // definitions an additionalProperties $ref may point to (the earlier ones: no cycle through maps)
}

var msPropNames = []string{"name", "size", "flag", "tags", "meta", "id", "ratio", "kind", "child", "foo-bar", "X Y"}

func (g *msGen) scalar() *MS {
	switch g.r.Intn(4) {
	case 0:
		s := &MS{Ty: "string"}
		if g.r.Chance(1, 2) {
			s.MinLen = ip(g.r.Intn(3))
		}
		if g.r.Chance(1, 2) {
			s.MaxLen = ip(3 + g.r.Intn(4))
		}
		if g.r.Chance(1, 5) {
			s.Enum = []interface{}{"ab", "abc", ""}
			s.MinLen, s.MaxLen = nil, nil
		}
		return s
	case 1:
		s := &MS{Ty: "integer"}
		if g.r.Chance(1, 2) {
			s.Minimum = i64p(int64(g.r.Intn(3)-1) * 1000)
			s.ExMin = g.r.Chance(1, 3)
		}
		if g.r.Chance(1, 2) {
			s.Maximum = i64p(int64(5+g.r.Intn(10)) * 1000)
			s.ExMax = g.r.Chance(1, 3)
		}
		if g.r.Chance(1, 5) {
			s.MultipleOf = i64p(2000)
		}
		if g.r.Chance(1, 6) {
			s.Enum = []interface{}{0, 2, 4}
		}
		return s
	case 2:
		s := &MS{Ty: "number"}
		if g.r.Chance(1, 2) {
			s.Minimum = i64p(500)
		}
		if g.r.Chance(1, 2) {
			s.Maximum = i64p(9500)
			s.ExMax = g.r.Chance(1, 2)
		}
		return s
	}
	return &MS{Ty: "boolean"}
}

func (g *msGen) schema(depth int) *MS {
	k := g.r.Intn(10)
	switch {
	case k < 4 || depth >= 3:
		return g.scalar()
	case k < 6:
		s := &MS{Ty: "array", Items: g.schema(depth + 1)}
		if g.r.Chance(1, 2) {
			s.MinItems = ip(g.r.Intn(2))
		}
		if g.r.Chance(1, 2) {
			s.MaxItems = ip(2 + g.r.Intn(2))
		}
		if s.Items.Ty != "array" && s.Items.Ty != "object" && s.Items.Ref == "" {
			s.Unique = g.r.Chance(1, 3)
		}
		return s
	case k < 8 && len(g.defs) > 0:
		return &MS{Ref: g.r.Pick(g.defs)}
	default:
		return g.object(depth + 1)
	}
}

func (g *msGen) object(depth int) *MS {
	s := &MS{Ty: "object"}
	names := append([]string{}, msPropNames...)
	g.r.Shuffle(len(names), func(i, j int) { names[i], names[j] = names[j], names[i] })
	n := 1 + g.r.Intn(4)
	for _, nm := range names[:n] {
		p := g.schema(depth)
		if p.Ref == "" && g.r.Chance(1, 8) {
			p.Nullable = true
		}
		if p.Ref == "" && p.Ty != "object" && p.Ty != "array" && g.r.Chance(1, 8) {
			p.ReadOnly = true
		}
		s.Props = append(s.Props, MKV{K: nm, V: p})
		if g.r.Chance(1, 3) {
			s.Required = append(s.Required, nm)
		}
	}
	if g.r.Chance(1, 6) {
		s.Addl = g.scalar()
		if len(g.addlRefs) > 0 && g.r.Chance(1, 3) {
			// map[string]<Model>: the element type may itself have properties + additionalProperties.  Only EARLIER definitions:
			// a definition whose additionalProperties reach itself makes the generator overflow its stack (C01 known finding)
			s.Addl = &MS{Ref: g.r.Pick(g.addlRefs)}
		}
	}
	// property counts: one bound, the other, or both (tight enough for instances and their mutations to cross them)
	hasArray := false
	for _, kv := range s.Props {
		if kv.V.Ty == "array" {
			hasArray = true // an absent array member without omitempty comes back as null from the re-marshalling the generated
			// count check relies on (known finding): counts are only generated where that cannot interfere
		}
	}
	switch k := g.r.Intn(8); {
	case hasArray:
	case k == 0:
		s.MinProps = ip(1 + g.r.Intn(2))
	case k == 1:
		s.MaxProps = ip(max(1, n-g.r.Intn(2)))
	case k == 2:
		s.MinProps, s.MaxProps = ip(1), ip(n+1)
	}
	return s
}

// valid instance by construction
func (g *msGen) instance(defs map[string]*MS, s *MS, depth int) interface{} {
	if s.Ref != "" {
		if depth > 6 {
			return map[string]interface{}{}
		}
		return g.instance(defs, defs[s.Ref], depth+1)
	}
	switch s.Ty {
	case "string":
		if len(s.Enum) > 0 {
			return s.Enum[g.r.Intn(len(s.Enum))]
		}
		if pool, ok := formatValues[s.Format]; ok {
			return g.r.Pick(pool)
		}
		n := 3
		if s.MinLen != nil && *s.MinLen > n {
			n = *s.MinLen
		}
		if s.MaxLen != nil && *s.MaxLen < n {
			n = *s.MaxLen
		}
		return strings.Repeat("a", n-1) + g.r.Pick([]string{"b", "c", "d"})[:min(1, n)]
	case "integer":
		if len(s.Enum) > 0 {
			return s.Enum[g.r.Intn(len(s.Enum))]
		}
		v := int64(2 + 2*g.r.Intn(2))
		return v
	case "number":
		return []float64{1.5, 2, 4.25}[g.r.Intn(3)]
	case "boolean":
		return g.r.Chance(1, 2)
	case "array":
		n := 1 + g.r.Intn(2)
		if s.MinItems != nil && *s.MinItems > n {
			n = *s.MinItems
		}
		out := []interface{}{}
		for i := 0; i < n; i++ {
			v := g.instance(defs, s.Items, depth+1)
			if s.Unique {
				switch t := v.(type) {
				case string:
					v = t + fmt.Sprint(i)
					if s.Items.MaxLen != nil && len(v.(string)) > *s.Items.MaxLen {
						v = v.(string)[len(v.(string))-*s.Items.MaxLen:]
					}
				case int64:
					v = t + int64(2*i)
				case float64:
					v = t + float64(i)
				}
			}
			out = append(out, v)
		}
		return out
	case "object":
		m := map[string]interface{}{}
		for _, kv := range s.Props {
			req := false
			for _, r := range s.Required {
				if r == kv.K {
					req = true
				}
			}
			if req || g.r.Chance(2, 3) {
				m[kv.K] = g.instance(defs, kv.V, depth+1)
			}
		}
		if s.Addl != nil && g.r.Chance(1, 2) {
			m["extra1"] = g.instance(defs, s.Addl, depth+1)
		}
		return m
	}
	return "x"
}

// zeroAnItem replaces one element of some array of scalars (at any depth) by the zero value of its type.
func (g *msGen) zeroAnItem(v interface{}) (interface{}, bool) {
	switch t := v.(type) {
	case []interface{}:
		if len(t) == 0 {
			return v, false
		}
		c := append([]interface{}{}, t...)
		i := g.r.Intn(len(c))
		switch c[i].(type) {
		case string:
			c[i] = ""
		case int64, int:
			c[i] = int64(0)
		case float64:
			c[i] = 0.0
		case bool:
			c[i] = false
		default:
			nv, ok := g.zeroAnItem(c[i])
			c[i] = nv
			return c, ok
		}
		return c, true
	case map[string]interface{}:
		keys := []string{}
		for k := range t {
			keys = append(keys, k)
		}
		sort.Strings(keys)
		g.r.Shuffle(len(keys), func(a, b int) { keys[a], keys[b] = keys[b], keys[a] })
		for _, k := range keys {
			if nv, ok := g.zeroAnItem(t[k]); ok {
				c := map[string]interface{}{}
				for kk, vv := range t {
					c[kk] = vv
				}
				c[k] = nv
				return c, true
			}
		}
	}
	return v, false
}

// single-point mutations of an instance
func (g *msGen) mutate(v interface{}) (interface{}, string) {
	switch t := v.(type) {
	case map[string]interface{}:
		if len(t) == 0 {
			return map[string]interface{}{"zz": 1}, "add-unknown"
		}
		keys := []string{}
		for k := range t {
			keys = append(keys, k)
		}
		k := keys[g.r.Intn(len(keys))]
		c := map[string]interface{}{}
		for kk, vv := range t {
			c[kk] = vv
		}
		switch g.r.Intn(6) {
		case 0:
			delete(c, k)
			return c, "drop:" + k
		case 1:
			c[k] = nil
			return c, "null:" + k
		case 2:
			c["zz"] = "unknown"
			return c, "add-unknown"
		default:
			nv, what := g.mutate(t[k])
			c[k] = nv
			return c, k + "." + what
		}
	case []interface{}:
		switch {
		case len(t) == 0 || g.r.Chance(1, 4):
			return []interface{}{}, "empty-array"
		case g.r.Chance(1, 3):
			return append(append([]interface{}{}, t...), t[0], t[0], t[0]), "grow-dup"
		default:
			c := append([]interface{}{}, t...)
			i := g.r.Intn(len(c))
			nv, what := g.mutate(c[i])
			c[i] = nv
			return c, fmt.Sprintf("[%d].%s", i, what)
		}
	case string:
		return g.r.Pick([]string{"", "a", "abcdefghijk", "ab"}), "string"
	case int64:
		return []interface{}{int64(0), int64(-1), int64(1), int64(100), 1.5, int64(3)}[g.r.Intn(6)], "int"
	case int:
		return []interface{}{0, -1, 1, 100, 1.5, 3}[g.r.Intn(6)], "int"
	case float64:
		return []interface{}{0.0, 0.25, 9.5, 100.0, "x"}[g.r.Intn(5)], "num"
	case bool:
		if g.r.Chance(1, 3) {
			return "true", "bool->string"
		}
		return !t, "bool"
	}
	return v, "none"
}

func modelSpec(defs []MKV) []byte {
	d := map[string]interface{}{}
	for _, kv := range defs {
		d[kv.K] = kv.V.Render()
	}
	doc := map[string]interface{}{"swagger": "2.0", "info": map[string]interface{}{"title": "m", "version": "1"}, "paths": map[string]interface{}{}, "definitions": d}
	b, _ := json.MarshalIndent(doc, "", " ")
	return b
}

// refValid asks the reference validator.
func refValid(specDoc []byte, def string, doc []byte) (ok bool, msg string) {
	defer func() {
		if r := recover(); r != nil {
			ok, msg = false, fmt.Sprint("validator panic: ", r)
		}
	}()
	var root interface{}
	_ = json.Unmarshal(specDoc, &root)
	var sw spec.Swagger
	if err := json.Unmarshal(specDoc, &sw); err != nil {
		return false, err.Error()
	}
	sch := sw.Definitions[def]
	if err := spec.ExpandSchema(&sch, root, nil); err != nil {
		return false, "expand: " + err.Error()
	}
	var v interface{}
	_ = json.Unmarshal(doc, &v)
	res := validate.NewSchemaValidator(&sch, root, "", strfmt.Default).Validate(v)
	if res.HasErrors() {
		return false, res.AsError().Error()
	}
	return true, ""
}

type schemaCheck struct {
	R         string `json:"r"`
	Valid     bool   `json:"valid"`
	ValidSkip bool   `json:"validSkip"`
	ValidAny  bool   `json:"validAny"` // accepted under SOME per-site choice of readings of the documented relaxation
	ValidAll  bool   `json:"validAll"` // accepted under EVERY choice
	NoZero    bool   `json:"noZero"`
	Tolerated bool   `json:"tolerated"`
	Equal     bool   `json:"equal"`
}

func callSchema(m *proc.P, op string, defs []MKV, s *MS, j, j2 json.RawMessage) (schemaCheck, error) {
	req := map[string]interface{}{"op": op, "defs": defs, "s": s, "j": j}
	if j2 != nil {
		req["j2"] = j2
	}
	b, _ := json.Marshal(req)
	out, err := m.Call(b)
	var r schemaCheck
	if err == nil {
		err = json.Unmarshal(out, &r)
	}
	return r, err
}

func hasNull(v interface{}) bool {
	switch t := v.(type) {
	case nil:
		return true
	case map[string]interface{}:
		for _, x := range t {
			if hasNull(x) {
				return true
			}
		}
	case []interface{}:
		for _, x := range t {
			if hasNull(x) {
				return true
			}
		}
	}
	return false
}

// modelsRun generates definition sets, compiles their models and feeds instances; which selects the property.
func modelsRun(run *ev.Run, which string) {
	m := driver()
	defer m.Close()
	r := rng.New(uint64(run.Seed) + 2)
	nSpecs, nInst := 3, 60
	if run.Tier == "thorough" {
		nSpecs, nInst = 30, 150
	}
	if !run.Lean.OK {
		nSpecs *= 2
	}
	st := map[string]int{}
	for si := 0; si < nSpecs; si++ {
		g := &msGen{r: r.Fork(), defs: []string{"Alpha", "Beta", "Gamma"}}
		var defs []MKV
		dm := map[string]*MS{}
		for i, n := range g.defs {
			g.addlRefs = g.defs[:i]
			var s *MS
			if i == 2 && g.r.Chance(1, 2) {
				// allOf of a $ref and an inline object
				inl := g.object(2)
				have := map[string]bool{}
				for _, kv := range dm["Alpha"].Props {
					have[kv.K] = true
				}
				var ps []MKV
				var req []string
				for _, kv := range inl.Props {
					if !have[kv.K] {
						ps = append(ps, kv)
					}
				}
				for _, rq := range inl.Required {
					if !have[rq] {
						req = append(req, rq)
					}
				}
				inl.Props, inl.Required, inl.Addl = ps, req, nil
				// no property counts inside an allOf member: the generated code counts the members of that member's own struct,
				// not of the whole object (recorded in DESIGN.md as an observation; it would mask everything else here)
				inl.MinProps, inl.MaxProps = nil, nil
				s = &MS{AllOf: []*MS{{Ref: "Alpha"}, inl}}
			} else {
				s = g.object(1)
			}
			defs = append(defs, MKV{K: n, V: s})
			dm[n] = s
		}
		// five fixed shapes every definition set carries (they are reached rarely by the random shapes): an object with ONE
		// property-count bound, an element type with properties + additionalProperties, a map of such elements, arrays of scalars whose constraints exclude the zero value, and required read-only scalars
		counted := &MS{Ty: "object", Props: []MKV{{K: "a", V: &MS{Ty: "string"}}, {K: "b", V: &MS{Ty: "integer"}}, {K: "c", V: &MS{Ty: "boolean"}}}}
		if si%2 == 0 {
			counted.MaxProps = ip(2)
		} else {
			counted.MinProps = ip(2)
		}
		elem := &MS{Ty: "object", Props: []MKV{{K: "kind", V: &MS{Ty: "string"}}, {K: "size", V: &MS{Ty: "integer"}}}, Addl: &MS{Ty: "integer"}}
		bag := &MS{Ty: "object", Addl: &MS{Ref: "Elem"}}
		itemsDef := &MS{Ty: "object", Props: []MKV{
			{K: "quantities", V: &MS{Ty: "array", Items: &MS{Ty: "integer", Minimum: i64p(1000)}}},
			{K: "codes", V: &MS{Ty: "array", Items: &MS{Ty: "string", MinLen: ip(1)}}},
			{K: "ratios", V: &MS{Ty: "array", Items: &MS{Ty: "number", Minimum: i64p(0), ExMin: true}}},
			{K: "grid", V: &MS{Ty: "array", Items: &MS{Ty: "array", Items: &MS{Ty: "integer", Minimum: i64p(1000)}}}}}}
		ticket := &MS{Ty: "object", Required: []string{"id", "createdBy", "archived", "title"}, Props: []MKV{
			{K: "id", V: &MS{Ty: "integer", ReadOnly: true}}, {K: "createdBy", V: &MS{Ty: "string", ReadOnly: true}},
			{K: "archived", V: &MS{Ty: "boolean", ReadOnly: true}}, {K: "title", V: &MS{Ty: "string"}}, {K: "note", V: &MS{Ty: "string"}}}}
		// named numeric definitions whose two bounds differ in exclusivity (the generated code converts the named type before
		// comparing), used directly, through $ref and as array items; the instance values 1.5 / 2 / 4.25 and 2 / 4 sit on the bounds
		ratio := &MS{Ty: "number", Minimum: i64p(1500), ExMin: true, Maximum: i64p(4250)}
		level := &MS{Ty: "integer", Minimum: i64p(2000), Maximum: i64p(4000), ExMax: true}
		gauge := &MS{Ty: "object", Required: []string{"gain"}, Props: []MKV{{K: "gain", V: &MS{Ref: "Ratio"}}, {K: "level", V: &MS{Ref: "Level"}},
			{K: "gains", V: &MS{Ty: "array", Items: &MS{Ref: "Ratio"}}}}}
		// an alias of an alias (`CodeAlias: {$ref: Code}`) used as a property: the validations of Code apply through both names
		code := &MS{Ty: "string", MaxLen: ip(3)}
		holder := &MS{Ty: "object", Props: []MKV{{K: "c", V: &MS{Ref: "CodeAlias"}}, {K: "d", V: &MS{Ref: "Code"}}}}
		fixed := []MKV{{K: "Counted", V: counted}, {K: "Elem", V: elem}, {K: "Bag", V: bag}, {K: "Items", V: itemsDef}, {K: "Ticket", V: ticket},
			{K: "Ratio", V: ratio}, {K: "Level", V: level}, {K: "Gauge", V: gauge}, {K: "Code", V: code}, {K: "CodeAlias", V: &MS{Ref: "Code"}}, {K: "Holder", V: holder},
			// maps of validated primitives: a zero value (0, "", false) is a value like any other
			{K: "Stock", V: &MS{Ty: "object", Addl: &MS{Ty: "integer", Minimum: i64p(0)}}},
			{K: "Labels", V: &MS{Ty: "object", Addl: &MS{Ty: "string", MaxLen: ip(5)}}},
			{K: "Flags", V: &MS{Ty: "object", Addl: &MS{Ty: "boolean"}}}}
		if which == "C05" {
			// named string formats (aliases of the strfmt types) used directly, through $ref, as array items and as map values;
			// C02 leaves them out: its Lean semantics does not read formats
			fixed = append(fixed,
				MKV{K: "Lapse", V: &MS{Ty: "string", Format: "duration"}}, MKV{K: "Day", V: &MS{Ty: "string", Format: "date"}},
				MKV{K: "Stamp", V: &MS{Ty: "string", Format: "date-time"}}, MKV{K: "Ident", V: &MS{Ty: "string", Format: "uuid"}},
				MKV{K: "Blob", V: &MS{Ty: "string", Format: "byte"}},
				MKV{K: "Task", V: &MS{Ty: "object", Required: []string{"timeout", "owner"}, Props: []MKV{
					{K: "timeout", V: &MS{Ref: "Lapse"}}, {K: "due", V: &MS{Ref: "Day"}}, {K: "at", V: &MS{Ref: "Stamp"}}, {K: "owner", V: &MS{Ref: "Ident"}},
					{K: "payload", V: &MS{Ref: "Blob"}}, {K: "grace", V: &MS{Ty: "string", Format: "duration"}}, {K: "born", V: &MS{Ty: "string", Format: "date"}},
					{K: "lapses", V: &MS{Ty: "array", Items: &MS{Ref: "Lapse"}}}, {K: "days", V: &MS{Ty: "array", Items: &MS{Ref: "Day"}}}}}},
				MKV{K: "Budgets", V: &MS{Ty: "object", Addl: &MS{Ref: "Lapse"}}})
		}
		for _, kv := range fixed {
			defs = append(defs, kv)
			dm[kv.K] = kv.V
			g.defs = append(g.defs, kv.K)
		}
		if which == "C05" {
			// a polymorphic hierarchy (discriminator `type`; one subtype names its value with x-class): reached through hand-made
			// probes only, the random stream does not know which discriminator values exist
			animal := &MS{Ty: "object", Discrim: "type", Required: []string{"type", "name"}, Props: []MKV{{K: "type", V: &MS{Ty: "string"}}, {K: "name", V: &MS{Ty: "string"}}}}
			dog := &MS{AllOf: []*MS{{Ref: "Animal"}, {Ty: "object", Props: []MKV{{K: "bark", V: &MS{Ty: "boolean"}}}}}}
			cat := &MS{XClass: "feline", AllOf: []*MS{{Ref: "Animal"}, {Ty: "object", Props: []MKV{{K: "claws", V: &MS{Ty: "integer"}}}}}}
			zoo := &MS{Ty: "object", Props: []MKV{{K: "star", V: &MS{Ref: "Animal"}}, {K: "all", V: &MS{Ty: "array", Items: &MS{Ref: "Animal"}}}}}
			for _, kv := range []MKV{{K: "Animal", V: animal}, {K: "Dog", V: dog}, {K: "Cat", V: cat}, {K: "Zoo", V: zoo}} {
				defs = append(defs, kv)
				dm[kv.K] = kv.V
			}
		}
		// keep $ref cycles out of required chains: instances are built with a depth bound anyway
		specDoc := modelSpec(defs)
		mb, err := BuildModels("c02", specDoc)
		if err != nil {
			st["build-failed"]++
			// a models package that does not compile is C01's finding; counted here, and a run in which nothing builds is a broken tie
			st["subject-does-not-build(C01)"]++
			if mb != nil {
				mb.Remove()
			}
			continue
		}
		// every fixed definition gets its share of the instances (three rounds over them), the rest is drawn at random
		var fixedNames []string
		for _, kv := range fixed {
			fixedNames = append(fixedNames, kv.K)
		}
		total := nInst
		if total < 3*len(fixedNames)+20 {
			total = 3*len(fixedNames) + 20
		}
		// hand-made probes for the fixed definitions (the points the random mutations reach only rarely)
		type probe struct {
			def  string
			inst interface{}
		}
		probes := []probe{
			{"Holder", map[string]interface{}{"c": "abcdefghijk"}}, {"Holder", map[string]interface{}{"d": "abcdefghijk"}},
			{"Holder", map[string]interface{}{"c": "abc", "d": "ab"}}, {"CodeAlias", "abcdefghijk"}, {"Code", "abcd"}, {"CodeAlias", "abc"},
			{"Gauge", map[string]interface{}{"gain": 1.5}}, {"Gauge", map[string]interface{}{"gain": 4.25, "level": int64(4)}},
			{"Gauge", map[string]interface{}{"gain": 2.0, "level": int64(2), "gains": []interface{}{1.5}}},
			{"Bag", map[string]interface{}{"k1": map[string]interface{}{"kind": "x", "size": int64(2), "extra1": int64(7)}}},
			{"Elem", map[string]interface{}{"kind": "x", "extra1": int64(7), "extra2": int64(8)}},
			{"Stock", map[string]interface{}{"apples": int64(3), "pears": int64(0)}}, {"Stock", map[string]interface{}{"apples": int64(-1)}},
			{"Labels", map[string]interface{}{"a": "", "b": "xy"}}, {"Labels", map[string]interface{}{"a": "toolong"}},
			{"Flags", map[string]interface{}{"on": false, "off": true}},
		}
		if which == "C05" {
			tom := map[string]interface{}{"type": "feline", "name": "tom", "claws": int64(3)}
			rex := map[string]interface{}{"type": "Dog", "name": "rex", "bark": true}
			probes = append(probes, probe{"Cat", tom}, probe{"Dog", rex}, probe{"Zoo", map[string]interface{}{"star": tom, "all": []interface{}{rex, tom}}})
		}
		for ii := -len(probes); ii < total; ii++ {
			def := g.defs[g.r.Intn(len(g.defs))]
			if ii >= 0 && ii < 3*len(fixedNames) {
				def = fixedNames[ii%len(fixedNames)]
			}
			var inst interface{}
			what := "valid-by-construction"
			if ii < 0 {
				def, inst, what = probes[ii+len(probes)].def, probes[ii+len(probes)].inst, "probe"
			} else {
				inst = g.instanceOf(dm, def)
			}
			if ii >= 0 && ((which == "C02" && ii%3 != 0) || (which == "C05" && ii%3 == 0)) {
				if z, ok := g.zeroAnItem(inst); ok && ii%4 == 1 {
					inst, what = z, "zero-item"
				} else {
					inst, what = g.mutate(inst)
				}
			}
			doc, _ := json.Marshal(inst)
			resp, err := mb.Do(def, doc)
			if err != nil || resp.Error != "" {
				st["lab-error"]++
				continue
			}
			replay := map[string]interface{}{"spec": json.RawMessage(specDoc), "definition": def, "instance": json.RawMessage(doc), "mutation": what, "generated": resp,
				"how": "swagger generate model, json.Unmarshal the instance into models.<Type>, call Validate(strfmt.Default), json.Marshal it back"}
			if resp.Panic != "" {
				run.Deviation("generated-model-panics", "the generated model panics: "+resp.Panic, replay)
				continue
			}
			sc, err := callSchema(m, "schema.check", defs, &MS{Ref: def}, doc, nil)
			if err != nil || sc.R != "ok" {
				run.Broken("corr:"+which+":driver", "model driver failed", replay)
				continue
			}
			run.Traces++
			accepted := resp.Decoded && resp.Valid
			switch which {
			case "C02":
				run.Case(def + "|" + what + "|" + string(doc))
				// calibration of the specification against the reference validator (known oracle gaps excluded)
				if !hasNull(inst) {
					if ok, msg := refValid(specDoc, def, doc); ok != sc.Valid {
						st["calibration-mismatch"]++
						replay["reference_validator"] = map[string]interface{}{"valid": ok, "msg": msg}
						replay["lean_valid"] = sc.Valid
						run.Broken("calib:C02", "Lean `valid` and go-openapi/validate disagree on a (schema, instance) pair", replay)
						continue
					}
					st["calibrated"]++
				}
				if strings.HasSuffix(what, "null:extra1") {
					// JSON null as the value of an ADDITIONAL property: the generated map decodes it as the zero value (documented
					// null reading); strict schema semantics reject it, the relaxed reading accepts it: either answer is admissible
					st["documented-gap(null additional property)"]++
				} else if sc.ValidAny == sc.ValidAll {
					// the relaxation is applied per site by the generated code (it depends on whether a member is a pointer): the
					// verdict is determined only when every per-site combination of readings gives the same answer
					if accepted != sc.ValidAll {
						k := "accepts-invalid"
						if sc.ValidAll {
							k = "rejects-valid"
						}
						if sc.ValidAll && strings.Contains(resp.VErr, "extra1 in body is required") {
							// map[string]<Model>: every value goes through validate.Required, which refuses the zero value - an
							// empty object {} as a map value is reported missing
							st["MISMATCH:zero-map-value-reported-missing"]++
							replay["lean"] = sc
							run.Deviation("rejects-valid:zero-map-value-reported-missing", "the generated model rejects a valid instance: a map value that is an empty object is reported as a missing required member", replay)
							continue
						}
						if sc.ValidAll && (strings.Contains(resp.VErr, "should have at most") || strings.Contains(resp.VErr, "should have at least")) && strings.Contains(resp.VErr, "properties") {
							// minProperties / maxProperties are checked on the RE-MARSHALLED struct: absent array members without
							// omitempty come back as null and are counted
							st["MISMATCH:property-count-on-remarshalled-struct"]++
							replay["lean"] = sc
							run.Deviation("rejects-valid:property-count-on-remarshalled-struct", fmt.Sprintf("the generated model rejects a valid instance on its property count (%s)", firstLine(resp.VErr)), replay)
							continue
						}
						st["MISMATCH:"+k]++
						replay["lean"] = sc
						run.Deviation(k+":"+mutClass(what), fmt.Sprintf("the generated model %s an instance that is %s for the definition (decode error: %q, validation error: %q)",
							map[bool]string{true: "accepts", false: "rejects"}[accepted], map[bool]string{true: "valid (under every reading of the documented relaxation)", false: "invalid (under every reading)"}[sc.ValidAll], resp.DecodeErr, resp.VErr), replay)
					} else {
						st[fmt.Sprintf("agree:valid=%v", sc.ValidAll)]++
					}
				} else {
					st["documented-gap(either)"]++
				}
				if len(run.Samples) < 3 && !sc.Valid && what != "valid-by-construction" {
					run.Sample(map[string]interface{}{"definition": def, "mutation": what, "instance": json.RawMessage(doc), "valid": sc.Valid, "generated_accepts": accepted})
				}
			case "C05":
				if formatDefs[def] && what != "valid-by-construction" {
					// the Lean semantics does not read formats: a mutated string ("" for a date-time) is valid for it and not for
					// the schema; only instances built from canonical format values are judged for these definitions
					st["format-definition-mutation-skipped"]++
					continue
				}
				if (what == "valid-by-construction" || what == "probe") && sc.Valid && !resp.Decoded {
					// a document that is valid by construction must at least decode: a failing json.Unmarshal loses everything
					st["VALID-DOES-NOT-DECODE"]++
					run.Case(def + "|" + string(doc))
					run.Deviation("valid-instance-does-not-decode", "json.Unmarshal of a valid document into the generated model fails: "+firstLine(resp.DecodeErr), replay)
					continue
				}
				if !sc.Valid || !accepted || resp.Out == nil {
					st["not-a-valid-instance"]++
					continue
				}
				if strings.HasSuffix(what, "null:extra1") || (mutClass(what) == "null" && anyAddl(dm)) {
					// JSON null as the value of an additional property (also: of a member that an allOf sibling with
					// additionalProperties sees as additional) is decoded as the zero value of the map's element type
					// (documented null reading; strict schema semantics reject the document in the first place)
					st["documented-gap(null additional property)"]++
					continue
				}
				run.Case(def + "|" + string(doc))
				tc, err := callSchema(m, "schema.tolerated", defs, &MS{Ref: def}, doc, resp.Out)
				if err != nil || tc.R != "ok" {
					run.Broken("corr:C05:driver", "model driver failed", replay)
					continue
				}
				if !tc.Tolerated {
					// one cause is classified apart: strfmt.Date / strfmt.DateTime members are structs, `omitempty` never omits them,
					// so an ABSENT optional date comes back as the year-one date
					if stripped, n := stripZeroDates(inst, resp.Out); n > 0 {
						if tc2, err := callSchema(m, "schema.tolerated", defs, &MS{Ref: def}, doc, stripped); err == nil && tc2.R == "ok" && tc2.Tolerated {
							st["NOT-TOLERATED:zero-date-for-absent-member"]++
							run.Deviation("roundtrip-adds:zero-date-for-absent-optional-member",
								"an optional date / date-time member that is absent from the document is written back as the year-one date (0001-01-01)", replay)
							continue
						}
					}
					st["NOT-TOLERATED"]++
					run.Deviation("roundtrip-loses-or-adds:"+mutClass(what), "decoding then encoding a valid instance changes it beyond the documented differences", replay)
				} else if tc.Equal {
					st["roundtrip-equal"]++
				} else {
					st["roundtrip-tolerated"]++
				}
				// idempotence: encoding the re-decoded output reproduces it exactly
				r2, err := mb.Do(def, resp.Out)
				if err == nil && r2.Out != nil {
					if eq, _ := jsonEqual(r2.Out, resp.Out); !eq {
						st["NOT-IDEMPOTENT"]++
						replay["second_pass"] = r2.Out
						run.Deviation("roundtrip-not-idempotent", "encoding the re-decoded output does not reproduce it", replay)
					}
				}
				if len(run.Samples) < 3 && !tc.Equal {
					run.Sample(map[string]interface{}{"definition": def, "instance": json.RawMessage(doc), "reencoded": resp.Out})
				}
			}
		}
		mb.Remove()
	}
	if st["subject-does-not-build(C01)"] > 0 && run.Traces == 0 {
		run.Broken("corr:"+which+":lab", "no models package of this run could be generated and compiled: the property was not exercised (see C01)", nil)
	}
	run.Extra["distribution"] = st
}

func (g *msGen) instanceOf(dm map[string]*MS, def string) interface{} {
	s := dm[def]
	if len(s.AllOf) > 0 {
		out := map[string]interface{}{}
		for _, a := range s.AllOf {
			if m, ok := g.instance(dm, a, 0).(map[string]interface{}); ok {
				for k, v := range m {
					out[k] = v
				}
			}
		}
		return out
	}
	return g.instance(dm, s, 0)
}

// stripZeroDates removes from the re-encoded document every object member that holds the zero date / date-time and is
// absent from the input at the same place; it returns the stripped document and the number of members removed.
func stripZeroDates(in interface{}, out json.RawMessage) (json.RawMessage, int) {
	var o interface{}
	if json.Unmarshal(out, &o) != nil {
		return out, 0
	}
	n := 0
	var walk func(i, o interface{}) interface{}
	walk = func(i, o interface{}) interface{} {
		switch ov := o.(type) {
		case map[string]interface{}:
			im, _ := i.(map[string]interface{})
			for k, v := range ov {
				if sv, ok := v.(string); ok && (sv == "0001-01-01" || sv == "0001-01-01T00:00:00.000Z") {
					if _, have := im[k]; !have {
						delete(ov, k)
						n++
						continue
					}
				}
				var iv interface{}
				if im != nil {
					iv = im[k]
				}
				ov[k] = walk(iv, v)
			}
			return ov
		case []interface{}:
			il, _ := i.([]interface{})
			for x := range ov {
				var iv interface{}
				if x < len(il) {
					iv = il[x]
				}
				ov[x] = walk(iv, ov[x])
			}
			return ov
		}
		return o
	}
	// the input instance as generic JSON
	ib, _ := json.Marshal(in)
	var iv interface{}
	_ = json.Unmarshal(ib, &iv)
	o = walk(iv, o)
	b, _ := json.Marshal(o)
	return b, n
}

func mutClass(what string) string {
	if i := strings.LastIndex(what, "."); i >= 0 {
		what = what[i+1:]
	}
	if i := strings.Index(what, ":"); i >= 0 {
		what = what[:i]
	}
	return what
}

// CheckC02 — generated model validation agrees with the schema.
func CheckC02(run *ev.Run) {
	run.Rule = "definition sets (objects with scalar / array / nested object / $ref / allOf members, required, bounds incl. exclusive, multipleOf, lengths, enums, item counts, " +
		"uniqueness, x-nullable, readOnly, additionalProperties) generated from a seed; their models are generated and compiled; instances valid by construction and their single-point " +
		"mutations (drop, null, zero value, boundary, wrong type, unknown property, duplicates, empty containers) are decoded and validated; the verdict must be the Lean `valid` wherever " +
		"`valid = validSkip`; `valid` is calibrated against go-openapi/validate on every null-free instance; distinct = (definition, mutation, instance)"
	run.Trusted = append(run.Trusted, "genlab models lab (generated models + glue main)", "go-openapi/validate as calibration of the Lean semantics")
	run.Assume = append(run.Assume, "fragment: no tuples, polymorphism, patterns, formats, untyped objects, maps of objects", "JSON null of an optional property counts as absent (documented limitation)",
		"known oracle gaps of the reference validator (null with x-nullable) are excluded from the calibration only")
	modelsRun(run, "C02")
}

// CheckC05 — model JSON serialization round-trips without loss.
func CheckC05(run *ev.Run) {
	run.Rule = "same definition sets and instance stream as C02, restricted to instances that are valid and accepted; json.Marshal(json.Unmarshal(doc)) of the compiled model must be " +
		"`tolerated` (Lean relation: only optional zero values / nulls omitted, absent arrays as null, undeclared properties dropped where there is no additionalProperties, required kept, " +
		"nothing else added or changed) and a second pass must reproduce the first output exactly; distinct = (definition, instance)"
	run.Trusted = append(run.Trusted, "genlab models lab", "encoding/json")
	run.Assume = append(run.Assume, "fragment as C02; polymorphic base types and tuples are not generated")
	modelsRun(run, "C05")
}

// anyAddl reports whether some schema of the definition set has additionalProperties.
func anyAddl(dm map[string]*MS) bool {
	var walk func(s *MS, d int) bool
	walk = func(s *MS, d int) bool {
		if s == nil || d > 12 {
			return false
		}
		if s.Addl != nil {
			return true
		}
		if walk(s.Items, d+1) {
			return true
		}
		for _, kv := range s.Props {
			if walk(kv.V, d+1) {
				return true
			}
		}
		for _, a := range s.AllOf {
			if walk(a, d+1) {
				return true
			}
		}
		return false
	}
	for _, s := range dm {
		if walk(s, 0) {
			return true
		}
	}
	return false
}
