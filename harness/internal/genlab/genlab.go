// Package genlab drives the real generator: it builds the swagger CLI from the working tree, prepares scratch Go
// modules outside /repo and /verif, runs generate commands, builds and runs the generated code.
package genlab

import (
	"bytes"
	"crypto/sha256"
	"encoding/hex"
	"fmt"
	"os"
	"os/exec"
	"path/filepath"
	"sort"
	"strings"
	"time"

	"verif/harness/internal/ev"
)

func Repo() string {
	if r := os.Getenv("VERIF_REPO"); r != "" {
		return r
	}
	return "/repo"
}

func goEnv() []string {
	return append(os.Environ(), "GOFLAGS=-mod=mod", "GOPROXY=off", "GOSUMDB=off", "GOTOOLCHAIN=local", "CGO_ENABLED=0")
}

// ScratchRoot creates a scratch directory outside /repo and /verif.
func ScratchRoot(tag string) (string, error) {
	base := os.Getenv("TMPDIR")
	if base == "" {
		base = "/var/tmp"
	}
	return os.MkdirTemp(base, "verif-"+tag+"-")
}

// BuildSwagger builds cmd/swagger from the working tree (no build tags: the CLI users run).
func BuildSwagger() (string, error) {
	out := filepath.Join(ev.VerifDir(), ".cache", fmt.Sprintf("swagger-%d", os.Getpid()))
	_ = os.MkdirAll(filepath.Dir(out), 0o755)
	cmd := exec.Command("go", "build", "-o", out, "./cmd/swagger")
	cmd.Dir = Repo()
	cmd.Env = goEnv()
	if b, err := cmd.CombinedOutput(); err != nil {
		return "", fmt.Errorf("go build ./cmd/swagger: %v\n%s", err, b)
	}
	return out, nil
}

// InitModule writes go.mod (same requirements as the repository) and go.sum into dir.
func InitModule(dir, module string) error {
	gm, err := os.ReadFile(filepath.Join(Repo(), "go.mod"))
	if err != nil {
		return err
	}
	var b strings.Builder
	fmt.Fprintf(&b, "module %s\n\ngo 1.21\n\n", module)
	in := false
	for _, l := range strings.Split(string(gm), "\n") {
		if strings.HasPrefix(l, "require (") {
			in = true
		}
		if in {
			b.WriteString(l + "\n")
		}
		if in && strings.HasPrefix(l, ")") {
			in = false
			b.WriteString("\n")
		}
	}
	if err := os.MkdirAll(dir, 0o755); err != nil {
		return err
	}
	if err := os.WriteFile(filepath.Join(dir, "go.mod"), []byte(b.String()), 0o644); err != nil {
		return err
	}
	gs, err := os.ReadFile(filepath.Join(Repo(), "go.sum"))
	if err != nil {
		return err
	}
	return os.WriteFile(filepath.Join(dir, "go.sum"), gs, 0o644)
}

type RunResult struct {
	Out  string
	Code int
	Err  error
	Dur  time.Duration
}

// Run executes a command in dir with the offline Go environment and a timeout.
func Run(dir string, timeout time.Duration, name string, args ...string) RunResult {
	t0 := time.Now()
	cmd := exec.Command(name, args...)
	cmd.Dir = dir
	cmd.Env = goEnv()
	var buf bytes.Buffer
	cmd.Stdout, cmd.Stderr = &buf, &buf
	if err := cmd.Start(); err != nil {
		return RunResult{Err: err, Code: -1}
	}
	done := make(chan error, 1)
	go func() { done <- cmd.Wait() }()
	select {
	case err := <-done:
		code := 0
		if err != nil {
			code = 1
			if ee, ok := err.(*exec.ExitError); ok {
				code = ee.ExitCode()
			}
		}
		return RunResult{Out: buf.String(), Code: code, Dur: time.Since(t0)}
	case <-time.After(timeout):
		_ = cmd.Process.Kill()
		<-done
		return RunResult{Out: buf.String(), Code: -2, Err: fmt.Errorf("timeout after %v", timeout), Dur: time.Since(t0)}
	}
}

// Tree returns relative path -> sha256 of every regular file under dir (go.mod/go.sum of the scratch module excluded).
func Tree(dir string) map[string]string {
	out := map[string]string{}
	_ = filepath.Walk(dir, func(p string, info os.FileInfo, err error) error {
		if err != nil || info.IsDir() {
			return nil
		}
		rel, _ := filepath.Rel(dir, p)
		b, e := os.ReadFile(p)
		if e != nil {
			return nil
		}
		h := sha256.Sum256(b)
		out[rel] = hex.EncodeToString(h[:8])
		return nil
	})
	return out
}

func SortedKeys(m map[string]string) []string {
	ks := make([]string, 0, len(m))
	for k := range m {
		ks = append(ks, k)
	}
	sort.Strings(ks)
	return ks
}

// TreeHash is one hash for a whole tree.
func TreeHash(t map[string]string) string {
	h := sha256.New()
	for _, k := range SortedKeys(t) {
		fmt.Fprintf(h, "%s=%s\n", k, t[k])
	}
	return hex.EncodeToString(h.Sum(nil)[:12])
}
