// Package rng is the single PRNG every random choice of the harness derives from (splitmix64).
package rng

type R struct{ s uint64 }

func New(seed uint64) *R { return &R{s: seed*0x9E3779B97F4A7C15 + 0x1234567} }

func (r *R) U64() uint64 {
	r.s += 0x9E3779B97F4A7C15
	z := r.s
	z = (z ^ (z >> 30)) * 0xBF58476D1CE4E5B9
	z = (z ^ (z >> 27)) * 0x94D049BB133111EB
	return z ^ (z >> 31)
}

// Intn returns a value in [0,n).
func (r *R) Intn(n int) int {
	if n <= 0 {
		return 0
	}
	return int(r.U64() % uint64(n))
}

// Chance returns true with probability num/den.
func (r *R) Chance(num, den int) bool { return r.Intn(den) < num }

func (r *R) Pick(xs []string) string { return xs[r.Intn(len(xs))] }

// Fork derives an independent stream.
func (r *R) Fork() *R { return New(r.U64()) }

func (r *R) Shuffle(n int, swap func(i, j int)) {
	for i := n - 1; i > 0; i-- {
		j := r.Intn(i + 1)
		swap(i, j)
	}
}
