// Package proc runs a line-protocol child process (the Lean model driver, or a worker that calls the real
// code) with per-request timeouts; a crash or timeout is an outcome, and the child is restarted.
package proc

import (
	"bufio"
	"errors"
	"io"
	"os"
	"os/exec"
	"time"
)

type P struct {
	Args    []string
	Env     []string
	Timeout time.Duration
	cmd     *exec.Cmd
	in      io.WriteCloser
	out     *bufio.Reader
	Restarts int
}

var ErrTimeout = errors.New("timeout")
var ErrCrash = errors.New("crash")

func New(timeout time.Duration, args ...string) *P {
	return &P{Args: args, Timeout: timeout}
}

func (p *P) start() error {
	cmd := exec.Command(p.Args[0], p.Args[1:]...)
	cmd.Env = append(os.Environ(), p.Env...)
	if os.Getenv("VERIF_DEBUG") != "" {
		cmd.Stderr = os.Stderr
	}
	in, err := cmd.StdinPipe()
	if err != nil {
		return err
	}
	out, err := cmd.StdoutPipe()
	if err != nil {
		return err
	}
	if err := cmd.Start(); err != nil {
		return err
	}
	p.cmd, p.in, p.out = cmd, in, bufio.NewReaderSize(out, 1<<20)
	return nil
}

func (p *P) kill() {
	if p.cmd != nil {
		_ = p.in.Close()
		_ = p.cmd.Process.Kill()
		_, _ = p.cmd.Process.Wait()
		p.cmd = nil
		p.Restarts++
	}
}

func (p *P) Close() {
	if p.cmd != nil {
		_ = p.in.Close()
		done := make(chan struct{})
		go func() { _ = p.cmd.Wait(); close(done) }()
		select {
		case <-done:
		case <-time.After(2 * time.Second):
			_ = p.cmd.Process.Kill()
		}
		p.cmd = nil
	}
}

// Call sends one line and returns one line (without the newline).
func (p *P) Call(line []byte) ([]byte, error) {
	if p.cmd == nil {
		if err := p.start(); err != nil {
			return nil, err
		}
	}
	type res struct {
		b   []byte
		err error
	}
	ch := make(chan res, 1)
	out := p.out
	go func() {
		if _, err := p.in.Write(append(append([]byte{}, line...), '\n')); err != nil {
			ch <- res{nil, err}
			return
		}
		b, err := out.ReadBytes('\n')
		ch <- res{b, err}
	}()
	select {
	case r := <-ch:
		if r.err != nil {
			p.kill()
			return nil, ErrCrash
		}
		n := len(r.b)
		for n > 0 && (r.b[n-1] == '\n' || r.b[n-1] == '\r') {
			n--
		}
		return r.b[:n], nil
	case <-time.After(p.Timeout):
		p.kill()
		return nil, ErrTimeout
	}
}
