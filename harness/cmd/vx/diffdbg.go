package main

import (
	"encoding/json"
	"flag"
	"fmt"
	"sort"
	"regexp"

	"github.com/go-openapi/loads"
	"github.com/go-openapi/strfmt"
	"github.com/go-openapi/validate"

	"verif/harness/internal/difflab"
	"verif/harness/internal/rng"
)

func init() {
	commands["diffvalid"] = func(args []string) {
		fs := flag.NewFlagSet("diffvalid", flag.ExitOnError)
		n := fs.Int("n", 50, "")
		seed := fs.Int64("seed", 1, "")
		_ = fs.Parse(args)
		g := &difflab.G{R: rng.New(uint64(*seed)), O: difflab.GenOpts{MaxDepth: 3}}
		errs := map[string]int{}
		rx := regexp.MustCompile(`"[^"]*"`)
		bad := 0
		for i := 0; i < *n; i++ {
			a := g.Spec()
			doc := difflab.SwaggerJSON(a)
			d, err := loads.Analyzed(json.RawMessage(doc), "")
			if err != nil {
				errs["load:"+err.Error()]++
				continue
			}
			v := validate.NewSpecValidator(d.Schema(), strfmt.Default)
			v.SetContinueOnErrors(true)
			res, _ := v.Validate(d)
			if !res.IsValid() {
				bad++
				if len(res.Errors) == 0 { errs["NOERR"]++; fmt.Println(string(doc)) }
				for _, e := range res.Errors {
					errs[rx.ReplaceAllString(e.Error(), `"…"`)]++
				}
			}
		}
		var ks []string
		for k := range errs {
			ks = append(ks, k)
		}
		sort.Strings(ks)
		for _, k := range ks {
			fmt.Printf("%4d %s\n", errs[k], k)
		}
		fmt.Println("invalid:", bad, "of", *n)
	}
}
