package main

var commands = map[string]func(args []string){}

func dispatch(name string, args []string) bool {
	f, ok := commands[name]
	if !ok {
		return false
	}
	f(args)
	return true
}
