package main

import (
	"fmt"

	"verif/harness/internal/genlab"
)

func init() {
	commands["sites"] = func(args []string) {
		sites, err := genlab.DiscoverSites()
		if err != nil {
			fmt.Println("ERR", err)
			return
		}
		bad := 0
		for _, s := range sites {
			ok := s.OK()
			if !ok {
				bad++
			}
			if len(args) > 0 || !ok {
				fmt.Printf("%-5v %-6s %s be=%v bt=%v q=%v bs=%v nl=%s\n", ok, s.Ctx, s.Key(), s.BlockEnd, s.Backtick, s.Quote, s.Bslash, s.Newline)
			}
		}
		fmt.Println("sites:", len(sites), "not ok:", bad)
	}
}
