package main

import (
	"fmt"
	"os"

	"verif/harness/internal/genlab"
)

// vx genraw <kind> <spec> <target> <name> [extra args...]: run a generate command in-process (debugging aid).
func init() {
	commands["genraw"] = func(args []string) {
		a := append([]string{"-f", args[1], "-t", args[2], "-A", args[3]}, args[4:]...)
		if args[0] == "model" {
			a = append([]string{"-f", args[1], "-t", args[2]}, args[4:]...)
		}
		if err := genlab.GenInProc(args[0], a, nil); err != nil {
			fmt.Println("ERR", err)
			os.Exit(1)
		}
	}
}
