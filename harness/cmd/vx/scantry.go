package main

import (
	"fmt"
	"os"
	"path/filepath"

	"verif/harness/internal/genlab"
)

// vx scantry <file.go>: scan one Go file as package x/api of a scratch module and print error / panic (debugging aid).
func init() {
	commands["scantry"] = func(args []string) {
		src, _ := os.ReadFile(args[0])
		root, _ := genlab.ScratchRoot("scantry")
		defer os.RemoveAll(root)
		_ = genlab.InitModule(root, "x")
		_ = os.MkdirAll(filepath.Join(root, "api"), 0o755)
		_ = os.WriteFile(filepath.Join(root, "api", "api.go"), src, 0o644)
		doc, err, pan := genlab.Scan(root, []string{"./api"}, true, nil)
		fmt.Println("err:", err)
		fmt.Println("panic:", pan)
		fmt.Println("doc bytes:", len(doc))
	}
}
