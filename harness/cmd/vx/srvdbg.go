package main

import (
	"encoding/json"
	"fmt"
	"os"

	"verif/harness/internal/genlab"
)

// vx srvtry <spec.json>: build the lab server for a spec and send the requests given on stdin (debugging aid).
func init() {
	commands["srvtry"] = func(args []string) {
		spec, _ := os.ReadFile(args[0])
		sb, err := genlab.BuildServer("srvtry", spec)
		if err != nil {
			fmt.Println("ERR", err)
			if sb != nil {
				fmt.Println("root", sb.Root)
			}
			os.Exit(1)
		}
		defer sb.Remove()
		fmt.Printf("built in %.1fs routes=%v auths=%v\n", sb.BuildS, sb.Routes, sb.Auths)
		for _, rq := range []genlab.ServerReq{
			{Method: "GET", URL: "/pets/7?q=a|b", Headers: map[string][]string{"X-H": {"1.5"}}},
			{Method: "GET", URL: "/pets/7?q=a|b", Headers: map[string][]string{"X-H": {"1.5"}, "Authorization": {"Bearer good"}}},
			{Method: "GET", URL: "/pets/x", Headers: map[string][]string{"Authorization": {"Bearer good"}}},
			{Method: "POST", URL: "/open", Headers: map[string][]string{"Content-Type": {"application/json"}}, Body: strp(`{"name":"ab"}`)},
			{Method: "POST", URL: "/open", Headers: map[string][]string{"Content-Type": {"application/json"}}, Body: strp(`{"name":"a"}`)},
		} {
			r, err := sb.Do(rq)
			b, _ := json.Marshal(r)
			fmt.Println(string(b), err)
		}
	}
}

func strp(s string) *string { return &s }
