package main

import (
	"encoding/json"
	"flag"
	"fmt"

	"verif/harness/internal/difflab"
	"verif/harness/internal/rng"
)

func init() {
	commands["difftry"] = func(args []string) {
		fs := flag.NewFlagSet("difftry", flag.ExitOnError)
		n := fs.Int("n", 100, "pairs")
		seed := fs.Int64("seed", 1, "seed")
		verbose := fs.Bool("v", false, "print disagreements in full")
		tuples := fs.Bool("tuples", false, "")
		adef := fs.Bool("adef", false, "")
		untyped := fs.Bool("untyped", false, "")
		loose := fs.Bool("loose", false, "")
		_ = fs.Parse(args)
		lab := difflab.NewLab()
		defer lab.Close()
		g := &difflab.G{R: rng.New(uint64(*seed)), O: difflab.GenOpts{MaxDepth: 3, Tuples: *tuples, ArrayDefaults: *adef, Untyped: *untyped, Examples: *loose}}
		stats := map[string]int{}
		shown := 0
		for i := 0; i < *n; i++ {
			a := g.Spec()
			var b *difflab.Spec
			kind := ""
			switch i % 3 {
			case 0:
				b, kind = a, "self"
			case 1:
				b, kind = g.Reserialise(a), "reser"
			default:
				b, _ = g.Mutate(a, 1+g.R.Intn(3))
				kind = "pair"
			}
			ja, jb := difflab.SwaggerJSON(a), difflab.SwaggerJSON(b)
			va, vb := true, true
			if !va || !vb {
				stats["invalid"]++
			}
			model, real, ag := lab.Compare(a, b, ja, jb)
			if ag != "agree" && ag != "order-sensitive" {
				stats["DISAGREE"]++
				if shown < 5 {
					shown++
					fmt.Printf("--- #%d %s valid=%v/%v: %s\n", i, kind, va, vb, ag)
					if *verbose {
						fmt.Printf("A=%s\nB=%s\n", ja, jb)
						mj, _ := json.Marshal(model.Raw)
						rj, _ := json.Marshal(real.Raw)
						fmt.Printf("model=%s %s\nreal=%s %s\n", model.R, mj, real.R, rj)
					}
				}
			} else {
				stats[ag]++
			}
			stats["real:"+real.R]++
			if real.R == "panic" {
				stats["P:"+kind+":"+real.Why+" || model: "+model.Why]++
			}
			if kind != "pair" && real.R == "ok" && len(real.Diffs) > 0 {
				stats["selfdiff-nonempty"]++
			}
			if real.R == "ok" {
				stats[fmt.Sprintf("ndiffs:%d", min(len(real.Diffs), 5))]++
			}
		}
		b, _ := json.MarshalIndent(stats, "", " ")
		fmt.Println(string(b))
	}
}
