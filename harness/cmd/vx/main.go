// vx is the single harness binary: extract | corr <id> | ...
package main

import (
	"encoding/json"
	"fmt"
	"os"

	"verif/harness/internal/extract"
)

func repoDir() string {
	if r := os.Getenv("VERIF_REPO"); r != "" {
		return r
	}
	return "/repo"
}

func main() {
	if len(os.Args) < 2 {
		fmt.Fprintln(os.Stderr, "usage: vx extract <gendir> | corr <id> ...")
		os.Exit(2)
	}
	switch os.Args[1] {
	case "extract":
		hashes, err := extract.Run(repoDir(), os.Args[2])
		if err != nil {
			fmt.Fprintln(os.Stderr, "extract failed:", err)
			os.Exit(3)
		}
		_ = json.NewEncoder(os.Stdout).Encode(hashes)
	default:
		if !dispatch(os.Args[1], os.Args[2:]) {
			fmt.Fprintln(os.Stderr, "unknown subcommand", os.Args[1])
			os.Exit(2)
		}
	}
}
