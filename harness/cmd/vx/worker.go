package main

import (
	"bufio"
	"encoding/json"
	"os"
	"runtime/debug"
	"strings"

	"verif/harness/internal/difflab"
)

// vx worker: serves requests that call the real code, one JSON object per line.
func init() {
	commands["worker"] = func(args []string) {
		// a runaway recursion in the code under test must die quickly (fatal stack overflow), not after filling 1 GB
		debug.SetMaxStack(48 << 20)
		in := bufio.NewReaderSize(os.Stdin, 1<<20)
		out := bufio.NewWriter(os.Stdout)
		for {
			line, err := in.ReadBytes('\n')
			if len(line) > 0 {
				var req map[string]json.RawMessage
				var resp map[string]interface{}
				if e := json.Unmarshal(line, &req); e != nil {
					resp = map[string]interface{}{"r": "bad-input", "why": e.Error()}
				} else {
					var op string
					_ = json.Unmarshal(req["op"], &op)
					switch {
					case strings.HasPrefix(op, "diff."):
						resp = difflab.HandleWorker(req)
					default:
						resp = workerDispatch(op, req)
					}
				}
				b, _ := json.Marshal(resp)
				out.Write(b)
				out.WriteByte('\n')
				out.Flush()
			}
			if err != nil {
				return
			}
		}
	}
}

var workerOps = map[string]func(req map[string]json.RawMessage) map[string]interface{}{}

func workerDispatch(op string, req map[string]json.RawMessage) map[string]interface{} {
	for prefix, f := range workerOps {
		if strings.HasPrefix(op, prefix) {
			return f(req)
		}
	}
	return map[string]interface{}{"r": "bad-op"}
}
