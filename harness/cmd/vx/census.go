package main

import (
	"fmt"

	"verif/harness/internal/census"
	"verif/harness/internal/genlab"
)

// vx census: print the map-range census (debugging aid).
func init() {
	commands["census"] = func(args []string) {
		sites, err := census.MapRanges(genlab.Repo())
		if err != nil {
			fmt.Println("ERR", err)
			return
		}
		n := map[string]int{}
		for _, s := range sites {
			n[s.Class]++
			fmt.Printf("%-13s %s:%d  %s  {%s}  [%s]\n", s.Class, s.File, s.Line, s.Key(), s.Body, s.Detail)
		}
		fmt.Println(n, len(sites))
	}
}
