package main

import (
	"encoding/json"
	"flag"
	"fmt"
	"os"

	"verif/harness/internal/difflab"
	"verif/harness/internal/ev"
	"verif/harness/internal/genlab"
)

var checks = map[string]func(run *ev.Run){
	"C01": genlab.CheckC01,
	"C18": genlab.CheckC18,
	"C19": genlab.CheckC19,
	"C16": genlab.CheckC16,
	"C17": genlab.CheckC17,
	"C02": genlab.CheckC02,
	"C03": genlab.CheckC03,
	"C04": genlab.CheckC04,
	"C05": genlab.CheckC05,
	"C06": genlab.CheckC06,
	"C07": genlab.CheckC07,
	"C08": genlab.CheckC08,
	"C09": genlab.CheckC09,
	"C10": genlab.CheckC10,
	"C11": genlab.CheckC11,
	"C12": difflab.CheckC12,
	"C13": difflab.CheckC13,
	"C14": difflab.CheckC14,
	"C15": difflab.CheckC15,
}

func init() {
	commands["check"] = func(args []string) {
		if len(args) < 1 {
			fmt.Fprintln(os.Stderr, "usage: vx check <ID> --tier quick|thorough --seed N")
			os.Exit(2)
		}
		id := args[0]
		fs := flag.NewFlagSet("check", flag.ExitOnError)
		tier := fs.String("tier", "quick", "")
		seed := fs.Int64("seed", 1, "")
		_ = fs.Parse(args[1:])
		f, ok := checks[id]
		if !ok {
			fmt.Fprintln(os.Stderr, "no check for", id)
			os.Exit(2)
		}
		run := ev.NewRun(id, *tier, *seed)
		if w := os.Getenv("VERIF_LEAN_WALL"); w != "" {
			fmt.Sscan(w, &run.Lean.LeanWallS)
		}
		f(run)
		os.Exit(run.Finish())
	}
	commands["replay"] = func(args []string) {
		if len(args) < 2 {
			fmt.Fprintln(os.Stderr, "usage: vx replay <ID> <replay file>")
			os.Exit(2)
		}
		id, file := args[0], args[1]
		b, err := os.ReadFile(file)
		if err != nil {
			fmt.Fprintln(os.Stderr, err)
			os.Exit(2)
		}
		var doc struct {
			Property string `json:"property"`
			Key      string `json:"key"`
			Tier     string `json:"tier"`
			Seed     int64  `json:"seed"`
		}
		if err := json.Unmarshal(b, &doc); err != nil || doc.Key == "" {
			fmt.Fprintln(os.Stderr, "not a replay file:", file)
			os.Exit(2)
		}
		f, ok := checks[id]
		if !ok || (doc.Property != "" && doc.Property != id) {
			fmt.Fprintln(os.Stderr, "no check for", id, "or the file belongs to", doc.Property)
			os.Exit(2)
		}
		if doc.Tier == "" {
			doc.Tier = "quick"
		}
		// same property, seed and tier: the check regenerates the same inputs, the stored one among them
		run := ev.NewRun(id, doc.Tier, doc.Seed)
		f(run)
		os.Exit(run.FinishReplay(doc.Key, file))
	}
	commands["warm"] = func(args []string) {}
}
