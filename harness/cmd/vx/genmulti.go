package main

import (
	"fmt"
	"strings"

	"verif/harness/internal/genlab"
)

// vx genmulti <kind,kind,...> <spec> <target> <name> [extra args...]: several generate commands in ONE process (debugging aid).
func init() {
	commands["genmulti"] = func(args []string) {
		for _, k := range strings.Split(args[0], ",") {
			a := append([]string{"-f", args[1], "-t", args[2], "-A", args[3]}, args[4:]...)
			if err := genlab.GenInProc(k, a, nil); err != nil {
				fmt.Println("ERR", k, err)
			}
		}
	}
}
