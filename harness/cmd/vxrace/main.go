// vxrace runs several generations concurrently in one process through the generate commands' own option plumbing
// (build with -race): `vxrace <moduleRoot> <spec> <kinds,comma-separated> <concurrent:true|false>`.
// Target i is <moduleRoot>/t<i>; a kind written <kind>@<dir> generates with --template-dir <moduleRoot>/<dir>. Data races are reported by the runtime on stderr; generation errors on stdout.
package main

import (
	"fmt"
	"io"
	"log"
	"os"
	"path/filepath"
	"strings"
	"sync"

	"github.com/go-swagger/go-swagger/cmd/swagger/commands/generate"
)

func main() {
	log.SetOutput(io.Discard)
	root, spec, kinds, conc := os.Args[1], os.Args[2], strings.Split(os.Args[3], ","), os.Args[4] == "true"
	if err := os.Chdir(root); err != nil {
		fmt.Println("ERR chdir", err)
		os.Exit(2)
	}
	var wg sync.WaitGroup
	var mu, optMu sync.Mutex
	start := make(chan struct{})
	run := func(i int, kind string) {
		defer wg.Done()
		if kind == "skip" {
			<-start
			return
		}
		defer func() {
			if r := recover(); r != nil {
				mu.Lock()
				fmt.Printf("PANIC %d %s %v\n", i, kind, r)
				mu.Unlock()
			}
		}()
		target := filepath.Join(root, fmt.Sprintf("t%d", i))
		_ = os.MkdirAll(target, 0o755)
		// "<kind>@<dir>": this generation uses <moduleRoot>/<dir> as its --template-dir
		tpl := ""
		if j := strings.Index(kind, "@"); j >= 0 {
			kind, tpl = kind[:j], kind[j+1:]
		}
		args := []string{"-f", spec, "-t", target}
		if tpl != "" {
			args = append(args, "--template-dir", filepath.Join(root, tpl), "--allow-template-override")
		}
		if kind != "model" {
			args = append(args, "-A", "race")
		}
		// option parsing is the command line's business and is serialised; the generation itself (the library call) is not
		optMu.Lock()
		_, gen, err := generate.VerifOpts(kind, args)
		optMu.Unlock()
		<-start
		if err == nil {
			err = gen()
		}
		mu.Lock()
		if err != nil {
			fmt.Printf("ERR %d %s %v\n", i, kind, err)
		} else {
			fmt.Printf("OK %d %s\n", i, kind)
		}
		mu.Unlock()
	}
	if !conc {
		close(start)
	}
	for i, k := range kinds {
		wg.Add(1)
		if conc {
			go run(i, k)
		} else {
			run(i, k)
		}
	}
	if conc {
		// let every goroutine finish its (serialised) option parsing, then release them together
		optMu.Lock()
		optMu.Unlock()
		close(start)
	}
	wg.Wait()
}
