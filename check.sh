#!/bin/bash
# ./check.sh <ID> [quick|thorough]      run the check of one property against /repo's working tree
# ./check.sh <ID> --replay <file>       re-run a stored failing input
# ./check.sh --setup                    build everything from files on disk (MANIFEST.setup_cmd)
# Exit 0: property held on everything explored; exit 1 + "VIOLATION property=<id> replay=<path>" otherwise.
set -u
VERIF="$(cd "$(dirname "$0")" && pwd)"
export VERIF_DIR="$VERIF"
export GOFLAGS=-mod=mod GOPROXY=off GOSUMDB=off GOTOOLCHAIN=local
export VERIF_REPO="${VERIF_REPO:-/repo}"
cd "$VERIF"
mkdir -p .cache replays evidence
SEED="${VERIF_SEED:-1}"

build_all() {
  # 1. harness linked against the working tree (stale binary removed first)
  scripts/mkmod.sh || return 10
  rm -f harness/bin/vx
  (cd harness && go build -tags verif -o bin/vx ./cmd/vx) > .cache/gobuild.log 2>&1 || return 11
  # 2. translator: regenerate lean/GsModel/Gen from the tree
  harness/bin/vx extract lean/GsModel/Gen > .cache/gen_hashes.json 2> .cache/extract.log || return 12
  return 0
}

if [ "${1:-}" = "--setup" ]; then
  (
    flock 9
    build_all || { echo "setup: harness build/extract failed"; cat .cache/gobuild.log .cache/extract.log 2>/dev/null | tail -30; exit 1; }
    (cd lean && lake build) || exit 1
    harness/bin/vx warm || true
  ) 9> .build.lock
  exit $?
fi

ID="${1:?property id}"
TIER="${2:-quick}"
if [ "$TIER" = "--replay" ]; then
  (
    flock 9
    build_all
    (cd lean && lake build gsdriver > /dev/null 2>&1)
  ) 9> .build.lock
  exec harness/bin/vx replay "$ID" "${3:?replay file}"
fi
[ -n "${VERIF_TIER:-}" ] && [ $# -lt 2 ] && TIER="$VERIF_TIER"

STATUS=".cache/lean_status_${ID}_$$.json"
T0=$(date +%s.%N)
(
  flock 9
  build_all
  rc=$?
  if [ $rc -ne 0 ]; then
    # the harness no longer builds against the tree, or a fact the translator expects is gone: broken tie
    python3 scripts/leanstatus.py "$ID" --broken-tie $rc > "$STATUS"
    exit 0
  fi
  PROPS="GsModel.Props.$ID"
  (cd lean && lake build "$PROPS" gsdriver) > ".cache/lake_${ID}.log" 2>&1
  lrc=$?
  python3 scripts/leanstatus.py "$ID" --lake-rc $lrc --lake-log ".cache/lake_${ID}.log" --tier "$TIER" > "$STATUS"
) 9> .build.lock
T1=$(date +%s.%N)
export VERIF_LEAN_STATUS="$STATUS"
export VERIF_LEAN_WALL=$(python3 -c "print($T1-$T0)")
if [ ! -x harness/bin/vx ]; then
  # harness does not build: report the broken tie without a failing input
  python3 scripts/leanstatus.py "$ID" --emit-broken "$STATUS" --seed "$SEED" --tier "$TIER"
  rc=$?
  rm -f "$STATUS"
  exit $rc
fi
harness/bin/vx check "$ID" --tier "$TIER" --seed "$SEED"
rc=$?
rm -f "$STATUS"
exit $rc
