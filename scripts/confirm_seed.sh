#!/bin/bash
# confirm_seed.sh <worktree> <seeddir> <pkgdir-for-demo> <go test pattern>
# Confirms in the scratch worktree: with the patch the demo fails and the existing tests pass; without it the demo passes.
export GOFLAGS=-mod=mod GOPROXY=off GOSUMDB=off GOTOOLCHAIN=local
WT=$1; SD=$2; PKG=$3; RUN=$4
cd "$WT" && git checkout -q -- . && git apply "$SD/patch.diff" || { echo "patch does not apply"; exit 2; }
go build ./cmd/... ./generator/... || { echo "does not build"; exit 2; }
EX=$(go test -count=1 ./cmd/swagger/commands/diff/ ./cmd/swagger/commands/ 2>&1 | tail -3 | tr '\n' ' ')
cp "$SD"/demo_test.go "$PKG/zz_demo_test.go"; cp "$SD"/*.json "$PKG/" 2>/dev/null
WITH=$(cd "$PKG" && go test -count=1 -run "$RUN" . 2>&1 | tail -1)
git checkout -q -- .
WITHOUT=$(cd "$PKG" && go test -count=1 -run "$RUN" . 2>&1 | tail -1)
rm -f "$PKG/zz_demo_test.go"; for f in "$SD"/*.json; do [ -e "$f" ] && rm -f "$PKG/$(basename $f)"; done
echo "existing-tests: $EX"; echo "demo with patch: $WITH"; echo "demo without:    $WITHOUT"
