#!/bin/bash
# run_seed.sh <seeded-dir> <ID> [tier]   apply seeded/<dir>/patch.diff to /repo, run the check, undo the patch.
SD=/verif/seeded/$1; ID=$2; TIER=${3:-quick}
cd /repo && git diff --quiet || { echo "/repo has uncommitted changes"; exit 2; }
git -C /repo apply "$SD/patch.diff" || { echo "patch does not apply to /repo"; exit 2; }
cd /verif && ./check.sh $ID $TIER > /tmp/seed_out.txt 2>&1; rc=$?
git -C /repo checkout -- .
grep -E "^VIOLATION|^  [a-z]" /tmp/seed_out.txt | cut -c1-260 | head -8
echo "exit=$rc"
