#!/bin/bash
# all_seeds.sh   regression of the checks themselves: apply every seeded change in turn, run its property's quick check, restore.
cd /verif
for d in seeded/*/; do
  n=$(basename $d); id=${n%%-*}
  out=$(scripts/run_seed.sh $n $id 2>&1 | tail -1)
  v=$(grep -c "^VIOLATION" /tmp/seed_out.txt)
  nf=$(grep -c "no-failing-input-found" /tmp/seed_out.txt)
  echo "$n $out violations=$v no-input=$nf"
done
