#!/bin/bash
# Regenerates harness/go.mod and go.sum from the repository's own go.mod (REPO, default /repo), so the
# harness always links the working tree and resolves the same pinned dependencies offline.
set -e
REPO="${VERIF_REPO:-/repo}"
H="$(cd "$(dirname "$0")/.." && pwd)/harness"
{
  echo "module verif/harness"
  echo
  echo "go 1.21"
  echo
  echo "require github.com/go-swagger/go-swagger v0.0.0"
  echo
  echo "replace github.com/go-swagger/go-swagger => $REPO"
  echo
  awk '/^require \(/{p=1} p{print} /^\)/{if(p){print ""};p=0}' "$REPO/go.mod"
} > "$H/go.mod.new"
if ! cmp -s "$H/go.mod.new" "$H/go.mod"; then mv "$H/go.mod.new" "$H/go.mod"; else rm "$H/go.mod.new"; fi
cmp -s "$REPO/go.sum" "$H/go.sum" || cp "$REPO/go.sum" "$H/go.sum"
