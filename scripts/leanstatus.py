#!/usr/bin/env python3
"""Proof-phase bookkeeping for check.sh: counts the property theorems, runs the axiom audit and the forbidden-token
grep, maps lake errors back to theorem names, and writes the LeanStatus JSON consumed by `vx check`."""
import json, os, re, subprocess, sys, time, glob

VERIF = os.environ.get("VERIF_DIR", "/verif")
LEAN = os.path.join(VERIF, "lean")
ALLOWED = {"propext", "Classical.choice", "Quot.sound"}
FORBIDDEN = re.compile(r"\bsorry\b|\badmit\b|^axiom |native_decide|bv_decide|implemented_by|\bunsafe |maxHeartbeats 0")


def strip_comments(src):
    # remove /- ... -/ (nested) and -- comments
    out, depth, i = [], 0, 0
    while i < len(src):
        if src.startswith("/-", i):
            depth += 1; i += 2; continue
        if src.startswith("-/", i) and depth > 0:
            depth -= 1; i += 2; continue
        if depth == 0:
            if src.startswith("--", i):
                j = src.find("\n", i)
                i = len(src) if j < 0 else j
                continue
            out.append(src[i])
        elif src[i] == "\n":
            out.append("\n")
        i += 1
    return "".join(out)


def theorems(pid):
    p = os.path.join(LEAN, "GsModel", "Props", pid + ".lean")
    if not os.path.exists(p):
        return [], p
    src = strip_comments(open(p).read())
    names = []
    for ln, line in enumerate(src.split("\n"), 1):
        m = re.match(r"\s*(?:@\[[^\]]*\]\s*)?(?:private\s+|protected\s+)?theorem\s+(\S+)", line)
        if m:
            names.append((m.group(1), ln))
    return names, p


def forbidden_hits():
    hits = []
    for f in glob.glob(os.path.join(LEAN, "**", "*.lean"), recursive=True):
        if "/.lake/" in f:
            continue
        src = strip_comments(open(f).read())
        for ln, line in enumerate(src.split("\n"), 1):
            if FORBIDDEN.search(line):
                hits.append(f"{os.path.relpath(f, LEAN)}:{ln}: {line.strip()[:80]}")
    return hits


def main():
    a = sys.argv[1:]
    pid = a[0]
    opt = dict(zip(a[1::2], a[2::2]))
    if "--emit-broken" in opt:
        st = json.load(open(opt["--emit-broken"]))
        seed = int(opt.get("--seed", "1")); tier = opt.get("--tier", "quick")
        os.makedirs(os.path.join(VERIF, "replays"), exist_ok=True)
        rp = os.path.join(VERIF, "replays", f"{pid}-{seed}-0-broken-tie.json")
        json.dump({"property": pid, "no_failing_input_found": True, "what": "the harness no longer builds against the working tree, "
                   "or the translator no longer finds a fact it extracts: the tie between model and code is broken",
                   "failed": st.get("failed"), "log": st.get("log")}, open(rp, "w"), indent=1)
        ev = {"property_id": pid, "tier": tier, "seed": seed, "level": "proof", "wall_s": 0.0, "violations": 1,
              "coverage": {"obligations": max(1, st.get("obligations", 1)), "discharged": 0, "checker_cmd": "lake build (not reached)",
                           "trusted_base": ["Lean 4.33.0 kernel"], "evaluations": 1, "distinct_nontrivial": 0,
                           "samples": [st.get("log", "")[:400]], "explanation": "broken tie"},
              "assumptions": []}
        json.dump(ev, open(os.path.join(VERIF, "evidence", pid + ".json"), "w"), indent=1)
        print(f"VIOLATION property={pid} replay={rp} no-failing-input-found")
        sys.exit(1)

    names, ppath = theorems(pid)
    st = {"ok": False, "obligations": len(names), "discharged": 0, "theorems": [n for n, _ in names], "failed": [],
          "log": "", "axioms": [], "gen_hashes": {}, "checker_cmd": "", "lean_wall_s": 0.0}
    try:
        st["gen_hashes"] = json.load(open(os.path.join(VERIF, ".cache", "gen_hashes.json")))
    except Exception:
        pass
    if "--broken-tie" in opt:
        rc = opt["--broken-tie"]
        what = {"10": "mkmod", "11": "harness-build", "12": "translator(vx extract)"}.get(rc, "build")
        st["failed"] = ["tie:" + what]
        logs = ""
        for f in ("gobuild.log", "extract.log"):
            try:
                logs += open(os.path.join(VERIF, ".cache", f)).read()[-1500:]
            except Exception:
                pass
        st["log"] = logs
        print(json.dumps(st)); return

    t0 = time.time()
    lrc = int(opt.get("--lake-rc", "0"))
    log = ""
    try:
        log = open(opt.get("--lake-log", "")).read()
    except Exception:
        pass
    if not names:
        st["failed"] = ["no property theorems found in " + os.path.relpath(ppath, VERIF)]
        st["log"] = log[-1500:]
        print(json.dumps(st)); return
    cmd = f"lake build GsModel.Props.{pid}; lake env lean <#print axioms audit>; forbidden-token grep"
    if lrc != 0:
        failed = []
        errs = re.findall(r"error: (GsModel/[^:]+\.lean):(\d+):(\d+): (.*)", log)
        props_rel = f"GsModel/Props/{pid}.lean"
        upstream = False
        for f, ln, _, msg in errs:
            if f == props_rel:
                ln = int(ln); cur = None
                for n, l in names:
                    if l <= ln:
                        cur = n
                nm = cur or f"{f}:{ln}"
                if nm not in failed:
                    failed.append(nm)
            else:
                upstream = True
                nm = f"{f}:{ln}"
                if nm not in failed:
                    failed.append(nm)
        if not failed:
            failed = ["lake build failed (see log)"]
            upstream = True
        st["failed"] = failed
        st["discharged"] = 0 if upstream else max(0, len(names) - len([x for x in failed if ":" not in x]))
        st["log"] = "\n".join(l for l in log.split("\n") if "error" in l.lower())[:3000] or log[-2000:]
        st["checker_cmd"] = cmd
        st["lean_wall_s"] = time.time() - t0
        print(json.dumps(st)); return

    # audit
    audit = os.path.join(VERIF, ".cache", f"Audit_{pid}_{os.getpid()}.lean")
    with open(audit, "w") as f:
        f.write(f"import GsModel.Props.{pid}\n")
        for n, _ in names:
            f.write(f"#print axioms Gs.Props.{pid}.{n}\n")
    r = subprocess.run(["lake", "env", "lean", audit], cwd=LEAN, capture_output=True, text=True)
    os.remove(audit)
    out = r.stdout + r.stderr
    used = set(); bad = []; seen = 0
    for m in re.finditer(r"'([^']+)' depends on axioms: \[([^\]]*)\]", out.replace("\n", " ")):
        seen += 1
        axs = [x.strip() for x in m.group(2).split(",") if x.strip()]
        used.update(axs)
        extra = [x for x in axs if x not in ALLOWED]
        if extra:
            bad.append(f"{m.group(1)}: {extra}")
    seen += len(re.findall(r"does not depend on any axioms", out))
    hits = forbidden_hits()
    st["axioms"] = sorted(used)
    ok = (r.returncode == 0 and seen == len(names) and not bad and not hits)
    if not ok:
        st["failed"] = (["audit: " + b for b in bad] + ["forbidden: " + h for h in hits] +
                        ([] if seen == len(names) else [f"audit saw {seen} of {len(names)} theorems"]))
        st["log"] = out[-2000:]
    st["discharged"] = len(names) if ok else max(0, len(names) - len(bad))
    if ok and opt.get("--tier") == "thorough":
        r2 = subprocess.run(["lake", "env", "leanchecker", f"GsModel.Props.{pid}"], cwd=LEAN, capture_output=True, text=True)
        cmd += f"; lake env leanchecker GsModel.Props.{pid}"
        if r2.returncode != 0:
            ok = False
            st["failed"] = ["leanchecker rejected the compiled module"]
            st["log"] = (r2.stdout + r2.stderr)[-2000:]
            st["discharged"] = 0
    st["ok"] = ok
    st["checker_cmd"] = cmd
    st["lean_wall_s"] = time.time() - t0
    print(json.dumps(st))


main()
