# Table of claimed properties (read by mkmanifest.py).
DIFF_NOTE = ("Trusted: Lean 4.33 kernel (axioms propext, Classical.choice, Quot.sound only; audited by #print axioms on every run, no sorry/"
             "native_decide), the translator `vx extract` (code/compatibility tables taken from the live maps of the diff package through "
             "verif-tagged accessors), the correspondence harness (seeded generator of spec pairs in the model's encoding, renderer to Swagger JSON, "
             "canonical multiset comparison with the real diff.Compare run in a crash-safe worker), go-openapi/spec JSON decoding. Modelled rather "
             "than verified: the Go analyser itself (hand-written Lean transcription, one function per Go function, explicit panics, fuel), "
             "float formatting of DiffInfo, x- extensions (oracle sweep only).")
CLAIMED = {
 "C01": {
  "technique": "Lean 4 proof (name-mangler invariants and format-table consistency over tables regenerated from the live code and from go/build) + generate-and-compile oracle over table-directed specs, a fixed shape corpus and single-adversarial-name specs",
  "text": ("Proof, partial: over tables regenerated on every run (LanguageOpts.ReservedWords and the manglers' behaviour on probe names; go/build's own decision about which file-name endings carry a build "
           "constraint; the live type/format/zero/converter/formatter tables): reserved_is_go_keywords, mangleVar_not_keyword (for ALL names), tokens_covered + appended_is_neutral => file_never_excluded (for "
           "ALL names, no generated file is left out by go build on any platform), special_dirs_renamed, strfmt_formats_have_formatter / _have_zero, numeric_formats_convert, converters_formatters_paired; timeout_field_fresh: for EVERY set of parameter names renameTimeout terminates (its Go recursion is unbounded) and returns a name colliding with none of them. "
           "Not proved: that template output is well-typed Go - there is no model of the Go type checker; that part is decided by compiling: (a) one definition per build token and every format in every "
           "parameter position, (b) a FIXED corpus of specs covering every schema shape / parameter location / collectionFormat / response layout, generated as server+client and as cli under minimal flatten, "
           "full flatten and expand, (c) a fixed small spec with ONE adversarial name (188-name pool: keywords, predeclared and generated-code identifiers, file-name tokens, punctuation, digits, non-ASCII) at "
           "ONE of 12 positions; quick samples (c), thorough runs all 2200 pairs. The pinned tree fails on a long tail of names and shape combinations: each is a known finding keyed by (position, name or "
           "name class, phase) or by corpus index."),
  "note": ("Trusted: Lean kernel + audited axioms; the translator (live tables through verif accessors, go/build probe); genlab in-process generation through the real CLI plumbing, run from the module root; "
           "`go build` as the judge; go-openapi/validate as the judge of a valid spec. Modelled rather than verified: nothing of the templates. Exploration, not proof: (a)-(c)."),
 },
 "C02": {
  "technique": "Lean 4 proof (reference validity semantics; all readings of the documented relaxation coincide unless some object member holds an explicit zero value) + compiled generated models vs the semantics, calibrated against go-openapi/validate",
  "text": ("Proof, partial: `validG m` is the draft-4 / Swagger-2.0 subset semantics (types, enums, bounds incl. exclusive, multipleOf, lengths, item counts, uniqueness, required, properties, "
           "additionalProperties, allOf, $ref, minProperties / maxProperties) under a reading m of the documented relaxation: `ref` applies it nowhere, `relaxed` everywhere, `any` / `all` take at every site "
           "whichever reading accepts / rejects - the generated code applies the relaxation per site (it depends on whether a member is a pointer), so every admissible validator lies between `all` and `any`. "
           "readings_agree_without_zero proves for EVERY schema, definitions, fuel, instance and pair of readings that they coincide unless some object member is an explicit zero value "
           "(skip_agrees_without_zero, any_all_agree_without_zero), and validG_mono / sandwich that the readings are ordered (validAll -> valid -> validAny, validAll -> validSkip -> validAny): outside those instances the generated Validate has exactly one admissible verdict; the gap is shown real in both directions; "
           "required_null_is_missing fixes the null reading; property_counts. Tie: definition sets (random shapes + four fixed shapes) are generated, their models compiled, and valid-by-construction "
           "instances plus single-point mutations (incl. zero items) are decoded and validated; the verdict must equal validAll wherever validAll = validAny; `valid` itself is compared with "
           "go-openapi/validate on every null-free instance. Not proved: a model of the generated Validate code (pointer / omitempty plan) refining these semantics."),
  "note": ("Trusted: Lean kernel + audited axioms; genlab models lab (generated models + glue main); go-openapi/validate as calibration oracle. Modelled rather than verified: "
           "the generated validators (exercised, not modelled), encoding/json decoding. Fragment: no tuples, polymorphism, patterns, formats, untyped objects; property counts only on objects without "
           "array members and not inside allOf members (two known findings / observations explain why)."),
 },
 "C03": {
  "technique": "Lean 4 proof (agreement of the model of the generated binder with a reference binder for all specs and raw values of the fragment; soundness; counterexample theorems) + compiled generated servers",
  "text": ("Proof on the simple-schema query fragment: `bindGen` transcribes what server/parameter.gotmpl emits (presence test, last value wins, empty-value rule, swag.SplitByFormat, item loop, "
           "array validations), `bindRef` is written from the Swagger 2.0 parameter rules; for ALL parameter specs and ALL raw values: scalar_agrees (string/integer), array_agrees under "
           "`cleanItems`, bind_sound_one/many (whatever the handler receives satisfies every declared validation), required_enforced, optional_absent_keeps_default; the hypotheses are shown "
           "necessary by array_differs_on_blank_items and bool_garbage_accepted (known findings). multi_agrees / multi_sound cover collectionFormat multi (no splitting: agreement on EVERY request). Tie: generated servers with three operations (query, urlencoded formData, header) of 5 random parameters each are compiled and ~25 raw values per parameter "
           "are sent (incl. values with white space at either end); handler-reached and the bound value must equal bindGen exactly and bindRef outside the two known findings; where the "
           "binder answers `absent` for a parameter with a default, the handler must hold exactly the spec's default (defaults incl. strings made of JSON / Go punctuation); "
           "default_literal_structure: the Go literal goSliceInitializer writes for a default has exactly the structure of the value for EVERY value (strings contribute no brace or comma), tied by correspondence with the real function."),
  "note": ("Trusted: Lean kernel + audited axioms; genlab server lab; encoding/json projection of the parameter struct. Modelled rather than verified: net/http query parsing, the runtime router, "
           "swag.SplitByFormat/ConvertInt/ConvertBool (dependencies, transcribed). Outside the fragment (not claimed by the theorems, not yet sent): path, multipart and body parameters, "
           "number and strfmt formats, patterns and nested arrays."),
 },
 "C04": {
  "technique": "Lean 4 proof (round trip client encoding -> server binding for all representable values of the parameter fragment; response dispatch decision logic) + generated client calling generated server over loopback HTTP",
  "text": ("Proof on the simple-parameter fragment, partial: `encodeGen` is what client/parameter.gotmpl writes, `bindGenAny` (C03) what server/parameter.gotmpl binds; split_join proves SplitByFormat inverts "
           "JoinByFormat on items that are not empty, carry no surrounding blanks and do not contain the separator; roundtrip_scalar / roundtrip_array / roundtrip_multi: for EVERY parameter spec and EVERY "
           "spec-satisfying representable value the handler receives exactly the value given (multi needs no representability hypothesis); roundtrip_absent; unrepresentable_differs shows the hypothesis is "
           "necessary; string_codec / bool_codec by computation and int_codec for EVERY integer in the range of the declared width (Params/Decimal.lean: the digits of Nat.toDigits fold back to the number, "
           "signs and the range test of strconv.ParseInt included). dispatch_*: the client's response switch as decision logic (declared 2xx -> typed result, declared non-2xx -> typed error, default non-2xx -> typed default error, default 2xx "
           "-> APIError wrapping the default, no default -> APIError with the code); dispatch_total. Tie: a generated client calls the generated server of the same spec in one process; struct given vs "
           "struct seen, scripted typed responder vs client result/error, and both vs the Lean functions on the same inputs; body variants (model, base64, date, integer array), values with white space at "
           "either end, defaults of omitted parameters, and a census of the media types every generated client operation declares against the spec's effective consumes / produces."),
  "note": ("Trusted: Lean kernel + audited axioms; genlab pair lab (generated client + server + glue main); encoding/json projections. Modelled rather than verified: the templates (transcribed), "
           "swag.JoinByFormat/SplitByFormat/FormatInt/ConvertInt (dependencies, transcribed), net/http and the runtime's escaping (exercised only). Outside the fragment: security, tags, file/multipart "
           "parameters, number and strfmt formats, nested arrays, non-JSON media types, streaming bodies; bodies and response headers are exercised (one object shape, integer and string headers), not modelled."),
 },
 "C05": {
  "technique": "Lean 4 proof (properties of the tolerated-difference relation for all schemas and documents) + compiled generated models round-tripped on valid instances",
  "text": ("Proof, partial: `tolerated` is the decidable relation the property allows between a valid document and its decode/encode image; for ALL schemas and documents: "
           "required_kept, nothing_added, scalars_unchanged, and the documented differences are tolerated while a changed value, a lost required property or an invented member are not "
           "(examples, by kernel evaluation). Tie: compiled generated models are run on valid instances; json.Marshal(json.Unmarshal(doc)) must be tolerated and a second pass must "
           "reproduce the first output exactly (idempotence is checked on the real code); a document that is valid by construction must decode. Named string-format definitions "
           "(duration, date, date-time, uuid, byte; direct, $ref, items, map values) are part of the C05 stream with canonical values only (the Lean relation does not read formats). "
           "A model of the generated serializers is not built."),
  "note": ("Trusted: Lean kernel + audited axioms; genlab models lab; encoding/json. Modelled rather than verified: the generated (un)marshallers (exercised, not modelled). "
           "Fragment as C02; polymorphic base types and tuples are not generated."),
 },
 "C06": {
  "technique": "Lean 4 proof (decision-logic theorems over the authorisation model for all requirement lists and credential assignments) + compiled generated servers with stub authenticators over all credential assignments",
  "text": ("Proof: `serve` models the effective requirement (operation list if present, else global), the `.Authorized` guard of the generated ServeHTTP and the pinned runtime's "
           "RouteAuthenticator(s).Authenticate / Context.Authorize; for ALL requirement lists and ALL credential assignments: open_when_empty, explicit_empty_opens, sound (handler with "
           "a principal only if one alternative has every scheme authenticating, and the principal is one of its schemes' answers), anonymous_only_if_allowed, reject_when_unsatisfied. "
           "Tie: generated servers (global + per-operation requirements over 9 shapes: inherit, `security: []`, single, AND, OR, oauth2 scopes, `{}` alternative) are compiled with stub "
           "authenticators; every assignment of {absent, good, bad} plus nil-principal / uncoded-error / partial-scope credentials is sent and status, handler-reached and principal "
           "must equal the model under one of the two scheme orders of an alternative."),
  "note": ("Trusted: Lean kernel + audited axioms; genlab server lab (generated server + generated glue main, httptest in-process); the stub authenticators and their mirror. "
           "Modelled rather than verified: go-openapi/runtime's router and Authenticate (dependency, transcribed), OAuth2 token introspection (stub), the Authorizer hook (default allow)."),
 },
 "C07": {
  "technique": "Lean 4 proof (order-independence theorems per loop class + a census of every range-over-map regenerated from the source with go/types, discharged by decide) + N-run differential of every command in fresh processes",
  "text": ("Proof for iteration order, partial for schedules: `Gen.mapRanges` lists EVERY `range` over a map in generator/, codescan/ and the diff command (103 today), each classified by syntactic rules "
           "(map/set write, commutative fold, collect-then-sort incl. sorted-by-every-caller, first-error return, differences appended to the sorted report) or by a hand-made classification tied to the hash "
           "of the loop body; all_ranges_discharged (decide +kernel) requires every loop to be in a class with an independence theorem: sort_indep / collect_sort_indep / keys_sorted_indep / sort_by_key_indep "
           "(for ALL lists and ALL permutations, mergeSort of a permutation is the same list), writeAll_indep (map writes with distinct keys commute), any_indep, count_indep, find_unique_indep, diffs_sorted_indep. "
           "A sort removed, a new unsorted range, or an edited hand-classified loop makes the obligation fail; the search is the differential: every command (generate model/server/client/cli/markdown, flatten, "
           "expand, mixin, diff text/json, generate spec on two scanner fixtures) is run N times in fresh processes on a spec with 9-12 entries in every map and the outputs are compared byte for byte. "
           "Four order-sensitive loops found this way were repaired (fix: commits); the order-dependent visited-key bookkeeping of the diff analyser is a known finding. "
           "Schedules are not covered by a theorem (runtime behaviour): six concurrent generations in one process under the race detector are compared with the sequential run, and "
           "in-process histories (generations with and without a custom template directory one after the other) are compared with each generation alone in a fresh process."),
  "note": ("Trusted: Lean kernel + audited axioms; the census translator (go/packages + go/types, classification rules in harness/internal/census - a wrong rule is caught only by the differential); "
           "the CLI built from the working tree; sha256 tree comparison. Modelled rather than verified: loop bodies are classified, not translated; purity of functions called inside a loop is assumed "
           "by the rules and validated by the differential. Concurrency (schedules): exercised with -race, not modelled; option parsing of the generate commands is serialised in that run."),
 },
 "C08": {
  "technique": "Lean 4 proof (invariant over the registration loop of gatherOperations for all candidate lists; counterexample theorem) + correspondence through a verif accessor + generation census",
  "text": ("Proof + counterexample: `no_drop` shows by induction over the loop that for EVERY candidate list with pairwise distinct registration names (operationId, else the "
           "method+path key) gatherOperations registers every operation under its own name (nothing dropped or merged); `gather_le`; `merge_is_silent` proves the property false of "
           "the code when names collide (no error is raised) - a known finding. Tie: the real gatherOperations is called through an accessor on specs built from pools of names that "
           "collide after mangling and compared with the compiled model (both tie orders of the unstable sort); each spec is then generated as a server and the generated "
           "initHandlerCache and models directory are counted against the operations and definitions of the spec (definition shapes varied: object, binary, enum, array, map, date, integer; also for generate client); "
           "every operation of a compiled server is then requested on its own method and path (incl. /, trailing slashes, templated paths with a trailing slash)."),
  "note": ("Trusted: Lean kernel + audited axioms; the verif accessor; genlab; regexp scan of generated code. Modelled rather than verified: file naming and type naming "
           "(swag.ToGoName / ToFileName are dependencies; observed through the census), handler registration is read statically for the colliding-name specs and exercised by requests in the reachability phase."),
 },
 "C09": {
  "technique": "Lean 4 proof (escaper theorems for all strings; decide over the regenerated site table) + helper correspondence + hostile-payload AST differential",
  "text": ("Proof: for EVERY string blockcomment output contains no */ (block_safe), comment output never leaves the // lines (line_safe, via equality of the "
           "Split/Join implementation with a character map), and the escapeBackticks / generateReadableSpec expression evaluates back to the text (raw_roundtrip). "
           "`all_sites_safe` is decided by the kernel over the site table REGENERATED on every run by marker rendering: 157 places where one of 43 free-text positions lands "
           "in generated server and client files, each with the lexical context seen by go/scanner and the transformation observed on probe characters; every site must "
           "carry the escaper its context needs (the exception list is empty after nine fix: commits). Tie: the real helpers are compared with the Lean functions on hostile and "
           "random strings; each field then receives a payload closing its context and generation must fail or yield the same declaration skeleton. "
           "struct_tag_one_token: the struct tag GenSchema.PrintTags writes (Go code, free text with --struct-tags description|example) is exactly one Go string literal for EVERY "
           "tag list (model of strconv.Quote / CanBackquote, tied by correspondence with PrintTags and go/scanner), and struct_tag_value: the literal evaluates to exactly the assembled tag text (unquote_quote); last_value_rule_is_unsafe; option sets x fields x payloads on generate model."),
  "note": ("Trusted: Lean kernel + audited axioms; vx extract (Sites.lean by marker rendering through the real generate command plumbing, go/scanner); go/parser; genlab. "
           "Modelled rather than verified: text/template execution and goimports (reached by running them); sites no marker reaches; junction characters between template literals "
           "and escaped values; targets other than server and client (cli, markdown) are not in the table yet."),
 },
 "C10": {
  "technique": "Lean 4 proof (raw-string embedding round trip for all texts, JSON printer emits no carriage return) + read-back of the embedded documents from generated code",
  "text": ("Proof, partial: for EVERY text without carriage return the Go expression produced by generateReadableSpec evaluates back to the text (embedded_text_is_the_text) "
           "and the premise is discharged for JSON text (json_text_has_no_cr, json_string_embeds). Tie: the real helper is compared with the Lean function (C09 run) and, per run, "
           "specs with hostile strings given as JSON or YAML are generated under minimal / full flatten / expand; SwaggerJSON and FlatSwaggerJSON are evaluated out of embedded_spec.go "
           "(go/parser + strconv.Unquote) and compared: the original must be JSON-equal to the input, the flat one must describe the same API after full $ref expansion. That "
           "analysis.Flatten and model planning preserve the API is explored, not proved; GET /swagger.json is not exercised yet."),
  "note": ("Trusted: Lean kernel + audited axioms; go/parser + strconv.Unquote as evaluator of the embedded expression; go-openapi/loads and spec.ExpandSpec as $ref oracle; yaml.v3. "
           "Modelled rather than verified: analysis.Flatten (dependency), the in-place rewrites of model planning, encoding/json."),
 },
 "C11": {
  "technique": "Lean 4 proof (invariants by induction over all histories of a file-system state machine) + regenerated layout table + random-history correspondence with the swagger CLI",
  "text": ("Proof: the write policy of GenOpts.write (skip iff SkipExists and the file exists, else overwrite; nothing is removed) is a state machine; "
           "for ALL finite histories of generation runs and user edits: user_preserved (a path no run names keeps the last user content), no_delete, "
           "configure_kept (a path only written with SkipExists keeps its content once present), converges / independent_of_prior_state (every non-skipped "
           "file of a run equals what a generation into an empty directory gives). Which template entries carry SkipExists is REGENERATED from the live "
           "GenOpts.Sections through the real createSwagger plumbing, with and without --regenerate-configureapi (only_configure_skips, regenerate_clears_skip "
           "by decide). Tie: random histories (server/client/model runs on an evolving spec, user edits/adds) executed with the CLI built from the tree; after "
           "every step the target tree equals the model state and the property's own tree oracles hold."),
  "note": ("Trusted: Lean kernel + audited axioms; vx extract (Layout from live Sections via a verif-tagged probe around createSwagger); genlab (CLI built from /repo without "
           "tags, scratch module outside /repo and /verif, tree hashing). Modelled rather than verified: which files a run writes and their content (observed from a fresh "
           "generation), template rendering, goimports formatting; a failing run that dumps unformatted text is allowed by the property and not exercised."),
 },
 "C12": {
  "technique": "Lean 4 proof (identity and no-panic theorems over a full executable model of the analyser) + model/implementation correspondence",
  "text": ("Proof: `self_identity` shows for EVERY well-formed document, fuel and iteration order that a normal return of the modelled "
           "analyser on (s, s) is the empty report (induction on fuel, Hoare triples per Go function); re-serialisation lemmas for the lists read "
           "as sets; the five crash witnesses of the pinned tree are theorems about the repaired model. The model is tied to "
           "cmd/swagger/commands/diff on every run: tables regenerated from live values, and the compiled model is run against diff.Compare "
           "on ~1400 (quick) / ~18000 (thorough) generated self, re-serialised and edited pairs. `total_no_panic` proves the no-crash half: "
           "for EVERY pair of valid documents (every $ref at every depth resolves, every array parameter/header level has items), every fuel and "
           "iteration order, no unguarded dereference of the analyser is reached (induction on the fuel through $ref cycles, allOf, items, "
           "properties; both hypotheses shown necessary); the hypothesis is tied to the reference validator on a sample of each run. "
           "guard_returns / guard_marks / key_ignores_depth state the mechanism of the recursion guard (a $ref at a visited key returns with the state untouched, following a $ref marks the key, "
           "the key reads the first two location nodes only). terminates_acyclic / returns_report: for documents without recursive definitions (every schema, $refs followed, at most d levels deep - "
           "Spec.fitsB, evaluated by the driver on every generated document: about half of them) the analyser does not run out of fuel d+1 and, with validity, returns a report. "
           "For RECURSIVE structures the termination claim is FALSE of the code: recursion_through_allOf_is_unbounded proves that on one valid document (an inline schema reached again "
           "through the allOf ancestry of a definition) the model yields no report for ANY fuel - the real command dies with a stack overflow (known finding, replayed from the corpus on every run)."),
  "note": DIFF_NOTE,
 },
 "C13": {
  "technique": "Lean 4 proof (policy-table theorems by decide over regenerated tables, detection theorems per constraint kind for all values, counterexample theorems) + edit-catalogue sweep with validated witnesses on the real analyser",
  "text": ("Round-5 additions (objects with no declared property on ONE side): first_required_property_step (the walk over the new side's properties appends AddedRequiredProperty when the old side declares none), last_property_removed_step (DeletedProperty whatever the new side holds), compareProperties_guard (the early return needs BOTH sides without properties), with the two table facts AddedRequiredProperty_breaking_in_request / DeletedProperty_breaking_in_response; step level, not lifted to the report. Proof, partial: 46 theorems - the regenerated compatibility tables classify every narrowing code Breaking in its context (policy_sound_*, complete "
           "finite quantifier); CompareProps on two primitives of one type returns exactly the string / numeric / item-count group, and every narrowing kind the "
           "analyser reads (min/maxLength, pattern, string enum shrink, minimum/maximum incl. exclusive, min/maxItems, type and format narrowing) yields a "
           "Narrowed/AddedConstraint/ChangedType/DeletedEnumValue entry for ALL values (detected_*); text mode exits non-zero once an entry is Breaking; "
           "undetected_* prove the property false for multipleOf, uniqueItems, introduced and non-string enums, array-parameter items and allOf-only schemas "
           "(known findings). param_change_reported_breaking lifts detection to the whole report for parameters: for EVERY pair of documents sharing an endpoint and "
           "a parameter on which CompareProps finds a narrowing code, every report Analyse returns contains a Breaking entry (the analyser only appends - Mono "
           "lemmas through every pass - and its loops reach every shared parameter), for every fuel and iteration order; two end-to-end instances "
           "(maxLength, maximum); removed_endpoint_reported_breaking and added_required_param_reported_breaking do the same for the two structural edits; body_root_change_reported_breaking / body_property_change_reported_breaking for the request body (root of an inline schema, and a property of two inline objects); removed_response_reported_breaking for a response code that disappears. Deeper body sites, $ref and allOf are decided by the catalogue sweep: 330 (edit kind x site) entries per round on fresh random specs, "
           "witness validated accepted-before/rejected-after by go-openapi/validate, real report must contain a Breaking entry and exit non-zero."),
  "note": DIFF_NOTE,
 },
 "C14": {
  "technique": "Lean 4 proof per comparator (mirror lemmas, counterexample theorems) + both-orders correspondence with diff.Compare",
  "text": ("Proof, partial: 17 theorems - the direction map `mirror` is an involution on normalised codes; DiffsTo, CompareIntValues/CompareFloatValues "
           "(all bounds, lengths, item counts), CheckToFromRequired, the type hierarchy, CompareEnums and the numeric and string constraint groups of "
           "CompareProps are each proved to mirror their labels when the arguments are swapped, for all inputs; `desc_changed_is_deleted_both_ways` "
           "and `enum_introduced_is_silent` prove the statement false at two points (known findings). The composition into a whole-report law is not a "
           "theorem: it is decided on the real analyser by running both argument orders on every generated pair (multiset of (url, method, response, "
           "field path, mirrored code)) while the compiled model must agree with both reports."),
  "note": DIFF_NOTE,
 },
 "C15": {
  "technique": "Lean 4 proof (string-table round trips by decide over regenerated tables, JSON round trip, Matches/FilterIgnores laws, exit-status theorems) + correspondence with DiffCommand.Execute",
  "text": ("Round-5 additions: breaking_only_respects_ignores (the Breaking section of `-b` under an ignore file lists exactly the Breaking entries the ignore file does not name), breaking_only_ignore_all, breaking_only_exit_zero_when_breaking_ignored, formats_read_the_filtered_list (the JSON report IS the filtered list; both text reports have the same exit status). Proof: 22 theorems over the report model and the REGENERATED code/compatibility string tables - every code and compatibility name "
           "round-trips through the inverse table built in init (complete finite quantifier, decide), a whole difference survives JSON encode/decode "
           "(omitempty rules), Matches is equality, FilterIgnores removes exactly the listed entries (ignore_all, ignore_mem, ignore_sub), text and "
           "breaking-only modes exit non-zero iff a non-ignored Breaking entry exists, each report section is a permutation of its class; "
           "`exit_json_fails` proves the exit-status half false for -f json (known finding, pinned by an existing test). Tie: tables regenerated from "
           "live maps each run; the real command is run in a worker on generated pairs with the JSON report fed back verbatim and as random subsets, "
           "outputs compared with the compiled model line by line."),
  "note": DIFF_NOTE,
 },
 "C18": {
  "technique": "Lean 4 proof (what the model templates print for a constraint vs what the scanner's taggers read: round trip for all count lines and all integer bounds in the plain range, loss theorem outside it) + spec -> generate model -> codescan round trip",
  "text": ("Proof for the validation lines, partial: `Doc.emit` prints a constraint as propertyValidationDocString does (numbers through the %v rule of fmt: plain decimal iff the decimal exponent is in [-4, 6), "
           "else scientific), `Doc.parse` transcribes the taggers (keyword table, number sub-expression of the regexps, ParseFloat/ParseInt). count_lines_rt: Max/Min Length, Max/Min Items, Unique, Required, "
           "Read Only round-trip for EVERY value; integer_bound_rt: Maximum / Minimum (inclusive or exclusive) round-trip for EVERY integer bound printed without exponent; sci_dropped: for EVERY decimal "
           "outside the plain range the printed text carries an exponent the scanner's expression does not admit, so the bound is lost (known finding, proved); multipleOf_preserved over the regenerated fact "
           "that the scanner applies the value (the defect was repaired); fraction_examples are evaluated examples. Tie: definition sets + a definition of boundary-valued bounds are generated as models and "
           "scanned back with codescan; every definition is compared after normalisation, every boundary value also with parse(emit c)."),
  "note": ("Trusted: Lean kernel + audited axioms; genlab generation; codescan.Run in-process; the normaliser (drops descriptions, x-go-*, default formats; inlines generator-introduced types). Modelled rather "
           "than verified: the regexp engine (recognisers transcribed by hand), fmt's float formatting (modelled for decimal values, checked on the boundary table), type/format mapping through Go types, "
           "enum and pattern text (exercised only)."),
 },
 "C19": {
  "technique": "Lean 4 proof (decision logic of the two YAML write paths against the reader, for every resolution function of the YAML library and every string) + every spec-emitting command run on all input/output renderings of specs seeded with ambiguous scalars",
  "text": ("Proof of the decision logic, partial: the plain-scalar resolution of yaml.v3 is a PARAMETER of the model; scalar_rt_node / scalar_rt_value prove for EVERY resolution function, EVERY lexical rule of the "
           "emitter and EVERY string other than `<<` that what either write path prints (node encoder of writeToFile, value encoder of generate spec) reads back as the same string, because the writer quotes "
           "exactly when the reader's resolution would not give a string; key_rt covers keys (status codes, numeric-looking property names); merge_unreadable proves the one asymmetric string (known finding). "
           "Tie: expand / flatten / mixin with JSON and YAML input x json / yaml output x compact / pretty and init spec on specs seeded with 24 of 80 ambiguous scalars as values and keys; the YAML output read "
           "with the toolkit's own reader must be JSON-equal to the JSON output, outputs for JSON and YAML input must be equal, every scalar printed plain must read back as itself."),
  "note": ("Trusted: Lean kernel + audited axioms; the CLI built from the working tree; yaml.v3's value encoder for producing YAML INPUT files; swag.YAMLDoc as reader; DeepEqual on decoded JSON. Modelled rather "
           "than verified: yaml.v3 (resolution abstract, scanner/emitter assumed inverse on content per style), number formatting (exercised). A command that fails identically on every rendering of a spec "
           "is outside this property and only counted."),
 },
 "C16": {
  "technique": "Lean 4 proof (the scanner's schema accepts encoding/json's output for every well-formed model type - structs at any depth included - and every null-free value; excluded points proved) + scanned definitions vs marshalled values of the same compiled types",
  "text": ("Proof on the modelled fragment, partial: `schemaOf` models schemaBuilder.buildFromType / buildFromStruct, `encode` models encoding/json (typed: nil pointers / slices / maps -> null, omitempty, "
           "the ,string option, []byte -> base64 string, time.Time and every encoding.TextMarshaler type -> string, also behind pointers), `accepts` is strict draft-4 acceptance of the structural part of a schema. conforms_containers: for EVERY type built from basic "
           "kinds, time.Time, text-marshalling types, []byte, interface{}, pointers, slices, arrays and string-keyed maps in any nesting and EVERY value whose encoding contains no JSON null, the scanned schema accepts the encoding. "
           "conforms: the same for EVERY well-formed type including structs at any depth (distinct json names, ,string only where encoding/json honours it; rename, omitempty, quoting). "
           "The excluded points are proved real: nil_pointer_rejected, nil_slice_rejected (known finding), string_option_mismatch. "
           "Tie: packages of annotated model structs with random field types and json tags (plus embedded helper structs) are scanned with codescan and compiled into a program that fills values by reflection and "
           "marshals them; every document is validated against the scanned definition, every JSON member must be a declared property, and the scanned definition of every model without embedding is compared "
           "with schemaOf on the same type expression."),
  "note": ("Trusted: Lean kernel + audited axioms; codescan.Run in-process; the compiled program (the real encoding/json); go-openapi/validate as acceptance oracle; the structural projection of schemas. "
           "Modelled rather than verified: buildFromType (transcribed for the fragment), encoding/json (transcribed for the fragment). Not in the Lean fragment: struct theorems over all field lists, embedded "
           "structs, named non-struct types, custom marshalers, formats (int32 / float / date-time: seen by the validator only)."),
 },
 "C17": {
  "technique": "Lean 4 proof (three modelled parser stages: totality and line preservation of removeIndent and the crash of its unguarded form; the item splitters of `Schemes:` lines and of route / operation tag lists are faithful for every spacing and never yield an empty item) + correspondence of each stage with the real function through build-tag accessors + annotated programs generated from the documented grammar, clean and with hostile comment lines, scanned with codescan",
  "text": ("Proof for three parser stages, partial: (1) removeIndent (indentation stripper of swagger:operation YAML bodies) is modelled with explicit panics for indexing a nil regexp result; removeIndent_total: it returns "
           "for EVERY list of lines and keeps their number (removeIndent_keeps_lines); blank_first_line_is_identity; unguarded_crashes proves that the code before the repair panicked on an empty body and on a "
           "blank first line. (2) setSchemes.Parse after the regexp capture (split on commas, TrimSpace, drop empties; blank predicate a parameter): schemes_faithful — whatever blanks surround the commas and wherever empty items stand, the scanned schemes are exactly the non-empty tokens written, in order; schemes_items_clean — for EVERY captured string no scheme is empty or carries a comma; schemes_split_loses_nothing; old_schemes_rule_merges (the rule before the repair). "
           "(3) the tag list of swagger:route / swagger:operation lines (strings.Fields on the captured group): tags_faithful, tags_items_clean (no empty tag, no blank inside, for EVERY string), tags_lose_only_blanks. "
           "The models are tied by correspondence: the real functions (verif accessors VerifRemoveIndent, VerifSchemes, VerifPathAnnotation) and the Lean functions on random ASCII bodies and on grammar-generated + hostile annotation lines with ASCII, no-break and ideographic blanks (the real regexp cuts the group, the model gets the group; lines written per the grammar must be recognised and read back exactly). Everything else the property quantifies over is explored, "
           "not proved: programs built from the documented grammar (meta, route + Responses, operation + YAML body, parameters, response, model with validations at items depth, every method and letter case) "
           "must scan into a document that passes go-openapi/validate and holds every annotated route with method, path, id, tag, parameters and response codes; the same programs with hostile lines inserted in "
           "every comment group (and odd field types) must never crash the scanner; body parameters (inline envelope, named, slice, map, pointer) reach un-annotated types, the Schemes line is written with and without spaces. "
           "Two crashes and two invalid-document defects found this way were repaired; the extension-block parser's crashes are known findings."),
  "note": ("Trusted: Lean kernel + audited axioms; codescan.Run in-process under recover(); go-openapi/validate; the expectation derived from the program generator. Modelled rather than verified: removeIndent "
           "(regular expressions transcribed by hand for ASCII), the two item splitters (strings.Split / TrimSpace / Fields transcribed; unicode.IsSpace as a table); the regexps rxSchemes / rxRoute / rxOperation that cut the groups are run, not modelled. Not modelled: the ~40 regular expressions, sectionedParser, yamlSpecScanner, document assembly, merging with an input spec."),
 },
}
NOT_YET = {
}
