# Table of claimed properties (read by mkmanifest.py).
CLAIMED = {}
NOT_YET = {}
