#!/bin/bash
# take_seed.sh <ID> <round> <name>   copy /tmp/mut/<ID>/_seed/<round> to seeded/<name>, confirm the demo in a scratch worktree
# (exit 1 with the patch, 0 without), then run the property's check against the change.
ID=$1; R=$2; NAME=$3
SRC=/tmp/mut/$ID/_seed/$R
[ -f $SRC/patch.diff ] && [ -f $SRC/demo.sh ] || { echo "seed incomplete: $SRC"; exit 2; }
DST=/verif/seeded/$NAME; mkdir -p $DST; cp $SRC/* $DST/
export GOFLAGS=-mod=mod GOPROXY=off GOSUMDB=off GOTOOLCHAIN=local
W=/tmp/cfw_$ID
git -C /repo worktree remove --force $W >/dev/null 2>&1
git -C /repo worktree add --detach $W HEAD >/dev/null 2>&1
( cd $W && git apply $DST/patch.diff ) || { echo "patch does not apply to HEAD"; git -C /repo worktree remove --force $W; exit 2; }
WORKTREE=$W bash $DST/demo.sh > /tmp/take_$ID.with 2>&1; a=$?
git -C $W checkout -- .
WORKTREE=$W bash $DST/demo.sh > /tmp/take_$ID.without 2>&1; b=$?
git -C /repo worktree remove --force $W
echo "$NAME: demo exit with patch=$a without=$b"
/verif/scripts/run_seed.sh $NAME $ID
