#!/usr/bin/env python3
"""Writes /verif/MANIFEST.json from the table below (one entry per claimed property)."""
import json, os, subprocess
V = os.path.dirname(os.path.dirname(os.path.abspath(__file__)))
ALL = [f"C{i:02d}" for i in range(1, 20)]

# id -> (technique, level text, level_note, design_ref)
CLAIMED = {
}

def hook_commits():
    try:
        out = subprocess.run(["git", "-C", "/repo", "log", "--format=%H %s"], capture_output=True, text=True).stdout
        return [l.split()[0] for l in out.splitlines() if l.split(" ", 1)[1].startswith(("verif hook", "verif:"))]
    except Exception:
        return []

def main():
    exec(open(os.path.join(V, "scripts", "claims.py")).read(), globals())
    checks = []
    for pid in ALL:
        if pid not in CLAIMED:
            continue
        c = CLAIMED[pid]
        checks.append({
            "property_id": pid,
            "quick_cmd": f"./check.sh {pid} quick",
            "thorough_cmd": f"./check.sh {pid} thorough",
            "evidence_file": f"/verif/evidence/{pid}.json",
            "replay_cmd_template": f"./check.sh {pid} --replay {{path}}",
            "engine": c.get("engine", "lean-model+vx"),
            "level_claimed": {"category": "proof", "text": c["text"], "design_ref": c.get("design_ref", f"DESIGN.md section 6, {pid}")},
            "level_note": c["note"],
            "technique": c["technique"],
        })
    na = [{"property_id": p, "reason": NOT_YET.get(p, "check not built yet in this round; design in DESIGN.md section 6")} for p in ALL if p not in CLAIMED]
    m = {
        "version": 1,
        "setup_cmd": "./check.sh --setup",
        "hooks": {
            "guard": "verif",
            "enable": "go build -tags verif (the harness module replaces github.com/go-swagger/go-swagger by /repo and is rebuilt on every run)",
            "baseline_off_cmd": "cd /repo && go test -vet=off -count=1 -timeout 25m ./...",
            "source_commits": hook_commits(),
            "add_only": True,
        },
        "engines": [
            {"name": "lean-model", "path": "/verif/lean", "serves_properties": sorted(CLAIMED), "kind_free_text": "Lean 4 lake project GsModel: executable models, property theorems (Props/Cxx.lean), compiled core-only driver gsdriver"},
            {"name": "vx", "path": "/verif/harness", "serves_properties": sorted(CLAIMED), "kind_free_text": "Go harness linked against /repo (build tag verif): translator `vx extract` regenerating lean/GsModel/Gen, correspondence and oracle sweeps `vx check`, replay"},
        ],
        "checks": checks,
        "not_applicable": na,
        "notes": "Technique: machine-checked proof in Lean 4 about executable models, tied to /repo on every run by a translator (Gen/*.lean from live values) and a model-vs-implementation correspondence; see DESIGN.md.",
    }
    json.dump(m, open(os.path.join(V, "MANIFEST.json"), "w"), indent=1)
    print("claimed:", sorted(CLAIMED), "not applicable:", len(na))

main()
