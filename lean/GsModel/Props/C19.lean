import GsModel.Yaml.Scalar
/-
  C19 — JSON and YAML renderings of a spec are interchangeable.   (proof of the decision logic, PARTIAL)

  * `scalar_rt_node`, `scalar_rt_value` — for EVERY plain-scalar resolution function, EVERY lexical rule of the emitter and
    EVERY string other than `<<`: what either YAML write path prints reads back as the same string — because the writer
    quotes exactly when the reader's resolution would not give a string.  This covers values and keys alike (keys are `!!str`
    nodes: numeric-looking keys such as status codes stay strings): `key_rt`.
  * `merge_unreadable` — the one asymmetric string: `<<` resolves to a string on the way out (its first byte has no entry in
    the resolver table) but the parser tags a plain `<<` as a merge key on the way in: the document cannot be read back
    (known finding, dependency behaviour).
  Tie: every spec-emitting command is run with JSON and YAML input and output on specs seeded with ambiguous scalars;
  the YAML output, read with the toolkit's own reader, must be JSON-equal to the JSON output; every scalar the real writer
  printed plain must read back as itself (the model's only claim about `resolve`).
  Not modelled: yaml.v3's scanner / emitter (assumed inverse on content for each style), number formatting
  (strconv 'f' -1 / ParseFloat: exercised), the YAML → JSON conversion of maps and sequences.
-/
namespace Gs.Props.C19
open Gs.Yaml

theorem scalar_rt_node (e : Emitter) (s : Str) (h : s ≠ ['<', '<']) : readBack e (writeNode e s) = .str s := by
  unfold writeNode
  by_cases hn : s.contains '\n' = true
  · rw [if_pos hn]; rfl
  · rw [if_neg hn]
    by_cases hq : (decide (e.resolve s ≠ .str) || e.lexical s) = true
    · rw [if_pos hq]; rfl
    · rw [if_neg hq]
      have hr : e.resolve s = .str := by
        simp only [Bool.or_eq_true, decide_eq_true_eq, not_or, Bool.not_eq_true] at hq
        exact Classical.not_not.mp hq.1
      simp [readBack, h, hr]

theorem scalar_rt_value (e : Emitter) (extra : Str → Bool) (s : Str) (h : s ≠ ['<', '<']) :
    readBack e (writeValue e extra s) = .str s := by
  unfold writeValue
  by_cases hn : s.contains '\n' = true
  · rw [if_pos hn]; rfl
  · rw [if_neg hn]
    by_cases hq : (decide (e.resolve s ≠ .str) || extra s || e.lexical s) = true
    · rw [if_pos hq]; rfl
    · rw [if_neg hq]
      have hr : e.resolve s = .str := by
        simp only [Bool.or_eq_true, decide_eq_true_eq, not_or, Bool.not_eq_true] at hq
        exact Classical.not_not.mp hq.1.1
      simp [readBack, h, hr]

/-- keys are written through the same node path: a key that looks like a number, a boolean or null stays a string key -/
theorem key_rt (e : Emitter) (k : Str) (h : k ≠ ['<', '<']) : readBack e (writeNode e k) = .str k := scalar_rt_node e k h

/-- `<<`: written plain whenever the resolver says string and the emitter has no lexical objection — and then unreadable -/
theorem merge_unreadable (e : Emitter) (hr : e.resolve ['<', '<'] = .str) (hl : e.lexical ['<', '<'] = false) :
    readBack e (writeNode e ['<', '<']) = .unreadable := by
  have hn : (['<', '<'] : Str).contains '\n' = false := by decide
  simp [writeNode, readBack, hr, hl, hn]

/-- a writer that printed plain without consulting the reader's resolution would corrupt the document: the quoting
    condition is necessary (non-vacuity of the theorems' content) -/
theorem unquoted_number_changes (e : Emitter) (s : Str) (h : e.resolve s = .int) (hs : s ≠ ['<', '<']) :
    readBack e (.plain, s) = .other .int s := by
  simp [readBack, hs, h]

end Gs.Props.C19
