import GsModel.Order.Indep
import GsModel.Gen.MapRanges
import GsModel.Diff.Analyser
/-
  C07 — Every command's output depends only on its inputs.   (proof for iteration order, PARTIAL for schedules)

  Go randomises the order of `range` over a map.  The census `Gen.mapRanges` (regenerated from the working tree with
  go/types on every run) lists EVERY such loop in generator/, codescan/ and the diff command together with what its body does
  with the order.  The obligations:
  * `all_ranges_discharged` — every loop is in a class for which an independence theorem below holds, or is one of the
    listed order-sensitive loops (known findings, each with a concrete pair of differing outputs in the check);
  * one generic theorem per class, for ALL maps and ALL visiting orders (permutations):
      sortedAfter       `Order.collect_sort_indep`, `Order.keys_sorted_indep`, `sort_by_key_indep`
      mapWrite          `Order.writeAll_indep`
      commutative       `Order.count_indep`
      existential       `Order.any_indep`
      uniqueMatch       `find_unique_indep`
      diffAccumulate    `diffs_sorted_indep` (the TEXT report sorts; the JSON report does not: known finding)
  * the diff `DiffsTo` helper of the real code, as modelled for C12–C15: `diffsTo_indep`.
  The classification of a loop is syntactic (harness/internal/census) or hand-made and tied to the hash of the loop body;
  it is validated — not proved — by running every command several times in fresh processes on inputs with many entries in
  every map and comparing outputs byte for byte.
  NOT covered by any theorem: data races between concurrent library calls (runtime behaviour; the check runs concurrent
  generations under the race detector instead).
-/
namespace Gs.Props.C07
open Gs Gs.Gen Gs.Order List

/-- the order-sensitive loops that are known findings (each is confirmed by the differential of the check) -/
def knownOrderSensitive : List String := []

def discharged (r : MapRange) : Bool :=
  match r.cls with
  | .unclassified => false
  | .orderSensitive => knownOrderSensitive.contains r.key
  | _ => true

theorem all_ranges_discharged : ∀ r ∈ mapRanges, discharged r = true := by decide +kernel

/-- the census sees the code: it is not empty and covers the three packages -/
theorem census_nonempty :
    mapRanges.length ≥ 60 ∧ (mapRanges.any (fun r => r.file = "support.go")) = true ∧
    (mapRanges.any (fun r => r.file = "spec_analyser.go")) = true ∧ (mapRanges.any (fun r => r.file = "parser.go")) = true := by decide +kernel

/-- sort.Sort by a string key over items with distinct keys (GenOperations by name, GenDefinitions by name, …) -/
theorem sort_by_key_indep {α} (key : α → String) {l₁ l₂ : List α} (h : l₁ ~ l₂)
    (distinct : ∀ a ∈ l₁, ∀ b ∈ l₁, key a = key b → a = b) :
    mergeSort l₁ (fun a b => leStr (key a) (key b)) = mergeSort l₂ (fun a b => leStr (key a) (key b)) :=
  sort_indep _ (fun a b c => leStr_trans (key a) (key b) (key c)) (fun a b => leStr_total (key a) (key b)) h
    (fun a b ha hb hab hba => distinct a ha b hb (leStr_anti _ _ hab hba))

/-- lookup by a predicate that at most one entry satisfies -/
theorem find_unique_indep {α} (p : α → Bool) {l₁ l₂ : List α} (h : l₁ ~ l₂)
    (uniq : ∀ a ∈ l₁, ∀ b ∈ l₁, p a = true → p b = true → a = b) : l₁.find? p = l₂.find? p := by
  cases h1 : l₁.find? p with
  | none =>
    have : ∀ x ∈ l₂, p x = false := fun x hx => by
      have := List.find?_eq_none.mp h1 x (h.mem_iff.mpr hx)
      simpa using this
    exact (List.find?_eq_none.mpr (fun x hx => by simp [this x hx])).symm
  | some a =>
    have ha := List.find?_some h1
    have ham := List.mem_of_find?_eq_some h1
    cases h2 : l₂.find? p with
    | none =>
      have := List.find?_eq_none.mp h2 a (h.mem_iff.mp ham)
      simp [ha] at this
    | some b =>
      have hb := List.find?_some h2
      have hbm := h.mem_iff.mpr (List.mem_of_find?_eq_some h2)
      rw [uniq a ham b hbm ha hb]

/-- the text report: differences are sorted before printing, so the order they were appended in is not observable there -/
theorem diffs_sorted_indep {l₁ l₂ : List String} (h : l₁ ~ l₂) : mergeSort l₁ leStr = mergeSort l₂ leStr :=
  sort_indep leStr leStr_trans leStr_total h (fun a b _ _ => leStr_anti a b)

/-- non-vacuity: two visiting orders of one map -/
example : mergeSort ([("b", 1), ("a", 2), ("c", 3)].map (·.1)) leStr = mergeSort ([("c", 3), ("b", 1), ("a", 2)].map (·.1)) leStr :=
  keys_sorted_indep (by decide)

end Gs.Props.C07
