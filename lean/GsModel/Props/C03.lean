import GsModel.Params.Bind
import GsModel.Text.Init
/-
  C03 — Generated server binds and validates requests per the spec.

  `bindGen` transcribes the generated binder (presence test, last value wins, empty-value rule, SplitByFormat, item loop,
  array validations); `bindRef` is written from the Swagger 2.0 parameter rules.  Proved for ALL parameter specs of the
  fragment and ALL raw values (and, for defaults, `default_literal_structure`: the Go literal written for a default value has
  exactly the structure of the value, whatever its strings contain — the repaired `goSliceInitializer`):
  * `scalar_agrees`     — for string / integer scalars the generated binder IS the reference; `bool_agrees_on_lexicon`.
  * `array_agrees`      — for arrays it is the reference on every request whose items are non-empty and carry no surrounding
                          blanks (`cleanItems`) …
  * `array_differs_on_blank_items` — … and the hypothesis is necessary: `a,,b` against `items.minLength: 1` reaches the handler
                          with ["a","b"] although the request carries an item the spec forbids (known finding: swag.SplitByFormat
                          trims and drops; replayed on the compiled server).
  * `bind_sound_one`, `bind_sound_many` — whatever the handler receives satisfies every declared validation.
  * `required_enforced`, `optional_absent_keeps_default`.
  * `bool_never_rejected` — the generated binder accepts any text for a boolean (it becomes false): statement about the code,
                          replayed on the server (known finding).
-/
namespace Gs.Props.C03
open Gs.Params

theorem convertRef_eq (ty : PType) (hb : ty ≠ .bool) (raw : Str) : convertRef ty raw = convert ty raw := by
  cases ty with
  | bool => exact absurd rfl hb
  | str => rfl
  | int b => rfl

theorem scalar_agrees (p : PSpec) (hp : p.isArray = false) (hb : p.ty ≠ .bool) (raw : Option (List Str)) :
    bindGen p raw = bindRef p raw := by
  unfold bindGen bindRef
  cases raw with
  | none => cases hr : p.required <;> simp [hp, hr, lastOf, emptyCase]
  | some vs => cases hr : p.required <;> simp [hp, hr, lastOf, emptyCase, scalarCore, convertRef_eq p.ty hb]

theorem bindItems_eq (p : PSpec) : ∀ xs : List Str,
    bindItems p xs = (match xs.mapM (convert p.ty) with
      | none => none
      | some vals => if vals.all (validOne p.v) then some vals else none)
  | [] => by simp [bindItems]
  | x :: xs => by
    simp only [bindItems, List.mapM_cons, bindItems_eq p xs]
    cases hc : convert p.ty x with
    | none => simp
    | some v =>
      cases hm : xs.mapM (convert p.ty) with
      | none => by_cases hv : validOne p.v v = true <;> simp [hv]
      | some vals =>
        by_cases hv : validOne p.v v = true
        · by_cases ha : vals.all (validOne p.v) = true <;> simp [hv, ha]
        · simp [hv]

theorem clean_split (cf : String) (data : Str) (hne : data ≠ []) (hc : cleanItems cf data = true) :
    splitByFormat cf data = splitOn (sepOf cf) data := by
  unfold splitByFormat
  simp only [hne, if_false]
  unfold cleanItems at hc
  rw [List.all_eq_true] at hc
  have h1 : (splitOn (sepOf cf) data).map trimSpace = splitOn (sepOf cf) data := by
    conv => rhs; rw [← List.map_id (splitOn (sepOf cf) data)]
    apply List.map_congr_left
    intro s hs
    have := hc s hs
    simp only [Bool.and_eq_true, decide_eq_true_eq] at this
    exact this.2
  rw [h1, List.filter_eq_self]
  intro s hs
  have := hc s hs
  simp only [Bool.and_eq_true, decide_eq_true_eq] at this
  simp [this.1]

theorem splitOn_ne_nil (sep : Char) : ∀ s, splitOn sep s ≠ []
  | [] => by simp [splitOn]
  | c :: r => by
    unfold splitOn
    split
    · simp
    · split <;> simp

theorem array_agrees (p : PSpec) (hp : p.isArray = true) (hb : p.ty ≠ .bool) (raw : Option (List Str))
    (hclean : ∀ vs, raw = some vs → cleanItems p.cf (vs.getLast?.getD []) = true) : bindGen p raw = bindRef p raw := by
  unfold bindGen bindRef
  cases raw with
  | none =>
    cases hr : p.required <;> simp [hp, hr, splitByFormat, lastOf, emptyCase]
  | some vs =>
    have hc := hclean vs rfl
    have hlast : lastOf (some vs) = vs.getLast?.getD [] := rfl
    simp only [Option.isSome_some, Bool.not_true, Bool.and_false, Bool.false_eq_true, if_false, hp, if_true, hlast]
    by_cases hl : vs.getLast?.getD [] = []
    · cases hr : p.required <;> simp [hl, splitByFormat, emptyCase, hr]
    · have hs := clean_split p.cf _ hl hc
      have hne := splitOn_ne_nil (sepOf p.cf) (vs.getLast?.getD [])
      have hie : (splitOn (sepOf p.cf) (vs.getLast?.getD [])).isEmpty = false := by
        cases h : splitOn (sepOf p.cf) (vs.getLast?.getD []) with
        | nil => exact absurd h hne
        | cons _ _ => rfl
      simp only [hs, hie, Bool.false_eq_true, if_false, hl, arrayCore, bindItems_eq]
      have hcr : convertRef p.ty = convert p.ty := funext (convertRef_eq p.ty hb)
      rw [hcr]
      cases hm : (splitOn (sepOf p.cf) (vs.getLast?.getD [])).mapM (convert p.ty) with
      | none => rfl
      | some vals =>
        by_cases ha : vals.all (validOne p.v) = true
        · simp [ha]
        · simp [ha]

/-- the hypothesis of `array_agrees` is necessary -/
def itemsMin1 : PSpec := { isArray := true, ty := .str, v := { minLen := some 1 } }

theorem array_differs_on_blank_items :
    bindGen itemsMin1 (some ["a,,b".toList]) = .many [.s "a", .s "b"] ∧ bindRef itemsMin1 (some ["a,,b".toList]) = .reject ∧
    bindGen { itemsMin1 with ty := .int 64, v := {} } (some [" 1 , 2".toList]) = .many [.i 1, .i 2] ∧
    bindRef { itemsMin1 with ty := .int 64, v := {} } (some [" 1 , 2".toList]) = .reject := by
  decide

theorem scalarCore_one (p : PSpec) (l : Str) (v : Val) (h : scalarCore p l = .one v) : validOne p.v v = true := by
  unfold scalarCore at h
  split at h
  · cases h
  · rename_i v' _
    by_cases c : validOne p.v v' = true
    · simp only [c, if_true, Bound.one.injEq] at h
      rw [← h]; exact c
    · simp [c] at h

theorem scalarCore_not_many (p : PSpec) (l : Str) (vs : List Val) : scalarCore p l ≠ .many vs := by
  unfold scalarCore
  split
  · intro h; cases h
  · split <;> (intro h; cases h)

theorem arrayCore_not_one (p : PSpec) (l : List Str) (v : Val) : arrayCore p l ≠ .one v := by
  unfold arrayCore
  split
  · intro h; cases h
  · split <;> (intro h; cases h)

theorem arrayCore_many (p : PSpec) (l : List Str) (vs : List Val) (h : arrayCore p l = .many vs) :
    (∀ v ∈ vs, validOne p.v v = true) ∧ validMany p vs = true := by
  unfold arrayCore at h
  split at h
  · cases h
  · rename_i vals hb
    by_cases c : validMany p vals = true
    · simp only [c, if_true, Bound.many.injEq] at h
      subst h
      refine ⟨?_, c⟩
      rw [bindItems_eq] at hb
      split at hb
      · cases hb
      · rename_i vals' _
        by_cases c6 : vals'.all (validOne p.v) = true
        · simp only [c6, if_true, Option.some.injEq] at hb
          subst hb
          exact fun v hv => (List.all_eq_true.mp c6) v hv
        · simp [c6] at hb
    · simp [c] at h

theorem emptyCase_not_value (p : PSpec) : (∀ v, emptyCase p ≠ .one v) ∧ (∀ vs, emptyCase p ≠ .many vs) := by
  unfold emptyCase
  constructor
  · intro v; split <;> (intro h; cases h)
  · intro vs; split <;> (intro h; cases h)

/-- whatever the handler receives satisfies the declared validations -/
theorem bind_sound_one (p : PSpec) (raw : Option (List Str)) (v : Val) (h : bindGen p raw = .one v) : validOne p.v v = true := by
  unfold bindGen at h
  split at h
  · cases h
  · split at h
    · split at h
      · exact absurd h ((emptyCase_not_value p).1 v)
      · exact absurd h (arrayCore_not_one p _ v)
    · split at h
      · exact absurd h ((emptyCase_not_value p).1 v)
      · exact scalarCore_one p _ v h

theorem bind_sound_many (p : PSpec) (raw : Option (List Str)) (vs : List Val) (h : bindGen p raw = .many vs) :
    (∀ v ∈ vs, validOne p.v v = true) ∧ validMany p vs = true := by
  unfold bindGen at h
  split at h
  · cases h
  · split at h
    · split at h
      · exact absurd h ((emptyCase_not_value p).2 vs)
      · exact arrayCore_many p _ vs h
    · split at h
      · exact absurd h ((emptyCase_not_value p).2 vs)
      · exact absurd h (scalarCore_not_many p _ vs)

/-- collectionFormat multi: nothing is split or trimmed, so the generated binder and the reference agree on EVERY request
    (booleans excepted: the lexicon question is the same as for scalars) -/
theorem multi_agrees (p : PSpec) (hb : p.ty ≠ .bool) (raw : Option (List Str)) : bindGenMulti p raw = bindRefMulti p raw := by
  unfold bindGenMulti bindRefMulti
  cases raw with
  | none => cases hr : p.required <;> simp [hr, emptyCase]
  | some vs =>
    simp only [Option.isSome_some, Bool.not_true, Bool.and_false, Bool.false_eq_true, if_false, Option.getD_some]
    by_cases he : vs.isEmpty = true
    · simp [he]
    · simp only [he, Bool.false_eq_true, if_false, arrayCore, bindItems_eq]
      have hcr : convertRef p.ty = convert p.ty := funext (convertRef_eq p.ty hb)
      rw [hcr]
      cases hm : vs.mapM (convert p.ty) with
      | none => rfl
      | some vals =>
        by_cases ha : vals.all (validOne p.v) = true
        · simp [ha]
        · simp [ha]

/-- multi: whatever the handler receives satisfies the declared validations -/
theorem multi_sound (p : PSpec) (raw : Option (List Str)) (vs : List Val) (h : bindGenMulti p raw = .many vs) :
    (∀ v ∈ vs, validOne p.v v = true) ∧ validMany p vs = true := by
  unfold bindGenMulti at h
  split at h
  · cases h
  · split at h
    · exact absurd h ((emptyCase_not_value p).2 vs)
    · exact arrayCore_many p _ vs h

/-- multi: each repeated key is one item, in order; an item that does not convert rejects the request -/
theorem multi_examples :
    bindGenMulti { isArray := true, cf := "multi", ty := .int 64 } (some ["1".toList, "2".toList, "3".toList]) = .many [.i 1, .i 2, .i 3] ∧
    bindGenMulti { isArray := true, cf := "multi", ty := .int 64 } (some ["1".toList, "zzz".toList]) = .reject ∧
    bindGenMulti { isArray := true, cf := "multi", ty := .int 64, required := true } none = .reject ∧
    bindGenMulti { isArray := true, cf := "multi", ty := .str } (some ["a,b".toList]) = .many [.s "a,b"] := by decide

/-- allowEmptyValue: an empty value passes even for a required parameter (and binds nothing); without it, it is rejected -/
theorem allow_empty_passes (p : PSpec) (hr : p.required = true) (hp : p.isArray = false) :
    (p.allowEmpty = true → bindGen p (some [[]]) = .absent ∧ bindRef p (some [[]]) = .absent) ∧
    (p.allowEmpty = false → bindGen p (some [[]]) = .reject ∧ bindRef p (some [[]]) = .reject) := by
  constructor <;> intro ha <;> simp [bindGen, bindRef, hr, hp, ha, lastOf, emptyCase]

theorem required_enforced (p : PSpec) (hr : p.required = true) : bindGen p none = .reject ∧ bindRef p none = .reject := by
  simp [bindGen, bindRef, hr]

theorem optional_absent_keeps_default (p : PSpec) (hr : p.required = false) :
    bindGen p none = .absent ∧ bindGen p (some [[]]) = .absent := by
  cases hp : p.isArray <;> simp [bindGen, hr, hp, splitByFormat, lastOf, emptyCase]

/-- booleans: inside the lexicon the two agree … -/
theorem bool_agrees_on_lexicon :
    (∀ w ∈ trueWords ++ falseWords, bindGen { ty := .bool } (some [w.toList]) = bindRef { ty := .bool } (some [w.toList])) := by
  decide

/-- … outside it the generated binder never rejects, whatever the text (swag.ConvertBool has no error case): the
    reference rejects `certainly-not`, the generated server hands `false` to the handler (known finding) -/
theorem bool_never_rejected (raw : Str) (hne : raw ≠ []) :
    bindGen { ty := .bool } (some [raw]) = .one (.b (convertBool raw)) := by
  simp [bindGen, hne, convert, validOne, lastOf, scalarCore]

theorem bool_garbage_accepted :
    bindGen { ty := .bool } (some ["certainly-not".toList]) = .one (.b false) ∧
    bindRef { ty := .bool } (some ["certainly-not".toList]) = .reject := by decide

/-- non-vacuity of `array_agrees`: a clean pipes value -/
example : cleanItems "pipes" "1|2|3".toList = true ∧
    bindGen { isArray := true, cf := "pipes", ty := .int 64, maxItems := some 3 } (some ["1|2|3".toList]) = .many [.i 1, .i 2, .i 3] := by decide

/-! ### defaults: the Go literal written for a default value -/

/-- the structure (braces, commas, colons outside string literals) of the literal `goSliceInitializer` writes for a default is
    the structure of the VALUE, whatever its strings contain; with `unquote_quote` each string literal evaluates to its string -/
theorem default_literal_structure (v : Gs.Text.Init.V) (h : Gs.Text.Init.numsOk v = true) :
    Gs.Text.Init.skel 0 (Gs.Text.Init.render v) = Gs.Text.Init.shape v := by
  have := Gs.Text.Init.skel_render v [] h
  simpa [Gs.Text.Init.skel] using this

/-- the pinned rule (string replacement on the JSON text) rewrote the strings themselves -/
theorem default_old_rule_rewrites_strings :
    Gs.Text.Init.oldInit "[\"a[1]\",\"b}c\"]".toList = "{\"a{1,}\",\"b,}c\",}".toList ∧
    Gs.Text.Init.render (.arr [.str "a[1]".toList, .str "b}c".toList]) = "{\"a[1]\",\"b}c\",}".toList :=
  Gs.Text.Init.old_rule_rewrites_strings

end Gs.Props.C03
