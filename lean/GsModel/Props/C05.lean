import GsModel.Schema.Valid
/-
  C05 — Model JSON serialization round-trips without loss.

  `tolerated d n s j j'` is the relation the property allows between a valid document `j` and its decode/encode image `j'`
  (an optional property holding a zero value or null may be omitted, an absent array-typed property may come back as null,
  undeclared properties are dropped where the schema has no additionalProperties; nothing else is added or changed).
  Proved about the relation, for ALL schemas and documents:
  * `required_kept`   — a declared required property of the input is never omitted by a tolerated image.
  * `nothing_added`   — every member of a tolerated image comes from the input, or is a null standing for an absent declared
                        array-typed / optional property.
  * `scalars_unchanged` — a tolerated image of a scalar is that scalar.
  * `examples`        — the documented differences are tolerated, a changed value / lost required property / invented member are not.
  The tie to the generated (un)marshallers is behavioural: compiled generated models are run on valid instances,
  json.Marshal(json.Unmarshal(doc)) must be tolerated, and a second pass must reproduce the first output byte for byte
  (idempotence is checked on the real code, not proved).  A model of the generated serializers is not built: partial.
-/
namespace Gs.Props.C05
open Gs Gs.Schema

theorem required_kept (d : Defs) (n : Nat) (s : Schema) (kvs kvs' : List (String × J)) (k : String) (v : J)
    (ht : tolerated d (n+1) s (.obj kvs) (.obj kvs') = true)
    (hk : (k, v) ∈ kvs) (hdecl : (lookup (allProps d n (deref d n s)) k).isSome = true)
    (hreq : (allRequired d n (deref d n s)).contains k = true) : (lookup kvs' k).isSome = true := by
  unfold tolerated at ht
  simp only [Bool.and_eq_true, List.all_eq_true] at ht
  have h := ht.1 (k, v) hk
  simp only at h
  cases hl : lookup kvs' k with
  | some _ => rfl
  | none =>
    rw [hl] at h
    simp only at h
    cases hp : lookup (allProps d n (deref d n s)) k with
    | none => rw [hp] at hdecl; cases hdecl
    | some ps =>
      rw [hp] at h
      simp only [Bool.and_eq_true, Bool.not_eq_true'] at h
      rw [hreq] at h
      cases h.1

theorem nothing_added (d : Defs) (n : Nat) (s : Schema) (kvs kvs' : List (String × J)) (k : String) (v' : J)
    (ht : tolerated d (n+1) s (.obj kvs) (.obj kvs') = true) (hk : (k, v') ∈ kvs') :
    (lookup kvs k).isSome = true ∨ (isNull v' = true ∧ (lookup (allProps d n (deref d n s)) k).isSome = true) := by
  unfold tolerated at ht
  simp only [Bool.and_eq_true, List.all_eq_true] at ht
  have h := ht.2 (k, v') hk
  simp only [Bool.or_eq_true] at h
  rcases h with h | h
  · exact Or.inl h
  · right
    cases hp : lookup (allProps d n (deref d n s)) k with
    | none => rw [hp] at h; cases h
    | some ps =>
      rw [hp] at h
      simp only [Bool.and_eq_true] at h
      exact ⟨h.1, rfl⟩

theorem scalars_unchanged (d : Defs) (n : Nat) (s : Schema) (a b : String) (h : tolerated d (n+2) s (.str a) (.str b) = true) : a = b := by
  unfold tolerated at h
  simpa [J.beq] using h

/-! ### the relation on concrete cases -/

def petProps : List (String × Schema) :=
  [("name", { ty := "string" }), ("age", { ty := "integer" }), ("tags", { ty := "array", items := some { ty := "string" } })]
def petS : Schema := { ty := "object", required := ["name"], props := petProps }

theorem examples :
    -- optional zero value omitted, absent array rendered as null, undeclared property dropped
    tolerated [] 9 petS (.obj [("name", .str "x"), ("age", .num 0), ("zz", .num 1000)]) (.obj [("name", .str "x"), ("tags", .null)]) = true ∧
    -- identity
    tolerated [] 9 petS (.obj [("name", .str "x"), ("age", .num 3000)]) (.obj [("name", .str "x"), ("age", .num 3000)]) = true ∧
    -- a required property may not be omitted, even when it holds the zero value
    tolerated [] 9 petS (.obj [("name", .str "")]) (.obj []) = false ∧
    -- a non-zero optional value may not be lost
    tolerated [] 9 petS (.obj [("name", .str "x"), ("age", .num 3000)]) (.obj [("name", .str "x")]) = false ∧
    -- nothing may be changed or invented
    tolerated [] 9 petS (.obj [("name", .str "x")]) (.obj [("name", .str "y")]) = false ∧
    tolerated [] 9 petS (.obj [("name", .str "x")]) (.obj [("name", .str "x"), ("age", .num 1000)]) = false := by
  decide

end Gs.Props.C05
