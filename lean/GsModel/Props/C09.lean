import GsModel.Text.EscapeLemmas
import GsModel.Text.Tags
import GsModel.Text.Unquote
import GsModel.Gen.Sites
/-
  C09 — Free text from the spec never becomes code.

  * `block_safe`, `line_safe`, `raw_roundtrip` (module Text.EscapeLemmas, restated here as property theorems): for EVERY
    string, `blockcomment` output contains no `*/`, `comment` output never leaves the `//` lines, and the
    `escapeBackticks` / `generateReadableSpec` expression evaluates back to the original text.
  * `struct_tag_one_token`: the struct tag written by `GenSchema.PrintTags` (Go code, not a template site: with
    `--struct-tags description|example` it carries free text) is, for EVERY list of tags and values, exactly one Go string
    literal — a raw literal with no backtick inside when every value can be back-quoted, one `strconv.Quote`d literal
    otherwise (model of strconv.Quote / CanBackquote tied by the correspondence run), and (`struct_tag_value`) the literal's
    value is exactly the assembled tag text; `last_value_rule_is_unsafe`: the
    simplification "only the last value decides" does not have the property.
  * `all_sites_safe`: over the site table REGENERATED on every run by marker rendering (every place a free-text field
    lands in a generated file, its observed lexical context and the transformation observed on probe characters), every
    site is protected by the escaper its context needs, or is one of the listed exceptions.  The exceptions are the
    known findings / fail-closed sites of the unchanged tree; the check replays a hostile payload at each of them.
-/
namespace Gs.Props.C09
open Gs.Text Gs.Gen

theorem blockcomment_never_closes (s : Str) : hasBlockEnd (blockComment s) = false := block_safe s

theorem comment_stays_in_line_comments (s pad : Str) (hp : '\n' ∉ pad) : inLineComments (padComment s pad) = true :=
  line_safe s pad hp

theorem backticks_roundtrip (s : Str) (h : '\r' ∉ s) : evalGo ('`' :: escBacktick s ++ ['`']) = some s := embed_rt s h

/-- non-vacuity / sanity: the raw text itself does close a block comment and does leave a line comment -/
example : hasBlockEnd "x */ func init() {} /*".toList = true ∧ hasBlockEnd (blockComment "x */ func init() {} /*".toList) = false := by
  decide
example : inLineComments "a\nfunc init() {}".toList = false ∧ inLineComments (padComment "a\nfunc init() {}".toList [' ']) = true := by
  decide

/-- the struct tag is one string literal, whatever free text the values carry -/
theorem struct_tag_one_token (tags : List (Tags.Str × Tags.Str)) (custom : Tags.Str)
    (hk : ∀ kv ∈ tags, '`' ∉ kv.1) (hc : '`' ∉ custom) :
    Tags.rawOneToken (Tags.printTags tags custom) = true ∨ Tags.interpOneToken (Tags.printTags tags custom) = true :=
  Tags.printTags_one_token tags custom hk hc

/-- … and its value is exactly the tag text: either the raw literal holds `completeTag` verbatim, or the interpreted literal
    unquotes to it (`unquote_quote`: the escapes strconv.Quote writes are undone by the scanner), for every text of the BMP -/
theorem struct_tag_value (tags : List (Tags.Str × Tags.Str)) (custom : Tags.Str)
    (hbmp : ∀ c ∈ Tags.completeTag tags custom, c.toNat < 65536) :
    Tags.printTags tags custom = '`' :: Tags.completeTag tags custom ++ ['`'] ∨
    ∃ body, Tags.printTags tags custom = '"' :: body ++ ['"'] ∧ Tags.unq body = some (Tags.completeTag tags custom) := by
  unfold Tags.printTags
  split
  · exact Or.inl rfl
  · exact Or.inr ⟨Tags.quoteBody _, rfl, Tags.unquote_quote _ hbmp⟩

theorem quote_is_one_token (s : Tags.Str) : Tags.interpOneToken (Tags.quote s) = true := Tags.quote_one_token s

theorem last_value_rule_is_unsafe :
    let tags := [("json".toList, "name".toList), ("description".toList, "a` }; var X = 1; type T struct { F int `b".toList), ("yaml".toList, "name".toList)]
    Tags.rawOneToken (Tags.printTagsLastWins tags []) = false ∧ Tags.interpOneToken (Tags.printTagsLastWins tags []) = false ∧
    (Tags.rawOneToken (Tags.printTags tags []) = true ∨ Tags.interpOneToken (Tags.printTags tags []) = true) :=
  Tags.last_value_rule_is_unsafe

/-- the escaper a lexical context needs -/
def siteOk (s : Site) : Bool :=
  match s.ctx with
  | .line => s.nl == .comment || s.nl == .escaped
  | .block => s.blockEnd
  | .raw => s.backtick
  | .interp => s.quote && s.bslash && s.nl == .escaped
  | .code => false

/-- sites of the tree that are not protected.  The pinned tree had 18 of them (operation summary, info.description, patterns and
    defaults inside block comments, doc.go fields, the struct-field Pattern line, the client's inline response schemas); all were
    repaired by `fix:` commits, so the list is empty and EVERY reached site is proved protected. -/
def knownUnprotected : List String := []

theorem all_sites_safe : ∀ s ∈ sites, siteOk s = true ∨ s.key ∈ knownUnprotected := by decide +kernel

/-- the table is not trivially small, and no field lands in code position -/
theorem sites_reached : sites.length ≥ 100 ∧ ∀ s ∈ sites, s.ctx ≠ Ctx.code := by decide +kernel

end Gs.Props.C09
