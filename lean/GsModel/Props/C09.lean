import GsModel.Text.EscapeLemmas
import GsModel.Gen.Sites
/-
  C09 — Free text from the spec never becomes code.

  * `block_safe`, `line_safe`, `raw_roundtrip` (module Text.EscapeLemmas, restated here as property theorems): for EVERY
    string, `blockcomment` output contains no `*/`, `comment` output never leaves the `//` lines, and the
    `escapeBackticks` / `generateReadableSpec` expression evaluates back to the original text.
  * `all_sites_safe`: over the site table REGENERATED on every run by marker rendering (every place a free-text field
    lands in a generated file, its observed lexical context and the transformation observed on probe characters), every
    site is protected by the escaper its context needs, or is one of the listed exceptions.  The exceptions are the
    known findings / fail-closed sites of the unchanged tree; the check replays a hostile payload at each of them.
-/
namespace Gs.Props.C09
open Gs.Text Gs.Gen

theorem blockcomment_never_closes (s : Str) : hasBlockEnd (blockComment s) = false := block_safe s

theorem comment_stays_in_line_comments (s pad : Str) (hp : '\n' ∉ pad) : inLineComments (padComment s pad) = true :=
  line_safe s pad hp

theorem backticks_roundtrip (s : Str) (h : '\r' ∉ s) : evalGo ('`' :: escBacktick s ++ ['`']) = some s := embed_rt s h

/-- non-vacuity / sanity: the raw text itself does close a block comment and does leave a line comment -/
example : hasBlockEnd "x */ func init() {} /*".toList = true ∧ hasBlockEnd (blockComment "x */ func init() {} /*".toList) = false := by
  decide
example : inLineComments "a\nfunc init() {}".toList = false ∧ inLineComments (padComment "a\nfunc init() {}".toList [' ']) = true := by
  decide

/-- the escaper a lexical context needs -/
def siteOk (s : Site) : Bool :=
  match s.ctx with
  | .line => s.nl == .comment || s.nl == .escaped
  | .block => s.blockEnd
  | .raw => s.backtick
  | .interp => s.quote && s.bslash && s.nl == .escaped
  | .code => false

/-- sites of the tree that are not protected.  The pinned tree had 18 of them (operation summary, info.description, patterns and
    defaults inside block comments, doc.go fields, the struct-field Pattern line, the client's inline response schemas); all were
    repaired by `fix:` commits, so the list is empty and EVERY reached site is proved protected. -/
def knownUnprotected : List String := []

theorem all_sites_safe : ∀ s ∈ sites, siteOk s = true ∨ s.key ∈ knownUnprotected := by decide +kernel

/-- the table is not trivially small, and no field lands in code position -/
theorem sites_reached : sites.length ≥ 100 ∧ ∀ s ∈ sites, s.ctx ≠ Ctx.code := by decide +kernel

end Gs.Props.C09
