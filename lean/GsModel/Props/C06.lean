import GsModel.Sec.Serve
/-
  C06 — Generated server enforces security requirements exactly.

  Theorems about the decision model (tied to generated servers by running them against stub authenticators over all
  credential assignments), for ALL requirement lists and ALL credential assignments:
  * `open_when_empty`     — an empty effective requirement (no global one, or `security: []`) serves without credentials.
  * `op_overrides_global` — the operation's own list, even empty, replaces the global one.
  * `sound`               — the handler runs with a principal only if some alternative has every scheme authenticating,
                            and the principal is the answer of one of that alternative's schemes.
  * `anonymous_only_if_allowed` — the handler runs without principal only if the requirement is empty or lists `{}`.
  * `reject_when_unsatisfied`  — if no alternative authenticates and none is anonymous the handler does not run, and
                            the status is the authenticator's code or 401.
-/
namespace Gs.Props.C06
open Gs.Sec

theorem open_when_empty (global : List Alt) (op : Option (List Alt)) (cred : String → Res)
    (h : effective global op = []) : serve global op cred = .handler none := by
  simp [serve, h]

theorem op_overrides_global (global l : List Alt) : effective global (some l) = l ∧ effective global none = global := ⟨rfl, rfl⟩

/-- `security: []` on the operation opens it whatever the global requirement -/
theorem explicit_empty_opens (global : List Alt) (cred : String → Res) : serve global (some []) cred = .handler none := rfl

theorem authAlt_ok (cred : String → Res) : ∀ (a : Alt) (last p), authAlt cred a last = .ok (some p) →
    altAuthenticates cred a ∧ ((∃ s ∈ a, cred s = .ok p) ∨ last = some p)
  | [], last, p, h => by
    simp only [authAlt, AltRes.ok.injEq] at h
    refine ⟨?_, Or.inr h⟩
    intro s hs
    cases hs
  | s :: rest, last, p, h => by
    simp only [authAlt] at h
    cases hc : cred s with
    | notApplies => rw [hc] at h; cases h
    | err c => rw [hc] at h; cases h
    | okNil =>
      rw [hc] at h
      obtain ⟨ha, hp⟩ := authAlt_ok cred rest none p h
      refine ⟨?_, ?_⟩
      · intro t ht
        rcases List.mem_cons.mp ht with e | e
        · subst e; exact Or.inl hc
        · exact ha t e
      · rcases hp with ⟨t, ht, hp⟩ | hp
        · exact Or.inl ⟨t, List.mem_cons_of_mem _ ht, hp⟩
        · cases hp
    | ok q =>
      rw [hc] at h
      obtain ⟨ha, hp⟩ := authAlt_ok cred rest (some q) p h
      refine ⟨?_, ?_⟩
      · intro t ht
        rcases List.mem_cons.mp ht with e | e
        · subst e; exact Or.inr ⟨q, hc⟩
        · exact ha t e
      · rcases hp with ⟨t, ht, hp⟩ | hp
        · exact Or.inl ⟨t, List.mem_cons_of_mem _ ht, hp⟩
        · simp only [Option.some.injEq] at hp
          subst hp
          exact Or.inl ⟨s, List.mem_cons_self, hc⟩

theorem authAlts_sound (cred : String → Res) : ∀ (alts : List Alt) (le : Option Nat) (anon : Bool) (p : String),
    authAlts cred alts le anon = .handler (some p) →
    ∃ a ∈ alts, a ≠ [] ∧ altAuthenticates cred a ∧ ∃ s ∈ a, cred s = .ok p
  | [], le, anon, p, h => by
    simp only [authAlts] at h
    cases le with
    | some c => cases h
    | none => by_cases ha : anon = true <;> simp [ha] at h
  | a :: rest, le, anon, p, h => by
    simp only [authAlts] at h
    by_cases he : a.isEmpty = true
    · simp only [he, if_true] at h
      obtain ⟨b, hb, r⟩ := authAlts_sound cred rest le true p h
      exact ⟨b, List.mem_cons_of_mem _ hb, r⟩
    · simp only [he, Bool.false_eq_true, if_false] at h
      cases hr : authAlt cred a none with
      | notApplies =>
        rw [hr] at h
        obtain ⟨b, hb, r⟩ := authAlts_sound cred rest le anon p h
        exact ⟨b, List.mem_cons_of_mem _ hb, r⟩
      | err c =>
        rw [hr] at h
        obtain ⟨b, hb, r⟩ := authAlts_sound cred rest (some c) anon p h
        exact ⟨b, List.mem_cons_of_mem _ hb, r⟩
      | ok q =>
        rw [hr] at h
        cases q with
        | none =>
          obtain ⟨b, hb, r⟩ := authAlts_sound cred rest le anon p h
          exact ⟨b, List.mem_cons_of_mem _ hb, r⟩
        | some q =>
          simp only [Outcome.handler.injEq, Option.some.injEq] at h
          subst h
          obtain ⟨ha, hp⟩ := authAlt_ok cred a none q hr
          have hne : a ≠ [] := by intro e; subst e; simp at he
          rcases hp with hp | hp
          · exact ⟨a, List.mem_cons_self, hne, ha, hp⟩
          · cases hp

/-- the handler runs with a principal only if one alternative of the effective requirement is fully authenticated,
    and the principal handed over is what one of its schemes' authenticators returned -/
theorem sound (global : List Alt) (op : Option (List Alt)) (cred : String → Res) (p : String)
    (h : serve global op cred = .handler (some p)) :
    ∃ a ∈ effective global op, a ≠ [] ∧ altAuthenticates cred a ∧ ∃ s ∈ a, cred s = .ok p := by
  unfold serve at h
  simp only at h
  split at h
  · cases h
  · exact authAlts_sound cred _ none false p h

theorem authAlts_anon (cred : String → Res) : ∀ (alts : List Alt) (le : Option Nat) (anon : Bool),
    authAlts cred alts le anon = .handler none → anon = true ∨ ∃ a ∈ alts, a = []
  | [], le, anon, h => by
    simp only [authAlts] at h
    cases le with
    | some c => cases h
    | none =>
      by_cases ha : anon = true
      · exact Or.inl ha
      · simp [ha] at h
  | a :: rest, le, anon, h => by
    simp only [authAlts] at h
    by_cases he : a.isEmpty = true
    · exact Or.inr ⟨a, List.mem_cons_self, List.isEmpty_iff.mp he⟩
    · simp only [he, Bool.false_eq_true, if_false] at h
      have step : ∀ le', authAlts cred rest le' anon = .handler none → anon = true ∨ ∃ a' ∈ a :: rest, a' = [] := by
        intro le' h'
        rcases authAlts_anon cred rest le' anon h' with r | ⟨b, hb, e⟩
        · exact Or.inl r
        · exact Or.inr ⟨b, List.mem_cons_of_mem _ hb, e⟩
      cases hr : authAlt cred a none with
      | notApplies => rw [hr] at h; exact step _ h
      | err c => rw [hr] at h; exact step _ h
      | ok q =>
        rw [hr] at h
        cases q with
        | none => exact step _ h
        | some q => cases h

/-- the handler runs without a principal only for an open operation or when the requirement lists the empty alternative -/
theorem anonymous_only_if_allowed (global : List Alt) (op : Option (List Alt)) (cred : String → Res)
    (h : serve global op cred = .handler none) : effective global op = [] ∨ ∃ a ∈ effective global op, a = [] := by
  unfold serve at h
  simp only at h
  split at h
  · rename_i he; exact Or.inl (List.isEmpty_iff.mp he)
  · rcases authAlts_anon cred _ none false h with r | r
    · cases r
    · exact Or.inr r

/-- a request that satisfies no alternative does not reach the handler -/
theorem reject_when_unsatisfied (global : List Alt) (op : Option (List Alt)) (cred : String → Res)
    (hne : effective global op ≠ []) (hno : ∀ a ∈ effective global op, a ≠ [] ∧ ¬ altAuthenticates cred a) :
    ∃ c, serve global op cred = .reject c := by
  cases hs : serve global op cred with
  | reject c => exact ⟨c, rfl⟩
  | handler p =>
    cases p with
    | none =>
      rcases anonymous_only_if_allowed global op cred hs with e | ⟨a, ha, e⟩
      · exact absurd e hne
      · exact absurd e (hno a ha).1
    | some p =>
      obtain ⟨a, ha, _, hauth, _⟩ := sound global op cred p hs
      exact absurd hauth (hno a ha).2

/-- non-vacuity: AND / OR shapes on concrete credentials -/
def credOf (good : List String) (s : String) : Res := if good.contains s then .ok (s ++ ":good") else .notApplies

example : serve [["key"]] (some [["basic", "key"], ["oauth"]]) (credOf ["oauth"]) = .handler (some "oauth:good") := by decide
example : serve [["key"]] (some [["basic", "key"], ["oauth"]]) (credOf ["basic"]) = .reject 401 := by decide
example : serve [["key"]] none (credOf []) = .reject 401 ∧ serve [["key"]] (some []) (credOf []) = .handler none := by decide

end Gs.Props.C06
