import GsModel.Scan.GoTypes
/-
  C16 — Scanned model schemas describe the type's actual JSON encoding.   (proof on the modelled fragment, PARTIAL)

  `Scan.schemaOf` is the schema the scanner builds for a Go type, `Scan.encode` the JSON encoding/json produces for a value
  of it, `Scan.accepts` strict draft-4 acceptance of the structural part of a schema.
  * `conforms_containers` — for EVERY type built from basic kinds, time.Time, text-marshalling types (encoding.TextMarshaler), []byte, interface{}, pointers, slices, arrays and
    string-keyed maps (any nesting) and EVERY value of it: if the encoding contains no JSON null, the scanned schema accepts
    it.
  * `conforms` — the same for EVERY well-formed model type INCLUDING structs at any depth (json names distinct within a
    struct, `,string` only on fields where encoding/json honours it; renamed, omitted-when-empty and quoted fields): every
    member the encoder emits is accepted by the property the scanner declared for it.  `container_wf`: the container
    fragment is the struct-free part.  `struct_examples` are evaluated instances.
  * the excluded points are real, each proved: `nil_pointer_rejected`, `nil_slice_rejected` (JSON null against a typed schema;
    the scanner's --nullable-pointers option exists for the first), `string_option_mismatch` (a `,string` field that the scanner types as string although
    encoding/json ignores the option on that type).
  Tie: Go packages with random model types are scanned with codescan AND compiled into a program that marshals random values
  of the same types; every marshalled value is validated against the scanned definition with go-openapi/validate, and the
  scanned definition is compared with `schemaOf` on the same type expression.
-/
namespace Gs.Props.C16
open Gs Gs.Schema Gs.Scan

/-- types without structs -/
def container : Nat → GoTy → Bool
  | 0, _ => false
  | _+1, .basic _ => true
  | n+1, .ptr t => container n t
  | n+1, .slice t => container n t
  | n+1, .arr t => container n t
  | n+1, .map t => container n t
  | _+1, .time => true
  | _+1, .text => true
  | _+1, .bytes => true
  | _+1, .iface => true
  | _+1, _ => false

theorem mapM_all2 {α β} (f : α → Option β) (p q : β → Bool) : ∀ (l : List α) (r : List β),
    l.mapM f = some r → r.all q = true → (∀ a ∈ l, ∀ b, f a = some b → q b = true → p b = true) → r.all p = true
  | [], r, h, _, _ => by simp at h; subst h; rfl
  | a :: l, r, h, hq, hp => by
    simp only [List.mapM_cons] at h
    cases ha : f a with
    | none => simp [ha] at h
    | some b =>
      cases hl : l.mapM f with
      | none => simp [ha, hl] at h
      | some r' =>
        simp [ha, hl] at h
        subst h
        simp only [List.all_cons, Bool.and_eq_true] at hq ⊢
        exact ⟨hp a (by simp) b ha hq.1, mapM_all2 f p q l r' hl hq.2 (fun x hx => hp x (List.mem_cons_of_mem _ hx))⟩

theorem accepts_any (m : Nat) (j : J) : accepts (m+1) {} j = true := by
  cases j <;> simp [accepts, typeOk, lookup]

theorem noNull_pos : ∀ (m : Nat) (j : J), noNull m j = true → ∃ k, m = k + 1
  | 0, _, h => by simp [noNull] at h
  | k+1, _, _ => ⟨k, rfl⟩

theorem conforms_containers (b : Bool) : ∀ (n : Nat) (t : GoTy) (v : GoVal) (j : J) (m : Nat),
    container n t = true → encode n t v = some j → noNull m j = true → accepts m (schemaOf b n t) j = true
  | 0, _, _, _, _, h, _, _ => by simp [container] at h
  | n+1, t, v, j, m, hc, he, hn => by
    obtain ⟨k, rfl⟩ := noNull_pos m j hn
    cases t with
    | basic kd =>
      cases kd <;> cases v <;> simp [encode] at he <;> subst he <;> simp [accepts, schemaOf, kindSchema, typeOk]
    | ptr t =>
      cases v with
      | nil => simp [encode] at he; subst he; simp [noNull] at hn
      | ptr w =>
        simp only [encode] at he
        simp only [container] at hc
        exact conforms_containers b n t w j (k+1) hc he hn
      | _ => simp [encode] at he
    | slice t =>
      simp only [container] at hc
      cases v with
      | nil => simp [encode] at he; subst he; simp [noNull] at hn
      | list l =>
        simp only [encode] at he
        cases hm : l.mapM (encode n t) with
        | none => simp [hm] at he
        | some r =>
          simp [hm] at he; subst he
          simp only [noNull] at hn
          simp only [accepts, schemaOf, typeOk, Bool.true_and, decide_true, Bool.or_true]
          exact mapM_all2 (encode n t) (accepts k (schemaOf b n t)) (noNull k) l r hm hn
            (fun a _ jb hjb hq => conforms_containers b n t a jb k hc hjb hq)
      | _ => simp [encode] at he
    | arr t =>
      simp only [container] at hc
      cases v with
      | list l =>
        simp only [encode] at he
        cases hm : l.mapM (encode n t) with
        | none => simp [hm] at he
        | some r =>
          simp [hm] at he; subst he
          simp only [noNull] at hn
          simp only [accepts, schemaOf, typeOk, Bool.true_and, decide_true, Bool.or_true]
          exact mapM_all2 (encode n t) (accepts k (schemaOf b n t)) (noNull k) l r hm hn
            (fun a _ jb hjb hq => conforms_containers b n t a jb k hc hjb hq)
      | _ => simp [encode] at he
    | map t =>
      simp only [container] at hc
      cases v with
      | nil => simp [encode] at he; subst he; simp [noNull] at hn
      | map kvs =>
        simp only [encode] at he
        cases hm : kvs.mapM (fun kv => (encode n t kv.2).map (fun j => (kv.1, j))) with
        | none => simp [hm] at he
        | some r =>
          simp [hm] at he; subst he
          simp only [noNull] at hn
          simp only [accepts, schemaOf, typeOk, Bool.true_and, decide_true, Bool.or_true, List.all_nil, lookup, Option.isSome_none,
            Bool.false_or]
          exact mapM_all2 _ (fun kv => accepts k (schemaOf b n t) kv.2) (fun kv => noNull k kv.2) kvs r hm hn
            (fun a _ kb hkb hq => by
              cases hj : encode n t a.2 with
              | none => simp [hj] at hkb
              | some j =>
                simp [hj] at hkb
                subst hkb
                exact conforms_containers b n t a.2 j k hc hj hq)
      | _ => simp [encode] at he
    | time => cases v <;> simp [encode] at he <;> subst he <;> simp [accepts, schemaOf, typeOk]
    | text => cases v <;> simp [encode] at he <;> subst he <;> simp [accepts, schemaOf, typeOk]
    | iface =>
      have : schemaOf b (n+1) .iface = {} := rfl
      rw [this]; exact accepts_any k j
    | strct fs => simp [container] at hc
    | bytes =>
      cases v with
      | nil => simp [encode] at he; subst he; simp [noNull] at hn
      | bytes x => simp [encode] at he; subst he; simp [accepts, schemaOf, typeOk]
      | _ => simp [encode] at he

/-! ### structs -/

def distinctNames : List (FTag × GoTy) → Bool
  | [] => true
  | f :: r => !(r.any (fun g => g.1.json == f.1.json)) && distinctNames r

theorem distinctNames_inj : ∀ (fs : List (FTag × GoTy)), distinctNames fs = true →
    ∀ f ∈ fs, ∀ g ∈ fs, f.1.json = g.1.json → f = g
  | [], _, f, hf, _, _, _ => by simp at hf
  | x :: r, h, f, hf, g, hg, e => by
    simp only [distinctNames, Bool.and_eq_true, Bool.not_eq_true', List.any_eq_false, beq_iff_eq] at h
    simp only [List.mem_cons] at hf hg
    rcases hf with rfl | hf <;> rcases hg with rfl | hg
    · rfl
    · exact absurd e.symm (by simpa using h.1 g hg)
    · exact absurd e (by simpa using h.1 f hf)
    · exact distinctNames_inj r h.2 f hf g hg e

/-- well-formed model types: json names distinct within a struct, `,string` only where encoding/json honours it -/
def wf : Nat → GoTy → Bool
  | 0, _ => false
  | _+1, .basic _ => true
  | n+1, .ptr t => wf n t
  | n+1, .slice t => wf n t
  | n+1, .arr t => wf n t
  | n+1, .map t => wf n t
  | n+1, .strct fs => distinctNames fs && fs.all (fun ft => wf n ft.2 && (!ft.1.asString || stringable ft.2))
  | _+1, .time => true
  | _+1, .text => true
  | _+1, .bytes => true
  | _+1, .iface => true

theorem mem_of_mapM_filterMap {α β} (g : α → Option (Option β)) : ∀ (l : List α) (r : List (Option β)) (x : β),
    l.mapM g = some r → x ∈ r.filterMap id → ∃ a ∈ l, g a = some (some x)
  | [], r, x, h, hx => by simp at h; subst h; simp at hx
  | a :: l, r, x, h, hx => by
    simp only [List.mapM_cons] at h
    cases ha : g a with
    | none => simp [ha] at h
    | some b =>
      cases hl : l.mapM g with
      | none => simp [ha, hl] at h
      | some r' =>
        simp [ha, hl] at h
        subst h
        cases b with
        | none =>
          simp only [List.filterMap_cons, id] at hx
          obtain ⟨a', ha', hg⟩ := mem_of_mapM_filterMap g l r' x hl hx
          exact ⟨a', List.mem_cons_of_mem _ ha', hg⟩
        | some y =>
          simp only [List.filterMap_cons, id, List.mem_cons] at hx
          rcases hx with rfl | hx
          · exact ⟨a, by simp, ha⟩
          · obtain ⟨a', ha', hg⟩ := mem_of_mapM_filterMap g l r' x hl hx
            exact ⟨a', List.mem_cons_of_mem _ ha', hg⟩

/-- a quoted scalar is a string (or the null of a nil pointer) -/
theorem stringable_quote : ∀ (n : Nat) (t : GoTy) (v : GoVal) (j : J), stringable t = true → encode n t v = some j →
    (∃ s, quoteJ j = .str s) ∨ j = .null
  | 0, _, _, _, _, h => by simp [encode] at h
  | n+1, t, v, j, hs, he => by
    cases t with
    | basic k =>
      cases k <;> cases v <;> simp [encode] at he <;> subst he <;> simp [quoteJ]
    | ptr t' =>
      cases t' with
      | basic k =>
        cases v with
        | nil => simp [encode] at he; right; exact he.symm
        | ptr w =>
          simp only [encode] at he
          exact stringable_quote n (.basic k) w j rfl he
        | _ => simp [encode] at he
      | _ => simp [stringable] at hs
    | _ => simp [stringable] at hs

theorem conforms : ∀ (n : Nat) (t : GoTy) (v : GoVal) (j : J) (m : Nat),
    wf n t = true → encode n t v = some j → noNull m j = true → accepts m (schemaOf false n t) j = true
  | 0, _, _, _, _, h, _, _ => by simp [wf] at h
  | n+1, t, v, j, m, hc, he, hn => by
    obtain ⟨k, rfl⟩ := noNull_pos m j hn
    cases t with
    | basic kd =>
      cases kd <;> cases v <;> simp [encode] at he <;> subst he <;> simp [accepts, schemaOf, kindSchema, typeOk]
    | ptr t =>
      cases v with
      | nil => simp [encode] at he; subst he; simp [noNull] at hn
      | ptr w =>
        simp only [encode] at he
        simp only [wf] at hc
        exact conforms n t w j (k+1) hc he hn
      | _ => simp [encode] at he
    | slice t =>
      simp only [wf] at hc
      cases v with
      | nil => simp [encode] at he; subst he; simp [noNull] at hn
      | list l =>
        simp only [encode] at he
        cases hm : l.mapM (encode n t) with
        | none => simp [hm] at he
        | some r =>
          simp [hm] at he; subst he
          simp only [noNull] at hn
          simp only [accepts, schemaOf, typeOk, Bool.true_and, decide_true, Bool.or_true]
          exact mapM_all2 (encode n t) (accepts k (schemaOf false n t)) (noNull k) l r hm hn
            (fun a _ jb hjb hq => conforms n t a jb k hc hjb hq)
      | _ => simp [encode] at he
    | arr t =>
      simp only [wf] at hc
      cases v with
      | list l =>
        simp only [encode] at he
        cases hm : l.mapM (encode n t) with
        | none => simp [hm] at he
        | some r =>
          simp [hm] at he; subst he
          simp only [noNull] at hn
          simp only [accepts, schemaOf, typeOk, Bool.true_and, decide_true, Bool.or_true]
          exact mapM_all2 (encode n t) (accepts k (schemaOf false n t)) (noNull k) l r hm hn
            (fun a _ jb hjb hq => conforms n t a jb k hc hjb hq)
      | _ => simp [encode] at he
    | map t =>
      simp only [wf] at hc
      cases v with
      | nil => simp [encode] at he; subst he; simp [noNull] at hn
      | map kvs =>
        simp only [encode] at he
        cases hm : kvs.mapM (fun kv => (encode n t kv.2).map (fun j => (kv.1, j))) with
        | none => simp [hm] at he
        | some r =>
          simp [hm] at he; subst he
          simp only [noNull] at hn
          simp only [accepts, schemaOf, typeOk, Bool.true_and, decide_true, Bool.or_true, List.all_nil, lookup, Option.isSome_none,
            Bool.false_or]
          exact mapM_all2 _ (fun kv => accepts k (schemaOf false n t) kv.2) (fun kv => noNull k kv.2) kvs r hm hn
            (fun a _ kb hkb hq => by
              cases hj : encode n t a.2 with
              | none => simp [hj] at hkb
              | some j =>
                simp [hj] at hkb
                subst hkb
                exact conforms n t a.2 j k hc hj hq)
      | _ => simp [encode] at he
    | time => cases v <;> simp [encode] at he <;> subst he <;> simp [accepts, schemaOf, typeOk]
    | text => cases v <;> simp [encode] at he <;> subst he <;> simp [accepts, schemaOf, typeOk]
    | iface =>
      have : schemaOf false (n+1) .iface = {} := rfl
      rw [this]; exact accepts_any k j
    | bytes =>
      cases v with
      | nil => simp [encode] at he; subst he; simp [noNull] at hn
      | bytes x => simp [encode] at he; subst he; simp [accepts, schemaOf, typeOk]
      | _ => simp [encode] at he
    | strct fs =>
      simp only [wf, Bool.and_eq_true, List.all_eq_true] at hc
      obtain ⟨hd, hall⟩ := hc
      cases v with
      | strct vs =>
        simp only [encode] at he
        split at he
        · cases he
        · obtain ⟨l, hm, hj0⟩ := Option.map_eq_some_iff.mp he
          subst hj0
          · simp only [noNull, List.all_eq_true] at hn
            simp only [accepts, schemaOf, typeOk, Bool.true_and, decide_true, Bool.or_true, Bool.and_true, List.all_eq_true]
            intro kp hkp
            obtain ⟨ft, hft, rfl⟩ := List.mem_map.mp hkp
            cases hl : lookup (List.filterMap id l) ft.1.json with
            | none => rfl
            | some w =>
              simp only
              have hmem := lookup_mem _ _ _ hl
              obtain ⟨fv, hfv, hg⟩ := mem_of_mapM_filterMap _ (fs.zip vs) l (ft.1.json, w) hm hmem
              have hfs : fv.1 ∈ fs := (List.of_mem_zip hfv).1
              by_cases hom : (fv.1.1.omitempty && isEmptyVal fv.2) = true
              · simp [hom] at hg
              · simp only [hom, Bool.false_eq_true, if_false] at hg
                cases hj : encode n fv.1.2 fv.2 with
                | none => simp [hj] at hg
                | some j' =>
                  simp only [hj, Option.map_some, Option.some.injEq, Prod.mk.injEq] at hg
                  obtain ⟨hname, hw⟩ := hg
                  have hsame : fv.1 = ft := distinctNames_inj fs hd fv.1 hfs ft hft hname
                  have hnw : noNull k w = true := hn (ft.1.json, w) hmem
                  have hwf := hall ft hft
                  simp only [Bool.and_eq_true, Bool.or_eq_true, Bool.not_eq_true'] at hwf
                  rw [hsame] at hw hj
                  by_cases hs : (ft.1.asString && stringable ft.2) = true
                  · simp only [hs, if_true] at hw
                    have hstr : ft.1.asString = true := by simp only [Bool.and_eq_true] at hs; exact hs.1
                    simp only [hstr, Bool.false_or, Bool.true_and, hs, if_true]
                    have hsb : stringable ft.2 = true := by simp only [Bool.and_eq_true] at hs; exact hs.2
                    rcases stringable_quote n ft.2 fv.2 j' hsb hj with ⟨s', hq⟩ | hnull
                    · rw [← hw, hq]
                      obtain ⟨k', rfl⟩ := noNull_pos k w hnw
                      simp [accepts, typeOk, hsb]
                    · subst hnull
                      simp only [quoteJ] at hw
                      subst hw
                      obtain ⟨k', rfl⟩ := noNull_pos k _ hnw
                      simp [noNull] at hnw
                  · have hs' : (ft.1.asString && stringable ft.2) = false := by simpa using hs
                    simp only [hs', Bool.false_eq_true, if_false] at hw
                    subst hw
                    have hcond : (ft.1.asString && (false || stringable ft.2)) = false := by simpa using hs'
                    simp only [hcond, Bool.false_eq_true, if_false]
                    exact conforms n ft.2 fv.2 j' k hwf.1 hj hnw
      | _ => simp [encode] at he

/-- the container fragment is the struct-free part of `conforms` -/
theorem container_wf : ∀ (n : Nat) (t : GoTy), container n t = true → wf n t = true
  | 0, _, h => by simp [container] at h
  | n+1, t, h => by
    cases t <;> simp [container] at h <;> simp [wf] <;> exact container_wf n _ h

/-! ### the excluded points are real -/

theorem nil_pointer_rejected : ∀ m, accepts m (schemaOf false 3 (.ptr (.basic .str))) .null = false ∧
    encode 3 (.ptr (.basic .str)) .nil = some .null := by
  intro m; cases m <;> simp [accepts, schemaOf, kindSchema, typeOk, encode]

theorem nil_slice_rejected : ∀ m, accepts m (schemaOf false 3 (.slice (.basic .int))) .null = false ∧
    encode 3 (.slice (.basic .int)) .nil = some .null := by
  intro m; cases m <;> simp [accepts, schemaOf, typeOk, encode]

/-- []byte: a base64 string on the wire and in the schema (the scanner described it as an array of integers before the repair) -/
theorem bytes_ok (x : String) : accepts 2 (schemaOf false 3 .bytes) (.str x) = true ∧ encode 3 .bytes (.bytes x) = some (.str x) := by
  simp [accepts, schemaOf, typeOk, encode]

/-- a `,string` option on a slice field: ignored by encoding/json, typed as string by a scanner that looks at the option only -/
theorem string_option_mismatch :
    (encode 5 (.strct [({ json := "xs", asString := true }, .slice (.basic .int))]) (.strct [.list [.int 1]])).map
      (accepts 5 (schemaOf true 5 (.strct [({ json := "xs", asString := true }, .slice (.basic .int))]))) = some false ∧
    (encode 5 (.strct [({ json := "xs", asString := true }, .slice (.basic .int))]) (.strct [.list [.int 1]])).map
      (accepts 5 (schemaOf false 5 (.strct [({ json := "xs", asString := true }, .slice (.basic .int))]))) = some true := by decide

/-- structs (evaluated examples): rename, omitempty, `,string` on a number, nesting -/
def exTy : GoTy := .strct [({ json := "id" }, .basic .int), ({ json := "name", omitempty := true }, .basic .str),
  ({ json := "ratio", asString := true }, .basic .float), ({ json := "tags" }, .slice (.basic .str)),
  ({ json := "inner" }, .strct [({ json := "ok" }, .basic .bool)]), ({ json := "when" }, .time)]

theorem struct_examples :
    (encode 6 exTy (.strct [.int 7, .str "", .float 1500, .list [.str "a"], .strct [.bool true], .time "2020-01-01T00:00:00Z"])).map
      (accepts 6 (schemaOf false 6 exTy)) = some true ∧
    (encode 6 exTy (.strct [.int 7, .str "n", .float 0, .list [], .strct [.bool false], .time "t"])).map
      (accepts 6 (schemaOf true 6 exTy)) = some true := by decide

/-- text-marshalling types (encoding.TextMarshaler, value or pointer receiver reached through a pointer): as a field, behind a
    pointer, as slice elements and map values the scanned schema says `string` and encoding/json writes a string -/
def textTy : GoTy := .strct [({ json := "price" }, .text), ({ json := "share" }, .ptr .text),
  ({ json := "shares" }, .slice (.ptr .text)), ({ json := "by_name" }, .map (.ptr .text))]
theorem text_marshalers_conform :
    wf 6 textTy = true ∧
    (encode 6 textTy (.strct [.text "12", .ptr (.text "1/2"), .list [.ptr (.text "3/4")], .map [("k", .ptr (.text "5/6"))]])).map
      (accepts 8 (schemaOf false 6 textTy)) = some true := by
  decide

end Gs.Props.C16
