import GsModel.Scan.GoTypes
/-
  C16 — Scanned model schemas describe the type's actual JSON encoding.   (proof on the container fragment, PARTIAL)

  `Scan.schemaOf` is the schema the scanner builds for a Go type, `Scan.encode` the JSON encoding/json produces for a value
  of it, `Scan.accepts` strict draft-4 acceptance of the structural part of a schema.
  * `conforms_containers` — for EVERY type built from basic kinds, time.Time, []byte, interface{}, pointers, slices, arrays and
    string-keyed maps (any nesting) and EVERY value of it: if the encoding contains no JSON null, the scanned schema accepts
    it.
  * `struct_examples` — structs with renamed, omitted-when-empty and `,string` fields (evaluated examples: tests, not a
    theorem over all structs).
  * the excluded points are real, each proved: `nil_pointer_rejected`, `nil_slice_rejected` (JSON null against a typed schema;
    the scanner's --nullable-pointers option exists for the first), `string_option_mismatch` (a `,string` field that the scanner types as string although
    encoding/json ignores the option on that type).
  Tie: Go packages with random model types are scanned with codescan AND compiled into a program that marshals random values
  of the same types; every marshalled value is validated against the scanned definition with go-openapi/validate, and the
  scanned definition is compared with `schemaOf` on the same type expression.
-/
namespace Gs.Props.C16
open Gs Gs.Schema Gs.Scan

/-- types without structs -/
def container : Nat → GoTy → Bool
  | 0, _ => false
  | _+1, .basic _ => true
  | n+1, .ptr t => container n t
  | n+1, .slice t => container n t
  | n+1, .arr t => container n t
  | n+1, .map t => container n t
  | _+1, .time => true
  | _+1, .bytes => true
  | _+1, .iface => true
  | _+1, _ => false

theorem mapM_all2 {α β} (f : α → Option β) (p q : β → Bool) : ∀ (l : List α) (r : List β),
    l.mapM f = some r → r.all q = true → (∀ a ∈ l, ∀ b, f a = some b → q b = true → p b = true) → r.all p = true
  | [], r, h, _, _ => by simp at h; subst h; rfl
  | a :: l, r, h, hq, hp => by
    simp only [List.mapM_cons] at h
    cases ha : f a with
    | none => simp [ha] at h
    | some b =>
      cases hl : l.mapM f with
      | none => simp [ha, hl] at h
      | some r' =>
        simp [ha, hl] at h
        subst h
        simp only [List.all_cons, Bool.and_eq_true] at hq ⊢
        exact ⟨hp a (by simp) b ha hq.1, mapM_all2 f p q l r' hl hq.2 (fun x hx => hp x (List.mem_cons_of_mem _ hx))⟩

theorem accepts_any (m : Nat) (j : J) : accepts (m+1) {} j = true := by
  cases j <;> simp [accepts, typeOk, lookup]

theorem noNull_pos : ∀ (m : Nat) (j : J), noNull m j = true → ∃ k, m = k + 1
  | 0, _, h => by simp [noNull] at h
  | k+1, _, _ => ⟨k, rfl⟩

theorem conforms_containers (b : Bool) : ∀ (n : Nat) (t : GoTy) (v : GoVal) (j : J) (m : Nat),
    container n t = true → encode n t v = some j → noNull m j = true → accepts m (schemaOf b n t) j = true
  | 0, _, _, _, _, h, _, _ => by simp [container] at h
  | n+1, t, v, j, m, hc, he, hn => by
    obtain ⟨k, rfl⟩ := noNull_pos m j hn
    cases t with
    | basic kd =>
      cases kd <;> cases v <;> simp [encode] at he <;> subst he <;> simp [accepts, schemaOf, kindSchema, typeOk]
    | ptr t =>
      cases v with
      | nil => simp [encode] at he; subst he; simp [noNull] at hn
      | ptr w =>
        simp only [encode] at he
        simp only [container] at hc
        exact conforms_containers b n t w j (k+1) hc he hn
      | _ => simp [encode] at he
    | slice t =>
      simp only [container] at hc
      cases v with
      | nil => simp [encode] at he; subst he; simp [noNull] at hn
      | list l =>
        simp only [encode] at he
        cases hm : l.mapM (encode n t) with
        | none => simp [hm] at he
        | some r =>
          simp [hm] at he; subst he
          simp only [noNull] at hn
          simp only [accepts, schemaOf, typeOk, Bool.true_and, decide_true, Bool.or_true]
          exact mapM_all2 (encode n t) (accepts k (schemaOf b n t)) (noNull k) l r hm hn
            (fun a _ jb hjb hq => conforms_containers b n t a jb k hc hjb hq)
      | _ => simp [encode] at he
    | arr t =>
      simp only [container] at hc
      cases v with
      | list l =>
        simp only [encode] at he
        cases hm : l.mapM (encode n t) with
        | none => simp [hm] at he
        | some r =>
          simp [hm] at he; subst he
          simp only [noNull] at hn
          simp only [accepts, schemaOf, typeOk, Bool.true_and, decide_true, Bool.or_true]
          exact mapM_all2 (encode n t) (accepts k (schemaOf b n t)) (noNull k) l r hm hn
            (fun a _ jb hjb hq => conforms_containers b n t a jb k hc hjb hq)
      | _ => simp [encode] at he
    | map t =>
      simp only [container] at hc
      cases v with
      | nil => simp [encode] at he; subst he; simp [noNull] at hn
      | map kvs =>
        simp only [encode] at he
        cases hm : kvs.mapM (fun kv => (encode n t kv.2).map (fun j => (kv.1, j))) with
        | none => simp [hm] at he
        | some r =>
          simp [hm] at he; subst he
          simp only [noNull] at hn
          simp only [accepts, schemaOf, typeOk, Bool.true_and, decide_true, Bool.or_true, List.all_nil, lookup, Option.isSome_none,
            Bool.false_or]
          exact mapM_all2 _ (fun kv => accepts k (schemaOf b n t) kv.2) (fun kv => noNull k kv.2) kvs r hm hn
            (fun a _ kb hkb hq => by
              cases hj : encode n t a.2 with
              | none => simp [hj] at hkb
              | some j =>
                simp [hj] at hkb
                subst hkb
                exact conforms_containers b n t a.2 j k hc hj hq)
      | _ => simp [encode] at he
    | time => cases v <;> simp [encode] at he <;> subst he <;> simp [accepts, schemaOf, typeOk]
    | iface =>
      have : schemaOf b (n+1) .iface = {} := rfl
      rw [this]; exact accepts_any k j
    | strct fs => simp [container] at hc
    | bytes =>
      cases v with
      | nil => simp [encode] at he; subst he; simp [noNull] at hn
      | bytes x => simp [encode] at he; subst he; simp [accepts, schemaOf, typeOk]
      | _ => simp [encode] at he

/-! ### the excluded points are real -/

theorem nil_pointer_rejected : ∀ m, accepts m (schemaOf false 3 (.ptr (.basic .str))) .null = false ∧
    encode 3 (.ptr (.basic .str)) .nil = some .null := by
  intro m; cases m <;> simp [accepts, schemaOf, kindSchema, typeOk, encode]

theorem nil_slice_rejected : ∀ m, accepts m (schemaOf false 3 (.slice (.basic .int))) .null = false ∧
    encode 3 (.slice (.basic .int)) .nil = some .null := by
  intro m; cases m <;> simp [accepts, schemaOf, typeOk, encode]

/-- []byte: a base64 string on the wire and in the schema (the scanner described it as an array of integers before the repair) -/
theorem bytes_ok (x : String) : accepts 2 (schemaOf false 3 .bytes) (.str x) = true ∧ encode 3 .bytes (.bytes x) = some (.str x) := by
  simp [accepts, schemaOf, typeOk, encode]

/-- a `,string` option on a slice field: ignored by encoding/json, typed as string by a scanner that looks at the option only -/
theorem string_option_mismatch :
    (encode 5 (.strct [({ json := "xs", asString := true }, .slice (.basic .int))]) (.strct [.list [.int 1]])).map
      (accepts 5 (schemaOf true 5 (.strct [({ json := "xs", asString := true }, .slice (.basic .int))]))) = some false ∧
    (encode 5 (.strct [({ json := "xs", asString := true }, .slice (.basic .int))]) (.strct [.list [.int 1]])).map
      (accepts 5 (schemaOf false 5 (.strct [({ json := "xs", asString := true }, .slice (.basic .int))]))) = some true := by decide

/-- structs (evaluated examples): rename, omitempty, `,string` on a number, nesting -/
def exTy : GoTy := .strct [({ json := "id" }, .basic .int), ({ json := "name", omitempty := true }, .basic .str),
  ({ json := "ratio", asString := true }, .basic .float), ({ json := "tags" }, .slice (.basic .str)),
  ({ json := "inner" }, .strct [({ json := "ok" }, .basic .bool)]), ({ json := "when" }, .time)]

theorem struct_examples :
    (encode 6 exTy (.strct [.int 7, .str "", .float 1500, .list [.str "a"], .strct [.bool true], .time "2020-01-01T00:00:00Z"])).map
      (accepts 6 (schemaOf false 6 exTy)) = some true ∧
    (encode 6 exTy (.strct [.int 7, .str "n", .float 0, .list [], .strct [.bool false], .time "t"])).map
      (accepts 6 (schemaOf true 6 exTy)) = some true := by decide

end Gs.Props.C16
