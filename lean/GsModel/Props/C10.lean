import GsModel.Text.EscapeLemmas
/-
  C10 — The spec embedded in a generated server is the input spec.

  The documents are pasted into Go raw string literals by `generateReadableSpec` (every backtick becomes
  `` `+"`"+` ``).  Proved for EVERY text: the Go expression evaluates back to the text (`embedded_text_is_the_text`),
  the escaped text can never terminate the literal early or leave the concatenation shape (`embedded_shape`), and the
  only characters a raw literal would alter (carriage returns) cannot occur because the text is `encoding/json` output
  (`json_text_has_no_cr` for the model's JSON string printer, whose agreement with encoding/json is part of the
  correspondence).  That the flattened document describes the same API (analysis.Flatten, a dependency, plus the
  in-place rewrites of model planning) is decided by the check on the real generator, not by a theorem: partial.
-/
namespace Gs.Props.C10
open Gs.Text

theorem embedded_text_is_the_text (s : Str) (h : '\r' ∉ s) : evalGo ('`' :: escBacktick s ++ ['`']) = some s := embed_rt s h

/-- the embedding never produces a text that fails to be a concatenation of raw literals and "`" -/
theorem embedded_shape (s : Str) (h : '\r' ∉ s) : (evalGo ('`' :: escBacktick s ++ ['`'])).isSome = true := by
  rw [embed_rt s h]; rfl

/-- the helper as it is (backticks, and byte order marks as JSON escapes): the expression evaluates to the text in which
    every U+FEFF is spelled `\\ufeff` - the same JSON value - and to the text itself when there is none; the embedded
    source never contains a raw byte order mark (which the Go compiler rejects) -/
theorem readable_evaluates (s : Str) (h : '\r' ∉ s) :
    evalGo ('`' :: readable s ++ ['`']) = some (escBOM s) ∧ ('\uFEFF' ∉ s → escBOM s = s) ∧ '\uFEFF' ∉ escBOM s :=
  ⟨readable_rt s h, escBOM_id s, escBOM_no_bom s⟩

/-- JSON string printer for the characters that matter here: control characters are written as escapes -/
def jsonEscChar (c : Char) : Str :=
  if c = '"' then ['\\', '"'] else if c = '\\' then ['\\', '\\']
  else if c = '\n' then ['\\', 'n'] else if c = '\r' then ['\\', 'r'] else if c = '\t' then ['\\', 't']
  else if c.toNat < 0x20 then ['\\', 'u', '0', '0', Nat.digitChar (c.toNat / 16), Nat.digitChar (c.toNat % 16)]
  else [c]

def jsonString (s : Str) : Str := '"' :: (s.flatMap jsonEscChar) ++ ['"']

theorem jsonEscChar_no_cr (c : Char) : '\r' ∉ jsonEscChar c := by
  unfold jsonEscChar
  split
  · decide
  · split
    · decide
    · split
      · decide
      · split
        · decide
        · split
          · decide
          · split
            · rename_i h
              have h16 : c.toNat / 16 < 2 := by omega
              have hm : c.toNat % 16 < 16 := Nat.mod_lt _ (by decide)
              have d1 : ∀ n, n < 16 → Nat.digitChar n ≠ '\r' := by decide
              intro hm'
              simp only [List.mem_cons, List.mem_nil_iff, or_false] at hm'
              rcases hm' with e | e | e | e | e | e
              · exact absurd e (by decide)
              · exact absurd e (by decide)
              · exact absurd e (by decide)
              · exact absurd e (by decide)
              · exact d1 _ (by omega) e.symm
              · exact d1 _ hm e.symm
            · rename_i h1 h2 h3 h4 h5 h6
              intro hm
              simp only [List.mem_singleton] at hm
              exact h4 hm.symm

theorem json_text_has_no_cr (s : Str) : '\r' ∉ jsonString s := by
  unfold jsonString
  intro h
  rcases List.mem_cons.mp h with e | h
  · exact absurd e (by decide)
  · rcases List.mem_append.mp h with h | h
    · obtain ⟨c, _, hc⟩ := List.mem_flatMap.mp h
      exact jsonEscChar_no_cr c hc
    · simp only [List.mem_singleton] at h
      exact absurd h (by decide)

/-- hence every JSON string, whatever its content, survives the embedding -/
theorem json_string_embeds (s : Str) :
    evalGo ('`' :: escBacktick (jsonString s) ++ ['`']) = some (jsonString s) :=
  embed_rt _ (json_text_has_no_cr s)

example : evalGo ('`' :: escBacktick (jsonString "a`b\r\"c".toList) ++ ['`']) = some (jsonString "a`b\r\"c".toList) :=
  json_string_embeds _

end Gs.Props.C10
