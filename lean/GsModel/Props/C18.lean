import GsModel.Doc.Lines
import GsModel.Props.C04
import GsModel.Gen.ScanFacts
/-
  C18 — Spec → generated models → scanned spec preserves every schema.   (proof for the validation lines, PARTIAL)

  `Doc.emit` is what the model templates print for a constraint, `Doc.parse` what the scanner's taggers read.
  * `count_lines_rt` — Max/Min Length, Max/Min Items, Unique, Required, Read Only round-trip for EVERY value.
  * `integer_bound_rt` — Maximum / Minimum (inclusive or exclusive) with an integer value v round-trip for EVERY |v| < 10^6.
  * `sci_dropped` — for EVERY decimal value outside the plain range (|v| ≥ 10^6 or 0 < |v| < 10^-4) the printed text carries an
    exponent, which the scanner's regexp does not admit: the constraint is LOST (known finding; the excluded half of the
    round-trip statement, proved, not assumed).
  * `fraction_examples` — fractional bounds in the plain range round-trip (evaluated examples: tests, not a theorem).
  * `multipleOf_rt_iff` — Multiple Of round-trips iff the scanner applies the value it matched (regenerated fact).
  Tie: definitions with these constraints are generated as models and scanned back with codescan; every scanned constraint is
  compared with `parse (emit c)` (the model) and with c itself (the property).
  Not modelled: the regexp engine (the recognisers transcribe the number sub-expression and the keyword table by hand), type
  and format mapping through Go types, items-level lines (none are emitted: known finding), enum and pattern text.
-/
namespace Gs.Props.C18
open Gs Gs.Params Gs.Doc

theorem allDigits_digitsOf (n : Nat) : allDigits (digitsOf n) = true := by
  have hl : digitsOf n = Nat.toDigits 10 n := by
    show (Nat.repr n).toList = _
    exact Nat.toList_repr
  simp only [allDigits, Bool.and_eq_true, decide_eq_true_eq, List.all_eq_true]
  refine ⟨by rw [hl]; exact Nat.toDigits_ne_nil, fun c hc => ?_⟩
  rw [hl] at hc
  exact Nat.isDigit_of_mem_toDigits (by decide) (by decide) hc

theorem count_lines_rt (b : Bool) (n : Nat) :
    parse b (emit (.maxLength n)) = some (.maxLength n) ∧ parse b (emit (.minLength n)) = some (.minLength n) ∧
    parse b (emit (.maxItems n)) = some (.maxItems n) ∧ parse b (emit (.minItems n)) = some (.minItems n) ∧
    parse b (emit .unique) = some .unique ∧ parse b (emit .required) = some .required ∧ parse b (emit .readOnly) = some .readOnly := by
  have h1 := allDigits_digitsOf n
  have h2 : digitsVal (digitsOf n) = some n := digitsVal_repr n
  simp [parse, emit, h1, h2]

/-- a string of digits has no '.' -/
theorem no_dot_of_allDigits (s : Str) (h : allDigits s = true) : s.contains '.' = false := by
  simp only [allDigits, Bool.and_eq_true, List.all_eq_true] at h
  cases hc : s.contains '.' with
  | false => rfl
  | true =>
    have hm : '.' ∈ s := by simpa using hc
    have := h.2 '.' hm
    revert this; decide

theorem digitsOf_head (n : Nat) : ∀ c r, digitsOf n = c :: r → c ≠ '-' ∧ c ≠ '+' := head_not_sign n

theorem isPlain_nosign (c : Char) (r : Str) (h1 : c ≠ '-') (h2 : c ≠ '+') : isPlainDecimal (c :: r) = unsignedOk (c :: r) := by
  unfold isPlainDecimal
  split
  · rename_i heq; cases heq; exact absurd rfl h1
  · rename_i heq; cases heq; exact absurd rfl h2
  · rfl

theorem parseDec_nosign (c : Char) (r : Str) (h1 : c ≠ '-') (h2 : c ≠ '+') (hu : unsignedOk (c :: r) = true) :
    parseDec (c :: r) = parseUnsigned false (c :: r) := by
  unfold parseDec
  rw [isPlain_nosign c r h1 h2, hu]
  simp only [Bool.not_true, Bool.false_eq_true, if_false]
  split
  · rename_i heq; cases heq; exact absurd rfl h1
  · rename_i heq; cases heq; exact absurd rfl h2
  · rfl

/-- integer-valued decimals, non-negative: text and back -/
theorem parseDec_nat (n : Nat) : parseDec (digitsOf n) = some { neg := false, int := n, frac := [] } := by
  have hd := allDigits_digitsOf n
  have hnd := no_dot_of_allDigits _ hd
  have hs : splitOn '.' (digitsOf n) = [digitsOf n] := Gs.Props.C04.splitOn_no_sep '.' _ hnd
  have hv : digitsVal (digitsOf n) = some n := digitsVal_repr n
  have hu : unsignedOk (digitsOf n) = true := by simp [unsignedOk, hs, hd]
  have hp : parseUnsigned false (digitsOf n) = some { neg := false, int := n, frac := [] } := by simp [parseUnsigned, hs, hv]
  cases hl : digitsOf n with
  | nil => rw [hl] at hd; simp [allDigits] at hd
  | cons c r =>
    have ⟨h1, h2⟩ := digitsOf_head n c r hl
    rw [hl] at hu hp
    rw [parseDec_nosign c r h1 h2 hu, hp]

theorem parseDec_neg (n : Nat) (hn : n ≠ 0) : parseDec ('-' :: digitsOf n) = some { neg := true, int := n, frac := [] } := by
  have hd := allDigits_digitsOf n
  have hnd := no_dot_of_allDigits _ hd
  have hs : splitOn '.' (digitsOf n) = [digitsOf n] := Gs.Props.C04.splitOn_no_sep '.' _ hnd
  have hv : digitsVal (digitsOf n) = some n := digitsVal_repr n
  have hne : (n != 0) = true := by simpa using hn
  simp [parseDec, isPlainDecimal, unsignedOk, parseUnsigned, hs, hd, hv, hne]

def intDec (neg : Bool) (n : Nat) : Dec := { neg := neg, int := n, frac := [] }

theorem fmtV_int (neg : Bool) (n : Nat) (h : (intDec neg n).plain = true) :
    fmtV (intDec neg n) = (if neg then ['-'] else []) ++ digitsOf n := by
  simp only [intDec] at h ⊢
  simp [fmtV, h, plainText, sign]

/-- Maximum / Minimum with an integer bound round-trip for every value the generator prints without an exponent -/
theorem integer_bound_rt (b neg excl : Bool) (n : Nat) (hwf : (intDec neg n).wf = true) (hp : (intDec neg n).plain = true) :
    parse b (emit (.maximum (intDec neg n) excl)) = some (.maximum (intDec neg n) excl) ∧
    parse b (emit (.minimum (intDec neg n) excl)) = some (.minimum (intDec neg n) excl) := by
  have hf := fmtV_int neg n hp
  simp only [intDec] at hf ⊢
  cases neg with
  | false =>
    have := parseDec_nat n
    simp only [Bool.false_eq_true, if_false, List.nil_append] at hf
    cases excl <;> simp [parse, emit, hf, this]
  | true =>
    have hn : n ≠ 0 := by
      intro e; subst e
      simp [Dec.wf, intDec] at hwf
    have := parseDec_neg n hn
    simp only [if_true, List.singleton_append] at hf
    cases excl <;> simp [parse, emit, hf, this]

/-- membership in the pieces of a split -/
theorem mem_of_splitOn (sep : Char) : ∀ (s : Str) (c : Char), c ∈ s → c = sep ∨ ∃ p ∈ splitOn sep s, c ∈ p
  | [], c, h => by simp at h
  | x :: r, c, h => by
    have hne := Gs.Props.C03.splitOn_ne_nil sep r
    cases hs : splitOn sep r with
    | nil => exact absurd hs hne
    | cons hd tl =>
      simp only [List.mem_cons] at h
      by_cases hx : x = sep
      · rcases h with rfl | h
        · left; exact hx
        · rcases mem_of_splitOn sep r c h with e | ⟨p, hp, hc⟩
          · left; exact e
          · right
            refine ⟨p, ?_, hc⟩
            simp only [splitOn, hs, hx, if_true]
            rw [hs] at hp
            exact List.mem_cons_of_mem _ hp
      · rcases h with rfl | h
        · right
          refine ⟨c :: hd, ?_, by simp⟩
          simp [splitOn, hs, hx]
        · rcases mem_of_splitOn sep r c h with e | ⟨p, hp, hc⟩
          · left; exact e
          · right
            rw [hs] at hp
            simp only [List.mem_cons] at hp
            rcases hp with rfl | hp
            · exact ⟨x :: p, by simp [splitOn, hs, hx], List.mem_cons_of_mem _ hc⟩
            · exact ⟨p, by simp [splitOn, hs, hx, hp], hc⟩

theorem unsignedOk_chars (s : Str) (h : unsignedOk s = true) : ∀ c ∈ s, c.isDigit = true ∨ c = '.' := by
  intro c hc
  rcases mem_of_splitOn '.' s c hc with e | ⟨p, hp, hcp⟩
  · right; exact e
  · left
    unfold unsignedOk at h
    split at h
    · rename_i a heq
      rw [heq] at hp
      simp only [List.mem_singleton] at hp; subst hp
      simp only [allDigits, Bool.and_eq_true, List.all_eq_true] at h
      exact h.2 c hcp
    · rename_i a b heq
      rw [heq] at hp
      simp only [allDigits, Bool.and_eq_true, List.all_eq_true] at h
      simp only [List.mem_cons, List.not_mem_nil, or_false] at hp
      rcases hp with rfl | rfl
      · exact h.1.2 c hcp
      · exact h.2.2 c hcp
    · cases h

theorem e_not_plain (s : Str) (h : 'e' ∈ s) : isPlainDecimal s = false := by
  cases hp : isPlainDecimal s with
  | false => rfl
  | true =>
    exfalso
    have key : ∀ t : Str, unsignedOk t = true → 'e' ∈ t → False := by
      intro t ht he
      rcases unsignedOk_chars t ht 'e' he with d | d
      · revert d; decide
      · revert d; decide
    unfold isPlainDecimal at hp
    split at hp
    · rename_i r
      simp only [List.mem_cons] at h
      rcases h with e | h
      · revert e; decide
      · exact key r hp h
    · rename_i r
      simp only [List.mem_cons] at h
      rcases h with e | h
      · revert e; decide
      · exact key r hp h
    · exact key s hp h

theorem e_in_sciText (d : Dec) : 'e' ∈ sciText d := by
  simp [sciText]

/-- outside the plain range the bound is printed with an exponent and the scanner does not read it: the constraint is lost -/
theorem sci_dropped (b excl : Bool) (d : Dec) (h : d.plain = false) :
    parse b (emit (.maximum d excl)) = none ∧ parse b (emit (.minimum d excl)) = none := by
  have hf : fmtV d = sciText d := by simp [fmtV, h]
  have hn : parseDec (sciText d) = none := by
    simp [parseDec, e_not_plain _ (e_in_sciText d)]
  simp [parse, emit, hf, hn]

/-- what the generator prints for the boundary values (checked against the real templates by the correspondence run) -/
theorem fmtV_examples :
    String.ofList (fmtV { int := 1000000 }) = "1e+06" ∧ String.ofList (fmtV { int := 999999 }) = "999999" ∧
    String.ofList (fmtV { frac := [0, 0, 0, 0, 1] }) = "1e-05" ∧ String.ofList (fmtV { frac := [0, 0, 0, 1] }) = "0.0001" ∧
    String.ofList (fmtV { int := 123456789 }) = "1.23456789e+08" ∧ String.ofList (fmtV { neg := true, int := 1, frac := [5] }) = "-1.5" ∧
    String.ofList (fmtV { int := 2500000 }) = "2.5e+06" := by decide

/-- fractional bounds in the plain range (evaluated examples — tests, not a theorem over all fractions) -/
theorem fraction_examples :
    parseDec (fmtV { neg := true, int := 1, frac := [5] }) = some { neg := true, int := 1, frac := [5] } ∧
    parseDec (fmtV { frac := [0, 0, 0, 1] }) = some { frac := [0, 0, 0, 1] } ∧
    parseDec (fmtV { int := 12, frac := [2, 5] }) = some { int := 12, frac := [2, 5] } ∧
    parseDec (fmtV { frac := [0, 0, 0, 0, 1] }) = none := by decide

theorem multipleOf_rt_iff (b : Bool) (n : Nat) (hp : (intDec false n).plain = true) :
    parse b (emit (.multipleOf (intDec false n))) = (if b then some (.multipleOf (intDec false n)) else none) := by
  have hf := fmtV_int false n hp
  simp only [Bool.false_eq_true, if_false, List.nil_append, intDec] at hf ⊢
  cases b <;> simp [parse, emit, hf, parseDec_nat n]

/-- on the current tree the scanner applies the value (regenerated fact) … -/
theorem scanner_applies_multipleOf : Gen.multipleOfApplied = true := by decide

/-- … so Multiple Of round-trips for every integer value printed without an exponent -/
theorem multipleOf_preserved (n : Nat) (hp : (intDec false n).plain = true) :
    parse Gen.multipleOfApplied (emit (.multipleOf (intDec false n))) = some (.multipleOf (intDec false n)) := by
  rw [multipleOf_rt_iff _ n hp, scanner_applies_multipleOf]; rfl

/-- non-vacuity of the plain-range hypotheses -/
example : (intDec false 999999).plain = true ∧ (intDec true 5).wf = true ∧ (intDec false 1000000).plain = false := by decide

end Gs.Props.C18
