import GsModel.Diff.Report
/-
  C15 — diff: ignore file, report formats and exit status are coherent.

  Proved about the model `Gs.Diff.Report` over the REGENERATED tables `Gs.Gen.showCode/showCompat/longCode`
  (so an edit to a string table is re-checked on every run):
  * `code_rt`, `compat_rt`, `code_strings_total`   — the JSON names round-trip for every code (complete finite quantifier).
  * `node_rt`, `diff_rt`                           — encode → decode of a whole difference is the identity (omitempty rules).
  * `matches_iff`                                  — Matches is equality of entries.
  * `ignore_all`, `ignore_mem`, `ignore_sub`       — filtering removes exactly the listed entries and nothing else.
  * `exit_iff_txt`, `exit_iff_breaking_only`       — text modes: exit status ≠ 0 exactly when a non-ignored Breaking entry exists.
  * `exit_json_fails`                              — the statement is FALSE for `-f json` (exit status 0 with a Breaking entry):
                                                     known finding, pinned by TestDiffProcessIgnores, not repairable.
  * `sections_perm`, `breaking_only_section`       — text / breaking-only reports list every entry of a class exactly once.
-/
namespace Gs.Props.C15
open Gs Gs.Gen Gs.Diff

/-! ### string tables -/

theorem code_strings_total : ∀ c : Code, (showCode c).isSome = true ∧ (longCode c).isSome = true := by
  intro c; cases c <;> decide

theorem code_rt : ∀ c : Code, parseCode (marshalCode c) = some c := by
  intro c; cases c <;> decide

theorem compat_rt : ∀ c : Compat, parseCompat (marshalCompat c) = some c := by
  intro c; cases c <;> decide

/-- injectivity (what makes the inverse table built in `init` independent of map iteration order) -/
theorem showCode_injective : ∀ a b : Code, marshalCode a = marshalCode b → a = b := by
  intro a b h
  have ha := code_rt a
  have hb := code_rt b
  rw [h] at ha
  rw [ha] at hb
  exact Option.some.inj hb

/-! ### JSON shape of a difference: encode → decode is the identity -/

theorem node_rt : ∀ (l : List NodeSeg) (n : Nat), l.length ≤ n → l ≠ [] →
    ∃ j, encodeNode l = some j ∧ decodeNode n j = l
  | [], _, _, h => absurd rfl h
  | s :: rest, 0, h, _ => by simp at h
  | s :: rest, n+1, h, _ => by
    have hlen : rest.length ≤ n := by simpa using h
    cases s with | mk f t a =>
    by_cases hr : rest = []
    · subst hr
      by_cases hf : f = "" <;> by_cases ht : t = "" <;> cases a <;>
        simp [encodeNode, decodeNode, getStr, getBool, JS.get, List.find?, hf, ht]
    · obtain ⟨j, hj, hd⟩ := node_rt rest n hlen hr
      by_cases hf : f = "" <;> by_cases ht : t = "" <;> cases a <;>
        simp [encodeNode, decodeNode, getStr, getBool, JS.get, List.find?, hf, ht, hj, hd]

/-- the JSON report can be read back verbatim: every difference survives the round trip -/
theorem diff_rt (d : Diff) (n : Nat) (hn : d.loc.node.length ≤ n) : decodeDiff n (encodeDiff d) = some d := by
  cases d with | mk loc code compat info =>
  cases loc with | mk url method response node =>
  simp only at hn
  by_cases hnode : node = []
  · subst hnode
    by_cases hm : method = "" <;> by_cases hr : response = 0 <;> by_cases hi : info = "" <;>
      simp [encodeDiff, decodeDiff, encodeNode, getStr, getNum, JS.get, List.find?, hm, hr, hi, code_rt, compat_rt]
  · obtain ⟨j, hj, hd⟩ := node_rt node n hn hnode
    by_cases hm : method = "" <;> by_cases hr : response = 0 <;> by_cases hi : info = "" <;>
      simp [encodeDiff, decodeDiff, getStr, getNum, JS.get, List.find?, hm, hr, hi, code_rt, compat_rt, hj, hd]

/-! ### Matches -/

theorem equalNodes_iff : ∀ a b : List NodeSeg, equalNodes a b = true ↔ a = b
  | [], [] => by simp [equalNodes]
  | [], _ :: _ => by simp [equalNodes]
  | _ :: _, [] => by simp [equalNodes]
  | a :: as, b :: bs => by
    simp only [equalNodes, Bool.and_eq_true, beq_iff_eq, equalNodes_iff as bs, List.cons.injEq]
    constructor
    · rintro ⟨⟨⟨h1, h2⟩, h3⟩, h4⟩
      refine ⟨?_, h4⟩
      cases a; cases b; simp_all
    · rintro ⟨h, h4⟩
      subst h
      exact ⟨⟨⟨rfl, rfl⟩, rfl⟩, h4⟩

theorem matches_iff (a b : Diff) : a.matches b = true ↔ a = b := by
  unfold Diff.matches equalLocations
  simp only [Bool.and_eq_true, decide_eq_true_eq, beq_iff_eq, equalNodes_iff]
  constructor
  · rintro ⟨⟨⟨h1, h2⟩, h3⟩, ⟨⟨⟨h4, h5⟩, h6⟩, h7⟩⟩
    cases a with | mk la ca ka ia => cases b with | mk lb cb kb ib =>
    cases la; cases lb; simp_all
  · rintro rfl
    exact ⟨⟨⟨rfl, rfl⟩, rfl⟩, ⟨⟨⟨rfl, rfl⟩, rfl⟩, rfl⟩⟩

theorem contains_iff (l : List Diff) (d : Diff) : contains l d = true ↔ d ∈ l := by
  unfold contains
  simp only [List.any_eq_true, matches_iff]
  constructor
  · rintro ⟨e, he, rfl⟩; exact he
  · intro h; exact ⟨d, h, rfl⟩

/-! ### FilterIgnores -/

/-- an entry as the analyser produces it: its compatibility is the one `addDiff` computes -/
def Canonical (d : Diff) : Prop := d.compat = getCompatibilityForChange d.code (d.loc.response > 0)

theorem recompute_canonical (d : Diff) (h : Canonical d) : recompute d = d := by
  cases d; simp_all [recompute, Canonical]

/-- feeding the whole report back as ignore file leaves nothing -/
theorem ignore_all (ds : List Diff) : filterIgnores ds ds = [] := by
  unfold filterIgnores
  rw [List.map_eq_nil_iff, List.filter_eq_nil_iff]
  intro d hd
  simp [(contains_iff ds d).mpr hd]

/-- ignoring a subset removes exactly those entries and nothing else -/
theorem ignore_mem (ds ig : List Diff) (hc : ∀ d ∈ ds, Canonical d) (d : Diff) :
    d ∈ filterIgnores ds ig ↔ d ∈ ds ∧ d ∉ ig := by
  unfold filterIgnores
  simp only [List.mem_map, List.mem_filter, Bool.not_eq_true', ← Bool.not_eq_true, contains_iff]
  constructor
  · rintro ⟨e, ⟨he, hni⟩, rfl⟩
    rw [recompute_canonical e (hc e he)]
    exact ⟨he, hni⟩
  · rintro ⟨hd, hni⟩
    exact ⟨d, ⟨hd, hni⟩, recompute_canonical d (hc d hd)⟩

theorem ignore_sub (ds ig : List Diff) (hc : ∀ d ∈ ds, Canonical d) :
    filterIgnores ds ig = ds.filter (fun d => decide (d ∉ ig)) := by
  unfold filterIgnores
  have h1 : ds.filter (fun d => !contains ig d) = ds.filter (fun d => decide (d ∉ ig)) := by
    apply List.filter_congr
    intro d _
    by_cases h : d ∈ ig
    · simp [h, (contains_iff ig d).mpr h]
    · have : contains ig d = false := by
        cases hh : contains ig d with
        | false => rfl
        | true => exact absurd ((contains_iff ig d).mp hh) h
      simp [h, this]
  rw [h1]
  have h2 : ∀ l : List Diff, (∀ d ∈ l, Canonical d) → l.map recompute = l := by
    intro l
    induction l with
    | nil => intro _; rfl
    | cons x xs ih =>
      intro h
      simp only [List.map_cons, recompute_canonical x (h x List.mem_cons_self),
        ih (fun d hd => h d (List.mem_cons_of_mem _ hd))]
  exact h2 _ (fun d hd => hc d (List.mem_filter.mp hd).1)

/-! ### exit status -/

theorem exit_iff_txt (ds ig : List Diff) :
    (execute false false ds ig).2 = true ↔ breakingCount (filterIgnores ds ig) > 0 := by
  unfold execute reportAllText reportCompatibility
  simp only [Bool.not_false, Bool.and_false, Bool.false_eq_true, if_false]
  by_cases h0 : (filterIgnores ds ig).length = 0
  · have : filterIgnores ds ig = [] := List.eq_nil_of_length_eq_zero h0
    simp [this, breakingCount]
  · simp only [h0, if_false]
    by_cases hb : breakingCount (filterIgnores ds ig) > 0 <;> simp [hb]

theorem exit_iff_breaking_only (ds ig : List Diff) :
    (execute false true ds ig).2 = true ↔ breakingCount (filterIgnores ds ig) > 0 := by
  unfold execute reportCompatibility
  simp only [Bool.not_false, Bool.and_self, if_true]
  by_cases hb : breakingCount (filterIgnores ds ig) > 0 <;> simp [hb]

/-- `-f json`: the command exits 0 whatever the report contains -/
theorem exit_json_zero (brk : Bool) (ds ig : List Diff) : (execute true brk ds ig).2 = false := by
  unfold execute; simp

def breakingEntry : Diff :=
  { loc := { url := "/a", method := "get" }, code := Code.DeletedEndpoint, compat := Compat.Breaking }

/-- the exit-status half of the property fails for the JSON format (known finding; `TestDiffProcessIgnores` pins it) -/
theorem exit_json_fails : breakingCount (filterIgnores [breakingEntry] []) > 0 ∧ (execute true false [breakingEntry] []).2 = false := by
  decide

/-- non-vacuity of the text-mode theorem: the same entry makes the text modes exit non-zero -/
example : (execute false false [breakingEntry] []).2 = true ∧ (execute false true [breakingEntry] []).2 = true := by decide

/-! ### the three renderings describe the same set -/

theorem insertStr_perm (x : String) : ∀ l, (insertStr x l).Perm (x :: l)
  | [] => List.Perm.refl _
  | y :: ys => by
    unfold insertStr
    split
    · exact List.Perm.refl _
    · exact ((insertStr_perm x ys).cons y).trans (List.Perm.swap x y ys)

theorem sortStrs_perm : ∀ l, (sortStrs l).Perm l
  | [] => List.Perm.refl _
  | x :: xs => (insertStr_perm x (sortStrs xs)).trans ((sortStrs_perm xs).cons x)

/-- each section of the text report lists every entry of its class exactly once -/
theorem sections_perm (ds : List Diff) (c : Compat) :
    (reportChanges ds c).Perm ((ds.filter (fun d => d.compat = c)).map Diff.render) :=
  sortStrs_perm _

/-- the breaking-only report prints exactly the Breaking section (framed by fixed lines) -/
theorem breaking_only_section (ds : List Diff) (h : breakingCount ds > 0) :
    ∃ pre post, (reportCompatibility ds).1 = pre ++ reportChanges ds Compat.Breaking ++ post ∧
      (∀ l ∈ pre, l = "" ∨ l = "BREAKING CHANGES:" ∨ l = "=================") ∧ post.length = 1 := by
  unfold reportCompatibility
  simp only [h, if_true]
  refine ⟨_, _, rfl, ?_, rfl⟩
  intro l hl
  simp only [List.mem_append, List.mem_cons, List.mem_nil_iff, or_false] at hl
  rcases hl with hl | hl
  · split at hl
    · simp at hl; exact Or.inl hl
    · cases hl
  · rcases hl with hl | hl
    · exact Or.inr (Or.inl hl)
    · exact Or.inr (Or.inr hl)

/-- in the full text report every non-empty class section is present: Breaking entries appear in it as well -/
theorem text_contains_breaking (ds : List Diff) (h : breakingCount ds > 0) (d : Diff) (hd : d ∈ ds)
    (hb : d.compat = Compat.Breaking) : d.render ∈ (reportAllText ds).1 := by
  have hmem : d.render ∈ reportChanges ds Compat.Breaking := by
    rw [(sections_perm ds Compat.Breaking).mem_iff]
    exact List.mem_map.mpr ⟨d, List.mem_filter.mpr ⟨hd, by simp [hb]⟩, rfl⟩
  unfold reportAllText
  have hne : ds.length ≠ 0 := by
    intro e; have := List.eq_nil_of_length_eq_zero e; subst this; cases hd
  simp only [hne, if_false]
  apply List.mem_append_right
  unfold reportCompatibility
  simp only [h, if_true]
  simp only [List.mem_append]
  exact Or.inl (Or.inr hmem)


/-! ### the three reports describe the same set: every format reads the list AFTER the ignore file was applied -/

/-- the breaking-only report under an ignore file: its Breaking section lists exactly the Breaking entries of the report
    that the ignore file does not name (as a multiset of rendered lines) — an ignored entry cannot be printed, whatever
    the format flags (the round-5 seeded change printed the unfiltered list under `-b`) -/
theorem breaking_only_respects_ignores (ds ig : List Diff) (hc : ∀ d ∈ ds, Canonical d) :
    (reportChanges (filterIgnores ds ig) Compat.Breaking).Perm
      ((ds.filter (fun d => decide (d ∉ ig) && decide (d.compat = Compat.Breaking))).map Diff.render) := by
  have h := sections_perm (filterIgnores ds ig) Compat.Breaking
  rw [ignore_sub ds ig hc, List.filter_filter] at h
  have : (fun d : Diff => decide (d.compat = Compat.Breaking) && decide (d ∉ ig)) =
      (fun d => decide (d ∉ ig) && decide (d.compat = Compat.Breaking)) := by
    funext d; exact Bool.and_comm _ _
  rw [this] at h
  rw [ignore_sub ds ig hc]
  exact h

/-- `-b` with the whole report as ignore file: the fixed OK line, exit 0 -/
theorem breaking_only_ignore_all (ds : List Diff) :
    execute false true ds ds = (.text ["compatibility test OK. No breaking changes identified."], false) := by
  unfold execute
  simp [ignore_all, reportCompatibility, breakingCount]

/-- the JSON report, the text report and the breaking-only report are all computed from `filterIgnores ds ig`: the JSON
    report IS that list; the exit status of the two text reports is the same function of it -/
theorem formats_read_the_filtered_list (ds ig : List Diff) :
    (execute true false ds ig).1 = .json (filterIgnores ds ig) ∧
    (execute false false ds ig).2 = (execute false true ds ig).2 := by
  refine ⟨by simp [execute], ?_⟩
  have h1 := exit_iff_txt ds ig
  have h2 := exit_iff_breaking_only ds ig
  cases ha : (execute false false ds ig).2 <;> cases hb : (execute false true ds ig).2 <;> simp_all

/-- an ignored Breaking entry never decides the exit status of `-b`: with every Breaking entry ignored the command exits 0 -/
theorem breaking_only_exit_zero_when_breaking_ignored (ds ig : List Diff) (hc : ∀ d ∈ ds, Canonical d)
    (h : ∀ d ∈ ds, d.compat = Compat.Breaking → d ∈ ig) : (execute false true ds ig).2 = false := by
  have hz : breakingCount (filterIgnores ds ig) = 0 := by
    unfold breakingCount
    rw [List.length_eq_zero_iff, List.filter_eq_nil_iff]
    intro d hd
    have := (ignore_mem ds ig hc d).mp hd
    intro hb
    exact this.2 (h d this.1 (by simpa using hb))
  have := exit_iff_breaking_only ds ig
  cases he : (execute false true ds ig).2
  · rfl
  · rw [he] at this; have := this.mp rfl; omega

end Gs.Props.C15
