import GsModel.Schema.Valid
/-
  C02 — Generated model validation agrees with the schema.

  `valid` is the JSON-schema (draft 4, Swagger 2.0 subset) semantics of the reference validator; `validSkip` is the same
  semantics with the documented relaxation (docs/reference/models/schemas.md) applied at every place it may apply.  The
  property allows the generated `Validate` to answer like either of them ONLY where they differ.
  * `skip_agrees_without_zero` — for EVERY schema, definitions, fuel and instance: the two semantics coincide on every
    instance none of whose object members is an explicit zero value ("", 0, false).  So outside those instances the generated
    validator has exactly one admissible answer — `valid` — and the check holds it to that answer.
  * `noZeroProps_sound` — the executable test the driver uses for that condition is sound.
  * `validG_mono`, `sandwich` — the readings are ordered: validAll → valid → validAny and validAll → validSkip → validAny for
    EVERY schema, definitions, fuel and instance; `readings_agree_without_zero`: all four coincide without explicit zeros.
  * `zero_of_optional_may_be_skipped`, `zero_of_required_readonly_may_be_missing` — the gap is real (both directions).
  * `required_missing_invalid`, `wrong_type_invalid`, `null_needs_nullable` — sanity of the reference semantics.
  The tie to the generated code is behavioural: compiled generated models are run on (schema, instance) pairs and must
  answer `valid` wherever `valid = validSkip`; `valid` itself is calibrated against go-openapi/validate on the same pairs.
  What is NOT proved: a model of the generated Validate code (its pointer / omitempty plan) refining these semantics.
-/
namespace Gs.Props.C02
open Gs Gs.Schema

/-- no member of any object of the instance is an explicit zero value -/
inductive NoZero : J → Prop
  | null : NoZero .null
  | bool (b : Bool) : NoZero (.bool b)
  | num (m : Int) : NoZero (.num m)
  | str (s : String) : NoZero (.str s)
  | arr (l : List J) : (∀ x ∈ l, NoZero x) → NoZero (.arr l)
  | obj (kvs : List (String × J)) : (∀ kv ∈ kvs, isZero kv.2 = false) → (∀ kv ∈ kvs, NoZero kv.2) → NoZero (.obj kvs)

theorem noZeroProps_sound : ∀ (n : Nat) (j : J), noZeroProps n j = true → NoZero j
  | 0, _, h => by simp [noZeroProps] at h
  | n+1, .null, _ => .null
  | n+1, .bool b, _ => .bool b
  | n+1, .num m, _ => .num m
  | n+1, .str s, _ => .str s
  | n+1, .arr l, h => by
    simp only [noZeroProps, List.all_eq_true] at h
    exact .arr l (fun x hx => noZeroProps_sound n x (h x hx))
  | n+1, .obj kvs, h => by
    simp only [noZeroProps, List.all_eq_true, Bool.and_eq_true, Bool.not_eq_true'] at h
    exact .obj kvs (fun kv hkv => (h kv hkv).1) (fun kv hkv => noZeroProps_sound n kv.2 (h kv hkv).2)

theorem all_congr2 {α} (l : List α) (f g : α → Bool) (h : ∀ x ∈ l, f x = g x) : l.all f = l.all g := by
  induction l with
  | nil => rfl
  | cons x xs ih =>
    simp only [List.all_cons, h x List.mem_cons_self, ih (fun y hy => h y (List.mem_cons_of_mem _ hy))]

theorem reqOk_eq (b1 b2 : Bool) (s : Schema) (kvs : List (String × J)) (hz : ∀ k v, lookup kvs k = some v → isZero v = false) :
    reqOk b1 s kvs = reqOk b2 s kvs := by
  unfold reqOk
  apply all_congr2
  intro r _
  cases hl : lookup kvs r with
  | none => rfl
  | some v =>
    have := hz r v hl
    cases lookup s.props r <;> cases b1 <;> cases b2 <;> simp [this]

theorem propsOk_eq (b1 b2 : Bool) (r1 r2 : Schema → J → Bool) (s : Schema) (kvs : List (String × J))
    (hz : ∀ k v, lookup kvs k = some v → isZero v = false)
    (hr : ∀ kp ∈ s.props, ∀ v, lookup kvs kp.1 = some v → r1 kp.2 v = r2 kp.2 v) :
    propsOk b1 r1 s kvs = propsOk b2 r2 s kvs := by
  unfold propsOk
  apply all_congr2
  intro kp hkp
  cases hl : lookup kvs kp.1 with
  | none => rfl
  | some v =>
    simp only [hz kp.1 v hl, Bool.and_false, Bool.false_and, Bool.false_eq_true, if_false, hr kp hkp v hl]

theorem addlOk_eq (r1 r2 : Schema → J → Bool) (s : Schema) (kvs : List (String × J))
    (hr : ∀ a, s.addl = some a → ∀ kv ∈ kvs, r1 a kv.2 = r2 a kv.2) : addlOk r1 s kvs = addlOk r2 s kvs := by
  unfold addlOk
  cases ha : s.addl with
  | none => rfl
  | some a =>
    simp only
    apply all_congr2
    intro kv hkv
    rw [hr a ha kv hkv]

theorem countOk_eq (s : Schema) (kvs : List (String × J)) (hz : ∀ kv ∈ kvs, isZero kv.2 = false) :
    countOk true s kvs = countOk false s kvs := by
  have h : countedMembers true s kvs = countedMembers false s kvs := by
    unfold countedMembers
    congr 1
    apply List.filter_congr
    intro kv hkv
    simp [hz kv hkv]
  simp only [countOk, h]

theorem countOkM_eq (m1 m2 : Mode) (s : Schema) (kvs : List (String × J)) (hz : ∀ kv ∈ kvs, isZero kv.2 = false) :
    countOkM m1 s kvs = countOkM m2 s kvs := by
  have h := countOk_eq s kvs hz
  cases m1 <;> cases m2 <;> simp [countOkM, h]

/-- JSON null stands for "unset": a required property given as null is missing, whatever x-nullable says -/
theorem required_null_is_missing (skip : Mode) (d : Defs) (n : Nat) :
    validG skip d (n+1) { ty := "object", props := [("p", { ty := "string", nullable := true })], required := ["p"] } (.obj [("p", .null)]) = false := by
  simp [validG, reqOk, lookup, localOk, typeOk]

/-- ALL readings of the relaxation coincide on instances without explicit zero values in object members -/
theorem readings_agree_without_zero (m1 m2 : Mode) (d : Defs) : ∀ (n : Nat) (s : Schema) (j : J), NoZero j →
    validG m1 d n s j = validG m2 d n s j
  | 0, _, _, _ => rfl
  | n+1, s, j, hz => by
    unfold validG
    by_cases hr : s.ref ≠ ""
    · rw [if_pos hr, if_pos hr]
      cases hl : lookup d s.ref with
      | none => rfl
      | some t => exact readings_agree_without_zero m1 m2 d n t j hz
    · rw [if_neg hr, if_neg hr]
      have hall : s.allOf.all (fun a => validG m1 d n a j) = s.allOf.all (fun a => validG m2 d n a j) :=
        all_congr2 s.allOf _ _ (fun a _ => readings_agree_without_zero m1 m2 d n a j hz)
      cases hz with
      | null => rfl
      | bool b => simp only [hall]
      | num m => simp only [hall]
      | str x => simp only [hall]
      | arr l hl =>
        simp only [hall]
        cases s.items with
        | none => rfl
        | some it => simp only [all_congr2 l _ _ (fun x hx => readings_agree_without_zero m1 m2 d n it x (hl x hx))]
      | obj kvs hk0 hk =>
        have hmem : ∀ k v, lookup kvs k = some v → isZero v = false := fun k v h => hk0 (k, v) (lookup_mem kvs k v h)
        have hmem2 : ∀ k v, lookup kvs k = some v → NoZero v := fun k v h => hk (k, v) (lookup_mem kvs k v h)
        simp only [hall, reqOk_eq m1.rq m2.rq s kvs hmem,
          propsOk_eq m1.pr m2.pr (validG m1 d n) (validG m2 d n) s kvs hmem
            (fun kp _ v hv => readings_agree_without_zero m1 m2 d n kp.2 v (hmem2 kp.1 v hv)),
          addlOk_eq (validG m1 d n) (validG m2 d n) s kvs
            (fun a _ kv hkv => readings_agree_without_zero m1 m2 d n a kv.2 (hk kv hkv)), countOkM_eq m1 m2 s kvs hk0]

/-- the documented relaxation can only matter on instances that carry an explicit zero value in an object member -/
theorem skip_agrees_without_zero (d : Defs) (n : Nat) (s : Schema) (j : J) (hz : NoZero j) :
    validSkip d n s j = valid d n s j := readings_agree_without_zero .relaxed .ref d n s j hz

/-- … and then the most permissive and the most severe per-site combination agree with the reference too: the generated
    validator has exactly one admissible answer -/
theorem any_all_agree_without_zero (d : Defs) (n : Nat) (s : Schema) (j : J) (hz : NoZero j) :
    validAny d n s j = valid d n s j ∧ validAll d n s j = valid d n s j :=
  ⟨readings_agree_without_zero .any .ref d n s j hz, readings_agree_without_zero .all .ref d n s j hz⟩

/-! ### the gap is real, in both directions -/

def objS (req : List String) (ps : List (String × Schema)) : Schema := { ty := "object", props := ps, required := req }

/-- an optional string with minLength 1 holding "": invalid for the reference, possibly skipped by the generated code -/
theorem zero_of_optional_may_be_skipped :
    valid [] 5 (objS [] [("s", { ty := "string", minLen := some 1 })]) (.obj [("s", .str "")]) = false ∧
    validSkip [] 5 (objS [] [("s", { ty := "string", minLen := some 1 })]) (.obj [("s", .str "")]) = true := by decide

/-- a required read-only integer holding 0: valid for the reference, possibly reported missing by the generated code -/
theorem zero_of_required_readonly_may_be_missing :
    valid [] 5 (objS ["n"] [("n", { ty := "integer", readOnly := true })]) (.obj [("n", .num 0)]) = true ∧
    validSkip [] 5 (objS ["n"] [("n", { ty := "integer", readOnly := true })]) (.obj [("n", .num 0)]) = false := by decide

/-! ### sanity of the reference semantics -/

theorem required_missing_invalid (skip : Mode) (d : Defs) (n : Nat) (ps : List (String × Schema)) (r : String) (rs : List String)
    (kvs : List (String × J)) (h : lookup kvs r = none) :
    validG skip d (n+1) (objS (r :: rs) ps) (.obj kvs) = false := by
  simp [validG, objS, h, reqOk]

theorem wrong_type_invalid :
    valid [] 3 { ty := "integer" } (.str "1") = false ∧ valid [] 3 { ty := "integer" } (.num 1500) = false ∧
    valid [] 3 { ty := "integer" } (.num 2000) = true ∧ valid [] 3 { ty := "string" } (.num 1000) = false := by decide

theorem null_needs_nullable :
    valid [] 3 { ty := "string" } .null = false ∧ valid [] 3 { ty := "string", nullable := true } .null = true := by decide

/-- bounds incl. exclusive, multipleOf, lengths, item counts, uniqueness and $ref are enforced at depth -/
def deepItems : Schema := { ty := "array", minItems := some 1, unique := true, items := some { ref := "N" } }
def deepS : Schema := objS ["a"] [("a", deepItems)]
def deepD : Defs := [("N", { ty := "integer", minimum := some 1000, exMin := true, multipleOf := some 2000 })]

theorem deep_constraints :
    valid deepD 9 deepS (.obj [("a", .arr [.num 2000, .num 4000])]) = true ∧
    valid deepD 9 deepS (.obj [("a", .arr [.num 2000, .num 2000])]) = false ∧
    valid deepD 9 deepS (.obj [("a", .arr [.num 1000])]) = false ∧
    valid deepD 9 deepS (.obj [("a", .arr [.num 3000])]) = false ∧
    valid deepD 9 deepS (.obj [("a", .arr [])]) = false := by decide

/-- property counts: enforced; an explicit zero of an optional member is counted by the reference and not by the relaxed
    reading (the generated validator counts the members of the re-marshalled struct) -/
def cntProps : List (String × Schema) := [("a", { ty := "string" }), ("flag", { ty := "boolean" }), ("n", { ty := "integer" })]
def cntS : Schema := { ty := "object", minProps := some 1, maxProps := some 2, props := cntProps }

theorem property_counts :
    valid [] 5 cntS (.obj []) = false ∧ valid [] 5 cntS (.obj [("a", .str "x")]) = true ∧
    valid [] 5 cntS (.obj [("a", .str "x"), ("flag", .bool true), ("n", .num 1000)]) = false ∧
    valid [] 5 cntS (.obj [("flag", .bool false)]) = true ∧ validSkip [] 5 cntS (.obj [("flag", .bool false)]) = false := by decide

end Gs.Props.C02

/-! ### the readings are ordered -/

namespace Gs.Props.C02
open Gs Gs.Schema

/-- order on readings: `all` is the most severe, `any` the most permissive -/
def Mode.le : Mode → Mode → Bool
  | .all, _ => true
  | _, .any => true
  | .ref, .ref => true
  | .relaxed, .relaxed => true
  | _, _ => false

theorem all_imp {α} (l : List α) (f g : α → Bool) (h : ∀ x ∈ l, f x = true → g x = true) : l.all f = true → l.all g = true := by
  simp only [List.all_eq_true]
  intro hf x hx
  exact h x hx (hf x hx)

theorem reqOk_mono (b1 b2 : Bool) (hb : b2 = true → b1 = true) (s : Schema) (kvs : List (String × J)) :
    reqOk b1 s kvs = true → reqOk b2 s kvs = true := by
  unfold reqOk
  apply all_imp
  intro r _
  cases lookup kvs r with
  | none => exact id
  | some v =>
    cases b2 with
    | false => simp only [Bool.false_eq_true, if_false, Bool.and_true]; intro h; cases b1 <;> simp_all
    | true => rw [hb rfl]; exact id

end Gs.Props.C02

namespace Gs.Props.C02
open Gs Gs.Schema

theorem propsOk_mono (b1 b2 : Bool) (hb : b1 = true → b2 = true) (r1 r2 : Schema → J → Bool) (s : Schema) (kvs : List (String × J))
    (hr : ∀ kp ∈ s.props, ∀ v, r1 kp.2 v = true → r2 kp.2 v = true) :
    propsOk b1 r1 s kvs = true → propsOk b2 r2 s kvs = true := by
  unfold propsOk
  apply all_imp
  intro kp hkp
  cases lookup kvs kp.1 with
  | none => exact id
  | some v =>
    intro h
    cases v
    all_goals
      dsimp only at h ⊢
      split
      · rfl
      · rename_i c1
        rw [if_neg c1] at h
        split
        · rfl
        · rename_i c2
          split at h
          · rename_i c3
            exfalso
            apply c2
            simp only [Bool.and_eq_true] at c3 ⊢
            exact ⟨⟨hb c3.1.1, c3.1.2⟩, c3.2⟩
          · exact hr kp hkp _ h

theorem addlOk_mono (r1 r2 : Schema → J → Bool) (s : Schema) (kvs : List (String × J))
    (hr : ∀ a, s.addl = some a → ∀ kv ∈ kvs, r1 a kv.2 = true → r2 a kv.2 = true) :
    addlOk r1 s kvs = true → addlOk r2 s kvs = true := by
  unfold addlOk
  cases ha : s.addl with
  | none => exact id
  | some a =>
    simp only
    apply all_imp
    intro kv hkv h
    simp only [Bool.or_eq_true] at h ⊢
    rcases h with h | h
    · exact Or.inl h
    · exact Or.inr (hr a ha kv hkv h)

theorem mode_le_facts (m1 m2 : Mode) (h : Mode.le m1 m2 = true) :
    (m2.rq = true → m1.rq = true) ∧ (m1.pr = true → m2.pr = true) ∧
    (∀ s kvs, countOkM m1 s kvs = true → countOkM m2 s kvs = true) := by
  cases m1 <;> cases m2 <;> simp [Mode.le] at h <;> simp [Mode.rq, Mode.pr, countOkM] <;> (intro s kvs; intro hh; simp_all)

end Gs.Props.C02

namespace Gs.Props.C02
open Gs Gs.Schema

/-- the readings are ordered: whatever a more severe reading accepts, a more permissive one accepts — in particular
    validAll → valid → validAny and validAll → validSkip → validAny, for EVERY schema, definitions, fuel and instance -/
theorem validG_mono (m1 m2 : Mode) (hm : Mode.le m1 m2 = true) (d : Defs) : ∀ (n : Nat) (s : Schema) (j : J),
    validG m1 d n s j = true → validG m2 d n s j = true
  | 0, _, _, h => by simp [validG] at h
  | n+1, s, j, h => by
    have ⟨hrq, hpr, hcnt⟩ := mode_le_facts m1 m2 hm
    unfold validG at h ⊢
    by_cases hr : s.ref ≠ ""
    · rw [if_pos hr] at h ⊢
      cases hl : lookup d s.ref with
      | none => rw [hl] at h; cases h
      | some t => rw [hl] at h; exact validG_mono m1 m2 hm d n t j h
    · rw [if_neg hr] at h ⊢
      have hall : s.allOf.all (fun a => validG m1 d n a j) = true → s.allOf.all (fun a => validG m2 d n a j) = true :=
        all_imp s.allOf _ _ (fun a _ => validG_mono m1 m2 hm d n a j)
      cases j with
      | null => exact h
      | bool b => simp only [Bool.and_eq_true] at h ⊢; exact ⟨h.1, hall h.2⟩
      | num x => simp only [Bool.and_eq_true] at h ⊢; exact ⟨h.1, hall h.2⟩
      | str x => simp only [Bool.and_eq_true] at h ⊢; exact ⟨h.1, hall h.2⟩
      | arr l =>
        simp only [Bool.and_eq_true] at h ⊢
        refine ⟨⟨h.1.1, hall h.1.2⟩, ?_⟩
        cases hi : s.items with
        | none => rfl
        | some it =>
          have h2 := h.2
          rw [hi] at h2
          exact all_imp l _ _ (fun x _ => validG_mono m1 m2 hm d n it x) h2
      | obj kvs =>
        simp only [Bool.and_eq_true] at h ⊢
        obtain ⟨⟨⟨⟨⟨h1, h2⟩, h3⟩, h4⟩, h5⟩, h6⟩ := h
        refine ⟨⟨⟨⟨⟨h1, hall h2⟩, reqOk_mono m1.rq m2.rq hrq s kvs h3⟩, ?_⟩, ?_⟩, hcnt s kvs h6⟩
        · exact propsOk_mono m1.pr m2.pr hpr _ _ s kvs (fun kp _ v => validG_mono m1 m2 hm d n kp.2 v) h4
        · exact addlOk_mono _ _ s kvs (fun a _ kv _ => validG_mono m1 m2 hm d n a kv.2) h5

theorem sandwich (d : Defs) (n : Nat) (s : Schema) (j : J) :
    (validAll d n s j = true → valid d n s j = true) ∧ (valid d n s j = true → validAny d n s j = true) ∧
    (validAll d n s j = true → validSkip d n s j = true) ∧ (validSkip d n s j = true → validAny d n s j = true) :=
  ⟨validG_mono .all .ref rfl d n s j, validG_mono .ref .any rfl d n s j, validG_mono .all .relaxed rfl d n s j, validG_mono .relaxed .any rfl d n s j⟩

end Gs.Props.C02
