import GsModel.Scan.Indent
/-
  C17 — generate spec yields a valid, faithful document or an error; arbitrary comment text never crashes the scanner.
  (proof for one parser stage, PARTIAL)

  * `removeIndent_total` — the indentation stripper of swagger:operation bodies returns for EVERY list of lines (no
    panic), and `removeIndent_keeps_lines` — it never drops or adds a line.
  * `unguarded_crashes` — the same function without the guards (the code before the repair) panics on an empty body and
    on a body whose first line is blank: the crash was real, the guard is what removes it.
  * `blank_first_line_is_identity` — what the guard does: a blank first line leaves the body untouched.
  Everything else this property quantifies over (the ~40 regular expressions, sectionedParser, the YAML operation bodies,
  assembly and validity of the document) is NOT modelled: it is explored by generating annotated programs from the
  documented grammar (clean programs must scan into a valid document holding every annotated route, parameter, response
  and model) and by inserting hostile comment lines everywhere (no crash).  The extension-block parser
  (buildExtensionObjects) does crash on half-written `Extensions:` blocks: known finding.
-/
namespace Gs.Props.C17
open Gs Gs.Scan

theorem fixLine_ok (e : Nat) (l : Line) : ∃ r, fixLine e l = .ok r := by
  unfold fixLine
  split
  · simp only
    cases notIndentEnd (List.drop (e - 1) l) <;> exact ⟨_, rfl⟩
  · exact ⟨_, rfl⟩

theorem mapO_ok {α β} (f : α → Outcome β) (h : ∀ x, ∃ y, f x = .ok y) : ∀ l : List α, ∃ r, mapO f l = .ok r ∧ r.length = l.length
  | [] => ⟨[], rfl, rfl⟩
  | x :: xs => by
    obtain ⟨y, hy⟩ := h x
    obtain ⟨ys, hys, hl⟩ := mapO_ok f h xs
    exact ⟨y :: ys, by simp [mapO, hy, hys], by simp [hl]⟩

theorem removeIndent_total (spec : List Line) : ∃ r, removeIndent spec = .ok r ∧ r.length = spec.length := by
  unfold removeIndent
  cases spec with
  | nil => exact ⟨[], rfl, rfl⟩
  | cons first rest =>
    simp only
    cases indentEnd first with
    | none => exact ⟨_, rfl, rfl⟩
    | some e =>
      cases e with
      | zero => exact ⟨_, rfl, rfl⟩
      | succ k => exact mapO_ok (fixLine (k+1)) (fixLine_ok (k+1)) (first :: rest)

theorem removeIndent_keeps_lines (spec r : List Line) (h : removeIndent spec = .ok r) : r.length = spec.length := by
  obtain ⟨r', hr, hl⟩ := removeIndent_total spec
  rw [hr] at h
  cases h
  exact hl

/-- every character of a blank line is a blank -/
def blank (l : Line) : Bool := l.all isSp

theorem dropWhile_blank (l : Line) (h : blank l = true) : l.dropWhile isSp = [] := by
  induction l with
  | nil => rfl
  | cons c r ih =>
    simp only [blank, List.all_cons, Bool.and_eq_true] at h
    simp only [List.dropWhile_cons, h.1, if_true]
    exact ih h.2

theorem indentEnd_blank (l : Line) (h : blank l = true) : indentEnd l = none := by
  simp [indentEnd, dropWhile_blank l h]

theorem blank_first_line_is_identity (first : Line) (rest : List Line) (h : blank first = true) :
    removeIndent (first :: rest) = .ok (first :: rest) := by
  simp [removeIndent, indentEnd_blank first h]

theorem unguarded_crashes (first : Line) (rest : List Line) (h : blank first = true) :
    (∃ w, removeIndentUnguarded [] = .panic w) ∧ (∃ w, removeIndentUnguarded (first :: rest) = .panic w) := by
  refine ⟨⟨_, rfl⟩, ?_⟩
  simp [removeIndentUnguarded, indentEnd_blank first h]

/-- what the function is for (evaluated example): the indent of the first line is taken off every line -/
theorem removeIndent_example :
    (match removeIndent ["//   a: 1".toList, "//     b: 2".toList] with
     | .ok r => r == ["a: 1".toList, "  b: 2".toList]
     | _ => false) = true := by decide

end Gs.Props.C17
