import GsModel.Scan.Indent
import GsModel.Scan.ListsProofs
/-
  C17 — generate spec yields a valid, faithful document or an error; arbitrary comment text never crashes the scanner.
  (proof for three parser stages, PARTIAL)

  * `removeIndent_total` — the indentation stripper of swagger:operation bodies returns for EVERY list of lines (no
    panic), and `removeIndent_keeps_lines` — it never drops or adds a line.
  * `unguarded_crashes` — the same function without the guards (the code before the repair) panics on an empty body and
    on a body whose first line is blank: the crash was real, the guard is what removes it.
  * `blank_first_line_is_identity` — what the guard does: a blank first line leaves the body untouched.
  * `Schemes:` and the tag list of a `swagger:route` / `swagger:operation` line (model `Scan/Lists.lean`, the item
    splitters that follow the regexp capture): `schemes_faithful` — whatever blanks are written around the commas and
    wherever empty items stand, the scanned schemes are exactly the non-empty tokens written, in order;
    `schemes_items_clean` — for EVERY captured string no scanned scheme is empty or carries a comma;
    `schemes_split_loses_nothing`; `old_schemes_rule_merges` — the rule before the repair (`Split(", ")`) turns
    `http,https` into ONE scheme.  `tags_faithful` — tokens separated by any non-empty runs of blanks (blanks before the
    first and after the last allowed) are exactly the scanned tags; `tags_items_clean` — for EVERY captured string no tag
    is empty or carries a blank (the empty tag `["pets",""]` of the code before the repair cannot come back).
  Everything else this property quantifies over (the ~40 regular expressions, sectionedParser, the YAML operation bodies,
  assembly and validity of the document) is NOT modelled: it is explored by generating annotated programs from the
  documented grammar (clean programs must scan into a valid document holding every annotated route, parameter, response
  and model) and by inserting hostile comment lines everywhere (no crash).  The extension-block parser
  (buildExtensionObjects) does crash on half-written `Extensions:` blocks: known finding.
-/
namespace Gs.Props.C17
open Gs Gs.Scan

theorem fixLine_ok (e : Nat) (l : Line) : ∃ r, fixLine e l = .ok r := by
  unfold fixLine
  split
  · simp only
    cases notIndentEnd (List.drop (e - 1) l) <;> exact ⟨_, rfl⟩
  · exact ⟨_, rfl⟩

theorem mapO_ok {α β} (f : α → Outcome β) (h : ∀ x, ∃ y, f x = .ok y) : ∀ l : List α, ∃ r, mapO f l = .ok r ∧ r.length = l.length
  | [] => ⟨[], rfl, rfl⟩
  | x :: xs => by
    obtain ⟨y, hy⟩ := h x
    obtain ⟨ys, hys, hl⟩ := mapO_ok f h xs
    exact ⟨y :: ys, by simp [mapO, hy, hys], by simp [hl]⟩

theorem removeIndent_total (spec : List Line) : ∃ r, removeIndent spec = .ok r ∧ r.length = spec.length := by
  unfold removeIndent
  cases spec with
  | nil => exact ⟨[], rfl, rfl⟩
  | cons first rest =>
    simp only
    cases indentEnd first with
    | none => exact ⟨_, rfl, rfl⟩
    | some e =>
      cases e with
      | zero => exact ⟨_, rfl, rfl⟩
      | succ k => exact mapO_ok (fixLine (k+1)) (fixLine_ok (k+1)) (first :: rest)

theorem removeIndent_keeps_lines (spec r : List Line) (h : removeIndent spec = .ok r) : r.length = spec.length := by
  obtain ⟨r', hr, hl⟩ := removeIndent_total spec
  rw [hr] at h
  cases h
  exact hl

/-- every character of a blank line is a blank -/
def blank (l : Line) : Bool := l.all isSp

theorem dropWhile_blank (l : Line) (h : blank l = true) : l.dropWhile isSp = [] := by
  induction l with
  | nil => rfl
  | cons c r ih =>
    simp only [blank, List.all_cons, Bool.and_eq_true] at h
    simp only [List.dropWhile_cons, h.1, if_true]
    exact ih h.2

theorem indentEnd_blank (l : Line) (h : blank l = true) : indentEnd l = none := by
  simp [indentEnd, dropWhile_blank l h]

theorem blank_first_line_is_identity (first : Line) (rest : List Line) (h : blank first = true) :
    removeIndent (first :: rest) = .ok (first :: rest) := by
  simp [removeIndent, indentEnd_blank first h]

theorem unguarded_crashes (first : Line) (rest : List Line) (h : blank first = true) :
    (∃ w, removeIndentUnguarded [] = .panic w) ∧ (∃ w, removeIndentUnguarded (first :: rest) = .panic w) := by
  refine ⟨⟨_, rfl⟩, ?_⟩
  simp [removeIndentUnguarded, indentEnd_blank first h]

/-- what the function is for (evaluated example): the indent of the first line is taken off every line -/
theorem removeIndent_example :
    (match removeIndent ["//   a: 1".toList, "//     b: 2".toList] with
     | .ok r => r == ["a: 1".toList, "  b: 2".toList]
     | _ => false) = true := by decide


/-! ### `Schemes:` and route tags — the item splitters behind the regexp captures -/

/-- how a scheme list is written: items separated by commas, each a (possibly empty) blank-free, comma-free token with
    arbitrary blanks on both sides -/
def renderSchemes (items : List (Str × Str × Str)) : Str :=
  [','].intercalate (items.map (fun i => i.1 ++ i.2.1 ++ i.2.2))

theorem schemes_faithful (sp : Char → Bool) (hcomma : sp ',' = false) (items : List (Str × Str × Str))
    (hpadL : ∀ i ∈ items, ∀ c ∈ i.1, sp c = true) (hpadR : ∀ i ∈ items, ∀ c ∈ i.2.2, sp c = true)
    (htok : ∀ i ∈ items, ∀ c ∈ i.2.1, sp c = false ∧ c ≠ ',') :
    schemesOf sp (renderSchemes items) = (items.map (fun i => i.2.1)).filter (fun t => !t.isEmpty) := by
  unfold schemesOf renderSchemes
  by_cases hne : items = []
  · subst hne; simp [List.intercalate, splitOn, trim]
  · have hfree : ∀ t ∈ items.map (fun i => i.1 ++ i.2.1 ++ i.2.2), ∀ c ∈ t, c ≠ ',' := by
      intro t ht c hc
      simp only [List.mem_map] at ht
      obtain ⟨i, hi, rfl⟩ := ht
      simp only [List.mem_append] at hc
      rcases hc with (hc | hc) | hc
      · intro h; subst h; have := hpadL i hi _ hc; simp [hcomma] at this
      · exact (htok i hi c hc).2
      · intro h; subst h; have := hpadR i hi _ hc; simp [hcomma] at this
    rw [splitOn_intercalate ',' _ (by simpa using hne) hfree, List.map_map]
    congr 1
    apply List.map_congr_left
    intro i hi
    exact trim_padded sp i.1 i.2.1 i.2.2 (hpadL i hi) (hpadR i hi) (fun c hc => (htok i hi c hc).1)

/-- premises satisfiable, and the statement says something: `http ,, HTTPS , ws` (a no-break space after `ws`) -/
example : schemesOf goIsSpace "http ,, HTTPS , ws ".toList = ["http".toList, "HTTPS".toList, "ws".toList] := by
  decide

theorem trim_sub (sp : Char → Bool) (s : Str) : ∀ c ∈ trim sp s, c ∈ s := by
  intro c hc
  unfold trim at hc
  have h1 := (List.dropWhile_sublist sp (l := (s.dropWhile sp).reverse)).mem (by simpa using hc)
  exact (List.dropWhile_sublist sp (l := s)).mem (by simpa using h1)

/-- for EVERY captured string: no scanned scheme is empty, none carries a comma -/
theorem schemes_items_clean (sp : Char → Bool) (s : Str) : ∀ t ∈ schemesOf sp s, t ≠ [] ∧ ∀ c ∈ t, c ≠ ',' := by
  intro t ht
  unfold schemesOf at ht
  simp only [List.mem_filter, List.mem_map] at ht
  obtain ⟨⟨piece, hp, rfl⟩, hne⟩ := ht
  refine ⟨by intro h; simp [h] at hne, ?_⟩
  intro c hc
  have := splitOn_items_free (· = ',') s piece hp c (trim_sub sp piece c hc)
  simpa using this

/-- the split itself loses nothing: the pieces joined by commas are the captured string -/
theorem schemes_split_loses_nothing (s : Str) : [','].intercalate (splitOn (· = ',') s) = s := splitOn_join ',' s

/-- the rule before the repair: without a blank after the comma the two schemes become one item -/
theorem old_schemes_rule_merges :
    schemesOld goIsSpace "http,https".toList = ["http,https".toList] ∧
    schemesOf goIsSpace "http,https".toList = ["http".toList, "https".toList] := by
  constructor
  · simp [schemesOld, splitCommaSpace, trim, goIsSpace]
  · decide

/-- canonical writing round-trips: non-empty, blank-free, comma-free schemes written `a,b,c` are scanned back as written -/
theorem schemes_canonical_rt (sp : Char → Bool) (hcomma : sp ',' = false) (ts : List Str)
    (h : ∀ t ∈ ts, t ≠ [] ∧ ∀ c ∈ t, sp c = false ∧ c ≠ ',') :
    schemesOf sp (renderSchemes (ts.map (fun t => ([], t, [])))) = ts := by
  rw [schemes_faithful sp hcomma]
  · simp only [List.map_map]
    have : ((fun i : Str × Str × Str => i.2.1) ∘ fun t : Str => (([] : Str), t, ([] : Str))) = id := by funext t; rfl
    rw [this, List.map_id, List.filter_eq_self]
    intro t ht
    have := (h t ht).1
    cases t <;> simp_all
  · intro i hi c hc; simp only [List.mem_map] at hi; obtain ⟨t, _, rfl⟩ := hi; cases hc
  · intro i hi c hc; simp only [List.mem_map] at hi; obtain ⟨t, _, rfl⟩ := hi; cases hc
  · intro i hi c hc; simp only [List.mem_map] at hi; obtain ⟨t, ht, rfl⟩ := hi; exact (h t ht).2 c hc

/-- how a tag list is written: blanks, then tokens each followed by blanks; only the last token may have none after it -/
def WellSpaced (sp : Char → Bool) : List (Str × Str) → Prop
  | [] => True
  | (t, pad) :: rest =>
    t ≠ [] ∧ (∀ c ∈ t, sp c = false) ∧ (∀ c ∈ pad, sp c = true) ∧ (pad = [] → rest = []) ∧ WellSpaced sp rest

def renderTags (pad0 : Str) (items : List (Str × Str)) : Str :=
  pad0 ++ (items.map (fun i => i.1 ++ i.2)).flatten

theorem tags_faithful (sp : Char → Bool) (pad0 : Str) (items : List (Str × Str)) (h0 : ∀ c ∈ pad0, sp c = true)
    (h : WellSpaced sp items) : fields sp (renderTags pad0 items) = items.map (·.1) := by
  unfold renderTags
  rw [fields_pad sp pad0 _ h0]
  induction items with
  | nil => simp [fields_nil]
  | cons i rest ih =>
    obtain ⟨t, pad⟩ := i
    obtain ⟨hne, hfree, hpad, hlast, hrest⟩ := h
    simp only [List.map_cons, List.flatten_cons]
    cases pad with
    | nil =>
      have := hlast rfl
      subst this
      simpa using fields_tok_end sp t hne hfree
    | cons c r =>
      have hc : sp c = true := hpad c (by simp)
      rw [List.append_assoc, List.cons_append, fields_tok sp t c _ hne hfree hc, ← List.cons_append,
        fields_pad sp (c :: r) _ hpad, ih hrest]

example : WellSpaced goIsSpace [("pets".toList, "  ".toList), ("users".toList, [])] ∧
    fields goIsSpace " pets  users".toList = ["pets".toList, "users".toList] := by
  refine ⟨?_, by decide⟩
  simp [WellSpaced, goIsSpace]

/-- for EVERY captured string: no tag is empty, none carries a blank -/
theorem tags_items_clean (sp : Char → Bool) (s : Str) : ∀ t ∈ fields sp s, t ≠ [] ∧ ∀ c ∈ t, sp c = false := by
  intro t ht
  unfold fields at ht
  simp only [List.mem_filter] at ht
  exact ⟨by intro h; simp [h] at ht, splitOn_items_free sp s t ht.1⟩

/-- the tags are all of the non-blank text: no character other than a blank is lost -/
theorem tags_lose_only_blanks (sp : Char → Bool) (s : Str) : (fields sp s).flatten = s.filter (fun c => !sp c) := by
  unfold fields
  induction s with
  | nil => simp [splitOn]
  | cons c r ih =>
    unfold splitOn
    by_cases hc : sp c = true
    · simp [hc, ih]
    · simp only [hc]
      have hne := splitOn_ne_nil sp r
      cases hsp : splitOn sp r with
      | nil => exact absurd hsp hne
      | cons a as =>
        rw [hsp] at ih
        simp only [Bool.false_eq_true, ↓reduceIte]
        have : List.filter (fun t => !t.isEmpty) ((c :: a) :: as) = (c :: a) :: List.filter (fun t => !t.isEmpty) as := by
          simp
        rw [this]
        simp only [List.flatten_cons, List.cons_append]
        by_cases ha : a = []
        · subst ha; simp_all
        · have : List.filter (fun t => !t.isEmpty) (a :: as) = a :: List.filter (fun t => !t.isEmpty) as := by
            simp [ha]
          rw [this] at ih
          simp_all

end Gs.Props.C17
