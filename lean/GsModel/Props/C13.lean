import GsModel.Props.C15
import GsModel.Diff.Lift
import GsModel.Diff.Lift2
import GsModel.Diff.Lift3
import GsModel.Diff.Lift4
/-
  C13 — diff never reports a request-breaking change as compatible.

  Proved about the model (tables REGENERATED from the live compatibility maps on every run):
  * `policy_sound_request`, `policy_sound_response`, `policy_sound_any` — every change code that stands for a narrowing in
    its context is classified Breaking by the policy tables (complete finite quantifier, `decide`): this is the
    obligation a flipped table entry breaks.
  * `compareProps_string`, `compareProps_numeric`, `compareProps_array` — what CompareProps returns on two primitives of the
    same type: exactly the string / numeric / item-count group (no earlier group can mask it).
  * `detected_*` — for EVERY pair of bounds, lengths, item counts, patterns and enum lists, each narrowing kind the
    analyser can see yields a NarrowedType / AddedConstraint / ChangedType / DeletedEnumValue entry.
  * `breaking_exits_nonzero` — text mode exits non-zero as soon as one reported entry is Breaking.
  * `undetected_*` — the statement is FALSE of the code for multipleOf, uniqueItems, an enum that is introduced, non-string
    enums, every constraint below an array parameter's `items`, and allOf-only schemas: counterexample theorems, each a
    known finding that the check replays on the real analyser with a witness request.
  * `param_change_reported_breaking` — the LIFTING for parameters: if an endpoint and a parameter (by location and name,
    path-level or operation-level) exist in both documents and CompareProps finds on the parameter's own level a code of
    `requestNarrowing`, then EVERY report `Analyse` returns contains a Breaking entry, whatever else the documents contain,
    for every fuel and iteration order (the analyser only appends: `Mono`; the loops reach every shared parameter:
    `foldlM_reach`).  `param_maxLength_lower_reported`, `param_maximum_lower_reported`: two instances end to end.
  * `removed_endpoint_reported_breaking`, `added_required_param_reported_breaking` — the same lifting for the two structural
    request-breaking edits: a live endpoint that disappears, a parameter that appears as required; `removed_response_reported_breaking`:
    a response code that disappears (the response side of the statement).
  * `body_root_change_reported_breaking`, `body_property_change_reported_breaking` — the lifting for the request body, at the
    root of an inline (`$ref`-free) schema and for a property both inline object bodies have.
  The lifting for body schemas below that, through `$ref` (where the visited-key guard can skip a comparison) and allOf (through compareSchema, where the visited-key guard can skip a comparison) is decided by the
  catalogue sweep on the real analyser: partial.
-/
namespace Gs.Props.C13
open Gs Gs.Gen Gs.Diff

/-! ### policy tables -/

def requestNarrowing : List Code :=
  [.NarrowedType, .ChangedType, .AddedConstraint, .DeletedEnumValue, .ChangedOptionalToRequired, .AddedRequiredParam,
   .AddedRequiredProperty, .ChangedCollectionFormat]
def responseBreaking : List Code :=
  [.DeletedProperty, .DeletedResponse, .DeletedResponseHeader, .AddedEnumValue, .ChangedType, .DeletedConstraint]
def anyContextBreaking : List Code := [.DeletedEndpoint, .DeletedConsumesFormat, .DeletedProducesFormat, .RefTargetChanged]

theorem policy_sound_request : ∀ c ∈ requestNarrowing, getCompatibilityForChange c false = Compat.Breaking := by decide
theorem policy_sound_response : ∀ c ∈ responseBreaking, getCompatibilityForChange c true = Compat.Breaking := by decide
theorem policy_sound_any : ∀ c ∈ anyContextBreaking, ∀ r : Bool, getCompatibilityForChange c r = Compat.Breaking := by decide

/-- what the policy deliberately leaves compatible in a request (widenings) — non-vacuity of the tables -/
example : getCompatibilityForChange .WidenedType false = Compat.NonBreaking ∧
          getCompatibilityForChange .NarrowedType true = Compat.NonBreaking := by decide

/-! ### CompareProps on two primitives of the same type -/

def changes (l : List TDiff) : List Code := l.map (·.change)

theorem wideness_string : wideness "string" = none := by decide
theorem wideness_integer : (wideness "integer").isSome = true ∧ (wideness "number").isSome = true := by decide

theorem compareProps_string (n : Nat) (t1 t2 : Schema) (h1 : t1.type = ["string"]) (h2 : t2.type = ["string"])
    (hf : t1.format = t2.format) (r1 : t1.ref = "") (r2 : t2.ref = "") :
    compareProps n t1 t2 = .ok (checkStringTypeChanges [] t1 t2) := by
  unfold compareProps
  simp [h1, h2, hf, r1, r2, isPrimitiveType, isArrayType, checkRefChangeProps, Outcome.bind, checkNumericTypeChanges,
    isNumeric, wideness_string]

theorem compareProps_numeric (n : Nat) (t1 t2 : Schema) (ty : String) (hty : ty = "integer" ∨ ty = "number")
    (h1 : t1.type = [ty]) (h2 : t2.type = [ty]) (hf : t1.format = t2.format) (r1 : t1.ref = "") (r2 : t2.ref = "") :
    compareProps n t1 t2 = .ok (checkNumericTypeChanges [] t1 t2) := by
  unfold compareProps
  rcases hty with rfl | rfl <;>
    simp [h1, h2, hf, r1, r2, isPrimitiveType, isArrayType, checkRefChangeProps, Outcome.bind, checkStringTypeChanges]

/-! ### detected narrowings (for all values) -/

theorem cmp_lower_max (a b : Int) (h : b < a) :
    Code.NarrowedType ∈ changes (compareIntValues (some a) (some b) .WidenedType .NarrowedType) := by
  have : ¬ b > a := by omega
  simp [compareIntValues, changes, h, this]

theorem cmp_raise_min (a b : Int) (h : a < b) :
    Code.NarrowedType ∈ changes (compareIntValues (some a) (some b) .NarrowedType .WidenedType) := by
  simp [compareIntValues, changes, h, gt_iff_lt]

theorem cmp_introduce (b : Int) (g l : Code) : Code.AddedConstraint ∈ changes (compareIntValues none (some b) g l) := by
  simp [compareIntValues, changes]

theorem mem_changes_append_left {c : Code} {a b : List TDiff} (h : c ∈ changes a) : c ∈ changes (a ++ b) := by
  simp only [changes, List.map_append, List.mem_append]; exact Or.inl h
theorem mem_changes_append_right {c : Code} {a b : List TDiff} (h : c ∈ changes b) : c ∈ changes (a ++ b) := by
  simp only [changes, List.map_append, List.mem_append]; exact Or.inr h

/-- the string group as a sum of its four parts -/
theorem checkString_parts (t1 t2 : Schema) (h1 : t1.type = ["string"]) (h2 : t2.type = ["string"]) :
    checkStringTypeChanges [] t1 t2 =
      (compareIntValues t1.v.minLength t2.v.minLength .NarrowedType .WidenedType ++
       compareIntValues t1.v.maxLength t2.v.maxLength .WidenedType .NarrowedType ++
       (if t1.v.pattern ≠ t2.v.pattern then [{ change := Code.ChangedType, desc := "Pattern Changed" }] else [])) ++
      (if t1.v.enum.length > 0 then compareEnums t1.v.enum t2.v.enum else []) := by
  unfold checkStringTypeChanges
  simp only [h1, h2, List.head?_cons, beq_self_eq_true, Bool.and_self, if_true, List.nil_append]
  by_cases hp : t1.v.pattern ≠ t2.v.pattern <;> by_cases he : t1.v.enum.length > 0 <;> simp [hp, he, addTD]

theorem detected_maxLength_lower (n : Nat) (t1 t2 : Schema) (a b : Int) (h1 : t1.type = ["string"]) (h2 : t2.type = ["string"])
    (hf : t1.format = t2.format) (r1 : t1.ref = "") (r2 : t2.ref = "")
    (ha : t1.v.maxLength = some a) (hb : t2.v.maxLength = some b) (h : b < a) :
    ∃ ds, compareProps n t1 t2 = .ok ds ∧ Code.NarrowedType ∈ changes ds := by
  refine ⟨_, compareProps_string n t1 t2 h1 h2 hf r1 r2, ?_⟩
  rw [checkString_parts t1 t2 h1 h2, ha, hb]
  exact mem_changes_append_left (mem_changes_append_left (mem_changes_append_right (cmp_lower_max a b h)))

theorem detected_maxLength_introduce (n : Nat) (t1 t2 : Schema) (b : Int) (h1 : t1.type = ["string"]) (h2 : t2.type = ["string"])
    (hf : t1.format = t2.format) (r1 : t1.ref = "") (r2 : t2.ref = "")
    (ha : t1.v.maxLength = none) (hb : t2.v.maxLength = some b) :
    ∃ ds, compareProps n t1 t2 = .ok ds ∧ Code.AddedConstraint ∈ changes ds := by
  refine ⟨_, compareProps_string n t1 t2 h1 h2 hf r1 r2, ?_⟩
  rw [checkString_parts t1 t2 h1 h2, ha, hb]
  exact mem_changes_append_left (mem_changes_append_left (mem_changes_append_right (cmp_introduce b _ _)))

theorem detected_minLength_raise (n : Nat) (t1 t2 : Schema) (a b : Int) (h1 : t1.type = ["string"]) (h2 : t2.type = ["string"])
    (hf : t1.format = t2.format) (r1 : t1.ref = "") (r2 : t2.ref = "")
    (ha : t1.v.minLength = some a) (hb : t2.v.minLength = some b) (h : a < b) :
    ∃ ds, compareProps n t1 t2 = .ok ds ∧ Code.NarrowedType ∈ changes ds := by
  refine ⟨_, compareProps_string n t1 t2 h1 h2 hf r1 r2, ?_⟩
  rw [checkString_parts t1 t2 h1 h2, ha, hb]
  exact mem_changes_append_left (mem_changes_append_left (mem_changes_append_left (cmp_raise_min a b h)))

theorem detected_minLength_introduce (n : Nat) (t1 t2 : Schema) (b : Int) (h1 : t1.type = ["string"]) (h2 : t2.type = ["string"])
    (hf : t1.format = t2.format) (r1 : t1.ref = "") (r2 : t2.ref = "")
    (ha : t1.v.minLength = none) (hb : t2.v.minLength = some b) :
    ∃ ds, compareProps n t1 t2 = .ok ds ∧ Code.AddedConstraint ∈ changes ds := by
  refine ⟨_, compareProps_string n t1 t2 h1 h2 hf r1 r2, ?_⟩
  rw [checkString_parts t1 t2 h1 h2, ha, hb]
  exact mem_changes_append_left (mem_changes_append_left (mem_changes_append_left (cmp_introduce b _ _)))

theorem detected_pattern_change (n : Nat) (t1 t2 : Schema) (h1 : t1.type = ["string"]) (h2 : t2.type = ["string"])
    (hf : t1.format = t2.format) (r1 : t1.ref = "") (r2 : t2.ref = "") (hp : t1.v.pattern ≠ t2.v.pattern) :
    ∃ ds, compareProps n t1 t2 = .ok ds ∧ Code.ChangedType ∈ changes ds := by
  refine ⟨_, compareProps_string n t1 t2 h1 h2 hf r1 r2, ?_⟩
  rw [checkString_parts t1 t2 h1 h2]
  apply mem_changes_append_left
  apply mem_changes_append_right
  simp [hp, changes]

/-- a value dropped from a non-empty string enum is reported as DeletedEnumValue -/
theorem detected_enum_shrink (n : Nat) (t1 t2 : Schema) (h1 : t1.type = ["string"]) (h2 : t2.type = ["string"])
    (hf : t1.format = t2.format) (r1 : t1.ref = "") (r2 : t2.ref = "")
    (x : JVal) (hx : x ∈ t1.v.enum) (hnx : x.shown ∉ t2.v.enum.map (·.shown)) :
    ∃ ds, compareProps n t1 t2 = .ok ds ∧ Code.DeletedEnumValue ∈ changes ds := by
  refine ⟨_, compareProps_string n t1 t2 h1 h2 hf r1 r2, ?_⟩
  rw [checkString_parts t1 t2 h1 h2]
  apply mem_changes_append_right
  have hlen : t1.v.enum.length > 0 := List.length_pos_of_mem hx
  simp only [hlen, if_true]
  unfold compareEnums
  apply mem_changes_append_right
  -- the deleted list is not empty: it contains x.shown
  have hmem : x.shown ∈ (t1.v.enum.map (·.shown)).filter (fun y => !(t2.v.enum.map (·.shown)).contains y) := by
    rw [List.mem_filter]
    refine ⟨List.mem_map.mpr ⟨x, hx, rfl⟩, ?_⟩
    simp only [Bool.not_eq_true', List.contains_eq_mem, decide_eq_false_iff_not]
    exact hnx
  have hne : (diffsTo (some (t1.v.enum.map (·.shown))) (t2.v.enum.map (·.shown))).2 ≠ [] := by
    simp only [diffsTo]
    intro e
    have h1 : (sortStrs (dedup ((t1.v.enum.map (·.shown)).filter (fun y => !(t2.v.enum.map (·.shown)).contains y)))).Perm _ :=
      C15.sortStrs_perm _
    rw [e] at h1
    have h2 := h1.symm.eq_nil
    have h3 : ∀ l : List String, dedup l = [] → l = [] := by
      intro l; cases l <;> simp [dedup]
    rw [h3 _ h2] at hmem
    cases hmem
  have : (diffsTo (some (t1.v.enum.map (·.shown))) (t2.v.enum.map (·.shown))).2.isEmpty = false := by
    cases h : (diffsTo (some (t1.v.enum.map (·.shown))) (t2.v.enum.map (·.shown))).2 with
    | nil => exact absurd h hne
    | cons _ _ => rfl
  simp [this, changes]

/-- the numeric group as a sum of its parts when no exclusive flag changes -/
theorem checkNumeric_parts (t1 t2 : Schema) (n1 : isNumeric t1.type = true) (n2 : isNumeric t2.type = true)
    (hx : t1.v.exclMax = t2.v.exclMax) (hn : t1.v.exclMin = t2.v.exclMin) :
    checkNumericTypeChanges [] t1 t2 =
      compareIntValues t1.v.maximum t2.v.maximum .WidenedType .NarrowedType ++
      compareIntValues t1.v.minimum t2.v.minimum .NarrowedType .WidenedType := by
  unfold checkNumericTypeChanges
  simp only [n1, n2, Bool.and_self, if_true, hx, hn, compareFloatValues]
  cases t2.v.exclMax <;> cases t2.v.exclMin <;> simp

theorem isNumeric_int : isNumeric ["integer"] = true ∧ isNumeric ["number"] = true := by decide

theorem detected_maximum_lower (n : Nat) (t1 t2 : Schema) (ty : String) (hty : ty = "integer" ∨ ty = "number") (a b : Int)
    (h1 : t1.type = [ty]) (h2 : t2.type = [ty]) (hf : t1.format = t2.format) (r1 : t1.ref = "") (r2 : t2.ref = "")
    (hx : t1.v.exclMax = t2.v.exclMax) (hn : t1.v.exclMin = t2.v.exclMin)
    (ha : t1.v.maximum = some a) (hb : t2.v.maximum = some b) (h : b < a) :
    ∃ ds, compareProps n t1 t2 = .ok ds ∧ Code.NarrowedType ∈ changes ds := by
  refine ⟨_, compareProps_numeric n t1 t2 ty hty h1 h2 hf r1 r2, ?_⟩
  have n1 : isNumeric t1.type = true := by rcases hty with rfl | rfl <;> simp [h1, isNumeric_int]
  have n2 : isNumeric t2.type = true := by rcases hty with rfl | rfl <;> simp [h2, isNumeric_int]
  rw [checkNumeric_parts t1 t2 n1 n2 hx hn, ha, hb]
  exact mem_changes_append_left (cmp_lower_max a b h)

theorem detected_minimum_raise (n : Nat) (t1 t2 : Schema) (ty : String) (hty : ty = "integer" ∨ ty = "number") (a b : Int)
    (h1 : t1.type = [ty]) (h2 : t2.type = [ty]) (hf : t1.format = t2.format) (r1 : t1.ref = "") (r2 : t2.ref = "")
    (hx : t1.v.exclMax = t2.v.exclMax) (hn : t1.v.exclMin = t2.v.exclMin)
    (ha : t1.v.minimum = some a) (hb : t2.v.minimum = some b) (h : a < b) :
    ∃ ds, compareProps n t1 t2 = .ok ds ∧ Code.NarrowedType ∈ changes ds := by
  refine ⟨_, compareProps_numeric n t1 t2 ty hty h1 h2 hf r1 r2, ?_⟩
  have n1 : isNumeric t1.type = true := by rcases hty with rfl | rfl <;> simp [h1, isNumeric_int]
  have n2 : isNumeric t2.type = true := by rcases hty with rfl | rfl <;> simp [h2, isNumeric_int]
  rw [checkNumeric_parts t1 t2 n1 n2 hx hn, ha, hb]
  exact mem_changes_append_right (cmp_raise_min a b h)

theorem detected_bound_introduce (n : Nat) (t1 t2 : Schema) (ty : String) (hty : ty = "integer" ∨ ty = "number") (b : Int)
    (h1 : t1.type = [ty]) (h2 : t2.type = [ty]) (hf : t1.format = t2.format) (r1 : t1.ref = "") (r2 : t2.ref = "")
    (hx : t1.v.exclMax = t2.v.exclMax) (hn : t1.v.exclMin = t2.v.exclMin)
    (hb : (t1.v.maximum = none ∧ t2.v.maximum = some b) ∨ (t1.v.minimum = none ∧ t2.v.minimum = some b)) :
    ∃ ds, compareProps n t1 t2 = .ok ds ∧ Code.AddedConstraint ∈ changes ds := by
  refine ⟨_, compareProps_numeric n t1 t2 ty hty h1 h2 hf r1 r2, ?_⟩
  have n1 : isNumeric t1.type = true := by rcases hty with rfl | rfl <;> simp [h1, isNumeric_int]
  have n2 : isNumeric t2.type = true := by rcases hty with rfl | rfl <;> simp [h2, isNumeric_int]
  rw [checkNumeric_parts t1 t2 n1 n2 hx hn]
  rcases hb with ⟨ha, hb⟩ | ⟨ha, hb⟩
  · rw [ha, hb]; exact mem_changes_append_left (cmp_introduce b _ _)
  · rw [ha, hb]; exact mem_changes_append_right (cmp_introduce b _ _)

theorem detected_exclusive_set (n : Nat) (t1 t2 : Schema) (ty : String) (hty : ty = "integer" ∨ ty = "number")
    (h1 : t1.type = [ty]) (h2 : t2.type = [ty]) (hf : t1.format = t2.format) (r1 : t1.ref = "") (r2 : t2.ref = "")
    (hx : (t1.v.exclMax = false ∧ t2.v.exclMax = true) ∨ (t1.v.exclMin = false ∧ t2.v.exclMin = true)) :
    ∃ ds, compareProps n t1 t2 = .ok ds ∧ Code.NarrowedType ∈ changes ds := by
  refine ⟨_, compareProps_numeric n t1 t2 ty hty h1 h2 hf r1 r2, ?_⟩
  have n1 : isNumeric t1.type = true := by rcases hty with rfl | rfl <;> simp [h1, isNumeric_int]
  have n2 : isNumeric t2.type = true := by rcases hty with rfl | rfl <;> simp [h2, isNumeric_int]
  unfold checkNumericTypeChanges
  simp only [n1, n2, Bool.and_self, if_true]
  rcases hx with ⟨a, b⟩ | ⟨a, b⟩
  · cases hm1 : t1.v.exclMin <;> cases hm2 : t2.v.exclMin <;> simp [a, b, addTD, changes]
  · cases hm1 : t1.v.exclMax <;> cases hm2 : t2.v.exclMax <;> simp [a, b, addTD, changes]

/-- CompareProps on two arrays: the item-count group, returned as soon as it is non-empty -/
theorem compareProps_array (n : Nat) (t1 t2 : Schema) (h1 : t1.type = ["array"]) (h2 : t2.type = ["array"])
    (hne : (compareIntValues t1.v.maxItems t2.v.maxItems .WidenedType .NarrowedType ++
            compareIntValues t1.v.minItems t2.v.minItems .NarrowedType .WidenedType) ≠ []) :
    compareProps n t1 t2 = .ok (compareIntValues t1.v.maxItems t2.v.maxItems .WidenedType .NarrowedType ++
                                compareIntValues t1.v.minItems t2.v.minItems .NarrowedType .WidenedType) := by
  unfold compareProps
  have : (compareIntValues t1.v.maxItems t2.v.maxItems .WidenedType .NarrowedType ++
            compareIntValues t1.v.minItems t2.v.minItems .NarrowedType .WidenedType).isEmpty = false := by
    cases h : (compareIntValues t1.v.maxItems t2.v.maxItems Code.WidenedType Code.NarrowedType ++
            compareIntValues t1.v.minItems t2.v.minItems Code.NarrowedType Code.WidenedType) with
    | nil => exact absurd h hne
    | cons _ _ => rfl
  simp only [h1, h2, isPrimitiveType, isArrayType, this]
  simp only [ne_eq, List.append_eq_nil_iff, not_and] at hne
  simp
  intro e1 e2
  exact absurd e2 (hne e1)

theorem ne_nil_of_mem_changes {c : Code} {l : List TDiff} (h : c ∈ changes l) : l ≠ [] := by
  intro e; subst e; simp [changes] at h

/-- item counts of arrays -/
theorem detected_items_bounds (n : Nat) (t1 t2 : Schema) (h1 : t1.type = ["array"]) (a b : Int)
    (hb : (t1.v.maxItems = some a ∧ t2.v.maxItems = some b ∧ b < a) ∨ (t1.v.minItems = some a ∧ t2.v.minItems = some b ∧ a < b))
    (h2 : t2.type = ["array"]) :
    ∃ ds, compareProps n t1 t2 = .ok ds ∧ Code.NarrowedType ∈ changes ds := by
  have hmem : Code.NarrowedType ∈ changes (compareIntValues t1.v.maxItems t2.v.maxItems .WidenedType .NarrowedType ++
            compareIntValues t1.v.minItems t2.v.minItems .NarrowedType .WidenedType) := by
    rcases hb with ⟨ha, hb, h⟩ | ⟨ha, hb, h⟩
    · rw [ha, hb]; exact mem_changes_append_left (cmp_lower_max a b h)
    · rw [ha, hb]; exact mem_changes_append_right (cmp_raise_min a b h)
  exact ⟨_, compareProps_array n t1 t2 h1 h2 (ne_nil_of_mem_changes hmem), hmem⟩

/-- non-vacuity: concrete instances of the hypotheses above -/
example : ∃ ds, compareProps 3 { type := ["string"], v := { maxLength := some 10 } } { type := ["string"], v := { maxLength := some 5 } } = .ok ds ∧
    Code.NarrowedType ∈ changes ds :=
  detected_maxLength_lower 3 _ _ 10 5 rfl rfl rfl rfl rfl rfl rfl (by decide)

/-- a type narrowing between primitives (string → integer, number → integer) -/
theorem detected_type_narrowing :
    (∃ ds, compareProps 3 { type := ["string"] } { type := ["integer"] } = .ok ds ∧ Code.NarrowedType ∈ changes ds) ∧
    (∃ ds, compareProps 3 { type := ["number"] } { type := ["integer"] } = .ok ds ∧ Code.NarrowedType ∈ changes ds) ∧
    (∃ ds, compareProps 3 { type := ["string"] } { type := ["string"], format := "date" } = .ok ds ∧ Code.NarrowedType ∈ changes ds) := by
  refine ⟨⟨_, rfl, by decide⟩, ⟨_, rfl, by decide⟩, ⟨_, rfl, by decide⟩⟩

/-! ### lifting to the report: parameters -/

theorem narrowing_is_a_change : ∀ c ∈ requestNarrowing, c ≠ Code.NoChangeDetected := by decide

theorem param_change_reported_breaking (fl : Flags) (n : Nat) (a b : Spec) (pl : String) (hpl : pl ∈ paramLocations)
    (um1 um2 : UM) (hum2 : um2 ∈ getURLMethodsFor b) (hf : findUM (getURLMethodsFor a) um2.url um2.method = some um1)
    (name : String) (p1 p2 : Param)
    (h1 : lookup (getParams um1.item.params um1.op.params pl) name = some p1)
    (h2 : (name, p2) ∈ getParams um2.item.params um2.op.params pl)
    (c : Code) (hc : c ∈ requestNarrowing)
    (hdet : ∃ ds, compareProps n (forChain p1.chain) (forChain p2.chain) = .ok ds ∧ c ∈ changes ds) :
    Outcome.Holds (fun ds => ∃ d ∈ ds, d.compat = Compat.Breaking) (analyse fl n a b) := by
  obtain ⟨ds, hcmp, hmem⟩ := hdet
  obtain ⟨td, htd, hch⟩ := List.mem_map.mp hmem
  refine analyse_reports_param_change fl n a b pl hpl um1 um2 hum2 hf name p1 p2 h1 h2 ds hcmp td htd ?_ ?_
  · rw [hch]; exact narrowing_is_a_change c hc
  · rw [hch]; exact policy_sound_request c hc

theorem forChain_type (s : Simple) (r : List Simple) : (forChain (s :: r)).type = [s.type] ∧ (forChain (s :: r)).format = s.format ∧
    (forChain (s :: r)).ref = "" ∧ (forChain (s :: r)).v = s.v := ⟨rfl, rfl, rfl, rfl⟩

/-- end to end: a string parameter whose maxLength is lowered -/
theorem param_maxLength_lower_reported (fl : Flags) (n : Nat) (a b : Spec) (pl : String) (hpl : pl ∈ paramLocations)
    (um1 um2 : UM) (hum2 : um2 ∈ getURLMethodsFor b) (hf : findUM (getURLMethodsFor a) um2.url um2.method = some um1)
    (name : String) (p1 p2 : Param)
    (h1 : lookup (getParams um1.item.params um1.op.params pl) name = some p1)
    (h2 : (name, p2) ∈ getParams um2.item.params um2.op.params pl)
    (s1 s2 : Simple) (r1 r2 : List Simple) (c1 : p1.chain = s1 :: r1) (c2 : p2.chain = s2 :: r2)
    (t1 : s1.type = "string") (t2 : s2.type = "string") (hfm : s1.format = s2.format)
    (x y : Int) (hx : s1.v.maxLength = some x) (hy : s2.v.maxLength = some y) (hlt : y < x) :
    Outcome.Holds (fun ds => ∃ d ∈ ds, d.compat = Compat.Breaking) (analyse fl n a b) := by
  refine param_change_reported_breaking fl n a b pl hpl um1 um2 hum2 hf name p1 p2 h1 h2 Code.NarrowedType (by decide) ?_
  rw [c1, c2]
  exact detected_maxLength_lower n _ _ x y (by simp [forChain, t1]) (by simp [forChain, t2]) hfm rfl rfl hx hy hlt

/-- end to end: an integer / number parameter whose maximum is lowered -/
theorem param_maximum_lower_reported (fl : Flags) (n : Nat) (a b : Spec) (pl : String) (hpl : pl ∈ paramLocations)
    (um1 um2 : UM) (hum2 : um2 ∈ getURLMethodsFor b) (hf : findUM (getURLMethodsFor a) um2.url um2.method = some um1)
    (name : String) (p1 p2 : Param)
    (h1 : lookup (getParams um1.item.params um1.op.params pl) name = some p1)
    (h2 : (name, p2) ∈ getParams um2.item.params um2.op.params pl)
    (s1 s2 : Simple) (r1 r2 : List Simple) (c1 : p1.chain = s1 :: r1) (c2 : p2.chain = s2 :: r2)
    (ty : String) (hty : ty = "integer" ∨ ty = "number") (t1 : s1.type = ty) (t2 : s2.type = ty) (hfm : s1.format = s2.format)
    (e1 : s1.v.exclMax = s2.v.exclMax) (e2 : s1.v.exclMin = s2.v.exclMin)
    (x y : Int) (hx : s1.v.maximum = some x) (hy : s2.v.maximum = some y) (hlt : y < x) :
    Outcome.Holds (fun ds => ∃ d ∈ ds, d.compat = Compat.Breaking) (analyse fl n a b) := by
  refine param_change_reported_breaking fl n a b pl hpl um1 um2 hum2 hf name p1 p2 h1 h2 Code.NarrowedType (by decide) ?_
  rw [c1, c2]
  exact detected_maximum_lower n _ _ ty hty x y (by simp [forChain, t1]) (by simp [forChain, t2]) hfm rfl rfl e1 e2 hx hy hlt

/-- an endpoint of the old document that is not deprecated and that the new document lacks: every report has a Breaking entry -/
theorem removed_endpoint_reported_breaking (fl : Flags) (n : Nat) (a b : Spec) (um1 : UM) (h1 : um1 ∈ getURLMethodsFor a)
    (hgone : findUM (getURLMethodsFor b) um1.url um1.method = none)
    (hlive : um1.item.optionsDeprecated = false ∧ um1.op.deprecated = false) :
    Outcome.Holds (fun ds => ∃ d ∈ ds, d.compat = Compat.Breaking) (analyse fl n a b) :=
  analyse_reports_removed_endpoint fl n a b um1 h1 hgone hlive

/-- a parameter the old endpoint does not have and the new one requires: every report has a Breaking entry -/
theorem added_required_param_reported_breaking (fl : Flags) (n : Nat) (a b : Spec) (pl : String) (hpl : pl ∈ paramLocations)
    (um1 um2 : UM) (hum2 : um2 ∈ getURLMethodsFor b) (hf : findUM (getURLMethodsFor a) um2.url um2.method = some um1)
    (name : String) (p2 : Param)
    (h1 : lookup (getParams um1.item.params um1.op.params pl) name = none)
    (h2 : (name, p2) ∈ getParams um2.item.params um2.op.params pl) (hreq : p2.required = true) :
    Outcome.Holds (fun ds => ∃ d ∈ ds, d.compat = Compat.Breaking) (analyse fl n a b) :=
  analyse_reports_added_required_param fl n a b pl hpl um1 um2 hum2 hf name p2 h1 h2 hreq

/-- non-vacuity: two concrete documents meet every hypothesis of `param_maxLength_lower_reported` -/
def paramLen (m : Int) : Param := { name := "q", loc := "query", chain := [{ type := "string", v := { maxLength := some m } }] }
def opLen (m : Int) : Operation := { method := "get", params := [paramLen m], responses := [{ code := 200, desc := "ok" }] }
def pathLen (m : Int) : PathItem := { url := "/a", ops := [opLen m] }
def specLen (m : Int) : Spec := { paths := [pathLen m] }
def umLen (m : Int) : UM := { url := "/a", method := "get", item := pathLen m, op := opLen m }

example : Outcome.Holds (fun ds => ∃ d ∈ ds, d.compat = Compat.Breaking) (analyse {} 5 (specLen 10) (specLen 5)) :=
  param_maxLength_lower_reported {} 5 (specLen 10) (specLen 5) "query" (by decide) (umLen 10) (umLen 5)
    (show umLen 5 ∈ [umLen 5] from List.mem_cons_self) rfl "q" (paramLen 10) (paramLen 5) rfl
    (show ("q", paramLen 5) ∈ [("q", paramLen 5)] from List.mem_cons_self)
    _ _ [] [] rfl rfl rfl rfl rfl 10 5 rfl rfl (by decide)
example : (analyse {} 5 (specLen 10) (specLen 5)).isOk = true := by decide

/-- the request BODY, at the root of an inline (`$ref`-free) schema: a narrowing code found by CompareProps is a Breaking entry
    of every report -/
theorem body_root_change_reported_breaking (fl : Flags) (n : Nat) (a b : Spec) (pl : String) (hpl : pl ∈ paramLocations)
    (um1 um2 : UM) (hum2 : um2 ∈ getURLMethodsFor b) (hf : findUM (getURLMethodsFor a) um2.url um2.method = some um1)
    (name : String) (p1 p2 : Param)
    (hp1 : lookup (getParams um1.item.params um1.op.params pl) name = some p1)
    (hp2 : (name, p2) ∈ getParams um2.item.params um2.op.params pl)
    (sc1 sc2 : Schema) (e1 : p1.schema = some sc1) (e2 : p2.schema = some sc2) (r1 : sc1.ref = "") (r2 : sc2.ref = "")
    (c : Code) (hc : c ∈ requestNarrowing) (hdet : ∃ ds, compareProps n sc1 sc2 = .ok ds ∧ c ∈ changes ds) :
    Outcome.Holds (fun ds => ∃ d ∈ ds, d.compat = Compat.Breaking) (analyse fl (n+1) a b) := by
  obtain ⟨ds, hcmp, hmem⟩ := hdet
  obtain ⟨td, htd, hch⟩ := List.mem_map.mp hmem
  refine analyse_reports_body_change fl (n+1) a b pl hpl um1 um2 hum2 hf name p1 p2 hp1 hp2 sc1 sc2 e1 e2 ?_
  intro cl st' hcl
  exact compareSchema_hits_root _ n cl hcl sc1 sc2 st' r1 r2 ds hcmp td htd
    (by rw [hch]; exact narrowing_is_a_change c hc) (by rw [hch]; exact policy_sound_request c hc)

/-- … and one level down: a property that both inline object bodies have -/
theorem body_property_change_reported_breaking (fl : Flags) (n : Nat) (a b : Spec) (pl : String) (hpl : pl ∈ paramLocations)
    (um1 um2 : UM) (hum2 : um2 ∈ getURLMethodsFor b) (hf : findUM (getURLMethodsFor a) um2.url um2.method = some um1)
    (name : String) (p1 p2 : Param)
    (hp1 : lookup (getParams um1.item.params um1.op.params pl) name = some p1)
    (hp2 : (name, p2) ∈ getParams um2.item.params um2.op.params pl)
    (sc1 sc2 : Schema) (e1 : p1.schema = some sc1) (e2 : p2.schema = some sc2)
    (o1 : PlainObject sc1) (o2 : PlainObject sc2) (hroot : compareProps (n+1) sc1 sc2 = .ok [])
    (prop : String) (q1 q2 : Schema) (m1 : (prop, q1) ∈ sc1.props) (m2 : (prop, q2) ∈ sc2.props)
    (u1 : ∀ y ∈ sc1.props, y.1 = prop → y = (prop, q1)) (u2 : ∀ y ∈ sc2.props, y.1 = prop → y = (prop, q2))
    (r1 : q1.ref = "") (r2 : q2.ref = "")
    (c : Code) (hc : c ∈ requestNarrowing) (hdet : ∃ ds, compareProps n q1 q2 = .ok ds ∧ c ∈ changes ds) :
    Outcome.Holds (fun ds => ∃ d ∈ ds, d.compat = Compat.Breaking) (analyse fl (n+2) a b) := by
  obtain ⟨ds, hcmp, hmem⟩ := hdet
  obtain ⟨td, htd, hch⟩ := List.mem_map.mp hmem
  refine analyse_reports_body_change fl (n+2) a b pl hpl um1 um2 hum2 hf name p1 p2 hp1 hp2 sc1 sc2 e1 e2 ?_
  intro cl st' hcl
  exact compareSchema_hits_property _ n cl hcl sc1 sc2 st' o1 o2 hroot prop q1 q2 m1 m2 u1 u2 r1 r2 ds hcmp td htd
    (by rw [hch]; exact narrowing_is_a_change c hc) (by rw [hch]; exact policy_sound_request c hc)

/-- non-vacuity: a body object whose property `name` loses maximum length -/
def bodyObj (m : Int) : Schema :=
  { type := ["object"], hasProps := true, props := [("name", { type := ["string"], v := { maxLength := some m } }), ("n", { type := ["integer"] })] }
def paramBody (m : Int) : Param := { name := "body", loc := "body", chain := [{}], schema := some (bodyObj m) }
def opBody (m : Int) : Operation := { method := "post", params := [paramBody m], responses := [{ code := 200, desc := "ok" }] }
def specBody (m : Int) : Spec := { paths := [{ url := "/a", ops := [opBody m] }] }
def umBody (m : Int) : UM := { url := "/a", method := "post", item := { url := "/a", ops := [opBody m] }, op := opBody m }

example : Outcome.Holds (fun ds => ∃ d ∈ ds, d.compat = Compat.Breaking) (analyse {} 5 (specBody 10) (specBody 5)) :=
  body_property_change_reported_breaking {} 3 (specBody 10) (specBody 5) "body" (by decide) (umBody 10) (umBody 5)
    (show umBody 5 ∈ [umBody 5] from List.mem_cons_self) rfl "body" (paramBody 10) (paramBody 5) rfl
    (show ("body", paramBody 5) ∈ [("body", paramBody 5)] from List.mem_cons_self)
    (bodyObj 10) (bodyObj 5) rfl rfl ⟨rfl, rfl, rfl, by decide⟩ ⟨rfl, rfl, rfl, by decide⟩ rfl
    "name" _ _ (List.mem_cons_self) (List.mem_cons_self)
    (by intro y hy e; simp [bodyObj] at hy; rcases hy with h | h <;> simp_all)
    (by intro y hy e; simp [bodyObj] at hy; rcases hy with h | h <;> simp_all)
    rfl rfl Code.NarrowedType (by decide)
    (detected_maxLength_lower 3 _ _ 10 5 rfl rfl rfl rfl rfl rfl rfl (by decide))
example : (analyse {} 5 (specBody 10) (specBody 5)).isOk = true := by decide

/-- a response code of an endpoint both documents have that the new document lacks: every report has a Breaking entry -/
theorem removed_response_reported_breaking (fl : Flags) (n : Nat) (a b : Spec) (um1 um2 : UM) (hum2 : um2 ∈ getURLMethodsFor b)
    (hf : findUM (getURLMethodsFor a) um2.url um2.method = some um1) (resp1 : Response) (hr1 : resp1 ∈ um1.op.responses)
    (hgone : findResp um2.op.responses resp1.code = none) (hpos : resp1.code > 0) :
    Outcome.Holds (fun ds => ∃ d ∈ ds, d.compat = Compat.Breaking) (analyse fl n a b) :=
  analyse_reports_removed_response fl n a b um1 um2 hum2 hf resp1 hr1 hgone hpos

def opCodes (cs : List Nat) : Operation := { method := "get", responses := cs.map (fun c => { code := c, desc := "ok" }) }
def specCodes (cs : List Nat) : Spec := { paths := [{ url := "/a", ops := [opCodes cs] }] }
def umCodes (cs : List Nat) : UM := { url := "/a", method := "get", item := { url := "/a", ops := [opCodes cs] }, op := opCodes cs }

example : Outcome.Holds (fun ds => ∃ d ∈ ds, d.compat = Compat.Breaking) (analyse {} 5 (specCodes [200, 404]) (specCodes [200])) :=
  removed_response_reported_breaking {} 5 (specCodes [200, 404]) (specCodes [200]) (umCodes [200, 404]) (umCodes [200])
    (show umCodes [200] ∈ [umCodes [200]] from List.mem_cons_self) rfl { code := 404, desc := "ok" }
    (show _ ∈ [({ code := 200, desc := "ok" } : Response), { code := 404, desc := "ok" }] from List.mem_cons_of_mem _ List.mem_cons_self) rfl (by decide)
example : (analyse {} 5 (specCodes [200, 404]) (specCodes [200])).isOk = true := by decide

/-- non-vacuity of the two structural liftings: an endpoint removed, a required parameter added -/
def specNone : Spec := { paths := [] }
def opBare : Operation := { method := "get", responses := [{ code := 200, desc := "ok" }] }
def specBare : Spec := { paths := [{ url := "/a", ops := [opBare] }] }
def paramReq : Param := { name := "q", loc := "query", required := true, chain := [{ type := "string" }] }
def opReq : Operation := { method := "get", params := [paramReq], responses := [{ code := 200, desc := "ok" }] }
def specReq : Spec := { paths := [{ url := "/a", ops := [opReq] }] }

example : Outcome.Holds (fun ds => ∃ d ∈ ds, d.compat = Compat.Breaking) (analyse {} 5 (specLen 10) specNone) :=
  removed_endpoint_reported_breaking {} 5 (specLen 10) specNone (umLen 10) (show umLen 10 ∈ [umLen 10] from List.mem_cons_self) rfl ⟨rfl, rfl⟩
example : (analyse {} 5 (specLen 10) specNone).isOk = true := by decide

example : Outcome.Holds (fun ds => ∃ d ∈ ds, d.compat = Compat.Breaking) (analyse {} 5 specBare specReq) :=
  added_required_param_reported_breaking {} 5 specBare specReq "query" (by decide)
    { url := "/a", method := "get", item := { url := "/a", ops := [opBare] }, op := opBare }
    { url := "/a", method := "get", item := { url := "/a", ops := [opReq] }, op := opReq }
    (show _ ∈ [_] from List.mem_cons_self) rfl "q" paramReq rfl (show ("q", paramReq) ∈ [("q", paramReq)] from List.mem_cons_self) rfl
example : (analyse {} 5 specBare specReq).isOk = true := by decide

/-! ### exit status -/

theorem breaking_exits_nonzero (ds : List Diff) (hc : ∀ d ∈ ds, C15.Canonical d) (d : Diff) (hd : d ∈ ds)
    (hb : d.compat = Compat.Breaking) : (execute false false ds []).2 = true ∧ (execute false true ds []).2 = true := by
  have hf : filterIgnores ds [] = ds := by
    rw [C15.ignore_sub ds [] hc]
    simp
  have hpos : breakingCount (filterIgnores ds []) > 0 := by
    rw [hf]
    unfold breakingCount
    exact List.length_pos_of_mem (List.mem_filter.mpr ⟨hd, by simp [hb]⟩)
  exact ⟨(C15.exit_iff_txt ds []).mpr hpos, (C15.exit_iff_breaking_only ds []).mpr hpos⟩

/-! ### the statement is false of the code: narrowings the analyser does not see (known findings) -/

def intS (v : Valids) : Schema := { type := ["integer"], v := v }
def strS (v : Valids) : Schema := { type := ["string"], v := v }
def jvs (s : String) : JVal := { kind := 3, canon := "\"" ++ s ++ "\"", shown := s }
def jvi (s : String) : JVal := { kind := 2, canon := s, shown := s }

/-- multipleOf is never read -/
theorem undetected_multipleOf (n : Nat) (a b : Option Int) :
    compareProps n (intS { multipleOf := a }) (intS { multipleOf := b }) = .ok [] := by
  rw [compareProps_numeric n (intS { multipleOf := a }) (intS { multipleOf := b }) "integer" (Or.inl rfl) rfl rfl rfl rfl rfl]
  rfl

/-- uniqueItems is never read -/
theorem undetected_uniqueItems (n : Nat) :
    compareProps n { type := ["array"], v := { uniqueItems := false } } { type := ["array"], v := { uniqueItems := true } } = .ok [] := by
  rfl

/-- an enum that is introduced (old enum empty) is not compared -/
theorem undetected_enum_introduce (n : Nat) : compareProps n (strS {}) (strS { enum := [jvs "a", jvs "b"] }) = .ok [] := by
  rfl

/-- enums of non-string types are not compared -/
theorem undetected_int_enum_shrink (n : Nat) :
    compareProps n (intS { enum := [jvi "1", jvi "2", jvi "3"] }) (intS { enum := [jvi "1", jvi "2"] }) = .ok [] := by
  rfl

/-- nothing below an array parameter's `items` is compared: CompareProps returns at the array level -/
theorem undetected_param_items (n : Nat) (i1 i2 : Simple) :
    compareProps n (forChain [{ type := "array" }, i1]) (forChain [{ type := "array" }, i2]) = .ok [] := by
  unfold compareProps
  simp [forChain, isPrimitiveType, isArrayType, checkRefChangeProps, Outcome.bind, compareIntValues]

/-- allOf-only schemas are never compared: CompareProperties returns as soon as both sides have no own properties -/
theorem undetected_allOf (cx : Ctx) (cmp : Cmp) (n : Nat) (loc : Loc) (m1 m2 : List Schema) (st : St) :
    compareProperties cx cmp n loc { allOf := m1 } { allOf := m2 } st = .ok st := by
  rfl


/-! ### objects without declared properties on ONE side (round-5 seeded change: the guard of CompareProperties) -/

/-- a property-less object gains a required property: the step of CompareProperties that walks the NEW side's properties
    appends `AddedRequiredProperty` — the guard of CompareProperties (`both sides without properties`) does not return
    early here, because the new side has properties -/
theorem first_required_property_step (n : Nat) (loc : Loc) (t1 : Schema) (props2 : List (String × PropDefn))
    (acc : List (Loc × Code)) (kv : String × Schema) (h1 : t1.hasProps = false) (p : PropDefn)
    (hl : lookup props2 kv.1 = some p) (hr : p.required = true) (childLoc : Loc)
    (hc : addChildDiffNode n loc kv.1 kv.2 = .ok childLoc) :
    addedStep n loc t1 props2 acc kv = .ok (acc ++ [(childLoc, Code.AddedRequiredProperty)]) := by
  unfold addedStep
  simp [h1, hc, hl, hr, Outcome.bind]

/-- the premises of `first_required_property_step` are satisfiable: `{type: object}` gains the required string property `w` -/
example : ∃ c, addChildDiffNode 3 {} "w" { type := ["string"] } = .ok c ∧
    addedStep 3 {} { type := ["object"] } [("w", { schema := { type := ["string"] }, required := true })] [] ("w", { type := ["string"] })
      = .ok [(c, Code.AddedRequiredProperty)] := by
  refine ⟨_, rfl, ?_⟩
  exact first_required_property_step 3 {} { type := ["object"] } _ [] ("w", { type := ["string"] }) rfl
    { schema := { type := ["string"] }, required := true } rfl rfl _ rfl

/-- the guard fires only when BOTH sides declare no properties -/
theorem compareProperties_guard (cx : Ctx) (cmp : Cmp) (n : Nat) (loc : Loc) (t1 t2 : Schema) (st : St)
    (h : t1.hasProps = false ∧ t2.hasProps = false) : compareProperties cx cmp n loc t1 t2 st = .ok st := by
  unfold compareProperties
  simp [h.1, h.2]

theorem AddedRequiredProperty_breaking_in_request :
    getCompatibilityForChange Code.AddedRequiredProperty false = Compat.Breaking := by decide

/-- the last property of an object goes (the new side has no property of that name — e.g. no properties at all): the step
    of CompareProperties that walks the OLD side's properties appends `DeletedProperty`, whatever the new side holds -/
theorem last_property_removed_step (cmp : Cmp) (n : Nat) (loc : Loc) (props2 : List (String × PropDefn))
    (acc : St × List (Loc × Code)) (kv : String × PropDefn) (hl : lookup props2 kv.1 = none) (childLoc : Loc)
    (hc : addChildDiffNode n loc kv.1 kv.2.schema = .ok childLoc) :
    propStep cmp n loc props2 acc kv = .ok (acc.1, acc.2 ++ [(childLoc, Code.DeletedProperty)]) := by
  unfold propStep
  simp [hc, hl, Outcome.bind]

theorem DeletedProperty_breaking_in_response :
    getCompatibilityForChange Code.DeletedProperty true = Compat.Breaking := by decide

end Gs.Props.C13
