import GsModel.Diff.SelfTop
import GsModel.Diff.Total
import GsModel.Diff.Guard
import GsModel.Diff.Terminates
import GsModel.Diff.TermRec
/-
  C12 — diff: a spec never differs from itself, and diff never crashes.

  Statement (properties.jsonl): comparing any valid spec with itself — or with a re-serialised copy — reports no
  change; comparing any two valid specs terminates with a report, it never panics or loops.

  What is proved here, about the executable model `Gs.Diff.analyse` (tied to cmd/swagger/commands/diff by the
  correspondence run of `vx check C12` and by the regenerated tables `Gs.Gen`):
  * `self_identity`           — full strength for the identity half: for EVERY well-formed document, every fuel and
                                every iteration order, a normal return of `analyse s s` is the empty report.
  * `reser_sets`, `reser_required` — re-serialisation of the lists the analyser reads as sets.
  * `total_no_panic`          — the no-crash half: for EVERY pair of valid documents (every `$ref` at every depth names a
                                definition, every array parameter / header level has items), every fuel and every
                                iteration order, `analyse a b` is not a panic: none of the unguarded dereferences
                                (`Type[0]`, `Items.Schema`, nil schema after `$ref` resolution, nil node) is reached —
                                through `$ref` cycles, allOf, tuples, untyped schemas, path-level parameters.
                                `invalid_ref_panics`, `array_without_items_panics`: both hypotheses are needed.
                                `guard_returns`, `guard_marks`, `key_ignores_depth`: the mechanism of the recursion guard — a `$ref` that
                                arrives at a visited location key returns at once with the state untouched, following a `$ref`
                                marks the key, and the key depends on the first two nodes of the location only (so every
                                location below depth 2 of one subtree shares its key: at most one `$ref` per key is followed).
                                `terminates_acyclic` / `returns_report`: termination for documents without recursive definitions —
                                if every schema, `$ref`s followed, is at most d levels deep (`Spec.fitsB d`, computed by the
                                driver on every generated document), the analyser does not run out of fuel d+1: its recursion is
                                bounded by the nesting of the documents, and with validity it RETURNS A REPORT.
                                `recursion_through_allOf_is_unbounded` (+ `rec_valid`): the termination half is FALSE of the code for
                                recursive structures that pass through allOf — on one VALID document the model yields no
                                report for ANY fuel (the real command dies with a stack overflow); known finding.
                                NOT proved: termination (“never loops”) for RECURSIVE definitions — there the visited-key
                                argument that bounds the real recursion is exercised by the correspondence run only.
  * `*_repaired`              — the totality half was FALSE of the pinned code: five concrete valid documents made the
                                analyser panic (findings #1, #29, #39, #40, #41, all repaired by `fix:` commits in
                                /repo); these theorems pin the repaired behaviour on exactly those documents.
-/
namespace Gs.Props.C12
open Gs Gs.Gen Gs.Diff Gs.Outcome

/-- The property, identity half, as a statement about the model. -/
def IdentityStatement : Prop :=
  ∀ (fl : Flags) (n : Nat) (s : Spec), s.wf = true → Holds (fun ds => ds = []) (analyse fl n s s)

theorem self_identity : IdentityStatement := by
  intro fl n s hw
  unfold Spec.wf at hw
  simp only [Bool.and_eq_true, List.all_eq_true] at hw
  obtain ⟨⟨hu, hdefs⟩, hresp⟩ := hw
  unfold analyse
  simp only [analyseSpecMetadata_self, findDeletedEndpoints_self, findAddedEndpoints_self]
  refine Holds.bind (analyseRequestParams_self _ rfl n _ hu _) ?_
  intro st1 h1
  rw [analyseEndpointData_self _ _ hu]
  refine Holds.bind (analyseResponseParams_self _ rfl n _ hu ?_ st1) ?_
  · intro um hum
    exact hresp um hum
  · intro st2 h2
    refine Holds.bind (analyseDefinitions_self _ rfl (keysDistinct_of_distinctBy _ hdefs) n st2) ?_
    intro st3 h3
    simp only [holds_ok]
    rw [h3, h2, h1]

/-- non-vacuity: a concrete non-trivial document satisfies the hypothesis, and the model returns normally on it. -/
def sampleParam : Param :=
  { name := "q", loc := "query", chain := [{ type := "string", v := { minLength := some 1 } }] }
def sampleOp : Operation :=
  { method := "get", tags := some ["t"], params := [sampleParam],
    responses := [{ code := 200, desc := "ok", schema := some { ref := "A" } }] }
def sampleDef : Schema :=
  { type := ["object"], hasProps := true, required := ["id"],
    props := [("id", { type := ["integer"], format := "int64" }), ("next", { ref := "A" })] }
def sampleSpec : Spec :=
  { consumes := some ["application/json"], host := "h",
    paths := [{ url := "/a", ops := [sampleOp] }], defs := [("A", sampleDef)] }

example : sampleSpec.wf = true := by decide
example : (analyse {} 50 sampleSpec sampleSpec).isOk = true := by decide

/-- Re-serialisation, lists read as sets (consumes, produces, schemes, tags, enum values):
    any reordering or duplication-free rewrite of the list reports nothing. -/
theorem reser_sets (l l' : List String) (h : ∀ x, x ∈ l ↔ x ∈ l') : diffsTo (some l) l' = ([], []) := by
  have h1 : l'.filter (fun x => !l.contains x) = [] := by
    rw [List.filter_eq_nil_iff]; intro x hx; simp [(h x).mpr hx]
  have h2 : l.filter (fun x => !l'.contains x) = [] := by
    rw [List.filter_eq_nil_iff]; intro x hx; simp [(h x).mp hx]
  simp only [diffsTo, h1, h2, dedup, sortStrs]

theorem reser_enum (l l' : List JVal) (h : ∀ x, x ∈ l.map (·.shown) ↔ x ∈ l'.map (·.shown)) :
    compareEnums l l' = [] := by
  simp [compareEnums, reser_sets _ _ h]

/-- Re-serialisation of `required`: the analyser only asks for membership. -/
theorem reser_required (r r' : List String) (h : ∀ x, x ∈ r ↔ x ∈ r') (k : String) : r.contains k = r'.contains k := by
  have := h k
  by_cases hk : k ∈ r
  · simp [hk, this.mp hk]
  · have hk' : k ∉ r' := fun e => hk (this.mpr e)
    simp [hk, hk']

/-! ### former panic witnesses (each was a crash of the pinned tree, repaired by a `fix:` commit; the model follows the
     repaired code, the documents stay in the corpus replayed by the check, and these theorems pin the repaired
     behaviour of the model on them) -/

def okEmpty (o : Outcome (List Diff)) : Bool := match o with | .ok ds => ds.isEmpty | _ => false

/-- #1: array-valued parameter default — was `schema1.Default != schema2.Default` on two `[]interface{}` values. -/
def paramArrayDefault : Param :=
  { name := "ids", loc := "query",
    chain := [{ type := "array", dflt := some { kind := 4, canon := "[\"a\"]", shown := "[a]" } }, { type := "string" }] }
def specArrayDefault : Spec :=
  { paths := [{ url := "/a",
                ops := [{ method := "get", params := [paramArrayDefault], responses := [{ code := 200, desc := "ok" }] }] }] }

theorem self_default_repaired : specArrayDefault.wf = true ∧ okEmpty (analyse {} 50 specArrayDefault specArrayDefault) = true := by
  decide

/-- #29: tuple-typed property — was `schema.Items.Schema.SchemaProps` with `Items.Schema == nil`. -/
def schemaTuple : Schema :=
  { type := ["object"], hasProps := true,
    props := [("t", { type := ["array"], hasItems := true, itemMany := [{ type := ["string"] }, { type := ["integer"] }] })] }
def specTuple : Spec :=
  { paths := [{ url := "/a",
                ops := [{ method := "get", responses := [{ code := 200, desc := "ok", schema := some schemaTuple }] }] }] }

theorem self_tuple_repaired : specTuple.wf = true ∧ okEmpty (analyse {} 50 specTuple specTuple) = true := by
  decide

/-- #39: a property that is a `$ref` in one document and the untyped schema `{}` in the other — was `Type[0]`. -/
def specRefProp (p : Schema) : Spec :=
  let body : Schema := { type := ["object"], hasProps := true, props := [("p", p)] }
  { paths := [{ url := "/a", ops := [{ method := "get", responses := [{ code := 200, desc := "ok", schema := some body }] }] }],
    defs := [("A", { type := ["string"] })] }

theorem ref_untyped_repaired :
    (analyse {} 50 (specRefProp { ref := "A" }) (specRefProp {})).isOk = true ∧
    (analyse {} 50 (specRefProp {}) (specRefProp { ref := "A" })).isOk = true := by
  decide

/-- #40: a response code added without a body schema — was `getSchemaDiffNode("Body", (*spec.Schema)(nil))`. -/
def specResp (codes : List Nat) : Spec :=
  { paths := [{ url := "/a", ops := [{ method := "get", responses := codes.map (fun c => { code := c, desc := "ok" }) }] }] }

theorem added_response_without_schema_repaired :
    (specResp [200]).wf = true ∧ (specResp [200, 204]).wf = true ∧
    (analyse {} 50 (specResp [200]) (specResp [200, 204])).isOk = true ∧
    (analyse {} 50 (specResp [200, 204]) (specResp [200])).isOk = true := by
  decide

/-- #41: array schema whose items are a tuple on both sides — was `isRefType((*spec.Schema)(nil))`. -/
def specArrTuple : Spec :=
  let body : Schema := { type := ["array"], hasItems := true, itemMany := [{ type := ["string"] }] }
  { paths := [{ url := "/a", ops := [{ method := "get", responses := [{ code := 200, desc := "ok", schema := some body }] }] }] }

theorem array_tuple_repaired : okEmpty (analyse {} 50 specArrTuple specArrTuple) = true := by
  decide

/-! ### totality: no panic on valid documents -/

/-- The property, no-crash half, as a statement about the model (validity as the computable check `validB`, at every depth). -/
def TotalityStatement : Prop :=
  ∀ (fl : Flags) (n : Nat) (a b : Spec), (∀ k, a.validB k = true) → (∀ k, b.validB k = true) → NoPanic (analyse fl n a b)

theorem total_no_panic : TotalityStatement :=
  fun fl n a b ha hb => analyse_safe fl n a b (a.valid_of_validB ha) (b.valid_of_validB hb)

/-- the same without the triple: the outcome is never `panic` -/
theorem total_not_panic (fl : Flags) (n : Nat) (a b : Spec) (ha : ∀ k, a.validB k = true) (hb : ∀ k, b.validB k = true) :
    (analyse fl n a b).isPanic = false := by
  have := total_no_panic fl n a b ha hb
  cases h : analyse fl n a b with
  | ok _ => rfl
  | fuel => rfl
  | panic w => rw [h] at this; exact this.elim

/-- non-vacuity: the sample document (a `$ref` cycle through `A.next`) is valid at every depth -/
theorem sample_valid : ∀ k, sampleSpec.validB k = true := by
  intro k
  match k with
  | 0 => decide
  | 1 => decide
  | k+2 =>
    simp [Spec.validB, getURLMethodsFor, sampleSpec, sampleOp, sampleParam, sampleDef, Param.okB, Response.okB, chainOk,
      schemaOk, Schema.children, refOk, lookup, primitiveTypeString]

/-- a second valid document, different from the first in a `$ref`-typed property, a path-level array parameter and a tuple -/
def sampleSpec2 : Spec :=
  { paths := [{ url := "/a", params := [{ name := "ids", loc := "query", chain := [{ type := "array" }, { type := "integer" }] }],
                ops := [{ method := "get", responses := [{ code := 200, desc := "ok", schema := some { ref := "B" } }] }] }],
    defs := [("A", { type := ["object"], hasProps := true, props := [("next", { ref := "B" })], allOf := [{ ref := "B" }] }),
             ("B", { type := ["array"], hasItems := true, itemMany := [{ type := ["string"] }] })] }

theorem sample2_valid : ∀ k, sampleSpec2.validB k = true := by
  intro k
  match k with
  | 0 => decide
  | 1 => decide
  | k+2 =>
    simp [Spec.validB, getURLMethodsFor, sampleSpec2, Param.okB, Response.okB, chainOk,
      schemaOk, Schema.children, refOk, lookup, primitiveTypeString]

example : (analyse {} 50 sampleSpec sampleSpec2).isOk = true ∧ (analyse {} 50 sampleSpec2 sampleSpec).isOk = true := by decide

/-! ### termination without recursive definitions -/

/-- the analyser does not run out of fuel `d+1` on documents whose schemas are at most `d` levels deep ($refs followed) -/
theorem terminates_acyclic (fl : Flags) (n : Nat) (a b : Spec) (fa : a.fitsB (n+1) = true) (fb : b.fitsB (n+1) = true) :
    NoFuel (analyse fl (n+2) a b) :=
  analyse_term fl n a b (a.fits_of_fitsB _ fa) (b.fits_of_fitsB _ fb)

/-- valid and not recursive: comparing the two documents returns a report -/
theorem returns_report (fl : Flags) (n : Nat) (a b : Spec) (ha : ∀ k, a.validB k = true) (hb : ∀ k, b.validB k = true)
    (fa : a.fitsB (n+1) = true) (fb : b.fitsB (n+1) = true) : (analyse fl (n+2) a b).isOk = true :=
  analyse_returns fl n a b (a.valid_of_validB ha) (b.valid_of_validB hb) fa fb

/-- non-vacuity: sampleSpec2 is valid and 3 levels deep; sampleSpec (A.next → A) is recursive and fits no depth -/
example : sampleSpec2.fitsB 3 = true ∧ sampleSpec.fitsB 12 = false := by decide
example : (analyse {} 4 sampleSpec2 sampleSpec2).isOk = true :=
  returns_report {} 2 sampleSpec2 sampleSpec2 sample2_valid sample2_valid (by decide) (by decide)

/-! ### termination is false in general: recursion through allOf -/

/-- the witness document is valid (every `$ref` resolves, at every depth) … -/
theorem rec_valid : ∀ k, recSpec.validB k = true := by
  intro k
  match k with
  | 0 => decide
  | 1 => decide
  | 2 => decide
  | k+3 =>
    simp [Spec.validB, getURLMethodsFor, recSpec, recX, recA, recB, Param.okB, Response.okB, chainOk,
      schemaOk, Schema.children, refOk, lookup]

/-- … and comparing it with itself never yields a report, whatever the fuel and the iteration order -/
theorem recursion_through_allOf_is_unbounded (fl : Flags) (n : Nat) : (analyse fl n recSpec recSpec).isOk = false :=
  Gs.Diff.recursion_through_allOf_is_unbounded fl n

/-- (it does not panic either — `total_no_panic` applies — so the model runs out of fuel: the real recursion has no bound) -/
theorem recursion_through_allOf_exhausts_fuel (fl : Flags) (n : Nat) : isFuel (analyse fl n recSpec recSpec) = true := by
  have h1 := recursion_through_allOf_is_unbounded fl n
  have h2 := total_not_panic fl n recSpec recSpec rec_valid rec_valid
  cases h : analyse fl n recSpec recSpec with
  | ok _ => rw [h] at h1; simp [Outcome.isOk] at h1
  | panic w => rw [h] at h2; simp [Outcome.isPanic] at h2
  | fuel => rfl

/-! ### the recursion guard -/

theorem guard_returns (cx : Ctx) (n : Nat) (loc : Loc) (s1 s2 : Schema) (st : St) (k : String)
    (hr : s1.ref ≠ "") (hsame : checkRefChangeSchema n s1 s2 = .ok [])
    (hk : schemaLocationKey loc = .ok k) (hv : st.visited.contains k = true) :
    compareSchema cx (n+1) loc (some s1) (some s2) st = .ok st :=
  Gs.Diff.guard_returns cx n loc s1 s2 st k hr hsame hk hv

theorem guard_marks (cx : Ctx) (loc : Loc) (s1 s2 : Schema) (st : St) (k : String)
    (hr : s1.ref ≠ "") (hk : schemaLocationKey loc = .ok k) (hv : st.visited.contains k = false) :
    ∃ o1 o2 st', resolveBoth cx loc s1 s2 st = .ok (some (o1, o2, st')) ∧ st'.visited.contains k = true :=
  Gs.Diff.guard_marks cx loc s1 s2 st k hr hk hv

theorem key_ignores_depth (l : Loc) (a b : NodeSeg) (rest : List NodeSeg) (c : NodeSeg) (h : l.node = a :: b :: rest) :
    schemaLocationKey (l.addNode c) = schemaLocationKey l :=
  Gs.Diff.addNode_key l a b rest c h

/-- the hypotheses are needed: a `$ref` to a missing definition is a nil dereference … -/
def specDangling : Spec :=
  { paths := [{ url := "/a", ops := [{ method := "get", responses := [{ code := 200, desc := "ok", schema := some { ref := "Nope" } }] }] }] }
theorem invalid_ref_panics : specDangling.validB 1 = false ∧ (analyse {} 50 specDangling specDangling).isPanic = true := by decide

/-- … and so is an array parameter without items. -/
def specNoItems : Spec :=
  { paths := [{ url := "/a", ops := [{ method := "get", params := [{ name := "ids", loc := "query", chain := [{ type := "array" }] }],
                                        responses := [{ code := 200, desc := "ok" }] }] }] }
theorem array_without_items_panics : specNoItems.validB 0 = false ∧ (analyse {} 50 specNoItems specNoItems).isPanic = true := by decide

end Gs.Props.C12
