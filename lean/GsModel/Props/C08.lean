import GsModel.Ops.Gather
/-
  C08 — No operation or definition is silently dropped or merged.

  About the model of gatherOperations (tied to the real function through a verif-tagged accessor, on generated
  candidate lists rich in collisions):
  * `no_drop`        — when the registration names (operationId, else the method+path key) are pairwise distinct, every
                       operation is registered under its own name: nothing is dropped or merged, for EVERY list.
  * `gather_le`      — never more entries than operations; `stepOp_keeps_others`.
  * `merge_is_silent` — the statement is FALSE of the code when names collide: two operations without operationId whose
                       keys collide (GET /a-b and GET /a_b) end up as ONE entry and no error is raised (known finding;
                       the check replays it on the real generator and counts handlers, files and model types).
-/
namespace Gs.Props.C08
open Gs Gs.Gather

theorem lookup_setOp_same : ∀ (m : List (String × Op)) k v, lookup (setOp m k v) k = some v
  | [], k, v => by simp [setOp, lookup]
  | (k', v') :: tl, k, v => by
    unfold setOp
    by_cases h : k' = k
    · simp [h, lookup]
    · simp [h, lookup, lookup_setOp_same tl k v]

theorem lookup_setOp_other : ∀ (m : List (String × Op)) k v q, q ≠ k → lookup (setOp m k v) q = lookup m q
  | [], k, v, q, h => by
    have : ¬ k = q := fun e => h e.symm
    simp [setOp, lookup, this]
  | (k', v') :: tl, k, v, q, h => by
    unfold setOp
    by_cases hk : k' = k
    · subst hk
      have : ¬ k' = q := fun e => h e.symm
      simp [lookup, this]
    · by_cases hq : k' = q <;> simp [hk, lookup, hq, lookup_setOp_other tl k v q h, h]

theorem length_setOp : ∀ (m : List (String × Op)) k v, (setOp m k v).length = if (lookup m k).isSome then m.length else m.length + 1
  | [], k, v => by simp [setOp, lookup]
  | (k', v') :: tl, k, v => by
    unfold setOp
    by_cases h : k' = k
    · simp [h, lookup]
    · simp only [h, if_false, List.length_cons, lookup, length_setOp tl k v]
      split <;> rfl

/-- the entries registered so far are exactly the operations seen so far, each under its own name -/
def Inv (seen : List Op) (m : List (String × Op)) : Prop :=
  m.length = seen.length ∧ (∀ o ∈ seen, lookup m (name o) = some o) ∧ (∀ k, (lookup m k).isSome → ∃ o ∈ seen, name o = k)

theorem step_inv (seen : List Op) (m : List (String × Op)) (o : Op) (h : Inv seen m) (hnew : ∀ p ∈ seen, name p ≠ name o) :
    Inv (seen ++ [o]) (stepOp m o) := by
  obtain ⟨hl, hall, hdom⟩ := h
  have hnone : lookup m (name o) = none := by
    cases hh : lookup m (name o) with
    | none => rfl
    | some v =>
      obtain ⟨p, hp, hn⟩ := hdom (name o) (by simp [hh])
      exact absurd hn (hnew p hp)
  unfold stepOp
  simp only [hnone]
  refine ⟨?_, ?_, ?_⟩
  · rw [length_setOp]; simp [hnone, hl]
  · intro p hp
    rcases List.mem_append.mp hp with hp | hp
    · rw [lookup_setOp_other _ _ _ _ (hnew p hp)]; exact hall p hp
    · simp only [List.mem_singleton] at hp; subst hp; exact lookup_setOp_same _ _ _
  · intro k hk
    by_cases e : k = name o
    · exact ⟨o, by simp, e.symm⟩
    · rw [lookup_setOp_other _ _ _ _ e] at hk
      obtain ⟨p, hp, hn⟩ := hdom k hk
      exact ⟨p, List.mem_append_left _ hp, hn⟩

/-- pairwise distinct registration names -/
def distinctNames : List Op → Prop
  | [] => True
  | o :: tl => (∀ p ∈ tl, name p ≠ name o) ∧ distinctNames tl

theorem foldl_inv_aux : ∀ (rest seen : List Op) (m : List (String × Op)), Inv seen m →
    (∀ o ∈ rest, ∀ p ∈ seen, name p ≠ name o) → distinctNames rest → Inv (seen ++ rest) (rest.foldl stepOp m)
  | [], seen, m, h, _, _ => by simpa using h
  | o :: tl, seen, m, h, hcross, hd => by
    simp only [List.foldl]
    have h1 := step_inv seen m o h (hcross o List.mem_cons_self)
    have := foldl_inv_aux tl (seen ++ [o]) (stepOp m o) h1 (by
      intro q hq p hp
      rcases List.mem_append.mp hp with hp | hp
      · exact hcross q (List.mem_cons_of_mem _ hq) p hp
      · simp only [List.mem_singleton] at hp; subst hp; exact fun e => hd.1 q hq e.symm) hd.2
    simpa using this

/-- with pairwise distinct names nothing is dropped or merged: as many entries as operations, each operation
    registered under its own name -/
theorem no_drop (ops : List Op) (hd : distinctNames ops) :
    (gather ops).length = ops.length ∧ ∀ o ∈ ops, lookup (gather ops) (name o) = some o := by
  have h := foldl_inv_aux ops [] [] ⟨rfl, by simp, by simp [lookup]⟩ (by simp) hd
  simp only [List.nil_append] at h
  exact ⟨h.1, h.2.1⟩

theorem setOp_length_le (m : List (String × Op)) (k : String) (v : Op) : (setOp m k v).length ≤ m.length + 1 := by
  rw [length_setOp]; split <;> omega

theorem stepOp_length_le (m : List (String × Op)) (o : Op) : (stepOp m o).length ≤ m.length + 1 := by
  unfold stepOp
  exact setOp_length_le _ _ _

theorem gather_le : ∀ (ops : List Op) (m : List (String × Op)), (ops.foldl stepOp m).length ≤ m.length + ops.length
  | [], m => by simp
  | o :: tl, m => by
    simp only [List.foldl, List.length_cons]
    have := gather_le tl (stepOp m o)
    have := stepOp_length_le m o
    omega

/-- the statement is false of the code: two valid operations whose keys collide are merged without any error -/
def opAB : Op := { key := "GetAb", method := "GET", path := "/a-b", id := "" }
def opA_B : Op := { key := "GetAb", method := "GET", path := "/a_b", id := "" }

theorem merge_is_silent : (gather [opAB, opA_B]).length = 1 ∧ opAB ≠ opA_B := by decide

/-- non-vacuity of `no_drop`: a list with distinct names, one of them taken from an operationId -/
example : distinctNames [opAB, { key := "PostAb", method := "POST", path := "/a-b", id := "create" }] := by
  simp [distinctNames, name, opAB]

end Gs.Props.C08
