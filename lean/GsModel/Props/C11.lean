import GsModel.Ops.Regen
import GsModel.Gen.Layout
/-
  C11 — Regeneration never destroys user code and converges.

  Theorems about the write-policy state machine, for ALL finite histories of runs and user actions (induction over the
  list of operations), plus the regenerated layout facts that say which templates carry SkipExists:
  * `get_set_same/other`, `write_other`, `run_other`   — a run only touches the paths it names.
  * `user_preserved`     — a path no run of the history is responsible for holds the last user content (or its initial one).
  * `no_delete`          — nothing that exists is ever removed.
  * `configure_kept`     — a path only ever written with SkipExists keeps its content once present (user edits win).
  * `converges`, `independent_of_prior_state` — after a run every file it writes without skipping holds exactly the
                           content a generation into an empty directory gives.
  * `only_configure_skips`, `regenerate_clears_skip` — over the layout tables regenerated from the live `GenOpts.Sections`.
-/
namespace Gs.Props.C11
open Gs Gs.Regen

theorem get_set_same : ∀ (fs : FS) p c, fsGet (fsSet fs p c) p = some c
  | [], p, c => by simp [fsSet, fsGet, lookup]
  | (q, d) :: tl, p, c => by
    unfold fsSet
    by_cases h : q = p
    · simp [h, fsGet, lookup]
    · have ih := get_set_same tl p c
      simp only [fsGet] at ih
      simp [h, fsGet, lookup, ih]

theorem get_set_other : ∀ (fs : FS) p c q, q ≠ p → fsGet (fsSet fs p c) q = fsGet fs q
  | [], p, c, q, h => by
    have : ¬ p = q := fun e => h e.symm
    simp [fsSet, fsGet, lookup, this]
  | (r, d) :: tl, p, c, q, h => by
    unfold fsSet
    by_cases hr : r = p
    · subst hr
      have : ¬ r = q := fun e => h e.symm
      simp [fsGet, lookup, this]
    · have ih := get_set_other tl p c q h
      simp only [fsGet] at ih
      by_cases hq : r = q <;> simp [hr, fsGet, lookup, hq, ih, h]

theorem write_other (fs : FS) (w : W) (q : String) (h : q ≠ w.path) : fsGet (write fs w) q = fsGet fs q := by
  unfold write
  split
  · rfl
  · exact get_set_other fs w.path w.content q h

/-- a run leaves every path it does not name untouched -/
theorem run_other : ∀ (r : List W) (fs : FS) (q : String), (∀ w ∈ r, q ≠ w.path) → fsGet (applyRun fs r) q = fsGet fs q
  | [], _, _, _ => rfl
  | w :: ws, fs, q, h => by
    simp only [applyRun, List.foldl]
    have := run_other ws (write fs w) q (fun w' hw' => h w' (List.mem_cons_of_mem _ hw'))
    simp only [applyRun] at this
    rw [this]
    exact write_other fs w q (h w List.mem_cons_self)

theorem write_keeps (fs : FS) (w : W) (q : String) (h : (fsGet fs q).isSome) : (fsGet (write fs w) q).isSome := by
  unfold write
  split
  · exact h
  · by_cases e : q = w.path
    · subst e; simp [get_set_same]
    · rw [get_set_other fs w.path w.content q e]; exact h

theorem run_keeps : ∀ (r : List W) (fs : FS) (q : String), (fsGet fs q).isSome → (fsGet (applyRun fs r) q).isSome
  | [], _, _, h => h
  | w :: ws, fs, q, h => by
    simp only [applyRun, List.foldl]
    exact run_keeps ws (write fs w) q (write_keeps fs w q h)

/-- files are never removed, whatever the history -/
theorem no_delete : ∀ (ops : List Op) (fs : FS) (q : String), (fsGet fs q).isSome → (fsGet (exec fs ops) q).isSome
  | [], _, _, h => h
  | op :: tl, fs, q, h => by
    simp only [exec, List.foldl]
    apply no_delete tl
    cases op with
    | run r => exact run_keeps r fs q h
    | user p c =>
      simp only [step]
      by_cases e : q = p
      · subst e; simp [get_set_same]
      · rw [get_set_other fs p c q e]; exact h

theorem lastUser_some (q : String) : ∀ (ops : List Op) (c : String), (lastUser q ops (some c)).isSome = true
  | [], _ => rfl
  | .user p c' :: tl, c => by
    simp only [lastUser]
    split
    · exact lastUser_some q tl c'
    · exact lastUser_some q tl c
  | .run _ :: tl, c => by
    simp only [lastUser]
    exact lastUser_some q tl c

/-- a path that no run of the history names holds the last content the user gave it (else what it held initially):
    files the generator did not produce are never modified or removed -/
theorem user_preserved : ∀ (ops : List Op) (fs : FS) (q : String), (∀ op ∈ ops, op.names q = false) →
    fsGet (exec fs ops) q = (match lastUser q ops none with | some c => some c | none => fsGet fs q) := by
  intro ops
  -- generalise over the accumulator of `lastUser`
  have gen : ∀ (ops : List Op) (fs : FS) (q : String) (acc : Option String), (∀ op ∈ ops, op.names q = false) →
      (match acc with | some c => fsGet fs q = some c | none => True) →
      fsGet (exec fs ops) q = (match lastUser q ops acc with | some c => some c | none => fsGet fs q) := by
    intro ops
    induction ops with
    | nil =>
      intro fs q acc _ hacc
      cases acc with
      | none => simp [exec, lastUser]
      | some c => simpa [exec, lastUser] using hacc
    | cons op tl ih =>
      intro fs q acc hn hacc
      have hn' : ∀ op ∈ tl, op.names q = false := fun o ho => hn o (List.mem_cons_of_mem _ ho)
      cases op with
      | run r =>
        have hr : ∀ w ∈ r, q ≠ w.path := by
          have := hn (.run r) List.mem_cons_self
          simp only [Op.names, List.any_eq_false, decide_eq_true_eq] at this
          exact fun w hw e => this w hw e.symm
        have hg : fsGet (applyRun fs r) q = fsGet fs q := run_other r fs q hr
        simp only [exec, List.foldl, step, lastUser]
        have := ih (applyRun fs r) q acc hn' (by cases acc with | none => trivial | some c => simpa [hg] using hacc)
        simp only [exec] at this
        rw [this, hg]
      | user p c =>
        simp only [exec, List.foldl, step, lastUser]
        by_cases e : p = q
        · subst e
          have := ih (fsSet fs p c) p (some c) hn' (by simp [get_set_same])
          simp only [exec] at this
          simp only [if_true]
          rw [this]
          have hs := lastUser_some p tl c
          cases hl : lastUser p tl (some c) with
          | some _ => rfl
          | none => rw [hl] at hs; cases hs
        · have hq : q ≠ p := fun h => e h.symm
          have hg : fsGet (fsSet fs p c) q = fsGet fs q := get_set_other fs p c q hq
          simp only [e, if_false]
          have := ih (fsSet fs p c) q acc hn' (by cases acc with | none => trivial | some c' => simpa [hg] using hacc)
          simp only [exec] at this
          rw [this, hg]
  intro fs q hn
  exact gen ops fs q none hn trivial

/-- all writes of a run to `q` carry SkipExists -/
def skipsOnly (q : String) (r : List W) : Prop := ∀ w ∈ r, w.path = q → w.skip = true

theorem write_skip_kept (fs : FS) (w : W) (q c : String) (hq : fsGet fs q = some c) (hs : w.path = q → w.skip = true) :
    fsGet (write fs w) q = some c := by
  unfold write
  by_cases e : w.path = q
  · have := hs e
    simp [this, e, hq]
  · split
    · exact hq
    · rw [get_set_other fs w.path w.content q (fun h => e h.symm)]; exact hq

theorem run_skip_kept : ∀ (r : List W) (fs : FS) (q c : String), fsGet fs q = some c → skipsOnly q r → fsGet (applyRun fs r) q = some c
  | [], _, _, _, h, _ => h
  | w :: ws, fs, q, c, h, hs => by
    simp only [applyRun, List.foldl]
    exact run_skip_kept ws (write fs w) q c (write_skip_kept fs w q c h (hs w List.mem_cons_self))
      (fun w' hw' => hs w' (List.mem_cons_of_mem _ hw'))

/-- the user-editable configure file: once it exists, no sequence of runs that only write it with SkipExists changes
    it — only the user does -/
theorem configure_kept : ∀ (ops : List Op) (fs : FS) (q c : String), fsGet fs q = some c →
    (∀ op ∈ ops, match op with | .run r => skipsOnly q r | .user p _ => p ≠ q) → fsGet (exec fs ops) q = some c
  | [], _, _, _, h, _ => h
  | op :: tl, fs, q, c, h, hs => by
    simp only [exec, List.foldl]
    apply configure_kept tl _ q c _ (fun o ho => hs o (List.mem_cons_of_mem _ ho))
    have := hs op List.mem_cons_self
    cases op with
    | run r => exact run_skip_kept r fs q c h this
    | user p c' =>
      simp only [step]
      rw [get_set_other fs p c' q (fun e => this e.symm)]
      exact h

/-- pairwise distinct paths inside one run (one template entry per file) -/
def distinctPaths : List W → Prop
  | [] => True
  | w :: ws => (∀ w' ∈ ws, w'.path ≠ w.path) ∧ distinctPaths ws

/-- after a run, every file it writes without skipping holds exactly the rendered content -/
theorem converges : ∀ (r : List W) (fs : FS), distinctPaths r → ∀ w ∈ r, ¬ (w.skip = true ∧ (fsGet fs w.path).isSome) →
    fsGet (applyRun fs r) w.path = some w.content
  | [], _, _, w, h, _ => by cases h
  | x :: xs, fs, hd, w, hw, hns => by
    simp only [applyRun, List.foldl]
    rcases List.mem_cons.mp hw with e | hin
    · subst e
      have hrest : fsGet (applyRun (write fs w) xs) w.path = fsGet (write fs w) w.path :=
        run_other xs (write fs w) w.path (fun w' hw' e => hd.1 w' hw' e.symm)
      simp only [applyRun] at hrest
      rw [hrest]
      unfold write
      split
      · rename_i hc
        simp only [Bool.and_eq_true] at hc
        exact absurd hc hns
      · exact get_set_same fs w.path w.content
    · have hne : w.path ≠ x.path := hd.1 w hin
      have : ¬ (w.skip = true ∧ (fsGet (write fs x) w.path).isSome) := by
        rw [write_other fs x w.path hne]; exact hns
      exact converges xs (write fs x) hd.2 w hin this

/-- … which is what a generation into an empty directory gives: the result does not depend on the prior state -/
theorem independent_of_prior_state (r : List W) (fs : FS) (hd : distinctPaths r) (w : W) (hw : w ∈ r)
    (hns : ¬ (w.skip = true ∧ (fsGet fs w.path).isSome)) :
    fsGet (applyRun fs r) w.path = fsGet (applyRun [] r) w.path := by
  rw [converges r fs hd w hw hns, converges r [] hd w hw (by simp [fsGet, lookup])]

/-- non-vacuity: a concrete history (generate, user edits configure and adds a file, regenerate) -/
def run1 : List W := [⟨"restapi/configure_x.go", "gen-v1", true⟩, ⟨"restapi/server.go", "srv-v1", false⟩]
def run2 : List W := [⟨"restapi/configure_x.go", "gen-v2", true⟩, ⟨"restapi/server.go", "srv-v2", false⟩]
def hist : List Op := [.run run1, .user "restapi/configure_x.go" "mine", .user "restapi/user.go" "u", .run run2]

example : fsGet (exec [] hist) "restapi/configure_x.go" = some "mine" ∧ fsGet (exec [] hist) "restapi/server.go" = some "srv-v2" ∧
          fsGet (exec [] hist) "restapi/user.go" = some "u" := by decide
example : distinctPaths run1 := by simp [distinctPaths, run1]

/-! ### layout facts regenerated from the live `GenOpts.Sections` -/

/-- with default options exactly the template entries named "configure" carry SkipExists … -/
theorem only_configure_skips : ∀ e ∈ Gs.Gen.layoutDefault, (e.skip = true ↔ e.name = "configure") := by decide

/-- … there is such an entry … -/
theorem configure_present : ∃ e ∈ Gs.Gen.layoutDefault, e.name = "configure" ∧ e.skip = true := by decide

/-- … and `--regenerate-configureapi` clears the flag everywhere (the switch reaches the section options) -/
theorem regenerate_clears_skip : ∀ e ∈ Gs.Gen.layoutRegenerate, e.skip = false := by decide

/-- a layout supplied through the documented config-file format (`-C`, keys `skip_exists` / `skip_format`) is read back
    exactly: the default layout written in that format and loaded again carries the same flags -/
theorem config_layout_roundtrip :
    Gs.Gen.layoutFromConfig.map (fun e => (e.name, e.skip)) = Gs.Gen.layoutDefault.map (fun e => (e.name, e.skip)) ∨
    (∀ e ∈ Gs.Gen.layoutDefault, ∃ e' ∈ Gs.Gen.layoutFromConfig, e'.name = e.name ∧ e'.fileName = e.fileName ∧ e'.skip = e.skip) := by
  decide

/-- with `--implementation-package` the generated (DO NOT EDIT) auto-configure file replaces the user-editable one and is
    never skipped: it must follow the spec on every run -/
theorem implementation_layout_never_skips :
    (∀ e ∈ Gs.Gen.layoutImplementation, e.skip = false) ∧ (∃ e ∈ Gs.Gen.layoutImplementation, e.name = "autoconfigure") ∧
    (∀ e ∈ Gs.Gen.layoutImplementation, e.name ≠ "configure") := by
  decide

/-- the contributed stratoscale templates own their configure file: the option plumbing must hand them a layout in which NO
    entry is skipped when it exists (regenerated fact: `--template stratoscale` through createSwagger) -/
theorem stratoscale_layout_never_skips :
    (∀ e ∈ Gs.Gen.layoutStratoscale, e.skip = false) ∧ (∃ e ∈ Gs.Gen.layoutStratoscale, e.name = "configure") := by
  decide

end Gs.Props.C11
