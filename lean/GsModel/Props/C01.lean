import GsModel.Names.Mangle
import GsModel.Gen.Formats
import GsModel.Names.Timeout
/-
  C01 — Generated code always builds.   (proof, PARTIAL: see below)

  What is proved here, for ALL names, over tables regenerated from the live code on every run:
  * `mangleVar_not_keyword` — `MangleVarName` never returns a Go keyword (the reserved list IS Go's 25 keywords:
    `reserved_is_go_keywords`; `k ++ "Var"` is never reserved: `var_suffix_escapes`; and the live function does what the
    model says on every reserved word: `reservedVar_model`).
  * `file_never_excluded` — a generated file name is never subject to a GOOS / GOARCH / _test file-name build constraint,
    judged against go/build of the installed toolchain (`goBuildTokens`), not against the generator's own copy of the list:
    needs `tokens_covered` (every token go/build knows is in the generator's table) and `appended_is_neutral`.
  * `special_dirs_renamed` — `vendor` and `internal` never survive as package directory names.
  * format tables (`generator/formats.go`): every string format that maps to a strfmt type is known to the parameter
    templates as a custom formatter (`strfmt_formats_have_formatter`) and has a zero value (`strfmt_formats_have_zero`);
    numeric formats have a converter and a formatter, the two tables have the same keys and pair ConvertX with FormatX.
  * `timeout_field_fresh` — for EVERY set of parameter names, `renameTimeout` (whose Go recursion has no bound of its own)
    terminates within maxLen+8 steps and returns a name for the client's private timeout field that collides with none of
    them, case-insensitively (`rename_sound`, `bump_terminates`); tied by correspondence through a verif accessor.
  What is NOT proved: that the templates produce well-typed Go.  There is no model of the Go type checker; that part of the
  property is decided by compiling generated code (the build oracle of the check) and is exploration, not proof.
-/
namespace Gs.Props.C01
open Gs Gs.Gen Gs.Names

def goKeywords : List String :=
  ["break", "case", "chan", "const", "continue", "default", "defer", "else", "fallthrough", "for", "func", "go", "goto", "if",
   "import", "interface", "map", "package", "range", "return", "select", "struct", "switch", "type", "var"]

/-- the reserved-word list of the generator is exactly the keyword list of the Go specification -/
theorem reserved_is_go_keywords :
    (∀ k ∈ goKeywords, k ∈ reservedWords) ∧ (∀ k ∈ reservedWords, k ∈ goKeywords) := by decide

theorem var_suffix_escapes : ∀ k ∈ reservedWords, reservedWords.contains (k ++ "Var") = false := by decide

/-- the live MangleVarName agrees with the model on every reserved word -/
theorem reservedVar_model : ∀ kv ∈ reservedVar, mangleVar kv.1 = kv.2 := by decide

theorem mangleVar_not_keyword (nm : String) : mangleVar nm ∉ goKeywords := by
  intro h
  have hr : reservedWords.contains (mangleVar nm) = true := by
    simpa using reserved_is_go_keywords.1 _ h
  unfold mangleVar at hr
  by_cases c : reservedWords.contains nm = true
  · simp only [c, if_true] at hr
    have := var_suffix_escapes nm (by simpa using c)
    rw [this] at hr
    cases hr
  · simp only [c] at hr
    exact c hr

/-- every file-name token go/build acts on is in the generator's table -/
theorem tokens_covered : ∀ t ∈ goBuildTokens, suffixTable.contains t = true := by decide

/-- the appended word is not itself a token -/
theorem appended_is_neutral : goBuildTokens.contains appendedSuffix = false := by decide

theorem getLast?_append_singleton {α} (l : List α) (a : α) : (l ++ [a]).getLast? = some a := by
  simp

/-- no generated file is silently left out of the build, whatever the name -/
theorem file_never_excluded (segs : List String) : constrained (mangleFileSegs segs) = false := by
  unfold mangleFileSegs
  cases hl : segs.getLast? with
  | none => simp [constrained, hl]
  | some l =>
    by_cases c : suffixTable.contains l = true
    · simp only [c, if_true]
      unfold constrained
      rw [getLast?_append_singleton]
      simp only [appended_is_neutral, Bool.and_false]
    · have c' : suffixTable.contains l = false := by simpa using c
      simp only [c', Bool.false_eq_true, if_false]
      unfold constrained
      rw [hl]
      have : goBuildTokens.contains l = false := by
        cases h : goBuildTokens.contains l with
        | false => rfl
        | true => exact absurd (tokens_covered l (by simpa using h)) c
      simp only [this, Bool.and_false]

/-- non-vacuity: names that would be excluded are renamed, others are left alone -/
theorem file_examples :
    mangleFileSegs ["thing", "linux"] = ["thing", "linux", "swagger"] ∧ mangleFileSegs ["get", "thing", "test"] = ["get", "thing", "test", "swagger"] ∧
    mangleFileSegs ["thing"] = ["thing"] ∧ constrained ["thing", "linux"] = true ∧ constrained ["linux"] = false := by decide

theorem special_dirs_renamed :
    mangleDir "vendor" ≠ "vendor" ∧ mangleDir "internal" ≠ "internal" ∧ mangleDir "models" = "models" := by decide

/-! ### format tables -/

def isStrfmt (g : String) : Bool := g.toList.take 7 == "strfmt.".toList

theorem strfmt_formats_have_formatter :
    ∀ fg ∈ formatMapping_string, isStrfmt fg.2 = true → customFormatters.contains fg.2 = true := by decide

theorem strfmt_formats_have_zero :
    ∀ fg ∈ formatMapping_string, isStrfmt fg.2 = true → (zeroes.lookup fg.2).isSome = true := by decide

theorem numeric_formats_convert :
    ∀ fg ∈ formatMapping_number ++ formatMapping_integer,
      (stringConverters.lookup fg.2).isSome = true ∧ (stringFormatters.lookup fg.2).isSome = true ∧ (zeroes.lookup fg.2).isSome = true := by decide

theorem converters_formatters_paired :
    stringConverters.map (·.1) = stringFormatters.map (·.1) ∧
    (∀ kv ∈ stringConverters, stringFormatters.lookup kv.1 = some ("swag.Format" ++ String.ofList (kv.2.toList.drop 12))) := by decide

theorem base_types_have_zero :
    ∀ tg ∈ typeMapping, tg.1 ≠ "file" → (zeroes.lookup tg.2).isSome = true := by decide

end Gs.Props.C01

/-! ### the client's private timeout field (`renameTimeout`) -/

namespace Gs.Props.C01
open Gs.Names

theorem rename_sound (seen : List Nm) : ∀ (fuel : Nat) (name r : Nm),
    renameTimeout seen fuel name = some r → seen.contains (lowerN r) = false
  | 0, name, r, h => by
    simp only [renameTimeout] at h
    split at h
    · cases h
    · rename_i hc; cases h; simpa using hc
  | fuel+1, name, r, h => by
    simp only [renameTimeout] at h
    split at h
    · split at h
      · exact rename_sound seen fuel _ r h
      · exact rename_sound seen fuel _ r h
    · rename_i hc; cases h; simpa using hc

theorem length_lowerN (s : Nm) : (lowerN s).length = s.length := by simp [lowerN]

theorem mem_le_maxLen : ∀ (seen : List Nm) (x : Nm), x ∈ seen → x.length ≤ maxLen seen
  | [], _, h => by simp at h
  | y :: r, x, h => by
    simp only [List.mem_cons] at h
    simp only [maxLen]
    rcases h with rfl | h
    · exact Nat.le_max_left _ _
    · exact Nat.le_trans (mem_le_maxLen r x h) (Nat.le_max_right _ _)

theorem long_not_seen (seen : List Nm) (name : Nm) (h : name.length > maxLen seen) : seen.contains (lowerN name) = false := by
  cases hc : seen.contains (lowerN name) with
  | false => rfl
  | true =>
    have hm : lowerN name ∈ seen := by simpa using hc
    have := mem_le_maxLen seen _ hm
    rw [length_lowerN] at this
    omega

/-- a name that ends in '1' is not a key of the fixed chain -/
theorem bumped_past_chain (name : Nm) : nextFixed (lowerN (name ++ ['1'])) = none := by
  have hl : (lowerN (name ++ ['1'])).getLast? = some '1' := by simp [lowerN]
  unfold nextFixed
  repeat' split
  all_goals first
    | rfl
    | (rename_i h; rw [h] at hl; revert hl; decide)

/-- past the fixed chain the name only grows, so the search stops as soon as it is longer than every parameter name -/
theorem bump_terminates (seen : List Nm) : ∀ (fuel : Nat) (name : Nm), nextFixed (lowerN name) = none →
    name.length + fuel > maxLen seen → ∃ r, renameTimeout seen fuel name = some r
  | 0, name, _, h => by
    have := long_not_seen seen name (by omega)
    exact ⟨name, by simp only [renameTimeout, this]; rfl⟩
  | fuel+1, name, hp, h => by
    simp only [renameTimeout, hp]
    split
    · exact bump_terminates seen fuel (name ++ ['1']) (bumped_past_chain name) (by simp; omega)
    · exact ⟨name, rfl⟩

theorem stage (seen : List Nm) (fuel : Nat) (name nx : Nm) (hn : nextFixed (lowerN name) = some nx)
    (hnext : ∃ r, renameTimeout seen fuel nx = some r) : ∃ r, renameTimeout seen (fuel+1) name = some r := by
  simp only [renameTimeout, hn]
  split
  · exact hnext
  · exact ⟨name, rfl⟩

/-- for EVERY set of parameter names the search for the timeout field's name terminates (the Go recursion has no bound of
    its own) and returns a name that collides with none of them, case-insensitively -/
theorem timeout_field_fresh (seen : List Nm) :
    ∃ r, renameTimeout seen (maxLen seen + 8) "timeout".toList = some r ∧ seen.contains (lowerN r) = false := by
  have h6 : ∃ r, renameTimeout seen (maxLen seen + 2) "operTimeout".toList = some r :=
    bump_terminates seen _ _ (by decide) (by simp; omega)
  have h5 := stage seen (maxLen seen + 2) "opTimeout".toList "operTimeout".toList (by decide) h6
  have h4 := stage seen (maxLen seen + 3) "operationTimeout".toList "opTimeout".toList (by decide) h5
  have h3 := stage seen (maxLen seen + 4) "swaggerTimeout".toList "operationTimeout".toList (by decide) h4
  have h2 := stage seen (maxLen seen + 5) "httpRequestTimeout".toList "swaggerTimeout".toList (by decide) h3
  have h1 := stage seen (maxLen seen + 6) "requestTimeout".toList "httpRequestTimeout".toList (by decide) h2
  have h0 := stage seen (maxLen seen + 7) "timeout".toList "requestTimeout".toList (by decide) h1
  obtain ⟨r, hr⟩ := h0
  exact ⟨r, hr, rename_sound seen _ _ r hr⟩

/-- non-vacuity: parameters named timeout, requestTimeout and HTTPRequestTimeout push the field to swaggerTimeout -/
example : renameTimeout ["timeout".toList, "requesttimeout".toList, "httprequesttimeout".toList] 20 "timeout".toList = some "swaggerTimeout".toList := by decide

end Gs.Props.C01
