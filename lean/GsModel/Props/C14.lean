import GsModel.Diff.Mirror
import GsModel.Diff.Lift5
/-
  C14 — diff reports the direction of every change correctly: swapping the arguments mirrors the report.

  Proved per comparator (the places where a direction label is chosen), about the model tied to the code by the
  both-orders correspondence of `vx check C14`:
  `mirror_norm_involutive`, `diffsTo_mirror`, `diffsTo_nil_mirror`, `compareIntValues_mirror` (all bounds / lengths / item
  counts), `checkToFromRequired_mirror`, `typeHierarchy_mirror`, `compareEnums_mirror`, `compareDescripton_mirror_one_empty`,
  `checkNumeric_mirror`, `checkString_mirror` (under `EnumSym`), `ifaceCode_mirror` (defaults / examples).
  Counterexample theorems (the statement is FALSE of the code there; each is a known finding replayed on the real
  analyser): `desc_changed_is_deleted_both_ways`, `enum_introduced_is_silent`.
  At the level of the whole report (every fuel, every iteration order, whatever else the documents contain):
  `endpoint_direction_report` — an endpoint only the second document has is reported AddedEndpoint, and DeletedEndpoint with
  the documents exchanged; `param_direction_report` — the same for a parameter of a shared endpoint
  (Added / Deleted, Required / Optional); `response_direction_report` — and for a response code (AddedResponse / DeletedResponse).  The general whole-report mirror law is decided on the real analyser by the
  both-orders sweep, not by a theorem: labelled partial.
-/
namespace Gs.Props.C14
open Gs Gs.Gen Gs.Diff

theorem mirror_norm_involutive : ∀ c : Code, normC (mirror (normC (mirror c))) = normC c := by
  intro c; cases c <;> rfl

theorem mirror_direction_classes :
    mirror .WidenedType = .NarrowedType ∧ mirror .NarrowedType = .WidenedType ∧
    mirror .AddedConstraint = .DeletedConstraint ∧ mirror .DeletedConstraint = .AddedConstraint ∧
    mirror .ChangedType = .ChangedType ∧ mirror .ChangedToCompatibleType = .ChangedToCompatibleType ∧
    mirror .RefTargetChanged = .RefTargetChanged ∧ mirror .ChangedCollectionFormat = .ChangedCollectionFormat := by
  decide

/-- added / deleted set computation: swapping the lists swaps the two results -/
theorem diffsTo_mirror (a b : List String) :
    (diffsTo (some a) b).1 = (diffsTo (some b) a).2 ∧ (diffsTo (some a) b).2 = (diffsTo (some b) a).1 := by
  simp [diffsTo]

theorem insertStr_perm (x : String) : ∀ l, (insertStr x l).Perm (x :: l)
  | [] => List.Perm.refl _
  | y :: ys => by
    unfold insertStr
    split
    · exact List.Perm.refl _
    · exact ((insertStr_perm x ys).cons y).trans (List.Perm.swap x y ys)

theorem sortStrs_perm : ∀ l, (sortStrs l).Perm l
  | [] => List.Perm.refl _
  | x :: xs => (insertStr_perm x (sortStrs xs)).trans ((sortStrs_perm xs).cons x)

theorem dedup_nodup : ∀ l : List String, l.Nodup → dedup l = l
  | [], _ => rfl
  | x :: xs, h => by
    have hx : x ∉ xs := (List.nodup_cons.mp h).1
    have hxs := (List.nodup_cons.mp h).2
    simp only [dedup, dedup_nodup xs hxs, List.cons.injEq, true_and]
    rw [List.filter_eq_self]
    intro y hy
    simp only [ne_eq, decide_eq_true_eq]
    exact fun e => hx (e ▸ hy)

/-- the nil-slice special case (`from == nil` returns `to` as is): for duplicate-free lists (Swagger requires
    `uniqueItems` for consumes / produces / schemes / tags) the values reported as added from an absent list are the
    values reported as deleted when the list disappears -/
theorem diffsTo_nil_mirror (b : List String) (hb : b.Nodup) :
    (diffsTo none b).1.Perm (diffsTo (some b) []).2 ∧ (diffsTo none b).2 = [] ∧ (diffsTo (some b) []).1 = [] := by
  refine ⟨?_, rfl, ?_⟩
  · simp only [diffsTo]
    have : b.filter (fun x => !([] : List String).contains x) = b := by
      rw [List.filter_eq_self]; intro x _; simp
    rw [this, dedup_nodup b hb]
    exact (sortStrs_perm b).symm
  · simp [diffsTo, dedup, sortStrs]

/-- numeric bounds, lengths and item counts: greater/less and added/deleted labels are mirrored -/
theorem compareIntValues_mirror (v1 v2 : Option Int) (g l : Code) (h1 : mirror g = l) (h2 : mirror l = g) :
    (compareIntValues v2 v1 g l).map (fun d => mirror d.change) = (compareIntValues v1 v2 g l).map (·.change) := by
  cases v1 with
  | none => cases v2 <;> simp [compareIntValues, mirror]
  | some a =>
    cases v2 with
    | none => simp [compareIntValues, mirror]
    | some b =>
      simp only [compareIntValues]
      by_cases hab : a < b
      · have : ¬ b < a := by omega
        simp [hab, this, h2, gt_iff_lt]
      · by_cases hba : b < a
        · simp [hab, hba, h1, gt_iff_lt]
        · simp [hab, hba, gt_iff_lt]

/-- non-vacuity: the four instantiations the analyser uses -/
example : mirror Code.WidenedType = Code.NarrowedType ∧ mirror Code.NarrowedType = Code.WidenedType := by decide

theorem checkToFromRequired_mirror (r1 r2 : Bool) :
    (checkToFromRequired r2 r1).map (fun d => mirror d.change) = (checkToFromRequired r1 r2).map (·.change) := by
  cases r1 <;> cases r2 <;> decide

theorem typeHierarchy_mirror (t1 t2 : String) :
    (getTypeHierarchyChange t2 t1).change = mirror (getTypeHierarchyChange t1 t2).change := by
  unfold getTypeHierarchyChange
  by_cases s1 : isStringType t1 = true <;> by_cases s2 : isStringType t2 = true <;> simp [s1, s2, mirror]
  · cases h1 : wideness t1 <;> cases h2 : wideness t2 <;> simp [mirror]
    rename_i w1 w2
    by_cases e : w1 = w2
    · simp [e, mirror]
    · have e' : ¬ w2 = w1 := fun h => e h.symm
      by_cases lt : w1 > w2
      · have : ¬ w2 > w1 := by omega
        simp [e, e', lt, this, mirror]
      · have : w2 > w1 := by omega
        simp [e, e', lt, this, mirror]
  · cases h1 : wideness t1 <;> cases h2 : wideness t2 <;> simp [mirror]
    rename_i w1 w2
    by_cases e : w1 = w2
    · simp [e, mirror]
    · have e' : ¬ w2 = w1 := fun h => e h.symm
      by_cases lt : w1 > w2
      · have : ¬ w2 > w1 := by omega
        simp [e, e', lt, this, mirror]
      · have : w2 > w1 := by omega
        simp [e, e', lt, this, mirror]

/-- enum values: swapping the lists swaps the two entries -/
theorem compareEnums_mirror (l r : List JVal) :
    ((compareEnums r l).map (fun d => mirror d.change)).Perm ((compareEnums l r).map (·.change)) := by
  have h := diffsTo_mirror (l.map (·.shown)) (r.map (·.shown))
  simp only [compareEnums, ← h.1, ← h.2]
  by_cases a : (diffsTo (some (l.map (·.shown))) (r.map (·.shown))).1.isEmpty = true <;>
  by_cases b : (diffsTo (some (l.map (·.shown))) (r.map (·.shown))).2.isEmpty = true <;>
  simp [a, b, mirror, List.Perm.swap]

/-! ### the constraint groups of CompareProps (codes only; `Perm` because the enum entries swap places) -/

def changes (l : List TDiff) : List Code := l.map (·.change)
def mchanges (l : List TDiff) : List Code := l.map (fun d => mirror d.change)

theorem cmpInt_m (v1 v2 : Option Int) (g l : Code) (h1 : mirror g = l) (h2 : mirror l = g) :
    mchanges (compareIntValues v2 v1 g l) = changes (compareIntValues v1 v2 g l) :=
  compareIntValues_mirror v1 v2 g l h1 h2

theorem checkNumeric_mirror (t1 t2 : Schema) :
    (mchanges (checkNumericTypeChanges [] t2 t1)).Perm (changes (checkNumericTypeChanges [] t1 t2)) := by
  unfold checkNumericTypeChanges
  by_cases n1 : isNumeric t1.type = true <;> by_cases n2 : isNumeric t2.type = true <;>
    simp only [n1, n2, Bool.and_self, Bool.and_true, Bool.and_false, Bool.false_eq_true, if_true, if_false, mchanges, changes, List.map_nil, List.Perm.refl]
  have hmax := compareIntValues_mirror t1.v.maximum t2.v.maximum Code.WidenedType Code.NarrowedType rfl rfl
  have hmin := compareIntValues_mirror t1.v.minimum t2.v.minimum Code.NarrowedType Code.WidenedType rfl rfl
  cases hx1 : t1.v.exclMax <;> cases hx2 : t2.v.exclMax <;> cases hn1 : t1.v.exclMin <;> cases hn2 : t2.v.exclMin <;>
    simp only [Bool.and_self, Bool.and_true, Bool.and_false, Bool.not_true, Bool.not_false, Bool.false_eq_true, if_true, if_false,
      Bool.or_self, Bool.or_true, Bool.or_false, Bool.true_or, addTD, compareFloatValues, List.nil_append, List.map_append, hmax, hmin,
      List.Perm.refl, List.map_cons, List.map_nil, List.append_nil] <;>
    first
      | exact List.Perm.refl _
      | decide

/-- string group, outside the excluded point `EnumSym` (an enum present on exactly one side: see `enum_introduced_is_silent`) -/
theorem checkString_mirror (t1 t2 : Schema) (hs : t1.v.enum.length > 0 ↔ t2.v.enum.length > 0) :
    (mchanges (checkStringTypeChanges [] t2 t1)).Perm (changes (checkStringTypeChanges [] t1 t2)) := by
  unfold checkStringTypeChanges
  by_cases s1 : t1.type.head? = some "string" <;> by_cases s2 : t2.type.head? = some "string" <;>
    simp only [s1, s2, Bool.and_self, Bool.and_true, Bool.and_false, Bool.false_eq_true, if_true, if_false, mchanges, changes,
      List.map_nil, List.Perm.refl, beq_self_eq_true, beq_iff_eq, decide_true, decide_false]
  have hmin := compareIntValues_mirror t1.v.minLength t2.v.minLength Code.NarrowedType Code.WidenedType rfl rfl
  have hmax := compareIntValues_mirror t1.v.maxLength t2.v.maxLength Code.WidenedType Code.NarrowedType rfl rfl
  have hen := compareEnums_mirror t1.v.enum t2.v.enum
  have hpat : (t2.v.pattern ≠ t1.v.pattern) ↔ (t1.v.pattern ≠ t2.v.pattern) := ⟨fun h e => h e.symm, fun h e => h e.symm⟩
  have hct : ¬ (Code.ChangedType = Code.NoChangeDetected) := by decide
  have hmct : mirror Code.ChangedType = Code.ChangedType := rfl
  by_cases e1 : t1.v.enum.length > 0
  · have e2 := hs.mp e1
    by_cases hp : t1.v.pattern ≠ t2.v.pattern
    · have hp' := hpat.mpr hp
      simp only [e1, e2, hp, hp', if_true, if_false, hct, addTD, List.nil_append, List.map_append, ne_eq, not_false_eq_true,
        hmin, hmax, List.map_cons, List.map_nil, hmct]
      exact List.Perm.append_left _ hen
    · have hp' : ¬ (t2.v.pattern ≠ t1.v.pattern) := fun h => hp (hpat.mp h)
      simp only [e1, e2, hp, hp', if_true, if_false, addTD, List.nil_append, List.map_append, hmin, hmax]
      exact List.Perm.append_left _ hen
  · have e2 : ¬ t2.v.enum.length > 0 := fun h => e1 (hs.mpr h)
    by_cases hp : t1.v.pattern ≠ t2.v.pattern
    · have hp' := hpat.mpr hp
      simp only [e1, e2, hp, hp', if_true, if_false, hct, addTD, List.nil_append, List.map_append, ne_eq, not_false_eq_true,
        hmin, hmax, List.map_cons, List.map_nil, hmct]
      exact List.Perm.refl _
    · have hp' : ¬ (t2.v.pattern ≠ t1.v.pattern) := fun h => hp (hpat.mp h)
      simp only [e1, e2, hp, hp', if_true, if_false, addTD, List.nil_append, List.map_append, hmin, hmax]
      exact List.Perm.refl _

/-- descriptions: correct when one side is empty … -/
def entryAt (loc : Loc) (c : Code) : Diff :=
  { loc := loc, code := c, compat := getCompatibilityForChange c (loc.response > 0) }

theorem compareDescripton_mirror_one_empty (st : St) (loc : Loc) (d : String) (hd : d ≠ "") :
    (st.compareDescripton loc "" d).diffs = st.diffs ++ [entryAt loc .AddedDescripton] ∧
    (st.compareDescripton loc d "").diffs = st.diffs ++ [entryAt loc .DeletedDescripton] := by
  have hlen : d.length > 0 := by
    cases hl : d.length with
    | zero => exact absurd (String.length_eq_zero_iff.mp hl) hd
    | succ n => omega
  have hne : ¬ ("" = d) := fun e => hd e.symm
  constructor
  · simp [St.compareDescripton, St.addDiff, hne, hlen, entryAt]
  · simp [St.compareDescripton, St.addDiff, hd, hlen, entryAt]

/-- … and FALSE of the code when a non-empty description changes: both directions say "Deleted"
    (known finding #4: the pinned golden fixtures/diff/uber.diff.txt expects that label, so it cannot be repaired) -/
theorem desc_changed_is_deleted_both_ways :
    ∃ (d1 d2 : String), d1 ≠ d2 ∧
      (({} : St).compareDescripton {} d1 d2).diffs.map (·.code) = [Code.DeletedDescripton] ∧
      (({} : St).compareDescripton {} d2 d1).diffs.map (·.code) = [Code.DeletedDescripton] ∧
      mirror Code.DeletedDescripton ≠ Code.DeletedDescripton :=
  ⟨"x", "y", by decide, by decide, by decide, by decide⟩

def strSchema (e : List JVal) : Schema := { type := ["string"], v := { enum := e } }
def jv (s : String) : JVal := { kind := 3, canon := "\"" ++ s ++ "\"", shown := s }

/-- FALSE of the code: an enum that disappears is reported (DeletedEnumValue), an enum that is introduced is not
    (known finding #3: `len(type1.Enum) > 0` guards the comparison) -/
theorem enum_introduced_is_silent :
    compareProps 5 (strSchema [jv "a"]) (strSchema []) = .ok [{ change := Code.DeletedEnumValue, desc := "a" }] ∧
    compareProps 5 (strSchema []) (strSchema [jv "a"]) = .ok [] := by
  constructor <;> rfl

/-! ### direction at the level of the whole report -/

theorem endpoint_direction_report (fl : Flags) (n : Nat) (a b : Spec) (um : UM) (hb : um ∈ getURLMethodsFor b)
    (hnew : findUM (getURLMethodsFor a) um.url um.method = none)
    (hlive : um.item.optionsDeprecated = false ∧ um.op.deprecated = false) :
    Outcome.Holds (fun ds => ∃ d ∈ ds, d.code = Code.AddedEndpoint) (analyse fl n a b) ∧
    Outcome.Holds (fun ds => ∃ d ∈ ds, d.code = Code.DeletedEndpoint) (analyse fl n b a) :=
  endpoint_direction fl n a b um hb hnew hlive

theorem param_direction_report (fl : Flags) (n : Nat) (a b : Spec) (pl : String) (hpl : pl ∈ paramLocations)
    (uma umb : UM) (ha : uma ∈ getURLMethodsFor a) (hb : umb ∈ getURLMethodsFor b)
    (hfa : findUM (getURLMethodsFor a) umb.url umb.method = some uma) (hfb : findUM (getURLMethodsFor b) uma.url uma.method = some umb)
    (name : String) (p : Param)
    (hnot : lookup (getParams uma.item.params uma.op.params pl) name = none)
    (hin : (name, p) ∈ getParams umb.item.params umb.op.params pl) :
    Outcome.Holds (fun ds => ∃ d ∈ ds, d.code = addedCode p) (analyse fl n a b) ∧
    Outcome.Holds (fun ds => ∃ d ∈ ds, d.code = deletedCode p) (analyse fl n b a) :=
  param_direction fl n a b pl hpl uma umb ha hb hfa hfb name p hnot hin

theorem response_direction_report (fl : Flags) (n : Nat) (a b : Spec) (uma umb : UM) (ha : uma ∈ getURLMethodsFor a) (hb : umb ∈ getURLMethodsFor b)
    (hfa : findUM (getURLMethodsFor a) umb.url umb.method = some uma) (hfb : findUM (getURLMethodsFor b) uma.url uma.method = some umb)
    (resp : Response) (hin : resp ∈ umb.op.responses) (hnot : findResp uma.op.responses resp.code = none) :
    Outcome.Holds (fun ds => ∃ d ∈ ds, d.code = Code.AddedResponse) (analyse fl n a b) ∧
    Outcome.Holds (fun ds => ∃ d ∈ ds, d.code = Code.DeletedResponse) (analyse fl n b a) :=
  response_direction fl n a b uma umb ha hb hfa hfb resp hin hnot

/-- non-vacuity: an endpoint and a parameter that only one document has -/
def opPlain : Operation := { method := "get", responses := [{ code := 200, desc := "ok" }] }
def prm : Param := { name := "q", loc := "query", chain := [{ type := "string" }] }
def opPrm : Operation := { method := "get", params := [prm], responses := [{ code := 200, desc := "ok" }] }
def specEmpty : Spec := { paths := [] }
def specPlain : Spec := { paths := [{ url := "/a", ops := [opPlain] }] }
def specPrm : Spec := { paths := [{ url := "/a", ops := [opPrm] }] }
def umPlain : UM := { url := "/a", method := "get", item := { url := "/a", ops := [opPlain] }, op := opPlain }
def umPrm : UM := { url := "/a", method := "get", item := { url := "/a", ops := [opPrm] }, op := opPrm }

example := endpoint_direction_report {} 5 specEmpty specPlain umPlain (show umPlain ∈ [umPlain] from List.mem_cons_self) rfl ⟨rfl, rfl⟩
example := param_direction_report {} 5 specPlain specPrm "query" (by decide) umPlain umPrm
  (show umPlain ∈ [umPlain] from List.mem_cons_self) (show umPrm ∈ [umPrm] from List.mem_cons_self) rfl rfl "q" prm rfl
  (show ("q", prm) ∈ [("q", prm)] from List.mem_cons_self)
example : (analyse {} 5 specPlain specPrm).isOk = true ∧ (analyse {} 5 specPrm specPlain).isOk = true := by decide

end Gs.Props.C14
