import GsModel.Pair.Encode
import GsModel.Props.C03
import GsModel.Params.Decimal
/-
  C04 — Generated client and server interoperate losslessly.   (proof on the simple-parameter fragment, PARTIAL)

  `encodeGen` is what the generated client writes for a parameter value, `bindGenAny` (C03) what the generated server binds.
  * `roundtrip_scalar`, `roundtrip_array`, `roundtrip_multi` — for EVERY parameter spec of the fragment and EVERY value that
    satisfies the spec and is representable in the declared collectionFormat, the server binds exactly the value the client
    was given.  Representable = each item, as sent, is not empty, carries no surrounding blanks and does not contain the
    separator (`cleanFor`); the hypothesis is necessary: `unrepresentable_differs`.
  * the text of a value converts back to the value (`hconv` of the round-trip theorems): `string_codec`, `bool_codec`, and
    `int_codec` — for EVERY integer in the range of the declared width, parsing the decimal text gives the integer back
    (Params/Decimal.lean: digits of Nat.toDigits fold back to the number); `int_text_scalar_ok` is the scalar round trip
    with no codec hypothesis left.
  * `dispatch_*` — the decision logic of the client's response switch, stated outright.
  Tie: generated client and generated server of one spec run in one process (httptest); the parameter struct given to the
  client is compared with the one the handler receives, the responder returned by the handler with the result / error the
  client returns, and both with `encodeGen` / `bindGenAny` / `readResp` evaluated on the same inputs.
  Not modelled: bodies (encoding/json on both sides: exercised), number and strfmt formats (exercised), net/http and the
  runtime's URL escaping (exercised).
-/
namespace Gs.Props.C04
open Gs Gs.Params Gs.Pair

theorem contains_cons_false {c sep : Char} {r : Str} (h : (c :: r).contains sep = false) : ¬ c = sep ∧ r.contains sep = false := by
  simp only [List.contains_cons, Bool.or_eq_false_iff, beq_eq_false_iff_ne, ne_eq] at h
  exact ⟨fun e => h.1 e.symm, h.2⟩

theorem splitOn_no_sep (sep : Char) : ∀ s : Str, s.contains sep = false → splitOn sep s = [s]
  | [], _ => by simp [splitOn]
  | c :: r, h => by
    have ⟨hc, hr⟩ := contains_cons_false h
    simp only [splitOn, splitOn_no_sep sep r hr, hc, if_false]

theorem splitOn_append (sep : Char) (rest : Str) : ∀ s : Str, s.contains sep = false →
    splitOn sep (s ++ sep :: rest) = s :: splitOn sep rest
  | [], _ => by
    simp only [List.nil_append, splitOn]
    cases h : splitOn sep rest with
    | nil => exact absurd h (Gs.Props.C03.splitOn_ne_nil sep rest)
    | cons hd tl => simp
  | c :: r, h => by
    have ⟨hc, hr⟩ := contains_cons_false h
    simp only [List.cons_append, splitOn, splitOn_append sep rest r hr, hc, if_false]

theorem splitOn_joinSep (sep : Char) : ∀ (xs : List Str), xs ≠ [] → (∀ x ∈ xs, x.contains sep = false) →
    splitOn sep (joinSep sep xs) = xs
  | [], h, _ => absurd rfl h
  | [x], _, hc => by simp only [joinSep, splitOn_no_sep sep x (hc x (by simp))]
  | x :: y :: r, _, hc => by
    have ih := splitOn_joinSep sep (y :: r) (by simp) (fun z hz => hc z (List.mem_cons_of_mem _ hz))
    simp only [joinSep, splitOn_append sep _ x (hc x (by simp)), ih]

theorem joinSep_ne_nil (sep : Char) : ∀ xs : List Str, xs ≠ [] → (∀ x ∈ xs, x ≠ []) → joinSep sep xs ≠ []
  | [], h, _ => absurd rfl h
  | [x], _, hc => by simpa [joinSep] using hc x (by simp)
  | x :: y :: r, _, hc => by
    have hx := hc x (by simp)
    simp only [joinSep]
    cases x with
    | nil => exact absurd rfl hx
    | cons c t => simp

theorem cleanFor_spec {sep : Char} {s : Str} (h : cleanFor sep s = true) : s ≠ [] ∧ trimSpace s = s ∧ s.contains sep = false := by
  simp only [cleanFor, Bool.and_eq_true, decide_eq_true_eq, Bool.not_eq_true'] at h
  exact ⟨h.1.1, h.1.2, h.2⟩

/-- SplitByFormat inverts JoinByFormat on representable items -/
theorem split_join (cf : String) (xs : List Str) (hne : xs ≠ []) (hc : ∀ x ∈ xs, cleanFor (sepOf cf) x = true) :
    splitByFormat cf (joinSep (sepOf cf) xs) = xs := by
  have h1 : joinSep (sepOf cf) xs ≠ [] := joinSep_ne_nil _ xs hne (fun x hx => (cleanFor_spec (hc x hx)).1)
  have h2 : splitOn (sepOf cf) (joinSep (sepOf cf) xs) = xs :=
    splitOn_joinSep _ xs hne (fun x hx => (cleanFor_spec (hc x hx)).2.2)
  unfold splitByFormat
  simp only [h1, if_false, h2]
  have h3 : xs.map trimSpace = xs := by
    have : ∀ x ∈ xs, trimSpace x = x := fun x hx => (cleanFor_spec (hc x hx)).2.1
    exact (List.map_congr_left this).trans (List.map_id xs)
  rw [h3]
  apply List.filter_eq_self.mpr
  intro x hx
  simpa using (cleanFor_spec (hc x hx)).1

theorem mapM_convert (ty : PType) : ∀ vs : List Val, (∀ v ∈ vs, convert ty (fmtVal v) = some v) →
    (vs.map fmtVal).mapM (convert ty) = some vs
  | [], _ => rfl
  | v :: r, h => by
    simp only [List.map_cons, List.mapM_cons, h v (by simp), mapM_convert ty r (fun w hw => h w (List.mem_cons_of_mem _ hw))]
    rfl

theorem arrayCore_ok (p : PSpec) (vs : List Val) (hconv : ∀ v ∈ vs, convert p.ty (fmtVal v) = some v)
    (hv : vs.all (validOne p.v) = true) (hm : validMany p vs = true) : arrayCore p (vs.map fmtVal) = .many vs := by
  unfold arrayCore
  rw [Gs.Props.C03.bindItems_eq, mapM_convert p.ty vs hconv]
  simp [hv, hm]

/-- scalars: the server hands the handler the value the client was given -/
theorem roundtrip_scalar (p : PSpec) (hp : p.isArray = false) (v : Val)
    (hne : fmtVal v ≠ []) (hconv : convert p.ty (fmtVal v) = some v) (hvalid : validOne p.v v = true) :
    bindGenAny p (encodeGen p (.one v)) = .one v := by
  simp [bindGenAny, bindGen, encodeGen, hp, lastOf, hne, scalarCore, hconv, hvalid]

/-- arrays in csv / ssv / tsv / pipes -/
theorem roundtrip_array (p : PSpec) (hp : p.isArray = true) (hcf : p.cf ≠ "multi") (vs : List Val) (hne : vs ≠ [])
    (hclean : ∀ v ∈ vs, cleanFor (sepOf p.cf) (fmtVal v) = true) (hconv : ∀ v ∈ vs, convert p.ty (fmtVal v) = some v)
    (hv : vs.all (validOne p.v) = true) (hm : validMany p vs = true) :
    bindGenAny p (encodeGen p (.many vs)) = .many vs := by
  have hmne : vs.map fmtVal ≠ [] := by simpa using hne
  have hsj := split_join p.cf (vs.map fmtVal) hmne (by
    intro x hx
    obtain ⟨v, hvm, rfl⟩ := List.mem_map.mp hx
    exact hclean v hvm)
  have hie : (vs.map fmtVal).isEmpty = false := by simpa using hne
  simp only [bindGenAny, hp, hcf, decide_false, Bool.and_false, Bool.false_eq_true, if_false, encodeGen, hne, joinByFormat, hmne,
    Option.map_some, bindGen, Option.isSome_some, Bool.not_true, if_true, lastOf, List.getLast?_singleton, Option.getD_some, hsj, hie,
    arrayCore_ok p vs hconv hv hm]

/-- collectionFormat multi: no hypothesis on the content of the items at all -/
theorem roundtrip_multi (p : PSpec) (hp : p.isArray = true) (hcf : p.cf = "multi") (vs : List Val) (hne : vs ≠ [])
    (hconv : ∀ v ∈ vs, convert p.ty (fmtVal v) = some v) (hv : vs.all (validOne p.v) = true) (hm : validMany p vs = true) :
    bindGenAny p (encodeGen p (.many vs)) = .many vs := by
  have hie : (vs.map fmtVal).isEmpty = false := by simpa using hne
  simp only [bindGenAny, hp, hcf, decide_true, Bool.and_self, if_true, encodeGen, hne, if_false, bindGenMulti, Option.isSome_some,
    Bool.not_true, Bool.and_false, Bool.false_eq_true, Option.getD_some, hie, arrayCore_ok p vs hconv hv hm]

/-- an omitted optional parameter stays absent; a required one cannot be omitted -/
theorem roundtrip_absent (p : PSpec) : bindGenAny p (encodeGen p .absent) = (if p.required then .reject else .absent) := by
  cases hr : p.required <;> cases ha : p.isArray <;> by_cases hc : p.cf = "multi" <;>
    simp [bindGenAny, bindGen, bindGenMulti, encodeGen, hr, ha, hc, lastOf, splitByFormat, emptyCase]

/-- the value codecs: text of a value converts back to the value -/
theorem string_codec (x : String) : convert .str (fmtVal (.s x)) = some (.s x) := by
  simp [convert, fmtVal, String.ofList_toList]

theorem bool_codec (b : Bool) : convert .bool (fmtVal (.b b)) = some (.b b) := by
  cases b <;> decide

/-- integers: strconv-style decimal text converts back to the integer, for EVERY integer in the range of the declared width -/
theorem int_codec (bits : Nat) (n : Int) (hlo : -(2 : Int) ^ (bits - 1) ≤ n) (hhi : n < (2 : Int) ^ (bits - 1)) :
    convert (.int bits) (fmtVal (.i n)) = some (.i n) := by
  have h := parseInt_toString bits n hlo hhi
  simp only [convert, fmtVal, h, Option.map_some]

/-- the text of an integer is never empty, blank-padded or split by a separator -/
theorem int_text_scalar_ok (bits : Nat) (n : Int) (hlo : -(2 : Int) ^ (bits - 1) ≤ n) (hhi : n < (2 : Int) ^ (bits - 1))
    (p : PSpec) (hp : p.isArray = false) (ht : p.ty = .int bits) (hvalid : validOne p.v (.i n) = true) :
    bindGenAny p (encodeGen p (.one (.i n))) = .one (.i n) := by
  apply roundtrip_scalar p hp (.i n)
  · intro h
    have := int_codec bits n hlo hhi
    rw [h] at this
    simp [convert, parseInt, digitsVal] at this
  · rw [ht]; exact int_codec bits n hlo hhi
  · exact hvalid

theorem int_codec_examples :
    convert (.int 64) (fmtVal (.i 0)) = some (.i 0) ∧ convert (.int 64) (fmtVal (.i (-1))) = some (.i (-1)) ∧
    convert (.int 64) (fmtVal (.i 9223372036854775807)) = some (.i 9223372036854775807) ∧
    convert (.int 64) (fmtVal (.i (-9223372036854775808))) = some (.i (-9223372036854775808)) ∧
    convert (.int 32) (fmtVal (.i 2147483647)) = some (.i 2147483647) ∧ convert (.int 32) (fmtVal (.i 2147483648)) = none := by decide

/-- the representability hypothesis is necessary (this is the documented limit of collection formats, not a defect) -/
theorem unrepresentable_differs :
    bindGenAny { isArray := true, cf := "csv" } (encodeGen { isArray := true, cf := "csv" } (.many [.s "a,b", .s " c "])) =
      .many [.s "a", .s "b", .s "c"] := by decide

/-! ### response dispatch -/

theorem dispatch_declared_success (d : List Nat) (df : Bool) (c : Nat) (h : c ∈ d) (h2 : c / 100 = 2) : readResp d df c = .success c := by
  simp [readResp, h, h2]
theorem dispatch_declared_error (d : List Nat) (df : Bool) (c : Nat) (h : c ∈ d) (h2 : c / 100 ≠ 2) : readResp d df c = .typedError c := by
  simp [readResp, h, h2]
theorem dispatch_default_error (d : List Nat) (c : Nat) (h : c ∉ d) (h2 : c / 100 ≠ 2) : readResp d true c = .defaultError c := by
  simp [readResp, h, h2]
theorem dispatch_default_success (d : List Nat) (c : Nat) (h : c ∉ d) (h2 : c / 100 = 2) : readResp d true c = .defaultSuccess c := by
  simp [readResp, h, h2]
theorem dispatch_undeclared (d : List Nat) (c : Nat) (h : c ∉ d) : readResp d false c = .apiError c := by
  simp [readResp, h]
/-- a declared code is never reported through the default or the generic arm, and a success is never reported as an error -/
theorem dispatch_total (d : List Nat) (df : Bool) (c : Nat) :
    (c ∈ d → (readResp d df c = .success c ∨ readResp d df c = .typedError c)) ∧
    (∀ k, readResp d df c = .success k → k / 100 = 2) ∧ (∀ k, readResp d df c = .typedError k → k / 100 ≠ 2) := by
  refine ⟨?_, ?_, ?_⟩
  · intro h; by_cases h2 : c / 100 = 2 <;> simp [readResp, h, h2]
  · intro k; unfold readResp; split <;> (try split) <;> (try split) <;> intro e <;> cases e <;> assumption
  · intro k; unfold readResp; split <;> (try split) <;> (try split) <;> intro e <;> cases e <;> assumption

end Gs.Props.C04
