import GsModel.Base.Outcome
/-
  C11 — the write policy of the generator as a state machine over a file system.
  `GenOpts.write` (generator/shared.go): `if t.SkipExists && fileExists(dir, fname) { return nil }`, otherwise the
  rendered content is written over the path.  A generation run is the list of its writes in order; the user edits or
  adds files between runs.  Nothing is ever removed.
-/
namespace Gs.Regen
open Gs

/-- the target directory: path ↦ content (association list, first binding wins on lookup, `fsSet` replaces in place) -/
abbrev FS := List (String × String)

def fsGet (fs : FS) (p : String) : Option String := lookup fs p

def fsSet : FS → String → String → FS
  | [], p, c => [(p, c)]
  | (q, d) :: tl, p, c => if q = p then (q, c) :: tl else (q, d) :: fsSet tl p c

/-- one write of a generation run -/
structure W where
  path : String
  content : String
  skip : Bool          -- TemplateOpts.SkipExists of the template that produces this file
  deriving Repr, DecidableEq

/-- GenOpts.write -/
def write (fs : FS) (w : W) : FS :=
  if w.skip && (fsGet fs w.path).isSome then fs else fsSet fs w.path w.content

def applyRun (fs : FS) (r : List W) : FS := r.foldl write fs

inductive Op where
  | run (r : List W)                       -- any generate command: the files it is responsible for, in write order
  | user (path : String) (content : String) -- the user edits or adds a file
  deriving Repr

def step (fs : FS) : Op → FS
  | .run r => applyRun fs r
  | .user p c => fsSet fs p c

def exec (fs : FS) (ops : List Op) : FS := ops.foldl step fs

/-- the paths a history's runs are responsible for -/
def Op.names (q : String) : Op → Bool
  | .run r => r.any (fun w => w.path = q)
  | .user _ _ => false

/-- content the user gave to `q` last, if the user ever touched it -/
def lastUser (q : String) : List Op → Option String → Option String
  | [], acc => acc
  | .user p c :: tl, acc => lastUser q tl (if p = q then some c else acc)
  | .run _ :: tl, acc => lastUser q tl acc

end Gs.Regen
