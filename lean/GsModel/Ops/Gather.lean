import GsModel.Base.Outcome
/-
  C08 — model of generator/shared.go gatherOperations: candidates sorted by Key, then the registration loop
  (`nm := ID or Key`; on a name clash the Key is used instead only when BOTH method and path differ; otherwise the
  earlier entry is overwritten).
-/
namespace Gs.Gather
open Gs

structure Op where
  key : String      -- ToGoName(lower(method) + " " + ToHumanNameTitle(path))
  method : String
  path : String
  id : String       -- operationId, "" when absent
  deriving DecidableEq, Repr, Inhabited

def name (o : Op) : String := if o.id = "" then o.key else o.id

def setOp : List (String × Op) → String → Op → List (String × Op)
  | [], k, v => [(k, v)]
  | (k', v') :: tl, k, v => if k' = k then (k', v) :: tl else (k', v') :: setOp tl k v

/-- one iteration of the loop (no operation filter: every candidate is registered) -/
def stepOp (m : List (String × Op)) (o : Op) : List (String × Op) :=
  let nm := name o
  let nm := match lookup m nm with
    | some oo => if oo.method ≠ o.method ∧ oo.path ≠ o.path then o.key else nm
    | none => nm
  setOp m nm o

/-- gatherOperations on candidates already in the order sort.Sort left them in -/
def gather (ops : List Op) : List (String × Op) := ops.foldl stepOp []

end Gs.Gather
