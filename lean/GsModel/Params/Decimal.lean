import GsModel.Params.Bind
/-
  Decimal text of integers: `parseInt` (the model of strconv.ParseInt as used by swag.ConvertInt32/64) inverts the
  decimal formatter (`toString` on Int, the model of strconv.FormatInt / swag.FormatInt64).
-/
namespace Gs.Params
open Nat

def stepD (acc : Option Nat) (c : Char) : Option Nat :=
  match acc with
  | none => none
  | some n => if c.isDigit then some (n * 10 + (c.toNat - '0'.toNat)) else none

theorem digitsVal_eq (cs : Str) (h : cs ≠ []) : digitsVal cs = cs.foldl stepD (some 0) := by
  cases cs with
  | nil => exact absurd rfl h
  | cons c r => rfl

theorem digitChar_ok : ∀ d, d < 10 → (Nat.digitChar d).isDigit = true ∧ (Nat.digitChar d).toNat - '0'.toNat = d := by decide

theorem stepD_digit (a d : Nat) (h : d < 10) : stepD (some a) (Nat.digitChar d) = some (a * 10 + d) := by
  have ⟨h1, h2⟩ := digitChar_ok d h
  have h3 : '0'.toNat = 48 := by decide
  rw [h3] at h2
  simp [stepD, h1, h2]

theorem foldl_toDigits : ∀ n : Nat, (Nat.toDigits 10 n).foldl stepD (some 0) = some n := by
  intro n
  induction n using Nat.strongRecOn with
  | _ n ih =>
    rw [Nat.toDigits_eq_if (by decide)]
    split
    · rename_i h
      simp only [List.foldl_cons, List.foldl_nil]
      rw [stepD_digit 0 n h]; simp
    · rename_i h
      have hlt : n / 10 < n := Nat.div_lt_self (by omega) (by decide)
      rw [List.foldl_append, ih (n / 10) hlt]
      simp only [List.foldl_cons, List.foldl_nil]
      rw [stepD_digit (n / 10) (n % 10) (Nat.mod_lt n (by decide))]
      congr 1
      omega

theorem digitsVal_repr (n : Nat) : digitsVal (toString n).toList = some n := by
  have h : (toString n).toList = Nat.toDigits 10 n := by
    show (Nat.repr n).toList = _
    exact Nat.toList_repr
  rw [h, digitsVal_eq _ Nat.toDigits_ne_nil, foldl_toDigits]

end Gs.Params

namespace Gs.Params

theorem head_not_sign (n : Nat) : ∀ c r, (toString n).toList = c :: r → c ≠ '-' ∧ c ≠ '+' := by
  intro c r h
  have hl : (toString n).toList = Nat.toDigits 10 n := by
    show (Nat.repr n).toList = _
    exact Nat.toList_repr
  have hc : c ∈ Nat.toDigits 10 n := by rw [← hl, h]; simp
  have hd := Nat.isDigit_of_mem_toDigits (by decide) (by decide) hc
  constructor <;> (intro e; subst e; revert hd; decide)

/-- non-negative integers: text and back -/
theorem parseInt_ofNat (bits : Nat) (m : Nat) (hr : (m : Int) < (2 : Int) ^ (bits - 1)) :
    parseInt bits (toString m).toList = some (m : Int) := by
  have hd := digitsVal_repr m
  unfold parseInt
  cases hl : (toString m).toList with
  | nil => rw [hl] at hd; simp [digitsVal] at hd
  | cons c r =>
    have ⟨h1, h2⟩ := head_not_sign m c r hl
    rw [hl] at hd
    have hm : (0 : Int) ≤ (m : Int) := Int.natCast_nonneg m
    have hlow : -(2 : Int) ^ (bits - 1) ≤ (m : Int) := by
      have : (0 : Int) < (2 : Int) ^ (bits - 1) := Int.pow_pos (by decide)
      omega
    split
    · rename_i heq; cases heq; exact absurd rfl h1
    · rename_i heq; cases heq; exact absurd rfl h2
    · simp [hd, hlow, hr]

end Gs.Params

namespace Gs.Params

theorem parseInt_negSucc (bits : Nat) (m : Nat) (hr : -(2 : Int) ^ (bits - 1) ≤ Int.negSucc m) :
    parseInt bits (toString (Int.negSucc m)).toList = some (Int.negSucc m) := by
  have hs : (toString (Int.negSucc m)).toList = '-' :: (toString (m + 1)).toList := by
    show ("-" ++ toString (Nat.succ m)).toList = _
    simp [String.toList_append]
  have hd := digitsVal_repr (m + 1)
  have e : -((m : Int) + 1) = Int.negSucc m := by omega
  have hup : Int.negSucc m < (2 : Int) ^ (bits - 1) := by
    have : (0 : Int) < (2 : Int) ^ (bits - 1) := Int.pow_pos (by decide)
    have : Int.negSucc m < 0 := Int.negSucc_lt_zero m
    omega
  have hd' : digitsVal (Nat.toDigits 10 (m + 1)) = some (m + 1) := by
    rw [digitsVal_eq _ Nat.toDigits_ne_nil, foldl_toDigits]
  rw [hs]
  unfold parseInt
  simp [hd', e, hr, hup]

/-- the decimal codec of integers, for every value in the range of the declared width -/
theorem parseInt_toString (bits : Nat) (n : Int) (hlo : -(2 : Int) ^ (bits - 1) ≤ n) (hhi : n < (2 : Int) ^ (bits - 1)) :
    parseInt bits (toString n).toList = some n := by
  cases n with
  | ofNat m => exact parseInt_ofNat bits m hhi
  | negSucc m => exact parseInt_negSucc bits m hlo

end Gs.Params
