/-
  C03 / C04 — parameter binding of a generated server (`bindGen`, transcribed from what server/parameter.gotmpl emits and
  from swag.SplitByFormat / swag.ConvertInt64 / swag.ConvertBool), the reference semantics written from the Swagger 2.0
  parameter rules (`bindRef`), and the client-side encoding (`joinByFormat`).
  Fragment: query parameters of type string / integer (int32, int64) / boolean and one-level arrays of string / integer
  in every collectionFormat, with required, enum, length, bound, item-count and uniqueness validations.
-/
namespace Gs.Params

abbrev Str := List Char

/-! ### strings: split, join, trim -/

def splitOn (sep : Char) : Str → List Str
  | [] => [[]]
  | c :: r =>
    match splitOn sep r with
    | [] => [[]]
    | hd :: tl => if c = sep then [] :: hd :: tl else (c :: hd) :: tl

def joinSep (sep : Char) : List Str → Str
  | [] => []
  | [x] => x
  | x :: y :: r => x ++ sep :: joinSep sep (y :: r)

def isSpace (c : Char) : Bool :=
  c = ' ' || c = '\t' || c = '\n' || c = '\r' || c = '\x0b' || c = '\x0c' || c = '\u0085' || c = ' '

def trimLeft : Str → Str
  | [] => []
  | c :: r => if isSpace c then trimLeft r else c :: r

def trimSpace (s : Str) : Str := (trimLeft (trimLeft s).reverse).reverse

def sepOf (cf : String) : Char :=
  if cf = "ssv" then ' ' else if cf = "tsv" then '\t' else if cf = "pipes" then '|' else ','

/-- swag.SplitByFormat for the non-multi formats: split, trim every item, drop the empty ones -/
def splitByFormat (cf : String) (data : Str) : List Str :=
  if data = [] then [] else ((splitOn (sepOf cf) data).map trimSpace).filter (fun s => s ≠ [])

/-- swag.JoinByFormat for the non-multi formats -/
def joinByFormat (cf : String) (xs : List Str) : Option Str :=
  if xs = [] then none else some (joinSep (sepOf cf) xs)

/-! ### conversions -/

def digitsVal : Str → Option Nat
  | [] => none
  | cs => cs.foldl (fun acc c => match acc with
      | none => none
      | some n => if c.isDigit then some (n * 10 + (c.toNat - '0'.toNat)) else none) (some 0)

/-- strconv.ParseInt(s, 10, bits) -/
def parseInt (bits : Nat) (s : Str) : Option Int :=
  let r : Option Int := match s with
    | '-' :: r => (digitsVal r).map (fun n => - (n : Int))
    | '+' :: r => (digitsVal r).map (fun n => (n : Int))
    | r => (digitsVal r).map (fun n => (n : Int))
  match r with
  | none => none
  | some v => if - (2 : Int) ^ (bits - 1) ≤ v ∧ v < (2 : Int) ^ (bits - 1) then some v else none

def lower (s : Str) : Str := s.map Char.toLower

/-- swag.ConvertBool: membership in the true-lexicon, never an error -/
def trueWords : List String := ["1", "true", "yes", "ok", "y", "on", "selected", "checked", "t", "enabled"]
def falseWords : List String := ["0", "false", "no", "n", "off", "f", "disabled", "unchecked", "unselected"]
def convertBool (s : Str) : Bool := trueWords.contains (String.ofList (lower s))

/-! ### parameter specs and values -/

inductive PType where
  | str
  | int (bits : Nat)
  | bool
  deriving DecidableEq, Repr

structure Valids where
  minLen : Option Nat := none
  maxLen : Option Nat := none
  enumS : List String := []
  minI : Option Int := none
  exMin : Bool := false
  maxI : Option Int := none
  exMax : Bool := false
  enumI : List Int := []
  deriving DecidableEq, Repr

structure PSpec where
  required : Bool := false
  isArray : Bool := false
  cf : String := ""          -- "", csv, ssv, tsv, pipes (multi is handled by the caller: one raw value per item)
  ty : PType := .str         -- the scalar type, or the item type of an array
  v : Valids := {}
  minItems : Option Nat := none
  maxItems : Option Nat := none
  unique : Bool := false
  allowEmpty : Bool := false  -- allowEmptyValue (query / formData): an empty value passes even when the parameter is required
  deriving DecidableEq, Repr

inductive Val where
  | s (x : String)
  | i (x : Int)
  | b (x : Bool)
  deriving DecidableEq, Repr

inductive Bound where
  | absent                       -- optional parameter not given: the default (or zero value) stays
  | one (v : Val)
  | many (vs : List Val)
  | reject
  deriving DecidableEq, Repr

/-- conversion + validations of one scalar / one item -/
def convert (ty : PType) (raw : Str) : Option Val :=
  match ty with
  | .str => some (.s (String.ofList raw))
  | .int bits => (parseInt bits raw).map Val.i
  | .bool => some (.b (convertBool raw))

/-- the reference conversion: a boolean must be one of the words of the toolkit's lexicon (Swagger 2.0 does not fix the
    lexical form of a boolean in a query string; the lexicon is the one of swag.ConvertBool plus its negations) -/
def convertRef (ty : PType) (raw : Str) : Option Val :=
  match ty with
  | .bool =>
    let w := String.ofList (lower raw)
    if trueWords.contains w then some (.b true) else if falseWords.contains w then some (.b false) else none
  | _ => convert ty raw

def validOne (v : Valids) : Val → Bool
  | .s x =>
    (match v.minLen with | some n => decide (n ≤ x.length) | none => true) &&
    (match v.maxLen with | some n => decide (x.length ≤ n) | none => true) &&
    (v.enumS.isEmpty || v.enumS.contains x)
  | .i x =>
    (match v.minI with | some n => if v.exMin then decide (n < x) else decide (n ≤ x) | none => true) &&
    (match v.maxI with | some n => if v.exMax then decide (x < n) else decide (x ≤ n) | none => true) &&
    (v.enumI.isEmpty || v.enumI.contains x)
  | .b _ => true

def allDistinct : List Val → Bool
  | [] => true
  | x :: xs => !xs.contains x && allDistinct xs

def validMany (p : PSpec) (vs : List Val) : Bool :=
  (match p.minItems with | some n => decide (n ≤ vs.length) | none => true) &&
  (match p.maxItems with | some n => decide (vs.length ≤ n) | none => true) &&
  (!p.unique || allDistinct vs)

/-- items one after the other, stopping at the first that does not convert or validate (the generated loop) -/
def bindItems (p : PSpec) : List Str → Option (List Val)
  | [] => some []
  | x :: xs =>
    match convert p.ty x with
    | none => none
    | some v => if validOne p.v v then (bindItems p xs).map (fun r => v :: r) else none

/-- convert + validate one scalar -/
def scalarCore (p : PSpec) (last : Str) : Bound :=
  match convert p.ty last with
  | none => .reject
  | some v => if validOne p.v v then .one v else .reject

/-- item loop + array validations -/
def arrayCore (p : PSpec) (items : List Str) : Bound :=
  match bindItems p items with
  | none => .reject
  | some vs => if validMany p vs then .many vs else .reject

/-- what an empty value means: missing for a required parameter, "keep the default" for an optional one -/
def emptyCase (p : PSpec) : Bound := if p.required && !p.allowEmpty then .reject else .absent

def lastOf (raw : Option (List Str)) : Str := match raw with | some vs => vs.getLast?.getD [] | none => []

/-- the generated binder.  `raw = none`: the key is not in the request; `some vs`: the values given for it. -/
def bindGen (p : PSpec) (raw : Option (List Str)) : Bound :=
  if p.required && !raw.isSome then .reject else
  if p.isArray then
    (if (splitByFormat p.cf (lastOf raw)).isEmpty then emptyCase p else arrayCore p (splitByFormat p.cf (lastOf raw)))
  else
    (if lastOf raw = [] then emptyCase p else scalarCore p (lastOf raw))

/-- the reference: what the Swagger 2.0 parameter rules say.  An optional parameter given with an empty value counts as
    not given (the documented reading); an array value is split exactly at the separators of its collectionFormat —
    nothing is trimmed, nothing is dropped; the request is accepted iff every item converts and validates and the array
    validations hold. -/
def bindRef (p : PSpec) (raw : Option (List Str)) : Bound :=
  match raw with
  | none => if p.required then .reject else .absent
  | some vs =>
    let last := vs.getLast?.getD []
    if last = [] then (if p.required && !p.allowEmpty then .reject else .absent) else
    if p.isArray then
      let items := splitOn (sepOf p.cf) last
      match items.mapM (convertRef p.ty) with
      | none => .reject
      | some vals => if vals.all (validOne p.v) && validMany p vals then .many vals else .reject
    else
      match convertRef p.ty last with
      | none => .reject
      | some v => if validOne p.v v then .one v else .reject


/-! ### collectionFormat "multi" (query and formData only): every value given for the key is one item, nothing is split -/

def bindGenMulti (p : PSpec) (raw : Option (List Str)) : Bound :=
  if p.required && !raw.isSome then .reject else
  if (raw.getD []).isEmpty then emptyCase p else arrayCore p (raw.getD [])

def bindRefMulti (p : PSpec) (raw : Option (List Str)) : Bound :=
  match raw with
  | none => if p.required then .reject else .absent
  | some vs =>
    if vs.isEmpty then emptyCase p else
    match vs.mapM (convertRef p.ty) with
    | none => .reject
    | some vals => if vals.all (validOne p.v) && validMany p vals then .many vals else .reject

/-- dispatch on the collectionFormat, as the template does -/
def bindGenAny (p : PSpec) (raw : Option (List Str)) : Bound :=
  if p.isArray && p.cf = "multi" then bindGenMulti p raw else bindGen p raw

def bindRefAny (p : PSpec) (raw : Option (List Str)) : Bound :=
  if p.isArray && p.cf = "multi" then bindRefMulti p raw else bindRef p raw

/-- no item is empty or carries surrounding blanks: the requests on which trimming and dropping are invisible -/
def cleanItems (cf : String) (data : Str) : Bool :=
  (splitOn (sepOf cf) data).all (fun s => s ≠ [] && trimSpace s = s)

end Gs.Params
