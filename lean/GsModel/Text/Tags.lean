/-
  C09, struct tags: model of `GenSchema.PrintTags` (generator/structs.go), the Go code that copies free text of the
  spec (`description`, `example` with `--struct-tags`) into the tag of a generated struct field.

    completeTag := join " " [key:Quote(value) ...]
    if every value can be back-quoted   then  `completeTag`   (raw string literal)
    else                                      Quote(completeTag)  (interpreted string literal)

  `quote` models strconv.Quote on the characters the correspondence run uses (ASCII, \n \t \r, control characters,
  printable non-ASCII letters, U+FEFF); `canBackquote` models strconv.CanBackquote.
-/
namespace Gs.Text.Tags

abbrev Str := List Char

def hexDigit (n : Nat) : Char := if n < 10 then Char.ofNat (48 + n) else Char.ofNat (87 + n)

def hex2 (n : Nat) : Str := [hexDigit (n / 16 % 16), hexDigit (n % 16)]
def hex4 (n : Nat) : Str := [hexDigit (n / 4096 % 16), hexDigit (n / 256 % 16), hexDigit (n / 16 % 16), hexDigit (n % 16)]

/-- characters strconv.Quote copies unchanged (printable, not a quote, not a backslash) -/
def plain (c : Char) : Bool :=
  c ≠ '"' && c ≠ '\\' && c.toNat ≥ 32 && c.toNat ≠ 127 && c ≠ '\uFEFF' && c.toNat < 0xD800

/-- the escape strconv.Quote writes for one character -/
def esc (c : Char) : Str :=
  if c = '"' then ['\\', '"'] else
  if c = '\\' then ['\\', '\\'] else
  if c = '\n' then ['\\', 'n'] else
  if c = '\t' then ['\\', 't'] else
  if c = '\r' then ['\\', 'r'] else
  if plain c then [c] else
  if c.toNat < 128 then '\\' :: 'x' :: hex2 c.toNat
  else '\\' :: 'u' :: hex4 c.toNat

def quoteBody (s : Str) : Str := s.flatMap esc
def quote (s : Str) : Str := '"' :: quoteBody s ++ ['"']

def canBackquote (s : Str) : Bool :=
  s.all (fun c => c ≠ '`' && (c.toNat ≥ 32 || c = '\t') && c.toNat ≠ 127 && c ≠ '\uFEFF')

def joinSp : List Str → Str
  | [] => []
  | [x] => x
  | x :: xs => x ++ ' ' :: joinSp xs

def pair (kv : Str × Str) : Str := kv.1 ++ ':' :: quote kv.2

def completeTag (tags : List (Str × Str)) (custom : Str) : Str :=
  joinSp (tags.map pair ++ (if custom.isEmpty then [] else [custom]))

/-- PrintTags: the Go source text of the tag -/
def printTags (tags : List (Str × Str)) (custom : Str) : Str :=
  if tags.all (fun kv => canBackquote kv.2) then '`' :: completeTag tags custom ++ ['`']
  else quote (completeTag tags custom)

/-! ### the Go scanner on the two literal forms -/

/-- a raw string literal is one token iff its interior has no backtick -/
def rawOneToken : Str → Bool
  | '`' :: rest => rest.getLast? = some '`' && !(rest.dropLast.contains '`')
  | _ => false

/-- scanning an interpreted literal after its opening quote: escapes are skipped pairwise, a raw newline is illegal,
    and the first unescaped quote must be the last character -/
def scanInterp : Str → Bool
  | [] => false
  | ['"'] => true
  | '"' :: _ :: _ => false
  | '\n' :: _ => false
  | '\\' :: _ :: rest => scanInterp rest
  | ['\\'] => false
  | _ :: rest => scanInterp rest

def interpOneToken : Str → Bool
  | '"' :: rest => scanInterp rest
  | _ => false

/-! ### lemmas -/

theorem neutral (c : Char) (h1 : c ≠ '"') (h2 : c ≠ '\\') (h3 : c ≠ '\n') (t : Str) : scanInterp (c :: t) = scanInterp t := by
  cases t with
  | nil => simp [scanInterp, h1, h2, h3]
  | cons d r => simp [scanInterp, h1, h2, h3]

theorem hexDigit_facts : ∀ n, n < 16 → hexDigit n ≠ '"' ∧ hexDigit n ≠ '\\' ∧ hexDigit n ≠ '\n' ∧ hexDigit n ≠ '`' := by
  decide

theorem hex_neutral (n : Nat) (t : Str) : scanInterp (hexDigit (n % 16) :: t) = scanInterp t :=
  have h := hexDigit_facts (n % 16) (Nat.mod_lt _ (by decide))
  neutral _ h.1 h.2.1 h.2.2.1 t

theorem plain_facts (c : Char) (h : plain c = true) : c ≠ '"' ∧ c ≠ '\\' ∧ c ≠ '\n' := by
  simp only [plain, Bool.and_eq_true, decide_eq_true_eq, bne_iff_ne, ne_eq] at h
  refine ⟨h.1.1.1.1.1, h.1.1.1.1.2, ?_⟩
  intro e
  have := h.1.1.1.2
  rw [e] at this
  exact absurd this (by decide)

/-- every escape is transparent for the scanner -/
theorem esc_scan (c : Char) (t : Str) : scanInterp (esc c ++ t) = scanInterp t := by
  unfold esc
  split
  · simp [scanInterp]
  split
  · simp [scanInterp]
  split
  · simp [scanInterp]
  split
  · simp [scanInterp]
  split
  · simp [scanInterp]
  split
  · rename_i hp
    have := plain_facts c hp
    exact neutral c this.1 this.2.1 this.2.2 t
  split
  · simp only [hex2, List.cons_append, List.nil_append, scanInterp]
    rw [hex_neutral, hex_neutral]
  · simp only [hex4, List.cons_append, List.nil_append, scanInterp]
    rw [hex_neutral, hex_neutral, hex_neutral, hex_neutral]

theorem quoteBody_scan : ∀ (s t : Str), scanInterp (quoteBody s ++ t) = scanInterp t
  | [], t => rfl
  | c :: cs, t => by
    simp only [quoteBody, List.flatMap_cons, List.append_assoc]
    rw [esc_scan]
    exact quoteBody_scan cs t

/-- strconv.Quote always writes ONE interpreted string literal -/
theorem quote_one_token (s : Str) : interpOneToken (quote s) = true := by
  show scanInterp (quoteBody s ++ ['"']) = true
  rw [quoteBody_scan]
  rfl

theorem esc_no_backtick (c : Char) (h : c ≠ '`') : '`' ∉ esc c := by
  unfold esc
  have hx := fun n => (hexDigit_facts (n % 16) (Nat.mod_lt _ (by decide))).2.2.2
  split
  · simp
  split
  · simp
  split
  · simp
  split
  · simp
  split
  · simp
  split
  · simp [h.symm]
  split
  · simp only [hex2, List.mem_cons, List.not_mem_nil, or_false, not_or]
    exact ⟨by decide, by decide, (hx _).symm, (hx _).symm⟩
  · simp only [hex4, List.mem_cons, List.not_mem_nil, or_false, not_or]
    exact ⟨by decide, by decide, (hx _).symm, (hx _).symm, (hx _).symm, (hx _).symm⟩

theorem quote_no_backtick (s : Str) (h : '`' ∉ s) : '`' ∉ quote s := by
  intro hm
  simp only [quote, quoteBody, List.mem_cons, List.mem_append, List.mem_flatMap, List.not_mem_nil, or_false] at hm
  rcases hm with (e | ⟨c, hc, hin⟩) | e
  · exact (by decide : ¬ ('`' = '"')) e
  · exact esc_no_backtick c (fun e => h (e ▸ hc)) hin
  · exact (by decide : ¬ ('`' = '"')) e

theorem canBackquote_no_backtick (s : Str) (h : canBackquote s = true) : '`' ∉ s := by
  intro hm
  simp only [canBackquote, List.all_eq_true, Bool.and_eq_true, decide_eq_true_eq] at h
  exact (h _ hm).1.1.1 rfl

theorem joinSp_no_backtick : ∀ (l : List Str), (∀ x ∈ l, '`' ∉ x) → '`' ∉ joinSp l
  | [], _ => by simp [joinSp]
  | [x], h => by simpa [joinSp] using h x (by simp)
  | x :: y :: r, h => by
    simp only [joinSp, List.mem_append, List.mem_cons, not_or]
    refine ⟨h x (by simp), by decide, ?_⟩
    exact joinSp_no_backtick (y :: r) (fun z hz => h z (List.mem_cons_of_mem _ hz))

theorem raw_form_one_token (body : Str) (h : '`' ∉ body) : rawOneToken ('`' :: body ++ ['`']) = true := by
  simp [rawOneToken, h]

theorem pair_no_backtick (kv : Str × Str) (hk : '`' ∉ kv.1) (hv : canBackquote kv.2 = true) : '`' ∉ pair kv := by
  intro hm
  simp only [pair, List.mem_append, List.mem_cons] at hm
  rcases hm with h | h | h
  · exact hk h
  · exact (by decide : ¬ ('`' = ':')) h
  · exact quote_no_backtick kv.2 (canBackquote_no_backtick kv.2 hv) h

/-- **The tag PrintTags writes is always exactly one Go string literal**: a raw literal without a backtick inside when
    every value can be back-quoted, one `strconv.Quote`d literal otherwise — for every list of tags and values (free text
    included), provided the tag KEYS and the custom tag (options and extensions chosen by the author, not free text) hold no backtick. -/
theorem printTags_one_token (tags : List (Str × Str)) (custom : Str)
    (hk : ∀ kv ∈ tags, '`' ∉ kv.1) (hc : '`' ∉ custom) :
    rawOneToken (printTags tags custom) = true ∨ interpOneToken (printTags tags custom) = true := by
  unfold printTags
  split
  · rename_i hall
    left
    apply raw_form_one_token
    unfold completeTag
    apply joinSp_no_backtick
    intro x hx
    rcases List.mem_append.mp hx with h | h
    · obtain ⟨kv, hkv, e⟩ := List.mem_map.mp h
      rw [← e]
      exact pair_no_backtick kv (hk kv hkv) (by simpa using (List.all_eq_true.mp hall) kv hkv)
    · split at h
      · cases h
      · rw [List.mem_singleton.mp h]; exact hc
  · right
    exact quote_one_token _

/-- the rule "only the LAST value decides" (a plausible simplification of the loop) is unsafe: a backtick in an earlier value
    ends the raw literal early -/
def printTagsLastWins (tags : List (Str × Str)) (custom : Str) : Str :=
  if (match tags.getLast? with | some kv => canBackquote kv.2 | none => true) then '`' :: completeTag tags custom ++ ['`']
  else quote (completeTag tags custom)

theorem last_value_rule_is_unsafe :
    let tags := [("json".toList, "name".toList), ("description".toList, "a` }; var X = 1; type T struct { F int `b".toList), ("yaml".toList, "name".toList)]
    rawOneToken (printTagsLastWins tags []) = false ∧ interpOneToken (printTagsLastWins tags []) = false ∧
    (rawOneToken (printTags tags []) = true ∨ interpOneToken (printTags tags []) = true) := by
  decide

example : printTags [("json".toList, "n,omitempty".toList)] [] = "`json:\"n,omitempty\"`".toList := by decide
example : printTags [("json".toList, "n".toList), ("description".toList, "a`b".toList)] [] =
    "\"json:\\\"n\\\" description:\\\"a`b\\\"\"".toList := by decide

end Gs.Text.Tags
