import GsModel.Text.Escape
namespace Gs.Text

theorem block_safe : ∀ s : Str, hasBlockEnd (blockComment s) = false := by
  intro s
  fun_induction blockComment s with
  | case1 => rfl
  | case2 c => rfl
  | case3 c d r h ih =>
    -- output: [ * ] / ++ blockComment r
    cases hr : blockComment r with
    | nil => simp [hasBlockEnd]
    | cons x xs =>
      rw [hr] at ih
      simp [hasBlockEnd, ih]
  | case4 c d r h ih =>
    -- output: c :: blockComment (d :: r); the next output char is the head of blockComment (d :: r)
    cases hr : blockComment (d :: r) with
    | nil => simp [hasBlockEnd]
    | cons x xs =>
      rw [hr] at ih
      simp only [hasBlockEnd, ih, Bool.or_false, decide_eq_false_iff_not, not_and]
      intro hc hx
      -- x is the first character of blockComment (d :: r): it is `d` or `[`
      subst hc
      have : x = d ∨ x = '[' := by
        cases r with
        | nil => simp [blockComment] at hr; exact Or.inl hr.1.symm
        | cons e r' =>
          simp only [blockComment] at hr
          split at hr
          · simp at hr; exact Or.inr hr.1.symm
          · simp at hr; exact Or.inl hr.1.symm
      rcases this with e | e
      · subst e; exact h ⟨rfl, hx⟩
      · subst e; cases hx

theorem splitOn_ne_nil (sep : Char) : ∀ s, splitOn sep s ≠ []
  | [] => by simp [splitOn]
  | c :: r => by
    unfold splitOn
    split
    · simp
    · split <;> simp

theorem joinWith_cons_head (sep : Str) (c : Char) (hd : Str) (tl : List Str) :
    joinWith sep ((c :: hd) :: tl) = c :: joinWith sep (hd :: tl) := by
  cases tl with
  | nil => rfl
  | cons y r => simp [joinWith]

/-- the Split/Join implementation is a character map: every newline is followed by `//` and the pad -/
theorem padComment_eq (pad : Str) : ∀ s, padComment s pad = padMap pad s
  | [] => rfl
  | c :: r => by
    have ih := padComment_eq pad r
    unfold padComment at ih ⊢
    unfold splitOn
    cases h : splitOn '\n' r with
    | nil => exact absurd h (splitOn_ne_nil _ _)
    | cons hd tl =>
      rw [h] at ih
      simp only
      by_cases hc : c = '\n'
      · subst hc
        simp only [if_true, joinWith, padMap, List.nil_append, List.cons_append, ih]
      · simp only [hc, if_false, joinWith_cons_head, padMap, ih]

theorem inLC_pad (pad t : Str) (hp : '\n' ∉ pad) : inLC 0 (pad ++ t) = inLC 0 t := by
  induction pad with
  | nil => rfl
  | cons c p ih =>
    have hc : c ≠ '\n' := fun e => hp (e ▸ List.mem_cons_self)
    have hp' : '\n' ∉ p := fun e => hp (List.mem_cons_of_mem _ e)
    simp only [List.cons_append, inLC, Nat.lt_irrefl, if_false, hc, gt_iff_lt]
    exact ih hp'

theorem padMap_safe (pad : Str) (hp : '\n' ∉ pad) : ∀ s, inLC 0 (padMap pad s) = true
  | [] => rfl
  | c :: r => by
    unfold padMap
    by_cases hc : c = '\n'
    · simp only [hc, if_true, inLC, Nat.lt_irrefl, if_false, gt_iff_lt, Nat.zero_lt_succ, beq_self_eq_true, Bool.true_and,
        Nat.add_one_sub_one, Nat.lt_add_one, inLC_pad pad _ hp]
      exact padMap_safe pad hp r
    · simp only [hc, if_false, inLC, Nat.lt_irrefl, gt_iff_lt]
      exact padMap_safe pad hp r

/-- `comment`: whatever the text, the rendered comment never leaves the `//` lines -/
theorem line_safe (s pad : Str) (hp : '\n' ∉ pad) : inLineComments (padComment s pad) = true := by
  rw [padComment_eq]; exact padMap_safe pad hp s

/-- `escapeBackticks` / `generateReadableSpec`: the Go expression evaluates back to the text -/
theorem raw_roundtrip : ∀ s : Str, '\r' ∉ s → evalSt 0 (escBacktick s ++ ['`']) = some s
  | [], _ => by simp [escBacktick, evalSt]
  | c :: r, h => by
    have hr : '\r' ∉ r := fun e => h (List.mem_cons_of_mem _ e)
    have hc : c ≠ '\r' := fun e => h (e ▸ List.mem_cons_self)
    have ih := raw_roundtrip r hr
    unfold escBacktick
    by_cases hb : c = '`'
    · subst hb
      simp [evalSt, conn, ih]
    · simp [evalSt, hb, hc, ih]

theorem embed_rt (s : Str) (h : '\r' ∉ s) : evalGo ('`' :: escBacktick s ++ ['`']) = some s := by
  simp only [evalGo, List.cons_append, evalRaw]
  exact raw_roundtrip s h

theorem escBOM_no_cr : ∀ s : Str, '\r' ∉ s → '\r' ∉ escBOM s
  | [], _ => by simp [escBOM]
  | c :: r, h => by
    have hr : '\r' ∉ r := fun e => h (List.mem_cons_of_mem _ e)
    have hc : c ≠ '\r' := fun e => h (e ▸ List.mem_cons_self)
    unfold escBOM
    split
    · intro hm
      simp only [List.mem_cons] at hm
      rcases hm with e | e | e | e | e | e | e
      · exact absurd e (by decide)
      · exact absurd e (by decide)
      · exact absurd e (by decide)
      · exact absurd e (by decide)
      · exact absurd e (by decide)
      · exact absurd e (by decide)
      · exact escBOM_no_cr r hr e
    · intro hm
      rcases List.mem_cons.mp hm with e | e
      · exact hc e.symm
      · exact escBOM_no_cr r hr e

theorem escBOM_no_bom : ∀ s : Str, '\uFEFF' ∉ escBOM s
  | [] => by simp [escBOM]
  | c :: r => by
    unfold escBOM
    split
    · intro hm
      simp only [List.mem_cons] at hm
      rcases hm with e | e | e | e | e | e | e
      · exact absurd e (by decide)
      · exact absurd e (by decide)
      · exact absurd e (by decide)
      · exact absurd e (by decide)
      · exact absurd e (by decide)
      · exact absurd e (by decide)
      · exact escBOM_no_bom r e
    · rename_i hc
      intro hm
      rcases List.mem_cons.mp hm with e | e
      · exact hc e.symm
      · exact escBOM_no_bom r e

theorem escBOM_id : ∀ s : Str, '\uFEFF' ∉ s → escBOM s = s
  | [], _ => rfl
  | c :: r, h => by
    have hr : '\uFEFF' ∉ r := fun e => h (List.mem_cons_of_mem _ e)
    have hc : c ≠ '\uFEFF' := fun e => h (e ▸ List.mem_cons_self)
    simp [escBOM, hc, escBOM_id r hr]

/-- the whole embedding: the Go expression evaluates to the text with byte order marks written as JSON escapes -/
theorem readable_rt (s : Str) (h : '\r' ∉ s) : evalGo ('`' :: readable s ++ ['`']) = some (escBOM s) :=
  embed_rt (escBOM s) (escBOM_no_cr s h)

end Gs.Text
