/-
  C09 / C10 — the text escapers of generator/template_repo.go and generator/support.go over code points, and the
  fragment of Go's lexical structure they are meant to stay inside of.
-/
namespace Gs.Text

abbrev Str := List Char

/-! ### blockComment: `strings.ReplaceAll(str, "*/", "[*]/")` -/

def blockComment : Str → Str
  | [] => []
  | [c] => [c]
  | c :: d :: r =>
    if c = '*' ∧ d = '/' then '[' :: '*' :: ']' :: '/' :: blockComment r
    else c :: blockComment (d :: r)

/-- does the text contain the block-comment terminator `*/` -/
def hasBlockEnd : Str → Bool
  | [] => false
  | [_] => false
  | c :: d :: r => (c = '*' ∧ d = '/') || hasBlockEnd (d :: r)

/-! ### padComment: `strings.Join(strings.Split(str, "\n"), "\n//"+pad)` — equal to a character map -/

def padMap (pad : Str) : Str → Str
  | [] => []
  | c :: r => if c = '\n' then '\n' :: '/' :: '/' :: (pad ++ padMap pad r) else c :: padMap pad r

/-- strings.Split on a one-character separator -/
def splitOn (sep : Char) : Str → List Str
  | [] => [[]]
  | c :: r =>
    match splitOn sep r with
    | [] => [[]]          -- unreachable: splitOn never returns []
    | hd :: tl => if c = sep then [] :: hd :: tl else (c :: hd) :: tl

/-- strings.Join -/
def joinWith (sep : Str) : List Str → Str
  | [] => []
  | [x] => x
  | x :: y :: r => x ++ sep ++ joinWith sep (y :: r)

def padComment (s pad : Str) : Str := joinWith ('\n' :: '/' :: '/' :: pad) (splitOn '\n' s)

/-- the text, placed right after an opening `//`, stays inside line comments: after every newline come `//` again.
    `need` = how many `/` are still owed after the last newline. -/
def inLC : Nat → Str → Bool
  | need, [] => need == 0
  | need, c :: r =>
    if need > 0 then (c == '/' && inLC (need - 1) r)
    else if c = '\n' then inLC 2 r else inLC 0 r

def inLineComments (s : Str) : Bool := inLC 0 s

/-! ### escapeBackticks / generateReadableSpec: every backtick becomes `` `+"`"+` `` -/

def escBacktick : Str → Str
  | [] => []
  | c :: r => if c = '`' then '`' :: '+' :: '"' :: '`' :: '"' :: '+' :: '`' :: escBacktick r else c :: escBacktick r

/-- generateReadableSpec also writes a byte order mark (illegal in Go source) as its JSON escape \\ufeff -/
def escBOM : Str → Str
  | [] => []
  | c :: r => if c = '\uFEFF' then '\\' :: 'u' :: 'f' :: 'e' :: 'f' :: 'f' :: escBOM r else c :: escBOM r

def readable (s : Str) : Str := escBacktick (escBOM s)

/-- the connector between two raw literals: +"`"+` -/
def conn : List Char := ['+', '"', '`', '"', '+', '`']

/-- value of a Go expression of the shape  `raw` ( +"`"+ `raw` )*  read from just after the opening backtick of the
    first raw literal (carriage returns inside raw literals are discarded by the language); `none` if the text leaves
    that shape.  State `k = 0`: inside a raw literal; `k = 1..6`: the k-th character of the connector is expected
    (`k = 1` is also where the expression may end). -/
def evalSt : Nat → Str → Option Str
  | k, [] => if k = 1 then some [] else none
  | k, c :: r =>
    if k = 0 then
      (if c = '`' then evalSt 1 r else (evalSt 0 r).map (fun v => if c = '\r' then v else c :: v))
    else if conn[k - 1]? = some c then
      (if k = 6 then (evalSt 0 r).map (fun v => '`' :: v) else evalSt (k + 1) r)
    else none

def evalRaw (s : Str) : Option Str := evalSt 0 s

/-- the whole expression, starting at the opening backtick -/
def evalGo : Str → Option Str
  | '`' :: r => evalRaw r
  | _ => none

end Gs.Text
