import GsModel.Text.Tags
/-
  C09, struct tags (continued): the interpreted literal `strconv.Quote` writes evaluates back to the text it was given
  (model of the Go scanner's unquoting on the escapes Quote emits), for every text of the Basic Multilingual Plane.
-/
namespace Gs.Text.Tags

def hexVal (c : Char) : Option Nat :=
  if 48 ≤ c.toNat ∧ c.toNat ≤ 57 then some (c.toNat - 48)
  else if 97 ≤ c.toNat ∧ c.toNat ≤ 102 then some (c.toNat - 87)
  else none

/-- value of the body of an interpreted string literal (the escapes strconv.Quote emits) -/
def unq : Str → Option Str
  | [] => some []
  | '\\' :: '"' :: r => (unq r).map ('"' :: ·)
  | '\\' :: '\\' :: r => (unq r).map ('\\' :: ·)
  | '\\' :: 'n' :: r => (unq r).map ('\n' :: ·)
  | '\\' :: 't' :: r => (unq r).map ('\t' :: ·)
  | '\\' :: 'r' :: r => (unq r).map ('\r' :: ·)
  | '\\' :: 'x' :: a :: b :: r =>
    match hexVal a, hexVal b with
    | some x, some y => (unq r).map (Char.ofNat (16 * x + y) :: ·)
    | _, _ => none
  | '\\' :: 'u' :: a :: b :: c :: d :: r =>
    match hexVal a, hexVal b, hexVal c, hexVal d with
    | some x, some y, some z, some w => (unq r).map (Char.ofNat (4096 * x + 256 * y + 16 * z + w) :: ·)
    | _, _, _, _ => none
  | '\\' :: _ => none
  | c :: r => (unq r).map (c :: ·)

theorem hexVal_hexDigit : ∀ n, n < 16 → hexVal (hexDigit n) = some n := by decide

theorem unq_plain (c : Char) (h : c ≠ '\\') (r : Str) : unq (c :: r) = (unq r).map (c :: ·) := by
  conv => lhs; unfold unq
  split <;> simp_all

theorem ofNat_toNat (c : Char) : Char.ofNat c.toNat = c := Char.ofNat_toNat c

theorem plain_ne_bslash (c : Char) (h : plain c = true) : c ≠ '\\' := (plain_facts c h).2.1

/-- unquoting undoes each escape (characters of the Basic Multilingual Plane) -/
theorem unq_esc (c : Char) (hb : c.toNat < 65536) (t : Str) : unq (esc c ++ t) = (unq t).map (c :: ·) := by
  unfold esc
  split
  · rename_i e; subst e; simp [unq]
  split
  · rename_i e; subst e; simp [unq]
  split
  · rename_i e; subst e; simp [unq]
  split
  · rename_i e; subst e; simp [unq]
  split
  · rename_i e; subst e; simp [unq]
  split
  · rename_i hp
    exact unq_plain c (plain_ne_bslash c hp) t
  split
  · rename_i h128
    have h1 := hexVal_hexDigit (c.toNat / 16 % 16) (Nat.mod_lt _ (by decide))
    have h2 := hexVal_hexDigit (c.toNat % 16) (Nat.mod_lt _ (by decide))
    have hn : 16 * (c.toNat / 16 % 16) + c.toNat % 16 = c.toNat := by omega
    simp only [hex2, List.cons_append, List.nil_append, unq, h1, h2, hn, ofNat_toNat]
  · have h1 := hexVal_hexDigit (c.toNat / 4096 % 16) (Nat.mod_lt _ (by decide))
    have h2 := hexVal_hexDigit (c.toNat / 256 % 16) (Nat.mod_lt _ (by decide))
    have h3 := hexVal_hexDigit (c.toNat / 16 % 16) (Nat.mod_lt _ (by decide))
    have h4 := hexVal_hexDigit (c.toNat % 16) (Nat.mod_lt _ (by decide))
    have hn : 4096 * (c.toNat / 4096 % 16) + 256 * (c.toNat / 256 % 16) + 16 * (c.toNat / 16 % 16) + c.toNat % 16 = c.toNat := by omega
    simp only [hex4, List.cons_append, List.nil_append, unq, h1, h2, h3, h4, hn, ofNat_toNat]

theorem unq_quoteBody : ∀ (s t : Str), (∀ c ∈ s, c.toNat < 65536) → unq (quoteBody s ++ t) = (unq t).map (s ++ ·)
  | [], t, _ => by cases h : unq t <;> simp [quoteBody, h]
  | c :: cs, t, hb => by
    simp only [quoteBody, List.flatMap_cons, List.append_assoc]
    rw [unq_esc c (hb c List.mem_cons_self)]
    have ih := unq_quoteBody cs t (fun d hd => hb d (List.mem_cons_of_mem _ hd))
    simp only [quoteBody] at ih
    rw [ih]
    cases unq t <;> simp

/-- **strconv.Quote round trip**: the body of the literal evaluates to the text that was quoted -/
theorem unquote_quote (s : Str) (hb : ∀ c ∈ s, c.toNat < 65536) : unq (quoteBody s) = some s := by
  have := unq_quoteBody s [] hb
  simpa [unq] using this

example : unq (quoteBody "a`b \"q\" \\ \n\tz".toList) = some "a`b \"q\" \\ \n\tz".toList := by decide

end Gs.Text.Tags
