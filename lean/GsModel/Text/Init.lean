import GsModel.Text.Unquote
/-
  C03 (defaults): model of the Go composite-literal text `goSliceInitializer` (generator/language.go) writes for a default
  value — the braces of the literal come from the VALUE's structure only, never from the text of its strings.
    value ::= string | number text | array of values | object (key, value)*
    render: string ↦ Quote(s)   number ↦ its text   array ↦ { v, v, }   object ↦ { "k":v, "k":v, }
  `skel` is the Go scanner's view of structure: outside string literals everything counts, of a literal only its quotes.
-/
namespace Gs.Text.Init
open Gs.Text.Tags

inductive V where
  | str (s : Str)
  | num (digits : Str)          -- a JSON number as written (digits, sign, point, exponent: no quote, brace, comma)
  | arr (l : List V)
  | obj (kvs : List (Str × V))

mutual
def render : V → Str
  | .str s => quote s
  | .num d => d
  | .arr l => '{' :: renderList l ++ ['}']
  | .obj kvs => '{' :: renderFields kvs ++ ['}']
def renderList : List V → Str
  | [] => []
  | v :: vs => render v ++ ',' :: renderList vs
def renderFields : List (Str × V) → Str
  | [] => []
  | (k, v) :: kvs => quote k ++ ':' :: render v ++ ',' :: renderFields kvs
end

/-- the Go scanner's view of which characters are structure: everything outside string literals is kept, of a string
    literal only its two quotes (state: 0 outside, 1 inside a string, 2 after a backslash inside a string) -/
def skel : Nat → Str → Str
  | _, [] => []
  | 0, '"' :: r => '"' :: skel 1 r
  | 0, c :: r => c :: skel 0 r
  | 1, '\\' :: r => skel 2 r
  | 1, '"' :: r => '"' :: skel 0 r
  | 1, _ :: r => skel 1 r
  | _, _ :: r => skel 1 r

mutual
/-- the value with every string emptied: its pure structure -/
def shape : V → Str
  | .str _ => ['"', '"']
  | .num d => d
  | .arr l => '{' :: shapeList l ++ ['}']
  | .obj kvs => '{' :: shapeFields kvs ++ ['}']
def shapeList : List V → Str
  | [] => []
  | v :: vs => shape v ++ ',' :: shapeList vs
def shapeFields : List (Str × V) → Str
  | [] => []
  | (_, v) :: kvs => '"' :: '"' :: ':' :: shape v ++ ',' :: shapeFields kvs
end

mutual
/-- numbers are written without quotes -/
def numsOk : V → Bool
  | .str _ => true
  | .num d => !d.contains '"'
  | .arr l => numsOkList l
  | .obj kvs => numsOkFields kvs
def numsOkList : List V → Bool
  | [] => true
  | v :: vs => numsOk v && numsOkList vs
def numsOkFields : List (Str × V) → Bool
  | [] => true
  | (_, v) :: kvs => numsOk v && numsOkFields kvs
end

theorem skel1_plain (c : Char) (h1 : c ≠ '"') (h2 : c ≠ '\\') (t : Str) : skel 1 (c :: t) = skel 1 t := by
  simp [skel, h1, h2]

theorem skel1_hex (n : Nat) (t : Str) : skel 1 (hexDigit (n % 16) :: t) = skel 1 t :=
  have h := hexDigit_facts (n % 16) (Nat.mod_lt _ (by decide))
  skel1_plain _ h.1 h.2.1 t

/-- inside a string, every escape strconv.Quote writes is skipped whole -/
theorem skel1_esc (c : Char) (t : Str) : skel 1 (esc c ++ t) = skel 1 t := by
  unfold esc
  split
  · simp [skel]
  split
  · simp [skel]
  split
  · simp [skel]
  split
  · simp [skel]
  split
  · simp [skel]
  split
  · rename_i hp
    have := plain_facts c hp
    exact skel1_plain c this.1 this.2.1 t
  split
  · simp only [hex2, List.cons_append, List.nil_append, skel]
    rw [skel1_hex, skel1_hex]
  · simp only [hex4, List.cons_append, List.nil_append, skel]
    rw [skel1_hex, skel1_hex, skel1_hex, skel1_hex]

theorem skel1_body : ∀ (s t : Str), skel 1 (quoteBody s ++ t) = skel 1 t
  | [], _ => rfl
  | c :: cs, t => by
    simp only [quoteBody, List.flatMap_cons, List.append_assoc]
    rw [skel1_esc]
    exact skel1_body cs t

/-- a quoted string contributes its two quotes and nothing else, whatever it contains -/
theorem skel_quote (s t : Str) : skel 0 (quote s ++ t) = '"' :: '"' :: skel 0 t := by
  simp only [quote, List.cons_append, List.append_assoc, skel]
  rw [skel1_body]
  simp [skel]

theorem skel0_noquote : ∀ (d t : Str), '"' ∉ d → skel 0 (d ++ t) = d ++ skel 0 t
  | [], _, _ => rfl
  | c :: cs, t, h => by
    have hc : c ≠ '"' := fun e => h (e ▸ List.mem_cons_self)
    have hcs : '"' ∉ cs := fun hm => h (List.mem_cons_of_mem _ hm)
    simp only [List.cons_append]
    rw [show skel 0 (c :: (cs ++ t)) = c :: skel 0 (cs ++ t) by simp [skel, hc]]
    rw [skel0_noquote cs t hcs]

mutual
/-- **the structure of the literal is the structure of the value**: string contents contribute no brace, comma or colon -/
theorem skel_render : ∀ (v : V) (t : Str), numsOk v = true → skel 0 (render v ++ t) = shape v ++ skel 0 t
  | .str s, t, _ => by simp [render, shape, skel_quote]
  | .num d, t, h => by
    simp only [numsOk, Bool.not_eq_true', List.contains_eq_mem, decide_eq_false_iff_not] at h
    simp only [render, shape]
    exact skel0_noquote d t h
  | .arr l, t, h => by
    simp only [numsOk] at h
    simp only [render, shape, List.cons_append, List.append_assoc, List.nil_append]
    rw [show skel 0 ('{' :: (renderList l ++ ('}' :: t))) = '{' :: skel 0 (renderList l ++ ('}' :: t)) by simp [skel]]
    rw [skel_renderList l _ h]
    simp [skel]
  | .obj kvs, t, h => by
    simp only [numsOk] at h
    simp only [render, shape, List.cons_append, List.append_assoc, List.nil_append]
    rw [show skel 0 ('{' :: (renderFields kvs ++ ('}' :: t))) = '{' :: skel 0 (renderFields kvs ++ ('}' :: t)) by simp [skel]]
    rw [skel_renderFields kvs _ h]
    simp [skel]
theorem skel_renderList : ∀ (l : List V) (t : Str), numsOkList l = true → skel 0 (renderList l ++ t) = shapeList l ++ skel 0 t
  | [], _, _ => rfl
  | v :: vs, t, h => by
    simp only [numsOkList, Bool.and_eq_true] at h
    simp only [renderList, shapeList, List.append_assoc, List.cons_append]
    rw [skel_render v _ h.1]
    rw [show skel 0 (',' :: (renderList vs ++ t)) = ',' :: skel 0 (renderList vs ++ t) by simp [skel]]
    rw [skel_renderList vs t h.2]
theorem skel_renderFields : ∀ (kvs : List (Str × V)) (t : Str), numsOkFields kvs = true →
    skel 0 (renderFields kvs ++ t) = shapeFields kvs ++ skel 0 t
  | [], _, _ => rfl
  | (k, v) :: rest, t, h => by
    simp only [numsOkFields, Bool.and_eq_true] at h
    simp only [renderFields, shapeFields, List.append_assoc, List.cons_append]
    rw [skel_quote]
    rw [show skel 0 (':' :: (render v ++ (',' :: (renderFields rest ++ t)))) = ':' :: skel 0 (render v ++ (',' :: (renderFields rest ++ t))) by simp [skel]]
    rw [skel_render v _ h.1]
    rw [show skel 0 (',' :: (renderFields rest ++ t)) = ',' :: skel 0 (renderFields rest ++ t) by simp [skel]]
    rw [skel_renderFields rest t h.2]
end

/-! ### the rule that was repaired: rewriting the JSON text -/

/-- `strings.ReplaceAll` chain of the pinned code on the JSON text: `}`→`,}`, `[`→`{`, `]`→`,}`, then `{,}`→`{}` -/
def fixEmpty : Str → Str
  | '{' :: ',' :: '}' :: r => '{' :: '}' :: fixEmpty r
  | c :: r => c :: fixEmpty r
  | [] => []

def oldInit (json : Str) : Str :=
  fixEmpty (json.flatMap (fun c => if c = '}' then [',', '}'] else if c = '[' then ['{'] else if c = ']' then [',', '}'] else [c]))

/-- on `["a[1]","b}c"]` the old rule changes the strings (its structure is still that of the value: the damage is inside
    the literals), the value-directed rendering keeps them -/
theorem old_rule_rewrites_strings :
    oldInit "[\"a[1]\",\"b}c\"]".toList = "{\"a{1,}\",\"b,}c\",}".toList ∧
    render (.arr [.str "a[1]".toList, .str "b}c".toList]) = "{\"a[1]\",\"b}c\",}".toList := by
  decide

end Gs.Text.Init
