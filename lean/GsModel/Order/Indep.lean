import GsModel.Base.Outcome
/-
  C07 — iteration-order independence, generic part.
  A Go map is an association list with distinct keys; one execution of `for k, v := range m` visits SOME permutation of it.
  A loop is order-independent when its result is the same for every permutation.
-/
namespace Gs.Order
open List

/-- collect-then-sort: whatever the visiting order, sorting the collected items gives one list.  `le` must be a total
    preorder that is antisymmetric ON THE ITEMS COLLECTED (e.g. a key order over items with distinct keys). -/
theorem sort_indep {α} (le : α → α → Bool)
    (trans : ∀ a b c, le a b → le b c → le a c) (total : ∀ a b, le a b || le b a)
    {l₁ l₂ : List α} (h : l₁ ~ l₂)
    (anti : ∀ a b, a ∈ l₁ → b ∈ l₁ → le a b → le b a → a = b) :
    mergeSort l₁ le = mergeSort l₂ le := by
  apply Perm.eq_of_pairwise (le := fun a b => le a b = true)
  · intro a b ha hb hab hba
    have ha' : a ∈ l₁ := (mergeSort_perm l₁ le).mem_iff.mp ha
    have hb' : b ∈ l₁ := h.mem_iff.mpr ((mergeSort_perm l₂ le).mem_iff.mp hb)
    exact anti a b ha' hb' hab hba
  · exact pairwise_mergeSort trans total l₁
  · exact pairwise_mergeSort trans total l₂
  · exact ((mergeSort_perm l₁ le).trans h).trans (mergeSort_perm l₂ le).symm

/-- the loop shape `for k, v := range m { out = append(out, f(k, v)) }; sort(out)` -/
theorem collect_sort_indep {κ β α} (f : κ × β → α) (le : α → α → Bool)
    (trans : ∀ a b c, le a b → le b c → le a c) (total : ∀ a b, le a b || le b a)
    {m₁ m₂ : List (κ × β)} (h : m₁ ~ m₂)
    (anti : ∀ a b, a ∈ m₁.map f → b ∈ m₁.map f → le a b → le b a → a = b) :
    mergeSort (m₁.map f) le = mergeSort (m₂.map f) le :=
  sort_indep le trans total (h.map f) anti

/-- sort.Strings -/
def leStr (a b : String) : Bool := decide (a ≤ b)

theorem leStr_trans (a b c : String) : leStr a b → leStr b c → leStr a c := by
  simp only [leStr, decide_eq_true_eq]; exact String.le_trans
theorem leStr_total (a b : String) : leStr a b || leStr b a := by
  simp only [leStr, Bool.or_eq_true, decide_eq_true_eq]; exact String.le_total a b
theorem leStr_anti (a b : String) : leStr a b → leStr b a → a = b := by
  simp only [leStr, decide_eq_true_eq]; exact String.le_antisymm

/-- `for k := range m { keys = append(keys, k) }; sort.Strings(keys)` does not depend on the visiting order -/
theorem keys_sorted_indep {β} {m₁ m₂ : List (String × β)} (h : m₁ ~ m₂) :
    mergeSort (m₁.map (·.1)) leStr = mergeSort (m₂.map (·.1)) leStr :=
  collect_sort_indep (·.1) leStr leStr_trans leStr_total h (fun a b _ _ => leStr_anti a b)

/-- existential loops (`for _, v := range m { if p v { found = true; break } }`) -/
theorem any_indep {α} (p : α → Bool) {l₁ l₂ : List α} (h : l₁ ~ l₂) : l₁.any p = l₂.any p := by
  induction h with
  | nil => rfl
  | cons x _ ih => simp [ih]
  | swap x y l => simp only [List.any_cons]; cases p x <;> cases p y <;> rfl
  | trans _ _ ih₁ ih₂ => exact ih₁.trans ih₂

/-- commutative folds (counters, or-ed flags) -/
theorem count_indep {α} (p : α → Bool) {l₁ l₂ : List α} (h : l₁ ~ l₂) : l₁.countP p = l₂.countP p := h.countP_eq p

/-- map / set writes: one write per visited entry into another map (a map as a function from keys).  With distinct
    source keys, what ends up under every key does not depend on the visiting order. -/
def put {β} (m : String → Option β) (kv : String × β) : String → Option β := fun k => if k = kv.1 then some kv.2 else m k

def writeAll {β} (dst : String → Option β) (src : List (String × β)) : String → Option β := src.foldl put dst

theorem put_comm {β} (m : String → Option β) (x y : String × β) (h : x.1 = y.1 → x = y) : put (put m x) y = put (put m y) x := by
  funext k
  unfold put
  by_cases hxy : x.1 = y.1
  · rw [h hxy]
  · by_cases hx : k = x.1
    · have hy : ¬ k = y.1 := fun e => hxy (hx.symm.trans e)
      simp [hx, hxy]
    · by_cases hy : k = y.1
      · have : ¬ y.1 = x.1 := fun e => hxy e.symm
        simp [hy, this]
      · simp [hx, hy]

theorem writeAll_indep {β} (dst : String → Option β) {m₁ m₂ : List (String × β)} (h : m₁ ~ m₂)
    (distinct : ∀ x ∈ m₁, ∀ y ∈ m₁, x.1 = y.1 → x = y) : writeAll dst m₁ = writeAll dst m₂ :=
  h.foldl_eq' (fun x hx y hy z => put_comm z x y (distinct x hx y hy)) dst

end Gs.Order
