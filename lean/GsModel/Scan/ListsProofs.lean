import GsModel.Scan.Lists
/-
  Lemma library for `Scan/Lists.lean` (helper lemmas only; the property theorems are in `Props/C17.lean`).
-/
namespace Gs.Scan

theorem splitOn_ne_nil (p : Char → Bool) (s : Str) : splitOn p s ≠ [] := by
  induction s with
  | nil => simp [splitOn]
  | cons c r ih =>
    unfold splitOn
    split
    · simp
    · split <;> simp

theorem splitOn_free (p : Char → Bool) (t : Str) (h : ∀ c ∈ t, p c = false) : splitOn p t = [t] := by
  induction t with
  | nil => simp [splitOn]
  | cons c r ih =>
    have hc : p c = false := h c (by simp)
    have hr := ih (fun x hx => h x (by simp [hx]))
    unfold splitOn
    simp [hc, hr]

theorem splitOn_append (p : Char → Bool) (t : Str) (c : Char) (r : Str) (h : ∀ x ∈ t, p x = false) (hc : p c = true) :
    splitOn p (t ++ c :: r) = t :: splitOn p r := by
  induction t with
  | nil => simp [splitOn, hc]
  | cons d t ih =>
    have hd : p d = false := h d (by simp)
    have := ih (fun x hx => h x (by simp [hx]))
    simp only [List.cons_append]
    conv => lhs; unfold splitOn
    simp [hd, this]

theorem splitOn_items_free (p : Char → Bool) (s : Str) : ∀ t ∈ splitOn p s, ∀ c ∈ t, p c = false := by
  induction s with
  | nil => simp [splitOn]
  | cons c r ih =>
    unfold splitOn
    split
    · intro t ht
      simp only [List.mem_cons] at ht
      rcases ht with rfl | ht
      · simp
      · exact ih t ht
    · rename_i hc
      split
      · intro t ht; simp at ht; subst ht; simpa using hc
      · rename_i t0 ts heq
        intro t ht
        simp only [List.mem_cons] at ht
        rcases ht with rfl | ht
        · intro x hx
          simp only [List.mem_cons] at hx
          rcases hx with rfl | hx
          · simpa using hc
          · exact ih t0 (by simp [heq]) x hx
        · exact ih t (by simp [heq, ht])

/-- nothing is lost by the split: the pieces joined by the separator are the input -/
theorem splitOn_join (sep : Char) (s : Str) : [sep].intercalate (splitOn (· = sep) s) = s := by
  induction s with
  | nil => simp [splitOn, List.intercalate]
  | cons c r ih =>
    unfold splitOn
    split
    · rename_i hc
      have : c = sep := by simpa using hc
      subst this
      have hne := splitOn_ne_nil (fun x => decide (x = c)) r
      cases hsp : splitOn (fun x => decide (x = c)) r with
      | nil => exact absurd hsp hne
      | cons a as =>
        rw [hsp] at ih
        cases as <;> simp_all [List.intercalate, List.intersperse]
    · split
      · rename_i heq; exact absurd heq (splitOn_ne_nil _ r)
      · rename_i t0 ts heq
        rw [heq] at ih
        cases ts <;> simp_all [List.intercalate, List.intersperse]

theorem dropWhile_all_append (sp : Char → Bool) (a s : Str) (h : ∀ c ∈ a, sp c = true) :
    (a ++ s).dropWhile sp = s.dropWhile sp := by
  induction a with
  | nil => rfl
  | cons c r ih =>
    have hc := h c (by simp)
    simp [hc, ih (fun x hx => h x (by simp [hx]))]

theorem dropWhile_all (sp : Char → Bool) (a : Str) (h : ∀ c ∈ a, sp c = true) : a.dropWhile sp = [] := by
  have := dropWhile_all_append sp a [] h
  simpa using this

theorem dropWhile_free_head (sp : Char → Bool) (t s : Str) (ht : t ≠ []) (h : ∀ c ∈ t, sp c = false) :
    (t ++ s).dropWhile sp = t ++ s := by
  cases t with
  | nil => exact absurd rfl ht
  | cons c r => simp [h c (by simp)]

/-- blanks around a blank-free token are trimmed away, and nothing else -/
theorem trim_padded (sp : Char → Bool) (a t b : Str) (ha : ∀ c ∈ a, sp c = true) (hb : ∀ c ∈ b, sp c = true)
    (ht : ∀ c ∈ t, sp c = false) : trim sp (a ++ t ++ b) = t := by
  unfold trim
  rw [List.append_assoc, dropWhile_all_append sp a _ ha]
  by_cases hte : t = []
  · subst hte
    simp [dropWhile_all sp b hb]
  · rw [dropWhile_free_head sp t b hte ht, List.reverse_append,
      dropWhile_all_append sp b.reverse _ (fun c hc => hb c (by simpa using hc))]
    have hr : t.reverse ≠ [] := by simpa using hte
    have := dropWhile_free_head sp t.reverse [] hr (fun c hc => ht c (by simpa using hc))
    simp only [List.append_nil] at this
    rw [this, List.reverse_reverse]

theorem splitOn_intercalate (sep : Char) (pieces : List Str) (hne : pieces ≠ [])
    (h : ∀ t ∈ pieces, ∀ c ∈ t, c ≠ sep) : splitOn (· = sep) ([sep].intercalate pieces) = pieces := by
  induction pieces with
  | nil => exact absurd rfl hne
  | cons t rest ih =>
    have ht : ∀ x ∈ t, (fun c => decide (c = sep)) x = false := fun x hx => by simpa using h t (by simp) x hx
    cases rest with
    | nil => simpa [List.intercalate, List.intersperse] using splitOn_free _ t ht
    | cons u us =>
      have hrec := ih (by simp) (fun t' ht' => h t' (by simp [ht']))
      have : [sep].intercalate (t :: u :: us) = t ++ sep :: [sep].intercalate (u :: us) := by
        simp [List.intercalate, List.intersperse]
      rw [this, splitOn_append _ t sep _ ht (by simp), hrec]

theorem fields_pad (sp : Char → Bool) (pad s : Str) (h : ∀ c ∈ pad, sp c = true) :
    fields sp (pad ++ s) = fields sp s := by
  induction pad with
  | nil => rfl
  | cons c r ih =>
    have hc := h c (by simp)
    have := ih (fun x hx => h x (by simp [hx]))
    simp only [List.cons_append]
    unfold fields at *
    conv => lhs; unfold splitOn
    simp [hc, this]

theorem fields_nil (sp : Char → Bool) : fields sp [] = [] := by simp [fields, splitOn]

theorem fields_tok_end (sp : Char → Bool) (t : Str) (hne : t ≠ []) (h : ∀ c ∈ t, sp c = false) :
    fields sp t = [t] := by
  unfold fields
  rw [splitOn_free sp t h]
  cases t with
  | nil => exact absurd rfl hne
  | cons c r => simp

theorem fields_tok (sp : Char → Bool) (t : Str) (c : Char) (r : Str) (hne : t ≠ []) (h : ∀ x ∈ t, sp x = false)
    (hc : sp c = true) : fields sp (t ++ c :: r) = t :: fields sp (c :: r) := by
  have h2 : fields sp (c :: r) = fields sp r := fields_pad sp [c] r (by simpa using hc)
  rw [h2]
  unfold fields
  rw [splitOn_append sp t c r h hc]
  cases t with
  | nil => exact absurd rfl hne
  | cons d ds => simp

end Gs.Scan
