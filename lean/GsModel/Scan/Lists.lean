/-
  C17 — the two list-valued annotations of the scanner whose items are cut out of ONE captured group:

  * `Schemes: http, https` — `setSchemes.Parse` (codescan/parser.go): `strings.Split(capture, ",")`, every item
    `strings.TrimSpace`d, empty items dropped                                                     → `schemesOf`
  * the tag list of a `swagger:route` / `swagger:operation` line — `parsePathAnnotation` (codescan/operations.go):
    `strings.Fields(capture)`                                                                      → `fields`

  Both are functions of the captured group alone (the regular expression that cuts the group out is NOT modelled; the
  correspondence run hands the group the real regexp captured to the model).  The blank predicate `sp` is a parameter:
  the theorems hold for every predicate (Go's is `unicode.IsSpace`; the driver instantiates it with `goIsSpace`).
  The rule BEFORE the repair (`Split(capture, ", ")`) is modelled too, for the counterexample.
-/
namespace Gs.Scan

abbrev Str := List Char

/-- `strings.Split(s, sep)` for a one-character separator class `p` -/
def splitOn (p : Char → Bool) : Str → List Str
  | [] => [[]]
  | c :: r =>
    if p c then [] :: splitOn p r
    else match splitOn p r with
      | [] => [[c]]
      | t :: ts => (c :: t) :: ts

/-- `strings.TrimSpace` under the blank predicate `sp` -/
def trim (sp : Char → Bool) (s : Str) : Str :=
  ((s.dropWhile sp).reverse.dropWhile sp).reverse

/-- `setSchemes.Parse` after the regexp: split on commas, trim, drop empty items -/
def schemesOf (sp : Char → Bool) (s : Str) : List Str :=
  ((splitOn (· = ',') s).map (trim sp)).filter (fun t => !t.isEmpty)

/-- `strings.Fields` -/
def fields (sp : Char → Bool) (s : Str) : List Str :=
  (splitOn sp s).filter (fun t => !t.isEmpty)

/-- `strings.Split(s, ", ")` — the separator of the code before the repair -/
def splitCommaSpace : Str → List Str
  | [] => [[]]
  | c :: r =>
    if c = ',' ∧ r.head? = some ' ' then [] :: splitCommaSpace (r.drop 1)
    else match splitCommaSpace r with
      | [] => [[c]]
      | t :: ts => (c :: t) :: ts
termination_by s => s.length
decreasing_by all_goals (simp only [List.length_drop, List.length_cons]; omega)

def schemesOld (sp : Char → Bool) (s : Str) : List Str :=
  ((splitCommaSpace s).map (trim sp)).filter (fun t => !t.isEmpty)

/-- Go's `unicode.IsSpace` (White_Space property, Latin-1 fast path included) -/
def goIsSpace (c : Char) : Bool :=
  let n := c.toNat
  n = 0x20 || (0x09 ≤ n && n ≤ 0x0d) || n = 0x85 || n = 0xa0 || n = 0x1680 || (0x2000 ≤ n && n ≤ 0x200a) ||
  n = 0x2028 || n = 0x2029 || n = 0x202f || n = 0x205f || n = 0x3000

end Gs.Scan
