import GsModel.Schema.Valid
/-
  C16 — Go model types, the schema the scanner builds for them (`schemaBuilder.buildFromType` / `buildFromStruct`) and the
  JSON that encoding/json produces for their values.
-/
namespace Gs.Scan
open Gs Gs.Schema

inductive Kind where
  | bool | int | float | str
  deriving DecidableEq, Repr

structure FTag where
  json : String
  omitempty : Bool := false
  asString : Bool := false      -- the `,string` option
  deriving DecidableEq, Repr

inductive GoTy where
  | basic (k : Kind)
  | ptr (t : GoTy)
  | slice (t : GoTy)
  | arr (t : GoTy)
  | map (v : GoTy)                      -- map[string]v
  | strct (fs : List (FTag × GoTy))
  | time                                -- time.Time
  | text                                -- a named type with MarshalText (encoding.TextMarshaler): written as a JSON string
  | bytes                               -- []byte
  | iface                               -- interface{}
  deriving Repr

inductive GoVal where
  | bool (b : Bool) | int (n : Int) | float (milli : Int) | str (s : String)
  | nil
  | ptr (v : GoVal)
  | list (l : List GoVal)               -- slice or array contents
  | map (kvs : List (String × GoVal))
  | strct (vs : List GoVal)             -- field values, in declaration order
  | time (text : String)
  | text (s : String)                   -- the text MarshalText returns
  | bytes (b64 : String)
  | any (j : J)                         -- dynamic content of an interface{}
  deriving Repr

/-- the scanner's schema for a basic kind -/
def kindSchema : Kind → Schema
  | .bool => { ty := "boolean" }
  | .int => { ty := "integer" }
  | .float => { ty := "number" }
  | .str => { ty := "string" }

/-- does the `,string` option of encoding/json apply to this type (strings, numbers, booleans; pointers to them) -/
def stringable : GoTy → Bool
  | .basic _ => true
  | .ptr (.basic _) => true
  | _ => false

/-- `buildFromType`; `strAll`: the scanner types EVERY field carrying `,string` as string (regenerated fact) -/
def schemaOf (strAll : Bool) : Nat → GoTy → Schema
  | 0, _ => {}
  | _+1, .basic k => kindSchema k
  | n+1, .ptr t => schemaOf strAll n t
  | n+1, .slice t => { ty := "array", items := some (schemaOf strAll n t) }
  | n+1, .arr t => { ty := "array", items := some (schemaOf strAll n t) }
  | n+1, .map v => { ty := "object", addl := some (schemaOf strAll n v) }
  | n+1, .strct fs =>
    { ty := "object",
      props := fs.map (fun ft => (ft.1.json,
        if ft.1.asString && (strAll || stringable ft.2) then ({ ty := "string" } : Schema) else schemaOf strAll n ft.2)) }
  | _+1, .time => { ty := "string" }
  | _+1, .text => { ty := "string" }
  | _+1, .bytes => { ty := "string" }     -- format byte (base64)
  | _+1, .iface => {}

def isEmptyVal : GoVal → Bool
  | .bool b => !b
  | .int n => n == 0
  | .float m => m == 0
  | .str s => s == ""
  | .nil => true
  | .list l => l.isEmpty
  | .map kvs => kvs.isEmpty
  | _ => false

def quoteJ : J → J
  | .num m => .str (toString m)    -- the digits as text (content irrelevant to typing)
  | .bool b => .str (toString b)
  | .str s => .str s
  | j => j

/-- encoding/json.Marshal, typed; `none` = the value does not have the type -/
def encode : Nat → GoTy → GoVal → Option J
  | 0, _, _ => none
  | _+1, .basic .bool, .bool b => some (.bool b)
  | _+1, .basic .int, .int n => some (.num (n * 1000))
  | _+1, .basic .float, .float m => some (.num m)
  | _+1, .basic .str, .str s => some (.str s)
  | _+1, .ptr _, .nil => some .null
  | n+1, .ptr t, .ptr v => encode n t v
  | _+1, .slice _, .nil => some .null
  | n+1, .slice t, .list l => (l.mapM (encode n t)).map J.arr
  | n+1, .arr t, .list l => (l.mapM (encode n t)).map J.arr
  | _+1, .map _, .nil => some .null
  | n+1, .map t, .map kvs => (kvs.mapM (fun kv => (encode n t kv.2).map (fun j => (kv.1, j)))).map J.obj
  | n+1, .strct fs, .strct vs =>
    if fs.length ≠ vs.length then none else
    ((fs.zip vs).mapM (fun fv =>
      if fv.1.1.omitempty && isEmptyVal fv.2 then some none
      else (encode n fv.1.2 fv.2).map (fun j => some (fv.1.1.json, if fv.1.1.asString && stringable fv.1.2 then quoteJ j else j)))).map
      (fun l => J.obj (l.filterMap id))
  | _+1, .time, .time s => some (.str s)
  | _+1, .text, .text s => some (.str s)
  | _+1, .bytes, .bytes s => some (.str s)
  | _+1, .bytes, .nil => some .null
  | _+1, .iface, .any j => some j
  | _+1, .iface, .nil => some .null
  | _+1, _, _ => none

/-- strict draft-4 acceptance of the structural part of a schema (types, items, properties, additionalProperties) -/
def accepts : Nat → Schema → J → Bool
  | 0, _, _ => false
  | n+1, s, j =>
    typeOk s.ty j &&
    (match j with
     | .arr l => (match s.items with | some it => l.all (accepts n it) | none => true)
     | .obj kvs =>
       s.props.all (fun kp => match lookup kvs kp.1 with | none => true | some v => accepts n kp.2 v) &&
       (match s.addl with
        | some a => kvs.all (fun kv => (lookup s.props kv.1).isSome || accepts n a kv.2)
        | none => true)
     | _ => true)

/-- no JSON null anywhere -/
def noNull : Nat → J → Bool
  | 0, _ => false
  | _+1, .null => false
  | n+1, .arr l => l.all (noNull n)
  | n+1, .obj kvs => kvs.all (fun kv => noNull n kv.2)
  | _+1, _ => true

end Gs.Scan
