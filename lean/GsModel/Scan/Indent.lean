import GsModel.Base.Outcome
/-
  C17 — `removeIndent` of the scanner (codescan/parser.go): strips the indentation of the first line from every line of the
  YAML body of a swagger:operation.  Lines are ASCII here (Go slices bytes; the correspondence run feeds ASCII).
  `rxIndent = [\p{Zs}\t]*/*[\p{Zs}\t]*[^\p{Zs}\t]`, `rxNotIndent = [^\p{Zs}\t]`; FindStringIndex returns nil when nothing matches,
  and indexing nil panics: that is the crash the guard of the current code prevents.
-/
namespace Gs.Scan
open Gs

abbrev Line := List Char

def isSp (c : Char) : Bool := c = ' ' || c = '\t'

/-- end offset of the leftmost-first match of rxIndent (the match, when there is one, starts at 0) -/
def indentEnd (s : Line) : Option Nat :=
  let a := (s.takeWhile isSp).length
  match s.dropWhile isSp with
  | [] => none
  | c :: r1 =>
    if c ≠ '/' then some (a + 1) else
    let b := ((c :: r1).takeWhile (· = '/')).length
    let r2 := (c :: r1).dropWhile (· = '/')
    let c2 := (r2.takeWhile isSp).length
    if r2.dropWhile isSp = [] then some (a + b) else some (a + b + c2 + 1)

/-- end offset of the first match of rxNotIndent -/
def notIndentEnd (s : Line) : Option Nat :=
  match s.dropWhile isSp with
  | [] => none
  | _ => some ((s.takeWhile isSp).length + 1)

/-- strings.Replace(s, "\t", "  ", n) -/
def replaceTabs : Nat → Line → Line
  | 0, s => s
  | _, [] => []
  | n+1, c :: r => if c = '\t' then ' ' :: ' ' :: replaceTabs n r else c :: replaceTabs (n+1) r

def mapO {α β} (f : α → Outcome β) : List α → Outcome (List β)
  | [] => .ok []
  | x :: xs =>
    match f x with
    | .ok y => (match mapO f xs with | .ok ys => .ok (y :: ys) | .panic w => .panic w | .fuel => .fuel)
    | .panic w => .panic w
    | .fuel => .fuel

def fixLine (e : Nat) (l : Line) : Outcome Line :=
  if l.length ≥ e then
    let cut := l.drop (e - 1)
    match notIndentEnd cut with
    | none => .ok cut                 -- guarded: `len(start) < 2`
    | some st => .ok (replaceTabs st cut)
  else .ok l

/-- the current code -/
def removeIndent (spec : List Line) : Outcome (List Line) :=
  match spec with
  | [] => .ok []
  | first :: _ =>
    match indentEnd first with
    | none => .ok spec
    | some 0 => .ok spec
    | some e => mapO (fixLine e) spec

/-- the code before the guard: indexing the nil result of FindStringIndex panics -/
def removeIndentUnguarded (spec : List Line) : Outcome (List Line) :=
  match spec with
  | [] => .panic "index out of range [0] with length 0"
  | first :: _ =>
    match indentEnd first with
    | none => .panic "index out of range [1] with length 0"
    | some 0 => .ok spec
    | some e => mapO (fun l =>
        if l.length ≥ e then
          let cut := l.drop (e - 1)
          match notIndentEnd cut with
          | none => .panic "index out of range [1] with length 0"
          | some st => .ok (replaceTabs st cut)
        else .ok l) spec

end Gs.Scan
