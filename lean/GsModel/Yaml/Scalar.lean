/-
  C19 — how a string scalar (value or key) travels through the YAML writers of the spec-emitting commands and back through
  the reader (`swag.YAMLDoc` → yaml.v3 parser → `swag.yamlScalar`).
  The plain-scalar resolution of yaml.v3 (`resolve`: null / bool / int / float / timestamp spellings) is a PARAMETER of the
  model: the argument below is that writer and reader consult the same function, not what the function answers.
-/
namespace Gs.Yaml

abbrev Str := List Char

inductive Tag where
  | str | null | bool | int | float | timestamp | merge
  deriving DecidableEq, Repr

inductive Style where
  | plain | quoted | literal
  deriving DecidableEq, Repr

/-- what a document holds after reading a scalar -/
inductive Read where
  | str (s : Str)
  | other (t : Tag) (s : Str)   -- a non-string value (null, number, bool, timestamp)
  | unreadable                  -- the reader rejects the document (`!!merge is not supported`)
  deriving DecidableEq, Repr

structure Emitter where
  /-- yaml.v3 `resolve("", s)` -/
  resolve : Str → Tag
  /-- lexical reasons for which the low-level emitter refuses the plain style (leading / trailing blank, `: `, ` #`,
      leading indicator, empty string …): only ever ADDS quotes -/
  lexical : Str → Bool

/-- write path 1 (`writeToFile`: JSONMapSlice.MarshalYAML → node encoder): strings and all keys are `!!str` nodes; the node
    encoder drops the tag and prints plain when `resolve` gives `!!str` too, else forces quotes -/
def writeNode (e : Emitter) (s : Str) : Style × Str :=
  if s.contains '\n' then (.literal, s)
  else if e.resolve s ≠ .str || e.lexical s then (.quoted, s)
  else (.plain, s)

/-- write path 2 (`generate spec`: value encoder `stringv`): quote iff resolve ≠ !!str, or the extra YAML 1.1 tests -/
def writeValue (e : Emitter) (extra : Str → Bool) (s : Str) : Style × Str :=
  if s.contains '\n' then (.literal, s)
  else if e.resolve s ≠ .str || extra s || e.lexical s then (.quoted, s)
  else (.plain, s)

/-- the reader: the yaml.v3 PARSER tags a plain `<<` as !!merge before any resolution; other plain scalars are resolved;
    quoted and block scalars are strings -/
def readBack (e : Emitter) (w : Style × Str) : Read :=
  match w.1 with
  | .plain =>
    if w.2 = ['<', '<'] then .unreadable
    else if e.resolve w.2 = .str then .str w.2 else .other (e.resolve w.2) w.2
  | _ => .str w.2

end Gs.Yaml
