import GsModel.Base.Outcome
/-
  C02 / C05 — JSON values, the Swagger 2.0 schema subset of generated models, its validity semantics (`valid`, draft 4
  as implemented by the reference validator), the same semantics with the documented relaxation applied everywhere it may
  be (`validSkip`), and the tolerated differences of a decode/encode round trip (`tolerated`).
-/
namespace Gs.Schema
open Gs

/-- JSON values; numbers are exact decimals scaled by 1000 -/
inductive J where
  | null
  | bool (b : Bool)
  | num (milli : Int)
  | str (s : String)
  | arr (l : List J)
  | obj (kvs : List (String × J))
  deriving Repr, Inhabited

/-- structural equality of JSON values (object member order is irrelevant: members are compared by key) -/
def J.beq : Nat → J → J → Bool
  | 0, _, _ => false
  | _+1, .null, .null => true
  | _+1, .bool a, .bool b => a == b
  | _+1, .num a, .num b => a == b
  | _+1, .str a, .str b => a == b
  | n+1, .arr a, .arr b => a.length == b.length && (a.zip b).all (fun p => J.beq n p.1 p.2)
  | n+1, .obj a, .obj b =>
    a.length == b.length && a.all (fun kv => match lookup b kv.1 with | some v => J.beq n kv.2 v | none => false)
  | _+1, _, _ => false

structure Schema where
  ref : String := ""
  ty : String := ""                 -- "", string, integer, number, boolean, array, object
  nullable : Bool := false          -- x-nullable
  readOnly : Bool := false
  hasDefault : Bool := false
  minLen : Option Nat := none
  maxLen : Option Nat := none
  minimum : Option Int := none      -- scaled by 1000
  exMin : Bool := false
  maximum : Option Int := none
  exMax : Bool := false
  multipleOf : Option Int := none   -- scaled by 1000, > 0
  enum : List J := []
  items : Option Schema := none
  minItems : Option Nat := none
  maxItems : Option Nat := none
  unique : Bool := false
  minProps : Option Nat := none
  maxProps : Option Nat := none
  props : List (String × Schema) := []
  required : List String := []
  addl : Option Schema := none      -- additionalProperties: schema (true/absent: none, anything goes)
  allOf : List Schema := []
  deriving Repr, Inhabited

abbrev Defs := List (String × Schema)

def typeOk (ty : String) : J → Bool
  | .null => ty = ""
  | .bool _ => ty = "" || ty = "boolean"
  | .num m => ty = "" || ty = "number" || (ty = "integer" && m % 1000 == 0)
  | .str _ => ty = "" || ty = "string"
  | .arr _ => ty = "" || ty = "array"
  | .obj _ => ty = "" || ty = "object"

def allDistinct (n : Nat) : List J → Bool
  | [] => true
  | x :: xs => !(xs.any (fun y => J.beq n x y)) && allDistinct n xs

/-- the zero value of a JSON scalar: "", 0, false -/
def isZero : J → Bool
  | .str s => s = ""
  | .num m => m == 0
  | .bool b => !b
  | _ => false

/-- the scalar / container checks of one schema node that do not recurse -/
def localOk (n : Nat) (s : Schema) (j : J) : Bool :=
  typeOk s.ty j &&
  (s.enum.isEmpty || s.enum.any (fun e => J.beq n e j)) &&
  (match j with
   | .str x =>
     (match s.minLen with | some k => decide (k ≤ x.length) | none => true) &&
     (match s.maxLen with | some k => decide (x.length ≤ k) | none => true)
   | .num m =>
     (match s.minimum with | some k => if s.exMin then decide (k < m) else decide (k ≤ m) | none => true) &&
     (match s.maximum with | some k => if s.exMax then decide (m < k) else decide (m ≤ k) | none => true) &&
     (match s.multipleOf with | some k => k > 0 && m % k == 0 | none => true)
   | .arr l =>
     (match s.minItems with | some k => decide (k ≤ l.length) | none => true) &&
     (match s.maxItems with | some k => decide (l.length ≤ k) | none => true) &&
     (!s.unique || allDistinct n l)
   | _ => true)

/-- required properties of an object: present, and (relaxed reading) not a zero value that the generated code cannot tell
    from "missing" (read-only or defaulted properties are not pointers) -/
def reqOk (skip : Bool) (s : Schema) (kvs : List (String × J)) : Bool :=
  s.required.all (fun r =>
    match lookup kvs r with
    | none => false
    | some v =>
      -- JSON null stands for "unset" (documented limitation): a required property given as null is missing
      !(match v with | .null => true | _ => false) &&
      (if skip then
        (match lookup s.props r with
         | some ps => !(isZero v && (ps.readOnly || ps.hasDefault))
         | none => true)
      else true))

/-- declared properties that are present (JSON null of an optional property counts as absent; relaxed reading: so does an
    explicit zero value of an optional property) -/
def propsOk (skip : Bool) (rec : Schema → J → Bool) (s : Schema) (kvs : List (String × J)) : Bool :=
  s.props.all (fun kp =>
    match lookup kvs kp.1 with
    | none => true
    | some v =>
      let req := s.required.contains kp.1
      if !req && (match v with | .null => true | _ => false) then true
      else if skip && !req && isZero v then true
      else rec kp.2 v)

def addlOk (rec : Schema → J → Bool) (s : Schema) (kvs : List (String × J)) : Bool :=
  match s.addl with
  | some a => kvs.all (fun kv => (lookup s.props kv.1).isSome || (match kv.2 with | .null => true | _ => false) || rec a kv.2)
  | none => true

/-- minProperties / maxProperties.  A JSON null of an optional declared property counts as "absent" (the null reading, in both
    semantics); under the relaxed reading so does its explicit zero value — the generated validator counts the members of
    the re-marshalled struct, from which omitempty has removed them. -/
def countedMembers (skip : Bool) (s : Schema) (kvs : List (String × J)) : Nat :=
  (kvs.filter (fun kv =>
    !(((lookup s.props kv.1).isSome && !s.required.contains kv.1) &&
      ((match kv.2 with | .null => true | _ => false) || (skip && isZero kv.2))))).length

def countOk (skip : Bool) (s : Schema) (kvs : List (String × J)) : Bool :=
  (match s.minProps with | some k => decide (k ≤ countedMembers skip s kvs) | none => true) &&
  (match s.maxProps with | some k => decide (countedMembers skip s kvs ≤ k) | none => true)

/-- How the documented relaxation is applied.  `ref`: nowhere (the reference semantics).  `relaxed`: everywhere it may be.
    The relaxation is a per-site affair in generated code (it depends on whether a member is a pointer), so a generated
    validator may apply it at some sites and not at others: `any` takes, at every site, whichever reading accepts, `all`
    whichever rejects — every admissible validator lies between the two. -/
inductive Mode where
  | ref | relaxed | any | all
  deriving DecidableEq, Repr

/-- a required read-only / defaulted member holding its zero value counts as missing -/
def Mode.rq : Mode → Bool
  | .relaxed => true | .all => true | _ => false
/-- an optional member holding its zero value is not validated -/
def Mode.pr : Mode → Bool
  | .relaxed => true | .any => true | _ => false

def countOkM (m : Mode) (s : Schema) (kvs : List (String × J)) : Bool :=
  match m with
  | .ref => countOk false s kvs
  | .relaxed => countOk true s kvs
  | .any => countOk false s kvs || countOk true s kvs
  | .all => countOk false s kvs && countOk true s kvs

/-- Validity under a reading of the documented relaxation: an explicit zero value of an optional property is treated as if
    the property were absent, and so is the zero value of a required property that is read-only or has a default (then the
    property counts as missing). -/
def validG (skip : Mode) (d : Defs) : Nat → Schema → J → Bool
  | 0, _, _ => false
  | n+1, s, j =>
    if s.ref ≠ "" then
      match lookup d s.ref with
      | some t => validG skip d n t j
      | none => false
    else
    match j with
    | .null => s.nullable || s.ty = ""
    | .arr l =>
      localOk n s j && s.allOf.all (fun a => validG skip d n a j) &&
      (match s.items with | some it => l.all (fun x => validG skip d n it x) | none => true)
    | .obj kvs =>
      localOk n s j && s.allOf.all (fun a => validG skip d n a j) &&
      reqOk skip.rq s kvs && propsOk skip.pr (validG skip d n) s kvs && addlOk (validG skip d n) s kvs && countOkM skip s kvs
    | _ => localOk n s j && s.allOf.all (fun a => validG skip d n a j)

abbrev valid := validG .ref
abbrev validSkip := validG .relaxed
/-- accepted under SOME per-site choice of readings / under EVERY choice -/
abbrev validAny := validG .any
abbrev validAll := validG .all

/-- no declared property of any object of the instance holds an explicit zero value (the only places where the two
    semantics may differ) -/
def noZeroProps : Nat → J → Bool
  | 0, _ => false
  | n+1, .arr l => l.all (noZeroProps n)
  | n+1, .obj kvs => kvs.all (fun kv => !isZero kv.2 && noZeroProps n kv.2)
  | _+1, _ => true

end Gs.Schema

namespace Gs.Schema
open Gs

def isNull : J → Bool
  | .null => true
  | _ => false

/-- resolve a chain of `$ref`s (bounded) -/
def deref (d : Defs) : Nat → Schema → Schema
  | 0, s => s
  | n+1, s => if s.ref ≠ "" then (match lookup d s.ref with | some t => deref d n t | none => s) else s

/-- declared properties of an object schema including those of its allOf members -/
def allProps (d : Defs) : Nat → Schema → List (String × Schema)
  | 0, _ => []
  | n+1, s =>
    let s := deref d n s
    s.props ++ s.allOf.flatMap (fun a => allProps d n a)

def allRequired (d : Defs) : Nat → Schema → List String
  | 0, _ => []
  | n+1, s =>
    let s := deref d n s
    s.required ++ s.allOf.flatMap (fun a => allRequired d n a)

def hasAddl (d : Defs) : Nat → Schema → Bool
  | 0, _ => false
  | n+1, s =>
    let s := deref d n s
    s.addl.isSome || s.ty = "" && s.props.isEmpty && s.allOf.isEmpty || s.allOf.any (fun a => hasAddl d n a)

/-- C05: `j'` (decode then encode of `j`) differs from `j` only in the documented ways: an optional property holding a zero
    value (or null) may be omitted, an absent array-typed property may come back as null, undeclared properties are dropped
    where the schema has no additionalProperties; required properties are never omitted; nothing else is added or changed. -/
def tolerated (d : Defs) : Nat → Schema → J → J → Bool
  | 0, _, _, _ => false
  | n+1, s0, j, j' =>
    let s := deref d n s0
    match j, j' with
    | .arr l, .arr l' =>
      l.length == l'.length &&
      (l.zip l').all (fun p => match s.items with | some it => tolerated d n it p.1 p.2 | none => J.beq n p.1 p.2)
    | .obj kvs, .obj kvs' =>
      let props := allProps d n s
      let req := allRequired d n s
      let open_ := hasAddl d n s
      -- every member of the input is kept (and tolerated) or dropped for a documented reason
      kvs.all (fun kv =>
        match lookup kvs' kv.1 with
        | some v' =>
          (match lookup props kv.1 with
           | some ps => tolerated d n ps kv.2 v' || (isNull kv.2 && isNull v')
           | none => (match s.addl with | some a => tolerated d n a kv.2 v' | none => J.beq n kv.2 v'))
        | none =>
          (match lookup props kv.1 with
           | some _ => !req.contains kv.1 && (isZero kv.2 || isNull kv.2)
           | none => !open_)) &&
      -- nothing is added, except null for an absent array-typed (or nullable) declared property
      kvs'.all (fun kv' =>
        (lookup kvs kv'.1).isSome ||
        (match lookup props kv'.1 with
         | some ps => isNull kv'.2 && ((deref d n ps).ty = "array" || !req.contains kv'.1)
         | none => false))
    | a, b => J.beq n a b

end Gs.Schema
