import GsModel.Params.Bind
/-
  C04 — the client side of a parameter (`WriteToRequest` of client/parameter.gotmpl) and the response dispatch of the
  generated client (`ReadResponse` of client/response.gotmpl + the method of client/client.gotmpl).
-/
namespace Gs.Pair
open Gs.Params

/-- the text a value is sent as: strings as they are, integers in decimal (swag.FormatInt64), booleans true/false -/
def fmtVal : Val → Str
  | .s x => x.toList
  | .i n => (toString n).toList
  | .b true => "true".toList
  | .b false => "false".toList

/-- what the generated client puts on the wire for a parameter: `none` = the parameter is left out -/
def encodeGen (p : PSpec) (v : Bound) : Option (List Str) :=
  match v with
  | .absent => none
  | .reject => none
  | .one x => some [fmtVal x]
  | .many xs =>
    if xs = [] then none else
    if p.cf = "multi" then some (xs.map fmtVal) else (joinByFormat p.cf (xs.map fmtVal)).map (fun j => [j])

/-- an item survives a collectionFormat: not empty, no surrounding blanks, free of the separator -/
def cleanFor (sep : Char) (s : Str) : Bool := s ≠ [] && trimSpace s = s && !s.contains sep

/-! ### response dispatch -/

inductive Kind where
  | success (code : Nat)        -- typed result of a declared 2xx code
  | typedError (code : Nat)     -- typed error of a declared non-2xx code
  | defaultSuccess (code : Nat) -- the default response, returned as a result / wrapped in an APIError by the method (2xx)
  | defaultError (code : Nat)   -- the default response as typed error carrying the code
  | apiError (code : Nat)       -- generic runtime.APIError carrying the code
  deriving DecidableEq, Repr

/-- ReadResponse: `switch response.Code() { case <declared>: … default: … }` -/
def readResp (declared : List Nat) (hasDefault : Bool) (code : Nat) : Kind :=
  if declared.contains code then
    (if code / 100 = 2 then .success code else .typedError code)
  else if hasDefault then
    (if code / 100 = 2 then .defaultSuccess code else .defaultError code)
  else .apiError code

end Gs.Pair
