/-
  C01 — `renameTimeout` (generator/operation.go): the name of the client's private timeout field is changed until it does not
  collide (case-insensitively) with the Go name of any parameter of the operation.
  `seen` = the lower-cased Go names of the parameters (`seenIDs` keys).
-/
namespace Gs.Names

abbrev Nm := List Char

def lowerN (s : Nm) : Nm := s.map Char.toLower

/-- the fixed part of the chain -/
def nextFixed (current : Nm) : Option Nm :=
  if current = "timeout".toList then some "requestTimeout".toList
  else if current = "requesttimeout".toList then some "httpRequestTimeout".toList
  else if current = "httprequesttimeout".toList then some "swaggerTimeout".toList
  else if current = "swaggertimeout".toList then some "operationTimeout".toList
  else if current = "operationtimeout".toList then some "opTimeout".toList
  else if current = "optimeout".toList then some "operTimeout".toList
  else none

/-- `renameTimeout(seenIDs, timeoutName)`; the recursion of the Go code is unbounded, the fuel makes that explicit -/
def renameTimeout (seen : List Nm) : Nat → Nm → Option Nm
  | 0, name => if seen.contains (lowerN name) then none else some name
  | fuel+1, name =>
    if seen.contains (lowerN name) then
      match nextFixed (lowerN name) with
      | some nx => renameTimeout seen fuel nx
      | none => renameTimeout seen fuel (name ++ ['1'])
    else some name

def maxLen : List Nm → Nat
  | [] => 0
  | x :: r => max x.length (maxLen r)

end Gs.Names
