import GsModel.Gen.LangTables
/-
  C01 — the name manglers of generator/language.go, over the regenerated tables.
  A file name is modelled as its list of `_`-separated segments (what `fileNameFunc` works on after
  `strings.Split(swag.ToFileName(name), "_")`); `swag.ToFileName` / `swag.ToVarName` themselves (the pinned dependency) are
  inputs: the correspondence check passes their real results in.
-/
namespace Gs.Names
open Gs.Gen

/-- LanguageOpts.MangleVarName after swag.ToVarName: a reserved word gets the suffix `Var` -/
def mangleVar (nm : String) : String := if reservedWords.contains nm then nm ++ "Var" else nm

/-- GoLangOpts.fileNameFunc on the segments of swag.ToFileName(name) -/
def mangleFileSegs (segs : List String) : List String :=
  match segs.getLast? with
  | some l => if suffixTable.contains l then segs ++ [appendedSuffix] else segs
  | none => segs

/-- what `go build` looks at: the last segment, and the one before it when the last one names an architecture or OS
    (`name_GOOS_GOARCH.go`); a file is subject to a file-name constraint iff its last segment is a token and it is not the
    only segment -/
def constrained (segs : List String) : Bool :=
  match segs.getLast? with
  | some l => decide (1 < segs.length) && goBuildTokens.contains l
  | none => false

/-- GoLangOpts.dirNameFunc -/
def mangleDir (name : String) : String := (Gen.dirNames.lookup name).getD name

end Gs.Names
