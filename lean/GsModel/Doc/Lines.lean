import GsModel.Params.Decimal
/-
  C18 — the validation lines the model templates print into doc comments (`propertyValidationDocString`) and the
  recognisers of the scanner that read them back (codescan taggers: rxMaximumFmt, rxMinimumFmt, rxMultipleOfFmt,
  rxMaxLengthFmt, … + strconv.ParseFloat / ParseInt).
  Numbers: a decimal value is (sign, integer part, fraction digits).  text/template prints a *float64 with fmt's %v, i.e.
  strconv 'g' with the shortest digits: plain decimal when the decimal exponent X of the first significant digit satisfies
  -4 ≤ X < 6, scientific notation (`1e+06`, `1e-05`) otherwise.
-/
namespace Gs.Doc
open Gs.Params

structure Dec where
  neg : Bool := false
  int : Nat := 0
  frac : List Nat := []     -- fraction digits, most significant first, no trailing zero
  deriving DecidableEq, Repr

def Dec.wf (d : Dec) : Bool := d.frac.all (· < 10) && (d.frac.getLast?.getD 1 != 0) && !(d.neg && d.int == 0 && d.frac == [])

def digitsOf (n : Nat) : Str := (toString n).toList
def fracText (ds : List Nat) : Str := ds.map Nat.digitChar

def leadingZeros : List Nat → Nat
  | 0 :: r => leadingZeros r + 1
  | _ => 0

/-- decimal exponent of the first significant digit (0 for the value zero) -/
def Dec.expo (d : Dec) : Int :=
  if d.int > 0 then ((digitsOf d.int).length : Int) - 1
  else if d.frac = [] then 0 else -((leadingZeros d.frac : Int) + 1)

def Dec.plain (d : Dec) : Bool := decide (-4 ≤ d.expo) && decide (d.expo < 6)

def sign (d : Dec) : Str := if d.neg then ['-'] else []

def plainText (d : Dec) : Str :=
  sign d ++ digitsOf d.int ++ (if d.frac = [] then [] else '.' :: fracText d.frac)

/-- significant digits of the value, without leading zeros -/
def sigDigits (d : Dec) : Str :=
  if d.int > 0 then digitsOf d.int ++ fracText d.frac else fracText (d.frac.drop (leadingZeros d.frac))

def stripTrailingZeros (s : Str) : Str := (s.reverse.dropWhile (· = '0')).reverse

def two (n : Nat) : Str := if n < 10 then '0' :: digitsOf n else digitsOf n

def sciText (d : Dec) : Str :=
  let sd := stripTrailingZeros (sigDigits d)
  let mant := match sd with
    | [] => ['0']
    | [c] => [c]
    | c :: r => c :: '.' :: r
  sign d ++ mant ++ ['e'] ++ (if d.expo < 0 then '-' :: two d.expo.natAbs else '+' :: two d.expo.natAbs)

/-- fmt %v of the float64 -/
def fmtV (d : Dec) : Str := if d.plain then plainText d else sciText d

/-- the number sub-expression of the scanner's regexps: `[\+-]?(?:\p{N}+\.)?\p{N}+` (anchored by the rest of the regexp) -/
def allDigits (s : Str) : Bool := s ≠ [] && s.all Char.isDigit

def unsignedOk (s : Str) : Bool :=
  match splitOn '.' s with
  | [a] => allDigits a
  | [a, b] => allDigits a && allDigits b
  | _ => false

def isPlainDecimal (s : Str) : Bool :=
  match s with
  | '-' :: r => unsignedOk r
  | '+' :: r => unsignedOk r
  | r => unsignedOk r

def digitOf (c : Char) : Nat := c.toNat - '0'.toNat

/-- strconv.ParseFloat on a string the regexp admitted, kept exact as a Dec -/
def parseUnsigned (neg : Bool) (s : Str) : Option Dec :=
  match splitOn '.' s with
  | [a] => (digitsVal a).map (fun n => { neg := neg && n != 0, int := n, frac := [] })
  | [a, b] => (digitsVal a).map (fun n =>
      let f := (stripTrailingZeros b).map digitOf
      { neg := neg && !(n == 0 && f == []), int := n, frac := f })
  | _ => none

def parseDec (s : Str) : Option Dec :=
  if !isPlainDecimal s then none else
  match s with
  | '-' :: r => parseUnsigned true r
  | '+' :: r => parseUnsigned false r
  | r => parseUnsigned false r

/-! ### lines -/

inductive Line where
  | maximum (v : Dec) (excl : Bool)
  | minimum (v : Dec) (excl : Bool)
  | multipleOf (v : Dec)
  | maxLength (n : Nat) | minLength (n : Nat) | maxItems (n : Nat) | minItems (n : Nat)
  | unique | required | readOnly
  deriving DecidableEq, Repr

/-- keyword, optional operator, value text -/
structure Tok where
  kw : String
  op : String := ""
  val : Str
  deriving DecidableEq, Repr

def emit : Line → Tok
  | .maximum v e => { kw := "Maximum", op := if e then "<" else "", val := fmtV v }
  | .minimum v e => { kw := "Minimum", op := if e then ">" else "", val := fmtV v }
  | .multipleOf v => { kw := "Multiple Of", val := fmtV v }
  | .maxLength n => { kw := "Max Length", val := digitsOf n }
  | .minLength n => { kw := "Min Length", val := digitsOf n }
  | .maxItems n => { kw := "Max Items", val := digitsOf n }
  | .minItems n => { kw := "Min Items", val := digitsOf n }
  | .unique => { kw := "Unique", val := "true".toList }
  | .required => { kw := "Required", val := "true".toList }
  | .readOnly => { kw := "Read Only", val := "true".toList }

/-- what the taggers make of a line; `multipleOfApplied` is read from the scanner (setMultipleOf tested `len(matches) > 2`
    against a regexp with one group on the pinned tree, so the value was never applied) -/
def parse (multipleOfApplied : Bool) (t : Tok) : Option Line :=
  match t.kw with
  | "Maximum" => (parseDec t.val).map (fun v => .maximum v (t.op == "<"))
  | "Minimum" => (parseDec t.val).map (fun v => .minimum v (t.op == ">"))
  | "Multiple Of" => if multipleOfApplied then (parseDec t.val).map .multipleOf else none
  | "Max Length" => if allDigits t.val then (digitsVal t.val).map .maxLength else none
  | "Min Length" => if allDigits t.val then (digitsVal t.val).map .minLength else none
  | "Max Items" => if allDigits t.val then (digitsVal t.val).map .maxItems else none
  | "Min Items" => if allDigits t.val then (digitsVal t.val).map .minItems else none
  | "Unique" => if t.val = "true".toList then some .unique else none
  | "Required" => if t.val = "true".toList then some .required else none
  | "Read Only" => if t.val = "true".toList then some .readOnly else none
  | _ => none

end Gs.Doc
