import GsModel.Diff.Lift
/-
  C13, lifting (continued): a removed endpoint and a parameter added as required are Breaking entries of every report.
-/
namespace Gs.Diff
open Gs Gs.Gen Gs.Outcome

/-- pure-fold analogue of `foldlM_reach` -/
theorem foldl_reach {α β} (Q : β → Prop) (f : β → α → β) (x : α) :
    ∀ (l : List α), x ∈ l → (∀ b, Q (f b x)) → (∀ b a, Q b → Q (f b a)) → ∀ b, Q (l.foldl f b)
  | [], h, _, _, _ => by cases h
  | a :: as, h, hhit, hpres, b => by
    simp only [List.foldl]
    by_cases e : x = a
    · subst e
      exact foldl_inv Q f as _ (hhit b) (fun b a _ hb => hpres b a hb)
    · have hx : x ∈ as := by
        rcases List.mem_cons.mp h with h | h
        · exact absurd h e
        · exact h
      exact foldl_reach Q f x as hx hhit hpres _

theorem addDiff_has (st : St) (loc : Loc) (c : Code) (info : String)
    (h : getCompatibilityForChange c (loc.response > 0) = Compat.Breaking) : HasBreaking (st.addDiff loc c info) := by
  refine ⟨{ loc := loc, code := c, compat := getCompatibilityForChange c (loc.response > 0), info := info }, ?_, h⟩
  simp [St.addDiff]

theorem findDeletedEndpoints_sub (rev : Nat) (u1 u2 : List UM) (st : St) : Sub st (findDeletedEndpoints rev u1 u2 st) := by
  unfold findDeletedEndpoints
  refine foldl_inv (Sub st) _ _ _ (Sub.refl _) (fun b a _ hb => ?_)
  split
  · exact hb.trans (addDiff_sub _ _ _ _)
  · exact hb

theorem findAddedEndpoints_sub (rev : Nat) (u1 u2 : List UM) (st : St) : Sub st (findAddedEndpoints rev u1 u2 st) := by
  unfold findAddedEndpoints
  refine foldl_inv (Sub st) _ _ _ (Sub.refl _) (fun b a _ hb => ?_)
  split
  · exact hb.trans (addDiff_sub _ _ _ _)
  · exact hb

/-- a live endpoint of the old document that the new one lacks is recorded as Breaking by findDeletedEndpoints -/
theorem findDeletedEndpoints_hits (rev : Nat) (u1 u2 : List UM) (um1 : UM) (h1 : um1 ∈ u1)
    (hgone : findUM u2 um1.url um1.method = none) (hlive : um1.item.optionsDeprecated = false ∧ um1.op.deprecated = false) (st : St) :
    HasBreaking (findDeletedEndpoints rev u1 u2 st) := by
  unfold findDeletedEndpoints
  refine foldl_reach HasBreaking _ um1 _ ((it_mem _ _ _).mpr h1) ?_ ?_ st
  · intro b
    simp only [hgone, Option.isNone_none, if_true, hlive.1, hlive.2, Bool.or_self, Bool.false_eq_true, if_false]
    exact addDiff_has _ _ _ _ (by simp; decide)
  · intro b a hb
    split
    · exact hb.sub (addDiff_sub _ _ _ _)
    · exact hb

/-- **Lifting, removed endpoint.** -/
theorem analyse_reports_removed_endpoint (fl : Flags) (n : Nat) (a b : Spec) (um1 : UM) (h1 : um1 ∈ getURLMethodsFor a)
    (hgone : findUM (getURLMethodsFor b) um1.url um1.method = none)
    (hlive : um1.item.optionsDeprecated = false ∧ um1.op.deprecated = false) :
    Holds (fun ds => ∃ d ∈ ds, d.compat = Compat.Breaking) (analyse fl n a b) := by
  unfold analyse
  dsimp only
  have h0 := findDeletedEndpoints_hits fl.rev (getURLMethodsFor a) (getURLMethodsFor b) um1 h1 hgone hlive (analyseSpecMetadata a b {})
  have h0' := h0.sub (findAddedEndpoints_sub fl.rev (getURLMethodsFor a) (getURLMethodsFor b) _)
  refine Holds.bind (h0'.keep (analyseRequestParams_mono _ n _ _ _)) (fun st1 hb1 => ?_)
  have hb2 := hb1.sub (analyseEndpointData_sub fl.rev (getURLMethodsFor a) (getURLMethodsFor b) st1)
  refine Holds.bind (hb2.keep (analyseResponseParams_mono _ n _ _ _)) (fun st3 hb3 => ?_)
  refine Holds.bind (hb3.keep (analyseDefinitions_mono _ n _)) (fun st4 hb4 => ?_)
  exact hb4

/-- a parameter the old endpoint does not have and the new one requires -/
theorem umStep_hits_added_required (cx : Ctx) (n : Nat) (u1 : List UM) (pl : String) (um1 um2 : UM)
    (hf : findUM u1 um2.url um2.method = some um1) (name : String) (p2 : Param)
    (h1 : lookup (getParams um1.item.params um1.op.params pl) name = none)
    (h2 : (name, p2) ∈ getParams um2.item.params um2.op.params pl) (hreq : p2.required = true) (b : St) :
    Holds HasBreaking (umStep cx n u1 pl b um2) := by
  unfold umStep
  rw [hf]
  dsimp only
  refine Holds.bind (P := fun _ => True) (Holds.of_true _ (fun _ => trivial)) (fun st1 _ => ?_)
  refine foldlM_reach HasBreaking _ (name, p2) _ ((it_mem _ _ _).mpr h2) ?_ ?_ st1
  · intro b'
    unfold cmpParamStep
    simp only [h1, hreq, if_true]
    refine Holds.bind (P := fun _ => True) (Holds.of_true _ (fun _ => trivial)) (fun nd _ => ?_)
    simp only [holds_ok]
    exact addDiff_has _ _ _ _ (by simp [Loc.addNode]; decide)
  · intro b' a hb'
    exact hb'.keep (cmpParamStep_mono _ _ _ _ _ _ b' a)

/-- **Lifting, parameter added as required.** -/
theorem analyse_reports_added_required_param (fl : Flags) (n : Nat) (a b : Spec) (pl : String) (hpl : pl ∈ paramLocations)
    (um1 um2 : UM) (hum2 : um2 ∈ getURLMethodsFor b) (hf : findUM (getURLMethodsFor a) um2.url um2.method = some um1)
    (name : String) (p2 : Param)
    (h1 : lookup (getParams um1.item.params um1.op.params pl) name = none)
    (h2 : (name, p2) ∈ getParams um2.item.params um2.op.params pl) (hreq : p2.required = true) :
    Holds (fun ds => ∃ d ∈ ds, d.compat = Compat.Breaking) (analyse fl n a b) := by
  unfold analyse
  dsimp only
  have hreach : ∀ st, Holds HasBreaking (analyseRequestParams { defs1 := a.defs, defs2 := b.defs, rev := fl.rev } n (getURLMethodsFor a) (getURLMethodsFor b) st) := by
    intro st
    rw [analyseRequestParams_eq]
    refine foldlM_reach HasBreaking _ pl _ hpl ?_ ?_ st
    · intro b0
      refine foldlM_reach HasBreaking _ um2 _ ((it_mem _ _ _).mpr hum2) ?_ ?_ b0
      · intro b'
        exact umStep_hits_added_required _ n _ pl um1 um2 hf name p2 h1 h2 hreq b'
      · intro b' a' hb'
        exact hb'.keep (umStep_mono _ _ _ _ b' a')
    · intro b0 pl' hb
      exact hb.keep (foldlM_mono _ _ b0 b0 (Sub.refl _) (fun b' a' _ => umStep_mono _ _ _ _ b' a'))
  refine Holds.bind (hreach _) (fun st1 hb1 => ?_)
  have hb2 := hb1.sub (analyseEndpointData_sub fl.rev (getURLMethodsFor a) (getURLMethodsFor b) st1)
  refine Holds.bind (hb2.keep (analyseResponseParams_mono _ n _ _ _)) (fun st3 hb3 => ?_)
  refine Holds.bind (hb3.keep (analyseDefinitions_mono _ n _)) (fun st4 hb4 => ?_)
  exact hb4

end Gs.Diff
