import GsModel.Diff.Types
/-
  Executable model of `cmd/swagger/commands/diff` (spec_analyser.go, checks.go, schema.go,
  type_adapters.go, array_diff.go, compatibility.go, spec_difference.go addDiff).
  One Lean function per Go function, same name; Go panics are explicit `Outcome.panic`s; recursion through
  `$ref`/items/properties is on fuel.  `rev` (a small number) permutes every iteration over a Go map (the model's way of
  exhibiting order sensitivity: results under `rev = false` and `rev = true` are compared by the driver).
  Extensions (`x-…`) are not modelled (they only ever add Warning entries).
-/
namespace Gs.Diff
open Gs Gs.Gen

/-- iteration order of a Go map: `ord` selects one of the permutations the driver samples (reversal, rotations). -/
def it {α} (ord : Nat) (l : List α) : List α :=
  let l' := if ord % 2 = 1 then l.reverse else l
  l'.drop (ord / 2) ++ l'.take (ord / 2)

/-! ### compatibility.go, spec_difference.go -/

def getCompatibilityForChange (c : Code) (isResponse : Bool) : Compat :=
  match forChange c with
  | some k => k
  | none => if isResponse then (forResponse c).getD Compat.zero else (forRequest c).getD Compat.zero

structure St where
  diffs : List Diff := []
  visited : List String := []       -- schemasCompared
  referenced : List String := []    -- ReferencedDefinitions
  deriving Repr, Inhabited

def St.addDiff (st : St) (loc : Loc) (c : Code) (info : String := "") : St :=
  { st with diffs := st.diffs ++ [{ loc := loc, code := c,
                                    compat := getCompatibilityForChange c (loc.response > 0), info := info }] }

/-- SpecAnalyser.addTypeDiff -/
def St.addTypeDiff (st : St) (loc : Loc) (d : TDiff) : St :=
  let desc := if d.desc = "" then (if d.fromT ≠ d.toT then d.fromT ++ " -> " ++ d.toT else "") else d.desc
  st.addDiff loc d.change desc

/-- SpecAnalyser.addDiffs -/
def St.addDiffs (st : St) (loc : Loc) (ds : List TDiff) : St :=
  ds.foldl (fun st d => if d.change = Code.NoChangeDetected then st else st.addTypeDiff loc d) st

/-- package-level addTypeDiff -/
def addTD (ds : List TDiff) (d : TDiff) : List TDiff :=
  if d.change = Code.NoChangeDetected then ds else ds ++ [d]

def Loc.addNode (l : Loc) (n : NodeSeg) : Loc := { l with node := l.node ++ [n] }

def nameNode (f : String) : NodeSeg := { field := f }

/-! ### array_diff.go -/

def dedup : List String → List String
  | [] => []
  | x :: xs => x :: (dedup xs).filter (· ≠ x)

/-- sort.Strings (insertion sort: structural, so that closed terms evaluate in the kernel) -/
def insertStr (x : String) : List String → List String
  | [] => [x]
  | y :: ys => if x ≤ y then x :: y :: ys else y :: insertStr x ys
def sortStrs : List String → List String
  | [] => []
  | x :: xs => insertStr x (sortStrs xs)

/-- fromStringArray(from).DiffsTo(to) → (added, deleted); `from = none` is the nil slice. -/
def diffsTo (frm : Option (List String)) (to : List String) : List String × List String :=
  match frm with
  | none => (to, [])
  | some f => (sortStrs (dedup (to.filter (fun x => !f.contains x))), sortStrs (dedup (f.filter (fun x => !to.contains x))))

/-! ### schema.go : type names -/

def primitiveTypeString (t f : String) : String := if f ≠ "" then t ++ "." ++ f else t

def formatTypeString (t : String) (isArr : Bool) : String :=
  if isArr then "<array[" ++ t ++ "]>" else "<" ++ t ++ ">"

/-- getTypeFromSimpleSchema on a chain `level :: items levels` (empty chain = nil pointer). -/
def typeOfSimple : List Simple → Outcome (String × Bool)
  | [] => .panic "nil Items (SimpleSchema)"
  | s :: rest =>
    let tn := primitiveTypeString s.type s.format
    if tn = "array" then (typeOfSimple rest).bind (fun r => .ok (r.1, true))
    else .ok (tn, false)

/-- getTypeFromSchemaProps -/
def typeOfProps : Nat → Schema → Outcome (String × Bool)
  | 0, _ => .fuel
  | n+1, s =>
    if s.ref ≠ "" then .ok (s.ref, false) else
    match s.type with
    | [] => .ok ("", false)
    | t :: _ =>
      let tn := primitiveTypeString t s.format
      if tn = "array" then
        -- arrayItemsType: no single items schema (missing items, tuple) ⇒ empty element type
        if !s.hasItems then .ok ("", true) else
        match s.itemOne with
        | none => .ok ("", true)
        | some i => (typeOfProps n i).bind (fun r => .ok (r.1, true))
      else .ok (tn, false)

/-- getTypeFromSchema (the `*spec.Schema` case; the format is not appended here) -/
def typeOfSchema (n : Nat) (s : Schema) : Outcome (String × Bool) :=
  if s.ref ≠ "" then .ok (s.ref, false) else
  match s.type with
  | [] => .ok ("", false)
  | t :: _ =>
    if t = "array" then
      if !s.hasItems then .ok ("", true) else
      match s.itemOne with
      | none => .ok ("", true)
      | some i => (typeOfProps n i).bind (fun r => .ok (r.1, true))
    else .ok (t, false)

def typeStrOfSchema (n : Nat) (s : Schema) : Outcome String :=
  (typeOfSchema n s).bind (fun r => .ok (formatTypeString r.1 r.2))
def typeStrOfProps (n : Nat) (s : Schema) : Outcome String :=
  (typeOfProps n s).bind (fun r => .ok (formatTypeString r.1 r.2))
def typeStrOfSimple (c : List Simple) : Outcome String :=
  (typeOfSimple c).bind (fun r => .ok (formatTypeString r.1 r.2))

/-- getSchemaDiffNode(name, *SchemaProps / *Schema) -/
def nodeOfProps (n : Nat) (name : String) (s : Schema) : Outcome NodeSeg :=
  (typeOfProps n s).bind (fun r => .ok { field := name, typeName := r.1, isArray := r.2 })
/-- getSchemaDiffNode(name, &param.SimpleSchema) -/
def nodeOfSimple (name : String) (c : List Simple) : Outcome NodeSeg :=
  (typeOfSimple c).bind (fun r => .ok { field := name, typeName := r.1, isArray := r.2 })

def isPrimitiveType (t : List String) : Bool :=
  match t with
  | [] => false
  | x :: _ => x ≠ "array" && x ≠ "object"
def isArrayType (t : List String) : Bool :=
  match t with
  | [] => false
  | x :: _ => x = "array"
def isStringType (t : String) : Bool := t = "string" || t = "password"

/-! ### checks.go -/

def compareIntValues (v1 v2 : Option Int) (ifGreater ifLess : Code) : List TDiff :=
  match v1, v2 with
  | some a, some b => if b > a then [{ change := ifGreater }] else if b < a then [{ change := ifLess }] else []
  | none, none => []
  | some _, none => [{ change := Code.DeletedConstraint }]
  | none, some _ => [{ change := Code.AddedConstraint }]

/-- CompareFloatValues has the same decision structure (values are exact decimals here). -/
abbrev compareFloatValues := compareIntValues

def checkToFromRequired (r1 r2 : Bool) : List TDiff :=
  if r1 ≠ r2 then [{ change := if r1 then Code.ChangedRequiredToOptional else Code.ChangedOptionalToRequired }] else []

def wideness (t : String) : Option Nat := lookup numberWideness t

def getTypeHierarchyChange (t1 t2 : String) : TDiff :=
  let desc := (if t1 = "" then "object" else t1) ++ " -> " ++ (if t2 = "" then "object" else t2)
  if isStringType t1 && !isStringType t2 then { change := Code.NarrowedType, desc := desc }
  else if !isStringType t1 && isStringType t2 then { change := Code.WidenedType, desc := desc }
  else match wideness t1, wideness t2 with
    | some w1, some w2 =>
      if w1 = w2 then { change := Code.ChangedToCompatibleType, desc := desc }
      else if w1 > w2 then { change := Code.NarrowedType, desc := desc }
      else { change := Code.WidenedType, desc := desc }
    | _, _ => { change := Code.ChangedType, desc := desc }

def joinComma : List String → String
  | [] => ""
  | [x] => x
  | x :: xs => x ++ "," ++ joinComma xs

def compareEnums (l r : List JVal) : List TDiff :=
  let ad := diffsTo (some (l.map (·.shown))) (r.map (·.shown))
  (if ad.1.isEmpty then [] else [{ change := Code.AddedEnumValue, desc := joinComma ad.1 }]) ++
  (if ad.2.isEmpty then [] else [{ change := Code.DeletedEnumValue, desc := joinComma ad.2 }])

/-- CheckStringTypeChanges (the pinned tree passed `MinLength` to the `MaxLength` comparison; repaired). -/
def checkStringTypeChanges (ds : List TDiff) (t1 t2 : Schema) : List TDiff :=
  if t1.type.head? = some "string" && t2.type.head? = some "string" then
    let ds := ds ++ compareIntValues t1.v.minLength t2.v.minLength Code.NarrowedType Code.WidenedType
    let ds := ds ++ compareIntValues t1.v.maxLength t2.v.maxLength Code.WidenedType Code.NarrowedType
    let ds := if t1.v.pattern ≠ t2.v.pattern then addTD ds { change := Code.ChangedType, desc := "Pattern Changed" } else ds
    if t1.v.enum.length > 0 then ds ++ compareEnums t1.v.enum t2.v.enum else ds
  else ds

def isNumeric (t : List String) : Bool :=
  match t with
  | [] => false
  | x :: _ => (wideness x).isSome

def checkNumericTypeChanges (ds : List TDiff) (t1 t2 : Schema) : List TDiff :=
  if isNumeric t1.type && isNumeric t2.type then
    let a := t1.v.exclMax && !t2.v.exclMax
    let b := !t1.v.exclMax && t2.v.exclMax
    let c := t1.v.exclMin && !t2.v.exclMin
    let d := !t1.v.exclMin && t2.v.exclMin
    let ds := if a then addTD ds { change := Code.WidenedType, desc := "Exclusive Maximum Removed" } else ds
    let ds := if b then addTD ds { change := Code.NarrowedType, desc := "Exclusive Maximum Added" } else ds
    let ds := if c then addTD ds { change := Code.WidenedType, desc := "Exclusive Minimum Removed" } else ds
    let ds := if d then addTD ds { change := Code.NarrowedType, desc := "Exclusive Minimum Added" } else ds
    if !(a || b || c || d) then
      ds ++ compareFloatValues t1.v.maximum t2.v.maximum Code.WidenedType Code.NarrowedType
         ++ compareFloatValues t1.v.minimum t2.v.minimum Code.NarrowedType Code.WidenedType
    else ds
  else ds

/-- CheckRefChange on `*spec.SchemaProps` arguments (type strings through getTypeFromSchemaProps). -/
def checkRefChangeProps (n : Nat) (t1 t2 : Schema) : Outcome (List TDiff) :=
  if t1.ref ≠ "" && t2.ref ≠ "" then
    if t1.ref ≠ t2.ref then
      (typeStrOfProps n t1).bind fun f => (typeStrOfProps n t2).bind fun t =>
        .ok [{ change := Code.RefTargetChanged, fromT := f, toT := t }]
    else .ok []
  else if (t1.ref ≠ "") ≠ (t2.ref ≠ "") then
    (typeStrOfProps n t1).bind fun f => (typeStrOfProps n t2).bind fun t =>
      .ok [{ change := Code.ChangedType, fromT := f, toT := t }]
  else .ok []

/-- CheckRefChange on `*spec.Schema` arguments (type strings through getTypeFromSchema: unguarded `Type[0]`). -/
def checkRefChangeSchema (n : Nat) (t1 t2 : Schema) : Outcome (List TDiff) :=
  if t1.ref ≠ "" && t2.ref ≠ "" then
    if t1.ref ≠ t2.ref then
      (typeStrOfSchema n t1).bind fun f => (typeStrOfSchema n t2).bind fun t =>
        .ok [{ change := Code.RefTargetChanged, fromT := f, toT := t }]
    else .ok []
  else if (t1.ref ≠ "") ≠ (t2.ref ≠ "") then
    (typeStrOfSchema n t1).bind fun f => (typeStrOfSchema n t2).bind fun t =>
      .ok [{ change := Code.ChangedType, fromT := f, toT := t }]
  else .ok []

/-- SpecAnalyser.CompareProps -/
def compareProps (n : Nat) (t1 t2 : Schema) : Outcome (List TDiff) :=
  -- CheckToFromPrimitiveType
  if isPrimitiveType t1.type ≠ isPrimitiveType t2.type then
    (typeOfProps n t1).bind fun a => (typeOfProps n t2).bind fun b =>
      .ok [{ change := Code.ChangedType, fromT := formatTypeString a.1 a.2, toT := formatTypeString b.1 b.2 }]
  else
  let ds : List TDiff :=
    if isArrayType t1.type then
      compareIntValues t1.v.maxItems t2.v.maxItems Code.WidenedType Code.NarrowedType ++
      compareIntValues t1.v.minItems t2.v.minItems Code.NarrowedType Code.WidenedType
    else []
  if !ds.isEmpty then .ok ds else
  (checkRefChangeProps n t1 t2).bind fun rd =>
  if !rd.isEmpty then .ok rd else
  if !(isPrimitiveType t1.type && isPrimitiveType t2.type) then .ok [] else
  let h1 := t1.type.headD ""
  let h2 := t2.type.headD ""
  let ds : List TDiff :=
    if h1 ≠ h2 || t1.format ≠ t2.format then
      addTD [] (getTypeHierarchyChange (primitiveTypeString h1 t1.format) (primitiveTypeString h2 t2.format))
    else []
  let ds := checkStringTypeChanges ds t1 t2
  if !ds.isEmpty then .ok ds else
  .ok (checkNumericTypeChanges ds t1 t2)

/-! ### type_adapters.go -/

def forItems (s : Simple) : Schema :=
  { type := [s.type], format := s.format, v := s.v }

/-- forParam / forHeader on a chain (never empty for a real parameter). -/
def forChain : List Simple → Schema
  | [] => {}
  | s :: rest =>
    { type := [s.type], format := s.format, v := s.v, hasItems := true,
      itemOne := match rest with | [] => none | i :: _ => some (forItems i) }

def upsert {α} : List (String × α) → String → α → List (String × α)
  | [], k, v => [(k, v)]
  | (k', v') :: tl, k, v => if k' = k then (k', v) :: tl else (k', v') :: upsert tl k v

def getParams (pathParams opParams : List Param) (loc : String) : List (String × Param) :=
  let m := pathParams.foldl (fun m p => if p.loc = loc then upsert m p.name p else m) []
  opParams.foldl (fun m p => if p.loc = loc then upsert m p.name p else m) m

structure PropDefn where
  schema : Schema
  required : Bool
  deriving Repr, Inhabited

/-- mark definitions as referenced (ReferencedDefinitions[name] = true) -/
def St.markRefs (st : St) (names : List String) : St :=
  { st with referenced := names.foldl (fun r x => if r.contains x then r else r ++ [x]) st.referenced }

/-- SpecAnalyser.schemaFromRef: lookup + mark as referenced. -/
def schemaFromRef (st : St) (defs : Defs) (ref : String) : Option Schema × St :=
  match lookup defs ref with
  | none => (none, st)
  | some s => (some s, st.markRefs [ref])

/-- propertiesFor: the merged property map (own properties, then every allOf member, later members
    overwriting) and the list of definition names resolved on the way (the caller marks them referenced).
    The result is built with `upsert` only, hence has distinct keys by construction. -/
def propertiesFor (defs : Defs) : Nat → Schema → Outcome (List (String × PropDefn) × List String)
  | 0, _ => .fuel
  | n+1, s =>
    let r : Outcome (Schema × List String) :=
      if s.ref ≠ "" then
        match lookup defs s.ref with
        | none => .panic "nil schema from unresolved $ref (propertiesFor)"
        | some t => .ok (t, [s.ref])
      else .ok (s, [])
    r.bind fun (s, refs) =>
    let own : List (String × PropDefn) :=
      if s.hasProps then
        s.props.foldl (fun acc kv => upsert acc kv.1 { schema := kv.2, required := s.required.contains kv.1 }) []
      else []
    Outcome.foldlM (fun (acc : List (String × PropDefn) × List String) a =>
        (propertiesFor defs n a).bind fun (m, rs) =>
          .ok (m.foldl (fun acc kv => upsert acc kv.1 kv.2) acc.1, acc.2 ++ rs))
      (own, refs) s.allOf

/-! ### spec_analyser.go -/

def St.compareDescripton (st : St) (loc : Loc) (d1 d2 : String) : St :=
  if d1 ≠ d2 then
    st.addDiff loc (if d1.length > 0 then Code.DeletedDescripton else if d2.length > 0 then Code.AddedDescripton else Code.ChangedDescripton)
  else st

def schemaLocationKey (l : Loc) : Outcome String :=
  match l.node with
  | [] => .panic "nil Node (schemaLocationKey)"
  | r :: rest =>
    let k := l.method ++ l.url ++ r.field ++ r.typeName
    match rest with
    | c :: _ => .ok (if c.isArray then k ++ c.field ++ c.typeName else k)
    | [] => .ok k

/-- addChildDiffNode -/
def addChildDiffNode (n : Nat) (l : Loc) (name : String) (s : Schema) : Outcome Loc :=
  (nodeOfProps n name s).bind fun nd => .ok (l.addNode nd)

structure Ctx where
  defs1 : Defs
  defs2 : Defs
  rev : Nat := 0

abbrev Cmp := Loc → Option Schema → Option Schema → St → Outcome St

/-- compareSchema, step 2–3: the visited test on `schemaLocationKey(location)` and the resolution of both sides.
    `none`: already compared (return); otherwise the two resolved schemas (`none` = nil pointer) and the state. -/
def resolveBoth (cx : Ctx) (loc : Loc) (s1 s2 : Schema) (st : St) :
    Outcome (Option (Option Schema × Option Schema × St)) :=
  let r1 : Outcome (Option (Option Schema × St)) :=
    if s1.ref ≠ "" then
      (schemaLocationKey loc).bind fun key =>
        if st.visited.contains key then .ok none
        else .ok (some (schemaFromRef { st with visited := st.visited ++ [key] } cx.defs1 s1.ref))
    else .ok (some (some s1, st))
  r1.bind fun
  | none => .ok none
  | some (o1, st) =>
    let r2 := if s2.ref ≠ "" then schemaFromRef st cx.defs2 s2.ref else (some s2, st)
    .ok (some (o1, r2.1, r2.2))

/-- compareSchema, step 6: arrays recurse on `Items.Schema` with the same location. -/
def compareItems (cmp : Cmp) (n : Nat) (loc : Loc) (t1 t2 : Schema) (st : St) : Outcome St :=
  if isArrayType t1.type then
    if isArrayType t2.type then
      -- tuples and arrays without items have no single items schema to compare
      if t1.hasItems && t1.itemOne.isSome && t2.hasItems && t2.itemOne.isSome then cmp loc t1.itemOne t2.itemOne st
      else .ok st
    else
      (typeStrOfSchema n t1).bind fun f => (typeStrOfSchema n t2).bind fun t =>
        .ok (st.addDiffs loc [{ change := Code.ChangedType, fromT := f, toT := t }])
  else .ok st

/-- CompareProperties, first loop body: deleted / changed properties.  Nested comparisons are appended to
    `sd.Diffs` at once, the property-level entries (`propDiffs`) only after both loops. -/
def propStep (cmp : Cmp) (n : Nat) (loc : Loc) (props2 : List (String × PropDefn))
    (acc : St × List (Loc × Code)) (kv : String × PropDefn) : Outcome (St × List (Loc × Code)) :=
  (addChildDiffNode n loc kv.1 kv.2.schema).bind fun childLoc =>
  match lookup props2 kv.1 with
  | some p2 =>
    let pd := (checkToFromRequired kv.2.required p2.required).map (fun d => (childLoc, d.change))
    (cmp childLoc (some kv.2.schema) (some p2.schema) acc.1).bind fun st' => .ok (st', acc.2 ++ pd)
  | none => .ok (acc.1, acc.2 ++ [(childLoc, Code.DeletedProperty)])

/-- CompareProperties, second loop body: own properties of schema2 missing from the own properties of schema1. -/
def addedStep (n : Nat) (loc : Loc) (t1 : Schema) (props2 : List (String × PropDefn))
    (acc : List (Loc × Code)) (kv : String × Schema) : Outcome (List (Loc × Code)) :=
  if (t1.hasProps && hasKey t1.props kv.1) then .ok acc else
  (addChildDiffNode n loc kv.1 kv.2).bind fun childLoc =>
    let req := match lookup props2 kv.1 with | some p => p.required | none => false
    .ok (acc ++ [(childLoc, if req then Code.AddedRequiredProperty else Code.AddedProperty)])

/-- CompareProperties (checks.go) together with the loop in compareSchema that adds its result. -/
def compareProperties (cx : Ctx) (cmp : Cmp) (n : Nat) (loc : Loc) (t1 t2 : Schema) (st : St) : Outcome St :=
  if !t1.hasProps && !t2.hasProps then .ok st else
  (propertiesFor cx.defs1 n t1).bind fun pr1 =>
  (propertiesFor cx.defs2 n t2).bind fun pr2 =>
  let st := st.markRefs (pr1.2 ++ pr2.2)
  (Outcome.foldlM (propStep cmp n loc pr2.1) (st, []) (it cx.rev pr1.1)).bind fun r =>
  (Outcome.foldlM (addedStep n loc t1 pr2.1) r.2 (it cx.rev (if t2.hasProps then t2.props else []))).bind fun propDiffs =>
  .ok (propDiffs.foldl (fun st d => st.addDiff d.1 d.2) r.1)

/-- SpecAnalyser.compareSchema.  `none` = nil `*spec.Schema`. -/
def compareSchema (cx : Ctx) : Nat → Cmp
  | 0 => fun _ _ _ _ => .fuel
  | n+1 => fun loc os1 os2 st =>
    match os1, os2 with
    | none, _ => .panic "nil schema1 (isRefType)"
    | _, none => .panic "nil schema2 (isRefType)"
    | some s1, some s2 =>
    (checkRefChangeSchema n s1 s2).bind fun refDiffs =>
    if !refDiffs.isEmpty then .ok (refDiffs.foldl (fun st d => st.addTypeDiff loc d) st) else
    (resolveBoth cx loc s1 s2 st).bind fun
    | none => .ok st
    | some (none, _, _) => .panic "nil schema1 after $ref resolution"
    | some (_, none, _) => .panic "nil schema2 after $ref resolution"
    | some (some t1, some t2, st) =>
    let st := st.compareDescripton loc t1.desc t2.desc
    (compareProps n t1 t2).bind fun typeDiffs =>
    if !typeDiffs.isEmpty then .ok (st.addDiffs loc typeDiffs) else
    (compareItems (compareSchema cx n) n loc t1 t2 st).bind fun st =>
    compareProperties cx (compareSchema cx n) n loc t1 t2 st

/-- `!reflect.DeepEqual(a, b)` on two `interface{}` values decoded from JSON; `none` = nil interface.
    (Before the repair this was Go's `!=`, which panics on two slices or two maps.) -/
def ifaceNe (a b : Option JVal) : Outcome Bool :=
  match a, b with
  | none, none => .ok false
  | some _, none => .ok true
  | none, some _ => .ok true
  | some x, some y => .ok (x.canon ≠ y.canon || x.kind ≠ y.kind)

/-- SpecAnalyser.compareSimpleSchema on chains. -/
def compareSimpleSchema (loc : Loc) : List Simple → List Simple → St → Outcome St
  | [], _, _ => .panic "nil schema1 (SimpleSchema)"
  | _, [], _ => .panic "nil schema2 (SimpleSchema)"
  | s1 :: r1, s2 :: r2, st =>
    let ts : Code → St → Outcome St := fun c st =>
      (typeStrOfSimple (s1 :: r1)).bind fun f => (typeStrOfSimple (s2 :: r2)).bind fun t =>
        .ok (st.addDiffs loc [{ change := c, fromT := f, toT := t }])
    let a : Outcome St :=
      if s1.nullable && !s2.nullable then ts Code.ChangedOptionalToRequired st
      else if !s1.nullable && s2.nullable then ts Code.ChangedRequiredToOptional st
      else .ok st
    a.bind fun st =>
    (if s1.cf ≠ s2.cf then ts Code.ChangedCollectionFormat st else .ok st).bind fun st =>
    (ifaceNe s1.dflt s2.dflt).bind fun ne =>
    (if ne then
       ts (if s1.dflt.isNone then Code.AddedDefault else if s2.dflt.isNone then Code.DeletedDefault else Code.ChangedDefault) st
     else .ok st).bind fun st =>
    (ifaceNe s1.exmpl s2.exmpl).bind fun ne =>
    (if ne then
       ts (if s1.exmpl.isNone then Code.AddedExample else if s2.exmpl.isNone then Code.DeletedExample else Code.ChangedExample) st
     else .ok st).bind fun st =>
    -- a change between array and non-array is reported by CompareProps only (the duplicate entry was removed)
    if s1.type = "array" && s2.type = "array" then compareSimpleSchema loc r1 r2 st
    else .ok st

def title (s : String) : String :=
  match s.toList with
  | [] => ""
  | c :: cs => String.ofList (c.toUpper :: cs)

/-- SpecAnalyser.compareParams -/
def compareParams (cx : Ctx) (n : Nat) (url method location name : String) (p1 p2 : Param) (st : St) : Outcome St :=
  let diffLocation : Loc := { url := url, method := method }
  let childLocation := diffLocation.addNode (nameNode (title location))
  let paramLocation := diffLocation.addNode (nameNode name)
  let st := st.compareDescripton paramLocation p1.desc p2.desc
  let r : Outcome (Loc × St) :=
    match p1.schema, p2.schema with
    | some sc1, some sc2 =>
      (if name.length > 0 then (nodeOfProps n name sc2).bind fun nd => .ok (childLocation.addNode nd)
       else .ok childLocation).bind fun cl =>
      (compareSchema cx n cl (some sc1) (some sc2) st).bind fun st => .ok (cl, st)
    | _, _ => .ok (childLocation, st)
  r.bind fun (childLocation, st) =>
  (compareProps n (forChain p1.chain) (forChain p2.chain)).bind fun diffs =>
  (nodeOfSimple name p2.chain).bind fun nd =>
  let childLocation := childLocation.addNode nd
  let st := st.addDiffs childLocation diffs
  let st := st.addDiffs childLocation (checkToFromRequired p1.required p2.required)
  compareSimpleSchema childLocation p1.chain p2.chain st

structure UM where
  url : String
  method : String
  item : PathItem
  op : Operation
  deriving Repr, Inhabited

def getURLMethodsFor (s : Spec) : List UM :=
  s.paths.flatMap (fun p => p.ops.map (fun o => { url := p.url, method := o.method, item := p, op := o }))

/-- first element with the given key (a Go map read on a list with distinct keys) -/
def findBy {α β} [DecidableEq β] (key : α → β) (k : β) (l : List α) : Option α :=
  l.find? (fun y => decide (key y = k))

def UM.key (u : UM) : String × String := (u.url, u.method)

def findUM (l : List UM) (url method : String) : Option UM := findBy UM.key (url, method) l

def analyseMetaDataProperty (st : St) (a b : String) (c : Code) : St :=
  if a ≠ b then st.addDiff { node := [nameNode "Spec Metadata"] } c (a ++ " -> " ++ b) else st

def analyseSpecMetadata (s1 s2 : Spec) (st : St) : St :=
  let root : Loc := { node := [nameNode "Spec"] }
  let one (st : St) (f t : Option (List String)) (field : String) (ca cd : Code) : St :=
    let ad := diffsTo f (t.getD [])
    let l := root.addNode (nameNode field)
    let st := ad.1.foldl (fun st x => st.addDiff l ca x) st
    ad.2.foldl (fun st x => st.addDiff l cd x) st
  let st := one st s1.consumes s2.consumes "consumes" Code.AddedConsumesFormat Code.DeletedConsumesFormat
  let st := one st s1.produces s2.produces "produces" Code.AddedProducesFormat Code.DeletedProducesFormat
  let st := one st s1.schemes s2.schemes "schemes" Code.AddedSchemes Code.DeletedSchemes
  let st := analyseMetaDataProperty st s1.infoDesc s2.infoDesc Code.ChangedDescripton
  let st := analyseMetaDataProperty st s1.host s2.host Code.ChangedHostURL
  analyseMetaDataProperty st s1.basePath s2.basePath Code.ChangedBasePath

def findDeletedEndpoints (rev : Nat) (u1 u2 : List UM) (st : St) : St :=
  (it rev u1).foldl (fun st u =>
    if (findUM u2 u.url u.method).isNone then
      st.addDiff { url := u.url, method := u.method }
        (if u.item.optionsDeprecated || u.op.deprecated then Code.DeletedDeprecatedEndpoint else Code.DeletedEndpoint)
    else st) st

def findAddedEndpoints (rev : Nat) (u1 u2 : List UM) (st : St) : St :=
  (it rev u2).foldl (fun st u =>
    if (findUM u1 u.url u.method).isNone then st.addDiff { url := u.url, method := u.method } Code.AddedEndpoint
    else st) st

def paramLocations : List String := ["query", "path", "body", "header", "formData"]

def analyseRequestParams (cx : Ctx) (n : Nat) (u1 u2 : List UM) (st : St) : Outcome St :=
  Outcome.foldlM (fun st (paramLocation : String) =>
    let rootNode := nameNode (title paramLocation)
    Outcome.foldlM (fun st (um2 : UM) =>
      match findUM u1 um2.url um2.method with
      | none => .ok st
      | some um1 =>
        let params1 := getParams um1.item.params um1.op.params paramLocation
        let params2 := getParams um2.item.params um2.op.params paramLocation
        let location : Loc := { url := um2.url, method := um2.method, node := [rootNode] }
        (Outcome.foldlM (fun st (kv : String × Param) =>
            if hasKey params2 kv.1 then .ok st else
            (nodeOfSimple kv.1 kv.2.chain).bind fun nd =>
              .ok (st.addDiff (location.addNode nd)
                    (if kv.2.required then Code.DeletedRequiredParam else Code.DeletedOptionalParam)))
          st (it cx.rev params1)).bind fun st =>
        Outcome.foldlM (fun st (kv : String × Param) =>
            match lookup params1 kv.1 with
            | some p1 => compareParams cx n um2.url um2.method paramLocation kv.1 p1 kv.2 st
            | none =>
              (nodeOfSimple kv.1 kv.2.chain).bind fun nd =>
                .ok (st.addDiff (location.addNode nd)
                      (if kv.2.required then Code.AddedRequiredParam else Code.AddedOptionalParam)))
          st (it cx.rev params2))
      st (it cx.rev u2))
    st paramLocations

def analyseEndpointData (rev : Nat) (u1 u2 : List UM) (st : St) : St :=
  (it rev u2).foldl (fun st um2 =>
    match findUM u1 um2.url um2.method with
    | none => st
    | some um1 =>
      let ad := diffsTo um1.op.tags (um2.op.tags.getD [])
      let location : Loc := { url := um2.url, method := um2.method }
      let st := ad.1.foldl (fun st t => st.addDiff location Code.AddedTag ("\"" ++ t ++ "\"")) st
      let st := ad.2.foldl (fun st t => st.addDiff location Code.DeletedTag ("\"" ++ t ++ "\"")) st
      st.compareDescripton location um1.op.desc um2.op.desc) st

def findResp (l : List Response) (c : Nat) : Option Response := findBy (·.code) c l
def findHeader (l : List Header) (nm : String) : Option Header := findBy (·.name) nm l

/-- node of an added / deleted response: `NoContent` without a body schema, else getSchemaDiffNode("Body", schema) -/
def bodyNode (n : Nat) (os : Option Schema) : Outcome NodeSeg :=
  match os with
  | none => .ok (nameNode "NoContent")
  | some s => nodeOfProps n "Body" s

def analyseResponseParams (cx : Ctx) (n : Nat) (u1 u2 : List UM) (st : St) : Outcome St :=
  Outcome.foldlM (fun st (um2 : UM) =>
    match findUM u1 um2.url um2.method with
    | none => .ok st
    | some um1 =>
      let r1 := um1.op.responses
      let r2 := um2.op.responses
      let base : Loc := { url := um2.url, method := um2.method }
      -- deleted responses
      (Outcome.foldlM (fun st (resp1 : Response) =>
          if (findResp r2 resp1.code).isSome then .ok st else
          (match resp1.schema with
           | none => Outcome.ok (nameNode "NoContent")
           | some s => nodeOfProps n "Body" s).bind fun nd =>
          .ok (st.addDiff { base with response := resp1.code, node := [nd] } Code.DeletedResponse))
        st (it cx.rev r1)).bind fun st =>
      Outcome.foldlM (fun st (resp2 : Response) =>
          match findResp r1 resp2.code with
          | none =>
            (bodyNode n resp2.schema).bind fun nd =>
              .ok (st.addDiff { base with response := resp2.code, node := [nd] } Code.AddedResponse)
          | some resp1 =>
            let location : Loc := { base with response := resp2.code, node := [nameNode "Headers"] }
            (Outcome.foldlM (fun st (h2 : Header) =>
                match findHeader resp1.headers h2.name with
                | some h1 =>
                  (compareProps n (forChain h1.chain) (forChain h2.chain)).bind fun ds => .ok (st.addDiffs location ds)
                | none =>
                  (nodeOfSimple h2.name h2.chain).bind fun nd =>
                    .ok (st.addDiff (location.addNode nd) Code.AddedResponseHeader))
              st (it cx.rev resp2.headers)).bind fun st =>
            (Outcome.foldlM (fun st (h1 : Header) =>
                if (findHeader resp2.headers h1.name).isSome then .ok st else
                (nodeOfSimple h1.name h1.chain).bind fun nd =>
                  .ok (st.addDiff (location.addNode nd) Code.DeletedResponseHeader))
              st (it cx.rev resp1.headers)).bind fun st =>
            (match resp1.schema with
             | none => Outcome.ok (nameNode "NoContent")
             | some s => nodeOfProps n "Body" s).bind fun nd =>
            let st := st.compareDescripton { base with response := resp2.code, node := [nd] } resp1.desc resp2.desc
            match resp1.schema, resp2.schema with
            | some s1, none =>
              (nodeOfProps n "Body" s1).bind fun nd =>
                .ok (st.addDiff { base with response := resp2.code, node := [nd] } Code.DeletedProperty)
            | some s1, some s2 =>
              (nodeOfProps n "Body" s1).bind fun nd =>
                compareSchema cx n { base with response := resp2.code, node := [nd] } (some s1) (some s2) st
            | none, some s2 =>
              (nodeOfProps n "Body" s2).bind fun nd =>
                .ok (st.addDiff { base with response := resp2.code, node := [nd] } Code.AddedProperty)
            | none, none => .ok st)
        st (it cx.rev r2))
    st (it cx.rev u2)

def analyseDefinitions (cx : Ctx) (n : Nat) (st : St) : Outcome St :=
  let already := st.referenced
  let location : Loc := { node := [nameNode "Spec Definitions"] }
  (Outcome.foldlM (fun st (kv : String × Schema) =>
      if already.contains kv.1 then .ok st else
      let child := location.addNode (nameNode kv.1)
      match lookup cx.defs2 kv.1 with
      | some s2 => compareSchema cx n child (some kv.2) (some s2) st
      | none => .ok (st.addDiffs child [{ change := Code.DeletedDefinition }]))
    st (it cx.rev cx.defs1)).bind fun st =>
  .ok ((it cx.rev cx.defs2).foldl (fun st kv =>
      if hasKey cx.defs1 kv.1 then st
      else st.addDiffs (location.addNode (nameNode kv.1)) [{ change := Code.AddedDefinition }]) st)

/-- keys pairwise distinct (Bool): what every Go map guarantees -/
def distinctBy {α β} [DecidableEq β] (key : α → β) : List α → Bool
  | [] => true
  | x :: xs => xs.all (fun y => decide (key y ≠ key x)) && distinctBy key xs

/-- Well-formedness of a document in the model's encoding: lists that stand for Go maps have distinct keys
    (endpoints by (url, method), definitions by name, responses by code, headers by name).  The driver checks it
    on every input line. -/
def Spec.wf (s : Spec) : Bool :=
  distinctBy UM.key (getURLMethodsFor s) &&
  distinctBy (fun (kv : String × Schema) => kv.1) s.defs &&
  (getURLMethodsFor s).all (fun u =>
    distinctBy (fun (r : Response) => r.code) u.op.responses &&
    u.op.responses.all (fun r => distinctBy (fun (h : Header) => h.name) r.headers))

structure Flags where
  rev : Nat := 0

/-- SpecAnalyser.Analyse (extensions not modelled). -/
def analyse (fl : Flags) (n : Nat) (s1 s2 : Spec) : Outcome (List Diff) :=
  let cx : Ctx := { defs1 := s1.defs, defs2 := s2.defs, rev := fl.rev }
  let u1 := getURLMethodsFor s1
  let u2 := getURLMethodsFor s2
  let st : St := {}
  let st := analyseSpecMetadata s1 s2 st
  let st := findDeletedEndpoints fl.rev u1 u2 st
  let st := findAddedEndpoints fl.rev u1 u2 st
  (analyseRequestParams cx n u1 u2 st).bind fun st =>
  let st := analyseEndpointData fl.rev u1 u2 st
  (analyseResponseParams cx n u1 u2 st).bind fun st =>
  (analyseDefinitions cx n st).bind fun st =>
  .ok st.diffs

end Gs.Diff
