import GsModel.Diff.Analyser
/-
  Model of the reporting half of `swagger diff`: SpecDifference.Matches / FilterIgnores / BreakingChangeCount /
  String / reportChanges / ReportCompatibility / ReportAllDiffs (spec_difference.go), the string tables and their
  inverses built in `init` (difftypes.go), the JSON shape of a difference (omitempty rules) and DiffCommand.Execute
  (cmd/swagger/commands/diff.go) up to the exit status.
-/
namespace Gs.Diff
open Gs Gs.Gen

/-! ### string tables and the inverse tables built by `init` -/

/-- toIDSpecChangeCode: `for key, val := range toStringSpecChangeCode { toID[val] = key }`.  With an injective table
    the result does not depend on the iteration order; the model takes the first code carrying the string. -/
def parseCode (s : String) : Option Code := Code.all.find? (fun c => showCode c = some s)
def parseCompat (s : String) : Option Compat := Compat.all.find? (fun c => showCompat c = some s)

/-- MarshalJSON of a code: `toStringSpecChangeCode[s]` — the empty string when the entry is missing. -/
def marshalCode (c : Code) : String := (showCode c).getD ""
def marshalCompat (c : Compat) : String := (showCompat c).getD ""

/-! ### Matches, FilterIgnores -/

def equalNodes : List NodeSeg → List NodeSeg → Bool
  | [], [] => true
  | [], _ :: _ => false
  | _ :: _, [] => false
  | a :: as, b :: bs => a.field == b.field && a.isArray == b.isArray && a.typeName == b.typeName && equalNodes as bs

def equalLocations (a b : Loc) : Bool :=
  a.method == b.method && a.response == b.response && a.url == b.url && equalNodes a.node b.node

def Diff.matches (a b : Diff) : Bool :=
  decide (a.code = b.code) && decide (a.compat = b.compat) && a.info == b.info && equalLocations a.loc b.loc

def contains (l : List Diff) (d : Diff) : Bool := l.any (fun e => e.matches d)

/-- addDiff recomputes the compatibility from code and context -/
def recompute (d : Diff) : Diff := { d with compat := getCompatibilityForChange d.code (d.loc.response > 0) }

def filterIgnores (ds ignores : List Diff) : List Diff :=
  (ds.filter (fun d => !contains ignores d)).map recompute

def breakingCount (ds : List Diff) : Nat := (ds.filter (fun d => d.compat = Compat.Breaking)).length
def warningCount (ds : List Diff) : Nat := (ds.filter (fun d => d.compat = Compat.Warning)).length

/-! ### text rendering -/

def joinDash : List String → String
  | [] => ""
  | [x] => x
  | x :: xs => x ++ " - " ++ joinDash xs

def nodeStr : List NodeSeg → String
  | [] => ""
  | n :: rest =>
    let name := if n.isArray then n.field ++ "<array[" ++ n.typeName ++ "]>"
                else if n.typeName.length > 0 then n.field ++ "<" ++ n.typeName ++ ">" else n.field
    match rest with
    | [] => name
    | _ => name ++ "." ++ nodeStr rest

/-- SpecDifference.String -/
def Diff.render (d : Diff) : String :=
  let isResponse := d.loc.response > 0
  let hasMethod := d.loc.method.length > 0
  let hasURL := d.loc.url.length > 0
  let prefix0 := if hasMethod then (if hasURL then d.loc.url ++ ":" ++ d.loc.method else "") else d.loc.url
  let pfx := if hasMethod && isResponse then prefix0 ++ " -> " ++ toString d.loc.response else prefix0
  let direction := if hasMethod then (if isResponse then "Response" else "Request") else ""
  joinDash ([pfx, direction, nodeStr d.loc.node, (longCode d.code).getD "UNDEFINED", d.info].filter (· ≠ ""))

/-- reportChanges: the rendered lines of one compatibility class, sorted -/
def reportChanges (ds : List Diff) (c : Compat) : List String :=
  sortStrs ((ds.filter (fun d => d.compat = c)).map Diff.render)

/-- ReportCompatibility: lines and whether an error is returned -/
def reportCompatibility (ds : List Diff) : List String × Bool :=
  let b := breakingCount ds
  if b > 0 then
    ((if ds.length ≠ b then [""] else []) ++ ["BREAKING CHANGES:", "================="] ++ reportChanges ds Compat.Breaking ++
      ["compatibility test FAILED: " ++ toString b ++ " breaking changes detected"], true)
  else (["compatibility test OK. No breaking changes identified."], false)

/-- ReportAllDiffs, text format -/
def reportAllText (ds : List Diff) : List String × Bool :=
  if ds.length = 0 then (["No changes identified"], false) else
  let head :=
    if ds.length ≠ breakingCount ds then
      ["NON-BREAKING CHANGES:", "====================="] ++ reportChanges ds Compat.NonBreaking ++
      (if warningCount ds > 0 then
        ["", "NON-BREAKING CHANGES WITH WARNING:", "=================================="] ++ reportChanges ds Compat.Warning
       else [])
    else []
  let rc := reportCompatibility ds
  (head ++ rc.1, rc.2)

inductive Out where
  | text (lines : List String)
  | json (ds : List Diff)
  deriving Repr

/-- DiffCommand.Execute after the two documents are loaded: (output, exit status ≠ 0). -/
def execute (fmtJSON onlyBreaking : Bool) (diffs ignores : List Diff) : Out × Bool :=
  let ds := filterIgnores diffs ignores
  if !fmtJSON && onlyBreaking then
    let r := reportCompatibility ds
    (.text r.1, r.2)
  else if fmtJSON then (.json ds, false)      -- ReportAllDiffs(true) returns a nil third result: exit status 0 always
  else
    let r := reportAllText ds
    (.text r.1, r.2)

/-! ### JSON shape of a difference (struct tags of SpecDifference, DifferenceLocation, Node) -/

inductive JS where
  | str (s : String)
  | num (n : Nat)
  | tt
  | obj (fields : List (String × JS))
  deriving Repr

def JS.get (j : JS) (k : String) : Option JS :=
  match j with
  | .obj fs => (fs.find? (fun kv => kv.1 = k)).map (·.2)
  | _ => none

/-- Node → JSON: every field `omitempty`, the chain nested under "child" -/
def encodeNode : List NodeSeg → Option JS
  | [] => none
  | n :: rest =>
    some (.obj ((if n.field ≠ "" then [("name", JS.str n.field)] else []) ++
                (if n.typeName ≠ "" then [("type", JS.str n.typeName)] else []) ++
                (if n.isArray then [("is_array", JS.tt)] else []) ++
                (match encodeNode rest with | some c => [("child", c)] | none => [])))

def encodeDiff (d : Diff) : JS :=
  .obj ([("location", JS.obj ([("url", JS.str d.loc.url)] ++
            (if d.loc.method ≠ "" then [("method", JS.str d.loc.method)] else []) ++
            (if d.loc.response ≠ 0 then [("response", JS.num d.loc.response)] else []) ++
            (match encodeNode d.loc.node with | some n => [("node", n)] | none => []))),
         ("code", JS.str (marshalCode d.code)), ("compatibility", JS.str (marshalCompat d.compat))] ++
        (if d.info ≠ "" then [("info", JS.str d.info)] else []))

def getStr (j : JS) (k : String) : String := match j.get k with | some (.str s) => s | _ => ""
def getNum (j : JS) (k : String) : Nat := match j.get k with | some (.num n) => n | _ => 0
def getBool (j : JS) (k : String) : Bool := match j.get k with | some .tt => true | _ => false

/-- JSON → Node chain; fuel bounds the nesting depth (a decoded document is finite). -/
def decodeNode : Nat → JS → List NodeSeg
  | 0, _ => []
  | n+1, j =>
    { field := getStr j "name", typeName := getStr j "type", isArray := getBool j "is_array" } ::
      (match j.get "child" with | some c => decodeNode n c | none => [])

def decodeDiff (fuel : Nat) (j : JS) : Option Diff :=
  match j.get "location" with
  | none => none
  | some l =>
    match parseCode (getStr j "code"), parseCompat (getStr j "compatibility") with
    | some c, some k =>
      some { loc := { url := getStr l "url", method := getStr l "method", response := getNum l "response",
                      node := match l.get "node" with | some n => decodeNode fuel n | none => [] },
             code := c, compat := k, info := getStr j "info" }
    | _, _ => none

end Gs.Diff
