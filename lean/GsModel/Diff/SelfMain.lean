import GsModel.Diff.SelfLemmas
/-
  C12 (identity), main lemmas: `compareSchema` and every top-level pass of the analyser leave the list of
  differences unchanged when run on equal arguments.
-/
namespace Gs.Diff
open Gs Gs.Gen Gs.Outcome

abbrev KeepsD (st : St) (x : Outcome St) : Prop := Holds (fun st' => st'.diffs = st.diffs) x

theorem propertiesFor_distinct (d : Defs) :
    ∀ n s, Holds (fun r => keysDistinct r.1) (propertiesFor d n s)
  | 0, _ => by simp [propertiesFor]
  | n+1, s => by
    unfold propertiesFor
    simp only
    refine Holds.bind (P := fun _ => True) (Holds.of_true _ (fun _ => trivial)) ?_
    intro r _
    refine foldlM_holds (fun (acc : List (String × PropDefn) × List String) => keysDistinct acc.1) _ _ _ ?_ ?_
    · simp only
      split
      · exact foldl_upsert_distinct (fun (kv : String × Schema) => (kv.1, ({ schema := kv.2, required := r.1.required.contains kv.1 } : PropDefn))) _ [] trivial
      · trivial
    · intro acc a _ hacc
      refine Holds.bind (propertiesFor_distinct d n a) ?_
      intro m _
      simp only [holds_ok]
      exact foldl_upsert_distinct (fun (kv : String × PropDefn) => (kv.1, kv.2)) _ _ hacc

/-- what `resolveBoth` returns on equal arguments: the same resolved schema twice, differences untouched -/
def SameRes (st : St) : Option (Option Schema × Option Schema × St) → Prop
  | none => True
  | some (o1, o2, st') => o1 = o2 ∧ st'.diffs = st.diffs

theorem resolveBoth_self (cx : Ctx) (hd : cx.defs1 = cx.defs2) (loc : Loc) (s : Schema) (st : St) :
    Holds (SameRes st) (resolveBoth cx loc s s st) := by
  unfold resolveBoth
  simp only
  by_cases hr : s.ref = ""
  · simp [hr, Outcome.bind, SameRes]
  · simp only [ne_eq, hr, not_false_eq_true, if_true]
    refine Holds.bind (P := fun r => match r with
        | none => True
        | some (o1, st') => o1 = lookup cx.defs1 s.ref ∧ st'.diffs = st.diffs) ?_ ?_
    · refine Holds.bind (P := fun _ => True) (Holds.of_true _ (fun _ => trivial)) ?_
      intro key _
      split
      · simp
      · simp only [holds_ok]
        unfold schemaFromRef
        split <;> simp_all
    · intro r hr'
      cases r with
      | none => simp [SameRes]
      | some p =>
        obtain ⟨o1, st'⟩ := p
        simp only at hr'
        simp only [holds_ok, SameRes]
        refine ⟨?_, ?_⟩
        · rw [hr'.1, hd]
          unfold schemaFromRef
          split <;> simp_all
        · rw [schemaFromRef_diffs]; exact hr'.2

abbrev CmpSelf (cmp : Cmp) : Prop := ∀ loc os st, KeepsD st (cmp loc os os st)

theorem compareItems_self (cmp : Cmp) (hc : CmpSelf cmp) (n : Nat) (loc : Loc) (t : Schema) (st : St) :
    KeepsD st (compareItems cmp n loc t t st) := by
  unfold compareItems
  by_cases h : isArrayType t.type = true
  · simp only [h, if_true]
    split
    · exact hc _ _ _
    · simp [KeepsD]
  · simp [h, KeepsD]

theorem propStep_self (cmp : Cmp) (hc : CmpSelf cmp) (n : Nat) (loc : Loc) (props : List (String × PropDefn))
    (hp : keysDistinct props) (st0 : St) (acc : St × List (Loc × Code)) (kv : String × PropDefn) (hkv : kv ∈ props)
    (hacc : acc.1.diffs = st0.diffs ∧ acc.2 = []) :
    Holds (fun (r : St × List (Loc × Code)) => r.1.diffs = st0.diffs ∧ r.2 = []) (propStep cmp n loc props acc kv) := by
  unfold propStep
  refine Holds.bind (P := fun _ => True) (Holds.of_true _ (fun _ => trivial)) ?_
  intro childLoc _
  rw [lookup_distinct props hp kv hkv]
  simp only [checkToFromRequired_self, List.map_nil, List.append_nil]
  refine Holds.bind (hc childLoc (some kv.2.schema) acc.1) ?_
  intro st' hst'
  simp only [holds_ok]
  exact ⟨hst'.trans hacc.1, hacc.2⟩

theorem addedStep_self (n : Nat) (loc : Loc) (t : Schema) (props2 : List (String × PropDefn))
    (acc : List (Loc × Code)) (kv : String × Schema) (hkv : kv ∈ (if t.hasProps then t.props else [])) (hacc : acc = []) :
    Holds (fun r => r = []) (addedStep n loc t props2 acc kv) := by
  unfold addedStep
  by_cases hh : t.hasProps = true
  · simp only [hh, if_true] at hkv
    simp [hh, hasKey_of_mem t.props kv hkv, hacc]
  · simp [hh] at hkv

theorem compareProperties_self (cx : Ctx) (hd : cx.defs1 = cx.defs2) (cmp : Cmp) (hc : CmpSelf cmp) (n : Nat) (loc : Loc)
    (t : Schema) (st : St) : KeepsD st (compareProperties cx cmp n loc t t st) := by
  unfold compareProperties
  split
  · simp [KeepsD]
  · rw [hd]
    refine Holds.bind_eq ?_
    intro pr1 hpr1
    have hdist : keysDistinct pr1.1 := by
      have := propertiesFor_distinct cx.defs2 n t
      rw [hpr1] at this
      exact this
    rw [hpr1]
    simp only [ok_bind']
    refine Holds.bind (P := fun (r : St × List (Loc × Code)) => r.1.diffs = st.diffs ∧ r.2 = []) ?_ ?_
    · refine foldlM_holds _ _ _ _ ⟨by simp, rfl⟩ ?_
      intro acc kv hkv hacc
      exact propStep_self cmp hc n loc pr1.1 hdist st acc kv ((it_mem _ _ _).mp hkv) hacc
    · intro r hr
      refine Holds.bind (P := fun pd => pd = []) ?_ ?_
      · refine foldlM_holds _ _ _ _ hr.2 ?_
        intro acc kv hkv hacc
        exact addedStep_self n loc t pr1.1 acc kv ((it_mem _ _ _).mp hkv) hacc
      · intro pd hpd
        subst hpd
        simpa using hr.1

theorem compareSchema_self (cx : Ctx) (hd : cx.defs1 = cx.defs2) :
    ∀ n loc (os : Option Schema) st, KeepsD st (compareSchema cx n loc os os st)
  | 0, _, _, _ => by simp [compareSchema, KeepsD]
  | n+1, loc, os, st => by
    cases os with
    | none => simp [compareSchema, KeepsD]
    | some s =>
    unfold compareSchema
    simp only [checkRefChangeSchema_self, ok_bind', List.isEmpty_nil, Bool.not_true, Bool.false_eq_true, if_false]
    refine Holds.bind (resolveBoth_self cx hd loc s st) ?_
    intro r hr
    match r, hr with
    | none, _ => simp [KeepsD]
    | some (none, _, _), _ => trivial
    | some (some t1, none, _), _ => trivial
    | some (some t1, some t2, st'), h =>
      obtain ⟨e, hst⟩ := h
      cases e
      simp only [compareDescripton_self, compareProps_self, ok_bind', List.isEmpty_nil, Bool.not_true,
        Bool.false_eq_true, if_false]
      refine Holds.bind (compareItems_self _ (compareSchema_self cx hd n) n loc t1 st') ?_
      intro st'' h''
      exact Holds.mono (compareProperties_self cx hd _ (compareSchema_self cx hd n) n loc t1 st'')
        (fun a ha => ha.trans (h''.trans hst))

end Gs.Diff
