import GsModel.Diff.Report
/-
  C14: direction classes of change codes.
-/
namespace Gs.Diff
open Gs Gs.Gen

/-- the code expected for the same change seen with the two documents swapped -/
def mirror : Code → Code
  | .DeletedProperty => .AddedProperty
  | .AddedProperty => .DeletedProperty
  | .AddedRequiredProperty => .DeletedProperty
  | .DeletedOptionalParam => .AddedOptionalParam
  | .AddedOptionalParam => .DeletedOptionalParam
  | .AddedDescripton => .DeletedDescripton
  | .DeletedDescripton => .AddedDescripton
  | .AddedTag => .DeletedTag
  | .DeletedTag => .AddedTag
  | .DeletedResponse => .AddedResponse
  | .AddedResponse => .DeletedResponse
  | .DeletedEndpoint => .AddedEndpoint
  | .DeletedDeprecatedEndpoint => .AddedEndpoint
  | .AddedEndpoint => .DeletedEndpoint
  | .AddedRequiredParam => .DeletedRequiredParam
  | .DeletedRequiredParam => .AddedRequiredParam
  | .WidenedType => .NarrowedType
  | .NarrowedType => .WidenedType
  | .AddedEnumValue => .DeletedEnumValue
  | .DeletedEnumValue => .AddedEnumValue
  | .ChangedOptionalToRequired => .ChangedRequiredToOptional
  | .ChangedRequiredToOptional => .ChangedOptionalToRequired
  | .AddedConsumesFormat => .DeletedConsumesFormat
  | .DeletedConsumesFormat => .AddedConsumesFormat
  | .AddedProducesFormat => .DeletedProducesFormat
  | .DeletedProducesFormat => .AddedProducesFormat
  | .AddedSchemes => .DeletedSchemes
  | .DeletedSchemes => .AddedSchemes
  | .AddedResponseHeader => .DeletedResponseHeader
  | .DeletedResponseHeader => .AddedResponseHeader
  | .DeletedConstraint => .AddedConstraint
  | .AddedConstraint => .DeletedConstraint
  | .DeletedDefinition => .AddedDefinition
  | .AddedDefinition => .DeletedDefinition
  | .AddedDefault => .DeletedDefault
  | .DeletedDefault => .AddedDefault
  | .AddedExample => .DeletedExample
  | .DeletedExample => .AddedExample
  | .DeletedExtension => .AddedExtension
  | .AddedExtension => .DeletedExtension
  | c => c

/-- codes that only refine another one (required-ness of an added property, deprecation of a deleted endpoint) -/
def normC : Code → Code
  | .AddedRequiredProperty => .AddedProperty
  | .DeletedDeprecatedEndpoint => .DeletedEndpoint
  | c => c

end Gs.Diff
