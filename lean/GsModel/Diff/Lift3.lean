import GsModel.Diff.Lift2
/-
  C13, lifting (continued): the request body.  A change CompareProps finds at the ROOT of an inline (`$ref`-free) body
  schema is a Breaking entry of every report.
-/
namespace Gs.Diff
open Gs Gs.Gen Gs.Outcome

theorem checkRefChangeSchema_norefs (n : Nat) (t1 t2 : Schema) (h1 : t1.ref = "") (h2 : t2.ref = "") :
    checkRefChangeSchema n t1 t2 = .ok [] := by
  simp [checkRefChangeSchema, h1, h2]

theorem resolveBoth_norefs (cx : Ctx) (loc : Loc) (s1 s2 : Schema) (st : St) (h1 : s1.ref = "") (h2 : s2.ref = "") :
    resolveBoth cx loc s1 s2 st = .ok (some (some s1, some s2, st)) := by
  simp [resolveBoth, h1, h2, Outcome.bind]

/-- compareSchema records as Breaking a request-breaking code that CompareProps finds at the root of two `$ref`-free schemas -/
theorem compareSchema_hits_root (cx : Ctx) (n : Nat) (loc : Loc) (hl : loc.response = 0) (s1 s2 : Schema) (st : St)
    (h1 : s1.ref = "") (h2 : s2.ref = "")
    (ds : List TDiff) (hcmp : compareProps n s1 s2 = .ok ds)
    (td : TDiff) (htd : td ∈ ds) (hne : td.change ≠ Code.NoChangeDetected)
    (hbr : getCompatibilityForChange td.change false = Compat.Breaking) :
    Holds HasBreaking (compareSchema cx (n+1) loc (some s1) (some s2) st) := by
  unfold compareSchema
  simp only [checkRefChangeSchema_norefs n s1 s2 h1 h2, ok_bind', List.isEmpty_nil, Bool.not_true, Bool.false_eq_true, if_false,
    resolveBoth_norefs cx loc s1 s2 st h1 h2, hcmp]
  have hne' : ds.isEmpty = false := by
    cases ds with
    | nil => cases htd
    | cons _ _ => rfl
  simp only [hne', Bool.not_false, if_true, holds_ok]
  obtain ⟨d, hd, _, hcompat⟩ := addDiffs_records loc td hne ds (st.compareDescripton loc s1.desc s2.desc) htd
  refine ⟨d, hd, ?_⟩
  rw [hcompat]
  simp only [hl, gt_iff_lt, Nat.lt_irrefl, decide_false]
  exact hbr

/-- through compareParams: whatever the comparison of the two body schemas records as Breaking stays recorded -/
theorem compareParams_hits_schema (cx : Ctx) (N : Nat) (url method location name : String) (p1 p2 : Param) (st : St)
    (sc1 sc2 : Schema) (e1 : p1.schema = some sc1) (e2 : p2.schema = some sc2)
    (hhit : ∀ cl st', cl.response = 0 → Holds HasBreaking (compareSchema cx N cl (some sc1) (some sc2) st')) :
    Holds HasBreaking (compareParams cx N url method location name p1 p2 st) := by
  unfold compareParams
  dsimp only
  simp only [e1, e2]
  refine Holds.bind (P := fun (r : Loc × St) => HasBreaking r.2) ?_ (fun r hr => ?_)
  · refine Holds.bind (P := fun (cl : Loc) => cl.response = 0) ?_ (fun cl hcl => ?_)
    · split
      · refine Holds.bind (P := fun _ => True) (Holds.of_true _ (fun _ => trivial)) (fun nd _ => ?_)
        simp [Loc.addNode]
      · simp [Loc.addNode]
    · exact Holds.bind (hhit cl _ hcl) (fun st' hb => by simpa using hb)
  · refine Holds.bind (P := fun _ => True) (Holds.of_true _ (fun _ => trivial)) (fun diffs _ => ?_)
    refine Holds.bind (P := fun _ => True) (Holds.of_true _ (fun _ => trivial)) (fun nd _ => ?_)
    exact hr.keep (Mono.trans ((addDiffs_sub _ _ _).trans (addDiffs_sub _ _ _)) (compareSimpleSchema_mono _ _ _ _))

theorem umStep_hits_schema (cx : Ctx) (N : Nat) (u1 : List UM) (pl : String) (um1 um2 : UM)
    (hf : findUM u1 um2.url um2.method = some um1) (name : String) (p1 p2 : Param)
    (hp1 : lookup (getParams um1.item.params um1.op.params pl) name = some p1)
    (hp2 : (name, p2) ∈ getParams um2.item.params um2.op.params pl)
    (sc1 sc2 : Schema) (e1 : p1.schema = some sc1) (e2 : p2.schema = some sc2)
    (hhit : ∀ cl st', cl.response = 0 → Holds HasBreaking (compareSchema cx N cl (some sc1) (some sc2) st')) (b : St) :
    Holds HasBreaking (umStep cx N u1 pl b um2) := by
  unfold umStep
  rw [hf]
  dsimp only
  refine Holds.bind (P := fun _ => True) (Holds.of_true _ (fun _ => trivial)) (fun st1 _ => ?_)
  refine foldlM_reach HasBreaking _ (name, p2) _ ((it_mem _ _ _).mpr hp2) ?_ ?_ st1
  · intro b'
    unfold cmpParamStep
    simp only [hp1]
    exact compareParams_hits_schema cx N _ _ _ _ p1 p2 b' sc1 sc2 e1 e2 hhit
  · intro b' a hb'
    exact hb'.keep (cmpParamStep_mono _ _ _ _ _ _ b' a)

/-- **Lifting, request body.** Whatever compareSchema records as Breaking for the two body schemas of a parameter both
    documents have is a Breaking entry of every report. -/
theorem analyse_reports_body_change (fl : Flags) (N : Nat) (a b : Spec) (pl : String) (hpl : pl ∈ paramLocations)
    (um1 um2 : UM) (hum2 : um2 ∈ getURLMethodsFor b) (hf : findUM (getURLMethodsFor a) um2.url um2.method = some um1)
    (name : String) (p1 p2 : Param)
    (hp1 : lookup (getParams um1.item.params um1.op.params pl) name = some p1)
    (hp2 : (name, p2) ∈ getParams um2.item.params um2.op.params pl)
    (sc1 sc2 : Schema) (e1 : p1.schema = some sc1) (e2 : p2.schema = some sc2)
    (hhit : ∀ cl st', cl.response = 0 →
      Holds HasBreaking (compareSchema { defs1 := a.defs, defs2 := b.defs, rev := fl.rev } N cl (some sc1) (some sc2) st')) :
    Holds (fun ds => ∃ d ∈ ds, d.compat = Compat.Breaking) (analyse fl N a b) := by
  unfold analyse
  dsimp only
  have hreach : ∀ st, Holds HasBreaking (analyseRequestParams { defs1 := a.defs, defs2 := b.defs, rev := fl.rev } N (getURLMethodsFor a) (getURLMethodsFor b) st) := by
    intro st
    rw [analyseRequestParams_eq]
    refine foldlM_reach HasBreaking _ pl _ hpl ?_ ?_ st
    · intro b0
      refine foldlM_reach HasBreaking _ um2 _ ((it_mem _ _ _).mpr hum2) ?_ ?_ b0
      · intro b'
        exact umStep_hits_schema _ N _ pl um1 um2 hf name p1 p2 hp1 hp2 sc1 sc2 e1 e2 hhit b'
      · intro b' a' hb'
        exact hb'.keep (umStep_mono _ _ _ _ b' a')
    · intro b0 pl' hb
      exact hb.keep (foldlM_mono _ _ b0 b0 (Sub.refl _) (fun b' a' _ => umStep_mono _ _ _ _ b' a'))
  refine Holds.bind (hreach _) (fun st1 hb1 => ?_)
  have hb2 := hb1.sub (analyseEndpointData_sub fl.rev (getURLMethodsFor a) (getURLMethodsFor b) st1)
  refine Holds.bind (hb2.keep (analyseResponseParams_mono _ N _ _ _)) (fun st3 hb3 => ?_)
  refine Holds.bind (hb3.keep (analyseDefinitions_mono _ N _)) (fun st4 hb4 => ?_)
  exact hb4

end Gs.Diff

namespace Gs.Diff
open Gs Gs.Gen Gs.Outcome

/-! ### one level down: a property of an inline object body -/

theorem addChildDiffNode_response (n : Nat) (l : Loc) (name : String) (s : Schema) :
    Holds (fun l' => l'.response = l.response) (addChildDiffNode n l name s) := by
  unfold addChildDiffNode
  refine Holds.bind (P := fun _ => True) (Holds.of_true _ (fun _ => trivial)) (fun nd _ => ?_)
  simp [Loc.addNode]

/-- compareProperties reaches a property both objects have; what the nested comparison records stays recorded -/
theorem compareProperties_hits (cx : Ctx) (cmp : Cmp) (hm : CmpMono cmp) (n : Nat) (loc : Loc) (hl : loc.response = 0)
    (t1 t2 : Schema) (hp : (!t1.hasProps && !t2.hasProps) = false) (st : St)
    (pr1 pr2 : List (String × PropDefn) × List String)
    (e1 : propertiesFor cx.defs1 n t1 = .ok pr1) (e2 : propertiesFor cx.defs2 n t2 = .ok pr2)
    (name : String) (pd1 pd2 : PropDefn) (hmem : (name, pd1) ∈ pr1.1) (hl2 : lookup pr2.1 name = some pd2)
    (hhit : ∀ cl st', cl.response = 0 → Holds HasBreaking (cmp cl (some pd1.schema) (some pd2.schema) st')) :
    Holds HasBreaking (compareProperties cx cmp n loc t1 t2 st) := by
  unfold compareProperties
  simp only [hp, Bool.false_eq_true, if_false, e1, e2, ok_bind']
  refine Holds.bind (P := fun (r : St × List (Loc × Code)) => HasBreaking r.1) ?_ (fun r hr => ?_)
  · refine foldlM_reach (fun (r : St × List (Loc × Code)) => HasBreaking r.1) _ (name, pd1) _ ((it_mem _ _ _).mpr hmem) ?_ ?_ _
    · intro acc
      unfold propStep
      refine Holds.bind (addChildDiffNode_response n loc name pd1.schema) (fun childLoc hcl => ?_)
      simp only [hl2]
      exact Holds.bind (hhit childLoc acc.1 (hcl.trans hl)) (fun st' hb => by simpa using hb)
    · intro acc kv hacc
      exact Holds.mono (propStep_mono cmp hm n loc pr2.1 acc kv) (fun r hs => hacc.sub hs)
  · refine Holds.bind (P := fun _ => True) (Holds.of_true _ (fun _ => trivial)) (fun pd _ => ?_)
    simp only [holds_ok]
    exact hr.sub (foldl_inv (Sub r.1) _ _ _ (Sub.refl _) (fun b a _ hb => hb.trans (addDiff_sub _ _ _ _)))

/-- propertiesFor on a `$ref`-free schema without allOf: its own properties -/
theorem propertiesFor_plain (d : Defs) (n : Nat) (s : Schema) (hr : s.ref = "") (ha : s.allOf = []) (hp : s.hasProps = true) :
    propertiesFor d (n+1) s =
      .ok (s.props.foldl (fun acc kv => upsert acc kv.1 { schema := kv.2, required := s.required.contains kv.1 }) [], []) := by
  simp [propertiesFor, hr, ha, hp, Outcome.bind, Outcome.foldlM]

theorem upsert_lookup_self {α} : ∀ (m : List (String × α)) k v, lookup (upsert m k v) k = some v
  | [], k, v => by simp [upsert, lookup]
  | (k', v') :: tl, k, v => by
    simp only [upsert]
    split
    · rename_i e; simp [lookup, e]
    · rename_i ne
      simp only [lookup, ne, if_false]
      exact upsert_lookup_self tl k v

theorem upsert_lookup_other {α} : ∀ (m : List (String × α)) k v q, q ≠ k → lookup (upsert m k v) q = lookup m q
  | [], k, v, q, h => by
    have : k ≠ q := fun e => h e.symm
    simp [upsert, lookup, this]
  | (k', v') :: tl, k, v, q, h => by
    simp only [upsert]
    split
    · rename_i e
      have : k' ≠ q := fun e' => h (e'.symm.trans e)
      simp [lookup, this]
    · simp only [lookup]
      split
      · rfl
      · exact upsert_lookup_other tl k v q h

/-- the last property with a given name wins in the merged map (a JSON object has each name once: `hone`) -/
theorem foldl_upsert_lookup {α β} (g : β → String × α) :
    ∀ (l : List β) (m : List (String × α)) (x : β), x ∈ l → (∀ y ∈ l, (g y).1 = (g x).1 → y = x) →
      lookup (l.foldl (fun acc y => upsert acc (g y).1 (g y).2) m) (g x).1 = some (g x).2
  | [], _, _, h, _ => by cases h
  | y :: ys, m, x, h, hone => by
    simp only [List.foldl]
    by_cases hx : x ∈ ys
    · exact foldl_upsert_lookup g ys _ x hx (fun z hz e => hone z (List.mem_cons_of_mem _ hz) e)
    · have hy : y = x := by
        rcases List.mem_cons.mp h with h | h
        · exact h.symm
        · exact absurd h hx
      subst hy
      -- no later element has this key: the fold over `ys` leaves the entry alone
      have keep : ∀ (l : List β) (m' : List (String × α)), (∀ z ∈ l, (g z).1 ≠ (g y).1) →
          lookup (l.foldl (fun acc z => upsert acc (g z).1 (g z).2) m') (g y).1 = lookup m' (g y).1 := by
        intro l
        induction l with
        | nil => intro m' _; rfl
        | cons z zs ih =>
          intro m' hz
          simp only [List.foldl]
          rw [ih _ (fun w hw => hz w (List.mem_cons_of_mem _ hw))]
          exact upsert_lookup_other m' _ _ _ (fun e => hz z List.mem_cons_self e.symm)
      rw [keep ys _ (fun z hz e => hx (by have := hone z (List.mem_cons_of_mem _ hz) e; exact this ▸ hz))]
      exact upsert_lookup_self m _ _

end Gs.Diff

namespace Gs.Diff
open Gs Gs.Gen Gs.Outcome

/-- an inline object schema: no `$ref`, no allOf, a properties map, not an array -/
structure PlainObject (s : Schema) : Prop where
  noref : s.ref = ""
  noallof : s.allOf = []
  hasprops : s.hasProps = true
  notarray : isArrayType s.type = false

/-- compareSchema on two inline objects reaches a property both have: a request-breaking code CompareProps finds on that
    property (itself `$ref`-free) is recorded as Breaking -/
theorem compareSchema_hits_property (cx : Ctx) (n : Nat) (loc : Loc) (hl : loc.response = 0) (s1 s2 : Schema) (st : St)
    (o1 : PlainObject s1) (o2 : PlainObject s2) (hroot : compareProps (n+1) s1 s2 = .ok [])
    (name : String) (p1 p2 : Schema) (m1 : (name, p1) ∈ s1.props) (m2 : (name, p2) ∈ s2.props)
    (u1 : ∀ y ∈ s1.props, y.1 = name → y = (name, p1)) (u2 : ∀ y ∈ s2.props, y.1 = name → y = (name, p2))
    (r1 : p1.ref = "") (r2 : p2.ref = "")
    (ds : List TDiff) (hcmp : compareProps n p1 p2 = .ok ds)
    (td : TDiff) (htd : td ∈ ds) (hne : td.change ≠ Code.NoChangeDetected)
    (hbr : getCompatibilityForChange td.change false = Compat.Breaking) :
    Holds HasBreaking (compareSchema cx (n+2) loc (some s1) (some s2) st) := by
  unfold compareSchema
  simp only [checkRefChangeSchema_norefs (n+1) s1 s2 o1.noref o2.noref, ok_bind', List.isEmpty_nil, Bool.not_true,
    Bool.false_eq_true, if_false, resolveBoth_norefs cx loc s1 s2 st o1.noref o2.noref, hroot]
  have hitems : ∀ st0, compareItems (compareSchema cx (n+1)) (n+1) loc s1 s2 st0 = .ok st0 := by
    intro st0
    simp [compareItems, o1.notarray]
  rw [hitems]
  simp only [ok_bind']
  let g1 := fun (kv : String × Schema) => (kv.1, ({ schema := kv.2, required := s1.required.contains kv.1 } : PropDefn))
  let g2 := fun (kv : String × Schema) => (kv.1, ({ schema := kv.2, required := s2.required.contains kv.1 } : PropDefn))
  have l1 := foldl_upsert_lookup g1 s1.props [] (name, p1) m1 (fun y hy e => u1 y hy e)
  have l2 := foldl_upsert_lookup g2 s2.props [] (name, p2) m2 (fun y hy e => u2 y hy e)
  refine compareProperties_hits cx _ (compareSchema_mono cx (n+1)) (n+1) loc hl s1 s2 (by simp [o1.hasprops]) _
    _ _ (propertiesFor_plain cx.defs1 n s1 o1.noref o1.noallof o1.hasprops) (propertiesFor_plain cx.defs2 n s2 o2.noref o2.noallof o2.hasprops)
    name _ _ (lookup_mem _ _ _ l1) l2 ?_
  intro cl st' hcl
  exact compareSchema_hits_root cx n cl hcl p1 p2 st' r1 r2 ds hcmp td htd hne hbr

end Gs.Diff
