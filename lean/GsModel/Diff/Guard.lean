import GsModel.Diff.Total
/-
  C12, the recursion guard of compareSchema (`schemasCompared` / schemaLocationKey): what cuts `$ref` cycles.
  * the key of a location depends on its first two nodes only (`key_ignores_depth`): below depth 2 every location of one
    subtree has the same key;
  * a `$ref` arriving at a key that was already visited returns at once, the state untouched (`guard_returns`);
  * resolving a `$ref` marks the key (`guard_marks`).
  Together: on any path below one root, at most one `$ref` is followed per distinct key, i.e. at most twice (root key, second-node
  key); between two `$ref`s the recursion descends structurally.  (The same three facts are the cause of the known finding
  `unstable-report:order-dependent-schema-visit`: which of several `$ref`s below one key is compared depends on the order.)
-/
namespace Gs.Diff
open Gs Gs.Gen Gs.Outcome

theorem key_ignores_depth (l : Loc) (a b : NodeSeg) (rest : List NodeSeg) (extra : List NodeSeg) :
    schemaLocationKey { l with node := a :: b :: rest } = schemaLocationKey { l with node := a :: b :: (rest ++ extra) } := by
  simp [schemaLocationKey]

theorem addNode_key (l : Loc) (a b : NodeSeg) (rest : List NodeSeg) (c : NodeSeg) (h : l.node = a :: b :: rest) :
    schemaLocationKey (l.addNode c) = schemaLocationKey l := by
  have e1 : l = { l with node := a :: b :: rest } := by cases l; simp_all
  have e2 : l.addNode c = { l with node := a :: b :: (rest ++ [c]) } := by cases l; simp_all [Loc.addNode]
  rw [e2]
  conv => rhs; rw [e1]
  exact (key_ignores_depth l a b rest [c]).symm

/-- a `$ref` that arrives at a visited key is not followed: compareSchema returns the state it was given -/
theorem guard_returns (cx : Ctx) (n : Nat) (loc : Loc) (s1 s2 : Schema) (st : St) (k : String)
    (hr : s1.ref ≠ "") (hsame : checkRefChangeSchema n s1 s2 = .ok [])
    (hk : schemaLocationKey loc = .ok k) (hv : st.visited.contains k = true) :
    compareSchema cx (n+1) loc (some s1) (some s2) st = .ok st := by
  unfold compareSchema
  simp only [hsame, ok_bind', List.isEmpty_nil, Bool.not_true, Bool.false_eq_true, if_false]
  have hv' : k ∈ st.visited := by simpa using hv
  unfold resolveBoth
  simp [hr, hk, hv', Outcome.bind]

/-- following a `$ref` marks the key of the location -/
theorem guard_marks (cx : Ctx) (loc : Loc) (s1 s2 : Schema) (st : St) (k : String)
    (hr : s1.ref ≠ "") (hk : schemaLocationKey loc = .ok k) (hv : st.visited.contains k = false) :
    ∃ o1 o2 st', resolveBoth cx loc s1 s2 st = .ok (some (o1, o2, st')) ∧ st'.visited.contains k = true := by
  unfold resolveBoth
  simp only [ne_eq, hr, not_false_eq_true, if_true, hk, ok_bind', hv, Bool.false_eq_true, if_false]
  refine ⟨_, _, _, rfl, ?_⟩
  have hmark : ∀ (st0 : St) (d : Defs) (r : String), (schemaFromRef st0 d r).2.visited = st0.visited := by
    intro st0 d r
    unfold schemaFromRef
    split <;> simp [St.markRefs]
  split
  · rw [hmark, hmark]
    simp
  · rw [hmark]
    simp

end Gs.Diff
