import GsModel.Diff.Lift4
/-
  C14, direction at the level of the whole report: what one order of the two documents reports as ADDED the other order
  reports as DELETED — for endpoints and for parameters (every fuel, every iteration order, whatever else the documents contain).
-/
namespace Gs.Diff
open Gs Gs.Gen Gs.Outcome

/-- an entry with this change code is recorded -/
def HasCode (c : Code) (st : St) : Prop := ∃ d ∈ st.diffs, d.code = c

theorem HasCode.sub {c : Code} {a b : St} (h : HasCode c a) (hs : Sub a b) : HasCode c b := by
  obtain ⟨d, hd, hc⟩ := h
  exact ⟨d, hs d hd, hc⟩

theorem HasCode.keep {c : Code} {st : St} {x : Outcome St} (h : HasCode c st) (hx : Mono st x) : Holds (HasCode c) x :=
  Holds.mono hx (fun _ hs => h.sub hs)

theorem addDiff_hasCode (st : St) (loc : Loc) (c : Code) (info : String) : HasCode c (st.addDiff loc c info) := by
  refine ⟨{ loc := loc, code := c, compat := getCompatibilityForChange c (loc.response > 0), info := info }, ?_, rfl⟩
  simp [St.addDiff]

/-- everything after the request-parameter pass only appends -/
theorem analyse_tail_keeps (c : Code) (fl : Flags) (n : Nat) (a b : Spec) (st1 : St) (h1 : HasCode c st1) :
    Holds (fun ds => ∃ d ∈ ds, d.code = c)
      ((analyseResponseParams { defs1 := a.defs, defs2 := b.defs, rev := fl.rev } n (getURLMethodsFor a) (getURLMethodsFor b)
          (analyseEndpointData fl.rev (getURLMethodsFor a) (getURLMethodsFor b) st1)).bind fun st =>
        (analyseDefinitions { defs1 := a.defs, defs2 := b.defs, rev := fl.rev } n st).bind fun st => Outcome.ok st.diffs) := by
  have h2 := h1.sub (analyseEndpointData_sub fl.rev (getURLMethodsFor a) (getURLMethodsFor b) st1)
  refine Holds.bind (h2.keep (analyseResponseParams_mono _ n _ _ _)) (fun st3 h3 => ?_)
  refine Holds.bind (h3.keep (analyseDefinitions_mono _ n _)) (fun st4 h4 => ?_)
  exact h4

/-! ### endpoints -/

theorem findAddedEndpoints_hits (rev : Nat) (u1 u2 : List UM) (um2 : UM) (h2 : um2 ∈ u2)
    (hnew : findUM u1 um2.url um2.method = none) (st : St) : HasCode Code.AddedEndpoint (findAddedEndpoints rev u1 u2 st) := by
  unfold findAddedEndpoints
  refine foldl_reach (HasCode Code.AddedEndpoint) _ um2 _ ((it_mem _ _ _).mpr h2) ?_ ?_ st
  · intro b
    simp only [hnew, Option.isNone_none, if_true]
    exact addDiff_hasCode _ _ _ _
  · intro b a hb
    split
    · exact hb.sub (addDiff_sub _ _ _ _)
    · exact hb

theorem findDeletedEndpoints_hitsCode (rev : Nat) (u1 u2 : List UM) (um1 : UM) (h1 : um1 ∈ u1)
    (hgone : findUM u2 um1.url um1.method = none) (hlive : um1.item.optionsDeprecated = false ∧ um1.op.deprecated = false) (st : St) :
    HasCode Code.DeletedEndpoint (findDeletedEndpoints rev u1 u2 st) := by
  unfold findDeletedEndpoints
  refine foldl_reach (HasCode Code.DeletedEndpoint) _ um1 _ ((it_mem _ _ _).mpr h1) ?_ ?_ st
  · intro b
    simp only [hgone, Option.isNone_none, if_true, hlive.1, hlive.2, Bool.or_self, Bool.false_eq_true, if_false]
    exact addDiff_hasCode _ _ _ _
  · intro b a hb
    split
    · exact hb.sub (addDiff_sub _ _ _ _)
    · exact hb

/-- **Direction, endpoints.** An endpoint that only the second document has is reported AddedEndpoint; with the documents
    exchanged the same endpoint is reported DeletedEndpoint. -/
theorem endpoint_direction (fl : Flags) (n : Nat) (a b : Spec) (um : UM) (hb : um ∈ getURLMethodsFor b)
    (hnew : findUM (getURLMethodsFor a) um.url um.method = none)
    (hlive : um.item.optionsDeprecated = false ∧ um.op.deprecated = false) :
    Holds (fun ds => ∃ d ∈ ds, d.code = Code.AddedEndpoint) (analyse fl n a b) ∧
    Holds (fun ds => ∃ d ∈ ds, d.code = Code.DeletedEndpoint) (analyse fl n b a) := by
  constructor
  · unfold analyse
    dsimp only
    have h0 := findAddedEndpoints_hits fl.rev (getURLMethodsFor a) (getURLMethodsFor b) um hb hnew
      (findDeletedEndpoints fl.rev (getURLMethodsFor a) (getURLMethodsFor b) (analyseSpecMetadata a b {}))
    refine Holds.bind (h0.keep (analyseRequestParams_mono _ n _ _ _)) (fun st1 h1 => ?_)
    exact analyse_tail_keeps _ fl n a b st1 h1
  · unfold analyse
    dsimp only
    have h0 := findDeletedEndpoints_hitsCode fl.rev (getURLMethodsFor b) (getURLMethodsFor a) um hb hnew hlive (analyseSpecMetadata b a {})
    have h0' := h0.sub (findAddedEndpoints_sub fl.rev (getURLMethodsFor b) (getURLMethodsFor a) _)
    refine Holds.bind (h0'.keep (analyseRequestParams_mono _ n _ _ _)) (fun st1 h1 => ?_)
    exact analyse_tail_keeps _ fl n b a st1 h1

/-! ### parameters -/

def addedCode (p : Param) : Code := if p.required then Code.AddedRequiredParam else Code.AddedOptionalParam
def deletedCode (p : Param) : Code := if p.required then Code.DeletedRequiredParam else Code.DeletedOptionalParam

theorem lookup_none_hasKey {α} (m : List (String × α)) (k : String) (h : lookup m k = none) : hasKey m k = false := by
  simp [hasKey, h]

theorem umStep_hits_added (cx : Ctx) (n : Nat) (u1 : List UM) (pl : String) (um1 um2 : UM)
    (hf : findUM u1 um2.url um2.method = some um1) (name : String) (p2 : Param)
    (h1 : lookup (getParams um1.item.params um1.op.params pl) name = none)
    (h2 : (name, p2) ∈ getParams um2.item.params um2.op.params pl) (b : St) :
    Holds (HasCode (addedCode p2)) (umStep cx n u1 pl b um2) := by
  unfold umStep
  rw [hf]
  dsimp only
  refine Holds.bind (P := fun _ => True) (Holds.of_true _ (fun _ => trivial)) (fun st1 _ => ?_)
  refine foldlM_reach (HasCode (addedCode p2)) _ (name, p2) _ ((it_mem _ _ _).mpr h2) ?_ ?_ st1
  · intro b'
    unfold cmpParamStep
    simp only [h1]
    refine Holds.bind (P := fun _ => True) (Holds.of_true _ (fun _ => trivial)) (fun nd _ => ?_)
    simp only [holds_ok]
    exact addDiff_hasCode _ _ _ _
  · intro b' a hb'
    exact hb'.keep (cmpParamStep_mono _ _ _ _ _ _ b' a)

theorem umStep_hits_deleted (cx : Ctx) (n : Nat) (u1 : List UM) (pl : String) (um1 um2 : UM)
    (hf : findUM u1 um2.url um2.method = some um1) (name : String) (p1 : Param)
    (h1 : (name, p1) ∈ getParams um1.item.params um1.op.params pl)
    (h2 : lookup (getParams um2.item.params um2.op.params pl) name = none) (b : St) :
    Holds (HasCode (deletedCode p1)) (umStep cx n u1 pl b um2) := by
  unfold umStep
  rw [hf]
  dsimp only
  refine Holds.bind (P := HasCode (deletedCode p1)) ?_ (fun st1 hb1 => ?_)
  · refine foldlM_reach (HasCode (deletedCode p1)) _ (name, p1) _ ((it_mem _ _ _).mpr h1) ?_ ?_ b
    · intro b'
      unfold delParamStep
      simp only [lookup_none_hasKey _ _ h2, Bool.false_eq_true, if_false]
      refine Holds.bind (P := fun _ => True) (Holds.of_true _ (fun _ => trivial)) (fun nd _ => ?_)
      simp only [holds_ok]
      exact addDiff_hasCode _ _ _ _
    · intro b' a hb'
      exact hb'.keep (delParamStep_mono _ _ b' a)
  · exact hb1.keep (foldlM_mono _ _ st1 st1 (Sub.refl _) (fun b' a _ => cmpParamStep_mono _ _ _ _ _ _ b' a))

theorem analyseRequestParams_reach (Q : St → Prop) (hQ : ∀ a b, Q a → Sub a b → Q b)
    (cx : Ctx) (n : Nat) (u1 u2 : List UM) (pl : String) (hpl : pl ∈ paramLocations) (um2 : UM) (hum2 : um2 ∈ u2)
    (hhit : ∀ b, Holds Q (umStep cx n u1 pl b um2)) (st : St) :
    Holds Q (analyseRequestParams cx n u1 u2 st) := by
  rw [analyseRequestParams_eq]
  refine foldlM_reach Q _ pl _ hpl ?_ ?_ st
  · intro b0
    refine foldlM_reach Q _ um2 _ ((it_mem _ _ _).mpr hum2) hhit ?_ b0
    intro b' a' hb'
    exact Holds.mono (umStep_mono _ _ _ _ b' a') (fun _ hs => hQ _ _ hb' hs)
  · intro b0 pl' hb
    exact Holds.mono (foldlM_mono _ _ b0 b0 (Sub.refl _) (fun b' a' _ => umStep_mono _ _ _ _ b' a')) (fun _ hs => hQ _ _ hb hs)

/-- **Direction, parameters.** A parameter of an endpoint both documents have that only the second document declares is
    reported Added(Required|Optional)Param; with the documents exchanged it is reported Deleted(Required|Optional)Param. -/
theorem param_direction (fl : Flags) (n : Nat) (a b : Spec) (pl : String) (hpl : pl ∈ paramLocations)
    (uma umb : UM) (ha : uma ∈ getURLMethodsFor a) (hb : umb ∈ getURLMethodsFor b)
    (hfa : findUM (getURLMethodsFor a) umb.url umb.method = some uma) (hfb : findUM (getURLMethodsFor b) uma.url uma.method = some umb)
    (name : String) (p : Param)
    (hnot : lookup (getParams uma.item.params uma.op.params pl) name = none)
    (hin : (name, p) ∈ getParams umb.item.params umb.op.params pl) :
    Holds (fun ds => ∃ d ∈ ds, d.code = addedCode p) (analyse fl n a b) ∧
    Holds (fun ds => ∃ d ∈ ds, d.code = deletedCode p) (analyse fl n b a) := by
  constructor
  · unfold analyse
    dsimp only
    refine Holds.bind (analyseRequestParams_reach (HasCode (addedCode p)) (fun _ _ h hs => h.sub hs) _ n _ _ pl hpl umb hb
      (fun b0 => umStep_hits_added _ n _ pl uma umb hfa name p hnot hin b0) _) (fun st1 h1 => ?_)
    exact analyse_tail_keeps _ fl n a b st1 h1
  · unfold analyse
    dsimp only
    refine Holds.bind (analyseRequestParams_reach (HasCode (deletedCode p)) (fun _ _ h hs => h.sub hs) _ n _ _ pl hpl uma ha
      (fun b0 => umStep_hits_deleted _ n _ pl umb uma hfb name p hin hnot b0) _) (fun st1 h1 => ?_)
    exact analyse_tail_keeps _ fl n b a st1 h1

/-! ### response codes -/

/-- one iteration of the second loop of analyseResponseParams (copied from `respRest`) -/
def respRestStep (cx : Ctx) (n : Nat) (r1 : List Response) (base : Loc) (st : St) (resp2 : Response) : Outcome St :=
      match findResp r1 resp2.code with
      | none =>
        (bodyNode n resp2.schema).bind fun nd =>
          .ok (st.addDiff { base with response := resp2.code, node := [nd] } Code.AddedResponse)
      | some resp1 =>
        let location : Loc := { base with response := resp2.code, node := [nameNode "Headers"] }
        (Outcome.foldlM (fun st (h2 : Header) =>
            match findHeader resp1.headers h2.name with
            | some h1 =>
              (compareProps n (forChain h1.chain) (forChain h2.chain)).bind fun ds => .ok (st.addDiffs location ds)
            | none =>
              (nodeOfSimple h2.name h2.chain).bind fun nd =>
                .ok (st.addDiff (location.addNode nd) Code.AddedResponseHeader))
          st (it cx.rev resp2.headers)).bind fun st =>
        (Outcome.foldlM (fun st (h1 : Header) =>
            if (findHeader resp2.headers h1.name).isSome then .ok st else
            (nodeOfSimple h1.name h1.chain).bind fun nd =>
              .ok (st.addDiff (location.addNode nd) Code.DeletedResponseHeader))
          st (it cx.rev resp1.headers)).bind fun st =>
        (match resp1.schema with
         | none => Outcome.ok (nameNode "NoContent")
         | some s => nodeOfProps n "Body" s).bind fun nd =>
        let st := st.compareDescripton { base with response := resp2.code, node := [nd] } resp1.desc resp2.desc
        match resp1.schema, resp2.schema with
        | some s1, none =>
          (nodeOfProps n "Body" s1).bind fun nd =>
            .ok (st.addDiff { base with response := resp2.code, node := [nd] } Code.DeletedProperty)
        | some s1, some s2 =>
          (nodeOfProps n "Body" s1).bind fun nd =>
            compareSchema cx n { base with response := resp2.code, node := [nd] } (some s1) (some s2) st
        | none, some s2 =>
          (nodeOfProps n "Body" s2).bind fun nd =>
            .ok (st.addDiff { base with response := resp2.code, node := [nd] } Code.AddedProperty)
        | none, none => .ok st

theorem respRest_eq (cx : Ctx) (n : Nat) (r1 r2 : List Response) (base : Loc) (st : St) :
    respRest cx n r1 r2 base st = Outcome.foldlM (respRestStep cx n r1 base) st (it cx.rev r2) := rfl

theorem respRestStep_mono (cx : Ctx) (n : Nat) (r1 : List Response) (base : Loc) (st : St) (resp2 : Response) :
    Mono st (respRestStep cx n r1 base st resp2) := by
  unfold respRestStep
  split
  · refine Holds.bind (P := fun _ => True) (Holds.of_true _ (fun _ => trivial)) (fun nd _ => ?_)
    exact addDiff_sub _ _ _ _
  · skip
    refine Holds.bind (P := Sub st) ?_ (fun st2 h2 => ?_)
    · refine foldlM_mono _ _ st st (Sub.refl _) (fun b hdr2 _ => ?_)
      split
      · refine Holds.bind (P := fun _ => True) (Holds.of_true _ (fun _ => trivial)) (fun ds _ => ?_)
        exact addDiffs_sub _ _ _
      · refine Holds.bind (P := fun _ => True) (Holds.of_true _ (fun _ => trivial)) (fun nd _ => ?_)
        exact addDiff_sub _ _ _ _
    refine Holds.bind (P := Sub st) ?_ (fun st3 h3 => ?_)
    · refine foldlM_mono _ _ st st2 h2 (fun b hdr1 _ => ?_)
      split
      · exact Sub.refl _
      · refine Holds.bind (P := fun _ => True) (Holds.of_true _ (fun _ => trivial)) (fun nd _ => ?_)
        exact addDiff_sub _ _ _ _
    refine Holds.bind (bodyNode'_true n _) (fun nd _ => ?_)
    have h4 : ∀ l : Loc, Sub st (st3.compareDescripton l (by assumption : Response).desc resp2.desc) :=
      fun l => h3.trans (compareDescripton_sub _ _ _ _)
    split
    · refine Holds.bind (P := fun _ => True) (Holds.of_true _ (fun _ => trivial)) (fun nd' _ => ?_)
      exact (h4 _).trans (addDiff_sub _ _ _ _)
    · refine Holds.bind (P := fun _ => True) (Holds.of_true _ (fun _ => trivial)) (fun nd' _ => ?_)
      exact Mono.trans (h4 _) (compareSchema_mono cx n _ _ _ _)
    · refine Holds.bind (P := fun _ => True) (Holds.of_true _ (fun _ => trivial)) (fun nd' _ => ?_)
      exact (h4 _).trans (addDiff_sub _ _ _ _)
    · exact h4 _


theorem respRestStep_hits_added (cx : Ctx) (n : Nat) (r1 : List Response) (base : Loc) (st : St) (resp2 : Response)
    (hnew : findResp r1 resp2.code = none) : Holds (HasCode Code.AddedResponse) (respRestStep cx n r1 base st resp2) := by
  unfold respRestStep
  simp only [hnew]
  refine Holds.bind (P := fun _ => True) (Holds.of_true _ (fun _ => trivial)) (fun nd _ => ?_)
  simp only [holds_ok]
  exact addDiff_hasCode _ _ _ _

theorem delRespStep_hitsCode (n : Nat) (base : Loc) (r2 : List Response) (st : St) (resp1 : Response)
    (hgone : findResp r2 resp1.code = none) : Holds (HasCode Code.DeletedResponse) (delRespStep n base r2 st resp1) := by
  unfold delRespStep
  simp only [hgone, Option.isSome_none, Bool.false_eq_true, if_false]
  refine Holds.bind (bodyNode'_true n resp1.schema) (fun nd _ => ?_)
  simp only [holds_ok]
  exact addDiff_hasCode _ _ _ _

theorem analyseResponseParams_reach (Q : St → Prop) (hQ : ∀ a b, Q a → Sub a b → Q b)
    (cx : Ctx) (n : Nat) (u1 u2 : List UM) (um2 : UM) (hum2 : um2 ∈ u2)
    (hhit : ∀ b, Holds Q (respStep cx n u1 b um2)) (st : St) : Holds Q (analyseResponseParams cx n u1 u2 st) := by
  rw [analyseResponseParams_eq]
  refine foldlM_reach Q _ um2 _ ((it_mem _ _ _).mpr hum2) hhit ?_ st
  intro b a hb
  exact Holds.mono (respStep_mono cx n u1 b a) (fun _ hs => hQ _ _ hb hs)

/-- **Direction, response codes.** A response code of a shared endpoint that only the second document declares is reported
    AddedResponse; with the documents exchanged it is reported DeletedResponse. -/
theorem response_direction (fl : Flags) (n : Nat) (a b : Spec) (uma umb : UM) (ha : uma ∈ getURLMethodsFor a) (hb : umb ∈ getURLMethodsFor b)
    (hfa : findUM (getURLMethodsFor a) umb.url umb.method = some uma) (hfb : findUM (getURLMethodsFor b) uma.url uma.method = some umb)
    (resp : Response) (hin : resp ∈ umb.op.responses) (hnot : findResp uma.op.responses resp.code = none) :
    Holds (fun ds => ∃ d ∈ ds, d.code = Code.AddedResponse) (analyse fl n a b) ∧
    Holds (fun ds => ∃ d ∈ ds, d.code = Code.DeletedResponse) (analyse fl n b a) := by
  constructor
  · unfold analyse
    dsimp only
    refine Holds.bind (P := fun _ => True) (Holds.of_true _ (fun _ => trivial)) (fun st1 _ => ?_)
    refine Holds.bind (analyseResponseParams_reach (HasCode Code.AddedResponse) (fun _ _ h hs => h.sub hs) _ n _ _ umb hb ?_ _) (fun st3 h3 => ?_)
    · intro b0
      unfold respStep
      simp only [hfa]
      refine Holds.bind (P := fun _ => True) (Holds.of_true _ (fun _ => trivial)) (fun st2 _ => ?_)
      rw [respRest_eq]
      exact foldlM_reach (HasCode Code.AddedResponse) _ resp _ ((it_mem _ _ _).mpr hin)
        (fun b' => respRestStep_hits_added _ n _ _ b' resp hnot)
        (fun b' x hb' => hb'.keep (respRestStep_mono _ n _ _ b' x)) st2
    · refine Holds.bind (h3.keep (analyseDefinitions_mono _ n _)) (fun st4 h4 => ?_)
      exact h4
  · unfold analyse
    dsimp only
    refine Holds.bind (P := fun _ => True) (Holds.of_true _ (fun _ => trivial)) (fun st1 _ => ?_)
    refine Holds.bind (analyseResponseParams_reach (HasCode Code.DeletedResponse) (fun _ _ h hs => h.sub hs) _ n _ _ uma ha ?_ _) (fun st3 h3 => ?_)
    · intro b0
      unfold respStep
      simp only [hfb]
      refine Holds.bind (P := HasCode Code.DeletedResponse) ?_ (fun st2 h2 => ?_)
      · exact foldlM_reach (HasCode Code.DeletedResponse) _ resp _ ((it_mem _ _ _).mpr hin)
          (fun b' => delRespStep_hitsCode n _ _ b' resp hnot)
          (fun b' x hb' => hb'.keep (delRespStep_mono n _ _ b' x)) b0
      · exact h2.keep (respRest_mono _ n _ _ _ st2)
    · refine Holds.bind (h3.keep (analyseDefinitions_mono _ n _)) (fun st4 h4 => ?_)
      exact h4

end Gs.Diff
