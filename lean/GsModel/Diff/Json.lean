import Lean.Data.Json
import GsModel.Diff.Report
/-
  Line-protocol encoding of the diff model's inputs and outputs (driver only; nothing here is proved about).
-/
namespace Gs.Diff.J
open Lean Gs Gs.Gen Gs.Diff

def str (j : Json) (k : String) : String := (j.getObjValAs? String k).toOption.getD ""
def bool (j : Json) (k : String) : Bool := (j.getObjValAs? Bool k).toOption.getD false
def nat (j : Json) (k : String) : Nat := (j.getObjValAs? Nat k).toOption.getD 0
def optInt (j : Json) (k : String) : Option Int :=
  match j.getObjVal? k with
  | .ok .null => none
  | .ok v => (v.getInt?).toOption
  | .error _ => none
def arr (j : Json) (k : String) : List Json :=
  match j.getObjVal? k with
  | .ok (.arr a) => a.toList
  | _ => []
def optStrs (j : Json) (k : String) : Option (List String) :=
  match j.getObjVal? k with
  | .ok (.arr a) => some (a.toList.map (fun x => x.getStr?.toOption.getD ""))
  | _ => none
def strs (j : Json) (k : String) : List String := (optStrs j k).getD []

def jval (j : Json) : Option JVal :=
  match j with
  | .null => none
  | _ => some { kind := nat j "k", canon := str j "c", shown := str j "s" }

def optJVal (j : Json) (k : String) : Option JVal :=
  match j.getObjVal? k with
  | .ok v => jval v
  | .error _ => none

def valids (j : Json) : Valids :=
  { maximum := optInt j "max", exclMax := bool j "xmax", minimum := optInt j "min", exclMin := bool j "xmin",
    maxLength := optInt j "maxLen", minLength := optInt j "minLen", pattern := str j "pattern",
    maxItems := optInt j "maxItems", minItems := optInt j "minItems", uniqueItems := bool j "unique",
    multipleOf := optInt j "multipleOf", enum := (arr j "enum").filterMap jval }

def simple (j : Json) : Simple :=
  { type := str j "type", format := str j "format", cf := str j "cf", nullable := bool j "nullable",
    dflt := optJVal j "default", exmpl := optJVal j "example", v := valids j }

partial def schema (j : Json) : Schema :=
  let items := j.getObjVal? "items"
  { ref := str j "ref", type := strs j "type", format := str j "format", desc := str j "desc", v := valids j,
    required := strs j "required",
    hasProps := (match j.getObjVal? "props" with | .ok (.arr _) => true | _ => false),
    props := (arr j "props").map (fun kv => (str kv "k", schema ((kv.getObjVal? "v").toOption.getD .null))),
    hasItems := (match items with | .ok (.obj _) => true | _ => false),
    itemOne := (match items with
      | .ok it => (match it.getObjVal? "one" with | .ok (.obj o) => some (schema (.obj o)) | _ => none)
      | _ => none),
    itemMany := (match items with | .ok it => (arr it "many").map schema | _ => []),
    allOf := (arr j "allOf").map schema }

def optSchema (j : Json) (k : String) : Option Schema :=
  match j.getObjVal? k with
  | .ok (.obj o) => some (schema (.obj o))
  | _ => none

def param (j : Json) : Param :=
  { name := str j "name", loc := str j "in", required := bool j "required", desc := str j "desc",
    chain := (arr j "chain").map simple, schema := optSchema j "schema" }

def header (j : Json) : Header := { name := str j "name", chain := (arr j "chain").map simple }

def response (j : Json) : Response :=
  { code := nat j "code", desc := str j "desc", headers := (arr j "headers").map header, schema := optSchema j "schema" }

def operation (j : Json) : Operation :=
  { method := str j "method", deprecated := bool j "deprecated", tags := optStrs j "tags", desc := str j "desc",
    params := (arr j "params").map param, responses := (arr j "responses").map response }

def pathItem (j : Json) : PathItem :=
  { url := str j "url", params := (arr j "params").map param, optionsDeprecated := bool j "optionsDeprecated",
    ops := (arr j "ops").map operation }

def spec (j : Json) : Spec :=
  { consumes := optStrs j "consumes", produces := optStrs j "produces", schemes := optStrs j "schemes",
    host := str j "host", basePath := str j "basePath", infoDesc := str j "infoDesc",
    paths := (arr j "paths").map pathItem,
    defs := (arr j "defs").map (fun kv => (str kv "k", schema ((kv.getObjVal? "v").toOption.getD .null))) }

/-- Node.String() -/
def nodeString : List NodeSeg → String
  | [] => ""
  | n :: rest =>
    let name := if n.isArray then n.field ++ "<array[" ++ n.typeName ++ "]>"
                else if n.typeName.length > 0 then n.field ++ "<" ++ n.typeName ++ ">" else n.field
    match rest with
    | [] => name
    | _ => name ++ "." ++ nodeString rest

def compatNat : Compat → Nat := fun c => (Compat.all.findIdx? (· = c)).getD 99

def diffJson (d : Diff) : Json :=
  Json.arr #[Json.str d.loc.url, Json.str d.loc.method, Json.num d.loc.response, Json.str (nodeString d.loc.node),
             Json.num d.code.toNat, Json.num (compatNat d.compat), Json.str d.info]

def outcomeJson (o : Outcome (List Diff)) : List (String × Json) :=
  match o with
  | .ok ds => [("r", Json.str "ok"), ("diffs", Json.arr (ds.map diffJson).toArray)]
  | .panic w => [("r", Json.str "panic"), ("why", Json.str w)]
  | .fuel => [("r", Json.str "fuel")]

/-- a report entry as sent by the harness: {url, method, response, node:[{f,t,a}], code:int, compat:int, info} -/
def entry (j : Json) : Option Diff :=
  match Code.all[nat j "code"]?, Compat.all[nat j "compat"]? with
  | some c, some k =>
    some { loc := { url := str j "url", method := str j "method", response := nat j "response",
                    node := (arr j "node").map (fun n => { field := str n "f", typeName := str n "t", isArray := bool n "a" }) },
           code := c, compat := k, info := str j "info" }
  | _, _ => none

def entryJson (d : Diff) : Json :=
  Json.mkObj [("url", Json.str d.loc.url), ("method", Json.str d.loc.method), ("response", Json.num d.loc.response),
    ("node", Json.arr (d.loc.node.map (fun n => Json.mkObj [("f", Json.str n.field), ("t", Json.str n.typeName), ("a", Json.bool n.isArray)])).toArray),
    ("code", Json.num d.code.toNat), ("compat", Json.num (compatNat d.compat)), ("info", Json.str d.info)]

end Gs.Diff.J
